(* C16 - executable model of the persisted stream-management state of src/conn.c.
   Definitions only; proofs are in Proofs/SmBlobProofs.v.

   What is mirrored (function by function, same branches, same order of effects):
     sm_store_u32, sm_state_serialize, trigger_sm_callback
     sm_load_u32, sm_load_string, xmpp_conn_restore_sm_state (with its err_reload path)
     add_queue_back, pop_queue_front, queue_element_free, xmpp_free_sm_state
     send_raw/_send_raw (user sends), xmpp_conn_send_queue_len, _drop_send_queue_element,
     xmpp_conn_send_queue_drop_element, the send loop of xmpp_run_once, the <a/> and counting branches of
     _conn_sm_handle_stanza, the queue part of _conn_reset / xmpp_conn_release.

   Conventions:
     - queue elements live in an explicit heap (id = index, allocation appends); prev/next/head/tail/userdata
       are ids; touching a freed or unknown id is outcome UAF, freeing twice DoubleFree;
     - conn->sm_state is SmNull | SmLive s | SmDangling (pointer to a freed object);
     - every read of the input buffer goes through a checked primitive (the cursor is the suffix of the
       buffer that `sm->state .. sm->state_end` denotes; reading past its end is outcome OOB);
     - strophe_alloc never fails (XMPP_EMEM paths are not modelled); fresh memory reads as zero (the sm_h
       field of an element made by _send_raw is not initialised in C and is never read before the send loop
       writes it; the model does not track this);
     - pointers are 64 bit: `sm->state + l` does not wrap.
   The constants and the shape of the restore code (`variant`) come from Gen_smblob, which the translator
   re-extracts from the source on every run. *)
Require Import LV.Common.Bytes LV.Gen.Gen_smblob.
Local Open Scope Z_scope.

(* ------------------------------------------------------------------------------------------------ *)
(* outcomes *)

Inductive res (A : Type) : Type :=
| Ok (a : A) | OOB | UAF | DoubleFree | Crash | Fuel.
Arguments Ok {A} a. Arguments OOB {A}. Arguments UAF {A}. Arguments DoubleFree {A}.
Arguments Crash {A}. Arguments Fuel {A}.

Definition bind {A B} (r : res A) (f : A -> res B) : res B :=
  match r with
  | Ok a => f a | OOB => OOB | UAF => UAF | DoubleFree => DoubleFree | Crash => Crash | Fuel => Fuel
  end.
Notation "'do' x <- e ; f" := (bind e (fun x => f)) (at level 200, x pattern, e at level 100, f at level 200).

Definition two32 : Z := 4294967296.
Definition u32 (x : Z) : Z := x mod two32.
(* conversion of a uint32_t to int as gcc does it *)
Definition to_int (x : Z) : Z := if x <? 2147483648 then x else x - two32.

(* ------------------------------------------------------------------------------------------------ *)
(* the code shape the model follows *)

Record variant := mkVariant {
  v_ld_need : Z;          (* N of `(sm->state + N) > sm->state_end` in sm_load_u32 *)
  v_check_first : bool;   (* that test stands before the tag byte is read *)
  v_str_check : bool;     (* sm_load_string tests `(sm->state + l) > sm->state_end` before it copies *)
  v_links_prev : bool;    (* the send-queue loop of restore stores item->prev *)
  v_err_queue : bool;     (* err_reload empties the send queue and zeroes the counters *)
  v_err_null : bool;      (* err_reload clears conn->sm_state *)
  v_trailing : bool;      (* bytes after the last element are refused *)
  v_idnul : bool }.       (* an id with an embedded NUL is refused *)

Definition gen_variant : variant :=
  mkVariant ld_need ld_check_first ld_str_check rst_links_prev rst_err_frees_queue rst_err_clears_sm
            rst_checks_trailing rst_checks_idnul.
Definition fixed_variant : variant := mkVariant 5 true true true true true true true.
(* libstrophe 0.14.0 as released *)
Definition orig_variant : variant := mkVariant 4 false true false false false false false.

(* ------------------------------------------------------------------------------------------------ *)
(* heap of queue elements *)

Record node := mkNode {
  n_data : option (list Z);   (* char *data: the allocated buffer including its terminating NUL; None = NULL *)
  n_len : Z;
  n_written : Z;
  n_wip : bool;
  n_owner : Z;
  n_ud : option nat;          (* void *userdata: only ever NULL or a queue element *)
  n_smh : Z;
  n_prev : option nat;
  n_next : option nat }.

Definition zero_node : node := mkNode None 0 0 false 0 None 0 None None.

Inductive cell := Live (n : node) | Freed.
Definition heap := list cell.

Definition hget (h : heap) (i : nat) : res node :=
  match nth_error h i with Some (Live n) => Ok n | _ => UAF end.

Fixpoint lset {A} (l : list A) (i : nat) (x : A) : list A :=
  match l, i with
  | [], _ => []
  | _ :: r, O => x :: r
  | y :: r, S j => y :: lset r j x
  end.

Definition hupd (h : heap) (i : nat) (f : node -> node) : res heap :=
  do n <- hget h i; Ok (lset h i (Live (f n))).

Definition halloc (h : heap) (n : node) : heap * nat := (h ++ [Live n], length h).

Definition hfree (h : heap) (i : nat) : res heap :=
  match nth_error h i with
  | Some (Live _) => Ok (lset h i Freed)
  | Some Freed => DoubleFree
  | None => UAF
  end.

Definition set_next (x : option nat) (n : node) : node :=
  mkNode (n_data n) (n_len n) (n_written n) (n_wip n) (n_owner n) (n_ud n) (n_smh n) (n_prev n) x.
Definition set_prev (x : option nat) (n : node) : node :=
  mkNode (n_data n) (n_len n) (n_written n) (n_wip n) (n_owner n) (n_ud n) (n_smh n) x (n_next n).
Definition set_data (d : option (list Z)) (l : Z) (n : node) : node :=
  mkNode d l (n_written n) (n_wip n) (n_owner n) (n_ud n) (n_smh n) (n_prev n) (n_next n).
Definition set_owner (o : Z) (n : node) : node :=
  mkNode (n_data n) (n_len n) (n_written n) (n_wip n) o (n_ud n) (n_smh n) (n_prev n) (n_next n).
Definition set_smh (x : Z) (n : node) : node :=
  mkNode (n_data n) (n_len n) (n_written n) (n_wip n) (n_owner n) (n_ud n) x (n_prev n) (n_next n).
Definition set_written (w : Z) (n : node) : node :=
  mkNode (n_data n) (n_len n) w (n_wip n) (n_owner n) (n_ud n) (n_smh n) (n_prev n) (n_next n).
Definition set_wip (w : bool) (n : node) : node :=
  mkNode (n_data n) (n_len n) (n_written n) w (n_owner n) (n_ud n) (n_smh n) (n_prev n) (n_next n).

Definition oeq (a b : option nat) : bool :=
  match a, b with Some x, Some y => Nat.eqb x y | None, None => true | _, _ => false end.

(* ------------------------------------------------------------------------------------------------ *)
(* connection *)

Record smstate := mkSm {
  sm_support : bool; sm_enabled : bool; sm_can_resume : bool; sm_resume : bool; sm_r_sent : bool;
  sm_handled : Z; sm_sent : Z;
  sm_id : option (list Z);          (* char *id: buffer including the terminating NUL *)
  mq_head : option nat; mq_tail : option nat }.

Inductive smptr := SmNull | SmLive (s : smstate) | SmDangling.

Record conn := mkConn {
  c_heap : heap;
  c_state : Z;
  c_neg : bool;                     (* stream_negotiation_completed *)
  c_cb : bool;                      (* an SM callback is installed *)
  c_sm : smptr;
  sq_head : option nat; sq_tail : option nat;
  sq_len : Z; sq_ulen : Z }.

Definition with_heap (c : conn) (h : heap) : conn :=
  mkConn h (c_state c) (c_neg c) (c_cb c) (c_sm c) (sq_head c) (sq_tail c) (sq_len c) (sq_ulen c).
Definition with_sm (c : conn) (s : smptr) : conn :=
  mkConn (c_heap c) (c_state c) (c_neg c) (c_cb c) s (sq_head c) (sq_tail c) (sq_len c) (sq_ulen c).
Definition with_queue (c : conn) (hd tl : option nat) (l ul : Z) : conn :=
  mkConn (c_heap c) (c_state c) (c_neg c) (c_cb c) (c_sm c) hd tl l ul.
Definition with_state (c : conn) (st : Z) (neg : bool) : conn :=
  mkConn (c_heap c) st neg (c_cb c) (c_sm c) (sq_head c) (sq_tail c) (sq_len c) (sq_ulen c).

(* xmpp_conn_new + xmpp_conn_set_sm_callback, as far as this property is concerned *)
Definition fresh_conn : conn := mkConn [] ST_DISCONNECTED false true SmNull None None 0 0.

(* conn->sm_state-> ... *)
Definition deref_sm (c : conn) : res smstate :=
  match c_sm c with SmLive s => Ok s | SmNull => Crash | SmDangling => UAF end.

Definition sm_with_queue (s : smstate) (hd tl : option nat) : smstate :=
  mkSm (sm_support s) (sm_enabled s) (sm_can_resume s) (sm_resume s) (sm_r_sent s) (sm_handled s) (sm_sent s)
       (sm_id s) hd tl.
Definition sm_with_rsent (s : smstate) (b : bool) : smstate :=
  mkSm (sm_support s) (sm_enabled s) (sm_can_resume s) (sm_resume s) b (sm_handled s) (sm_sent s)
       (sm_id s) (mq_head s) (mq_tail s).
Definition sm_with_counters (s : smstate) (handled sent : Z) : smstate :=
  mkSm (sm_support s) (sm_enabled s) (sm_can_resume s) (sm_resume s) (sm_r_sent s) handled sent
       (sm_id s) (mq_head s) (mq_tail s).
Definition sm_with_id (s : smstate) (i : option (list Z)) : smstate :=
  mkSm (sm_support s) (sm_enabled s) (sm_can_resume s) (sm_resume s) (sm_r_sent s) (sm_handled s) (sm_sent s)
       i (mq_head s) (mq_tail s).

(* ------------------------------------------------------------------------------------------------ *)
(* C strings *)

Fixpoint cstr (buf : list Z) : list Z :=          (* bytes before the first NUL *)
  match buf with [] => [] | b :: r => if b =? 0 then [] else b :: cstr r end.
Definition has_nul (buf : list Z) : bool := existsb (Z.eqb 0) buf.
(* strlen: runs off the buffer when there is no NUL *)
Definition c_strlen (buf : list Z) : res Z := if has_nul buf then Ok (zlen (cstr buf)) else OOB.

(* ------------------------------------------------------------------------------------------------ *)
(* walking a queue: while (peek) { ...; peek = peek->next; } *)

Fixpoint walk (h : heap) (p : option nat) (fuel : nat) : res (list node) :=
  match p with
  | None => Ok []
  | Some i =>
    match fuel with
    | O => Fuel
    | S f => do n <- hget h i; do r <- walk h (n_next n) f; Ok (n :: r)
    end
  end.

Definition walk_fuel (h : heap) : nat := S (length h).

(* ------------------------------------------------------------------------------------------------ *)
(* serialiser *)

Definition be32 (v : Z) : list Z :=
  [(v / 16777216) mod 256; (v / 65536) mod 256; (v / 256) mod 256; v mod 256].

Inductive sres :=
| SOk (buf : list (option Z))  (* the buffer handed to the callback; its length is the size handed over *)
| SNull                        (* *buf = NULL, size 0: state cannot be resumed *)
| SBufFull                     (* err_serialize *)
| SOOB | SUAF | SCrash | SFuel.

(* writer: `out` is what lies between *buf and next, `cap` is buf_size (end - *buf) *)
Definition store_u32 (out : list Z) (cap : Z) (ty v : Z) : option (list Z) :=
  if zlen out + store_need >? cap then None else Some (out ++ ty :: be32 (u32 v)).

Definition rdn (buf : list Z) (n : Z) : option (list Z) :=   (* n bytes from the start of buf *)
  if (n <? 0) || (zlen buf <? n) then None else Some (firstn (Z.to_nat n) buf).

Fixpoint ser_sq (out : list Z) (cap : Z) (l : list node) : sres + list Z :=
  match l with
  | [] => inr out
  | n :: r =>
    match store_u32 out cap ser_tag_sqitem (n_len n) with
    | None => inl SBufFull
    | Some out1 =>
      if zlen out1 + n_len n >? cap then inl SBufFull else
      match n_data n with
      | None => if n_len n =? 0 then ser_sq out1 cap r else inl SCrash
      | Some d => match rdn d (n_len n) with None => inl SOOB | Some bs => ser_sq (out1 ++ bs) cap r end
      end
    end
  end.

Fixpoint ser_mq (out : list Z) (cap : Z) (l : list node) : sres + list Z :=
  match l with
  | [] => inr out
  | n :: r =>
    match store_u32 out cap ser_tag_mqh (n_smh n) with
    | None => inl SBufFull
    | Some out0 =>
    match store_u32 out0 cap ser_tag_mqitem (n_len n) with
    | None => inl SBufFull
    | Some out1 =>
      if zlen out1 + n_len n >? cap then inl SBufFull else
      match n_data n with
      | None => if n_len n =? 0 then ser_mq out1 cap r else inl SCrash
      | Some d => match rdn d (n_len n) with None => inl SOOB | Some bs => ser_mq (out1 ++ bs) cap r end
      end
    end
    end
  end.

Definition sum_len (ovh : Z) (l : list node) : Z := fold_right (fun n a => ovh + n_len n + a) 0 l.

Definition res_to_sres {A} (r : res A) : sres :=
  match r with Ok _ => SOk [] | OOB => SOOB | UAF => SUAF | DoubleFree => SUAF | Crash => SCrash | Fuel => SFuel end.

Definition serialize (c : conn) : sres :=
  match deref_sm c with
  | Ok s =>
    if negb (sm_support s) || negb (sm_enabled s) || negb (sm_can_resume s) then SNull else
    match sm_id s with
    | None => SCrash                                   (* strlen(NULL) *)
    | Some idbuf =>
      match c_strlen idbuf with
      | Ok idl =>
        let id_len := u32 idl in
        match walk (c_heap c) (mq_head s) (walk_fuel (c_heap c)) with
        | Ok mq =>
          match walk (c_heap c) (sq_head c) (walk_fuel (c_heap c)) with
          | Ok sq =>
            let cap := ser_fixed + id_len + sum_len ser_sq_item sq + sum_len ser_mq_item mq in
            let out0 := ser_version in                (* memcpy(next, version, 5): unchecked *)
            if zlen out0 >? cap then SOOB else
            match store_u32 out0 cap ser_tag_sent (sm_sent s) with None => SBufFull | Some out1 =>
            match store_u32 out1 cap ser_tag_handled (sm_handled s) with None => SBufFull | Some out2 =>
            match store_u32 out2 cap ser_tag_id id_len with None => SBufFull | Some out3 =>
            match rdn idbuf id_len with None => SOOB | Some idb =>
            if zlen out3 + id_len >? cap then SOOB else (* memcpy(next, id, id_len): unchecked *)
            let out4 := out3 ++ idb in
            match store_u32 out4 cap ser_tag_sqcount (zlen sq) with None => SBufFull | Some out5 =>
            match ser_sq out5 cap sq with inl e => e | inr out6 =>
            match store_u32 out6 cap ser_tag_mqcount (zlen mq) with None => SBufFull | Some out7 =>
            match ser_mq out7 cap mq with inl e => e | inr out8 =>
              SOk (map Some out8 ++ repeat None (Z.to_nat (cap - zlen out8)))
            end end end end end end end end
          | e => res_to_sres e
          end
        | e => res_to_sres e
        end
      | e => res_to_sres e
      end
    end
  | e => res_to_sres e
  end.

(* trigger_sm_callback: what the application's callback is handed, if one is installed *)
Definition trigger (c : conn) : option sres := if c_cb c then Some (serialize c) else None.

(* ------------------------------------------------------------------------------------------------ *)
(* loaders; the cursor is the list of bytes from sm->state to sm->state_end *)

Inductive lres (A : Type) : Type :=
| LOk (a : A) (rest : list Z) | LReject | LOOB.
Arguments LOk {A} a rest. Arguments LReject {A}. Arguments LOOB {A}.

Definition be32_val (b3 b2 b1 b0 : Z) : Z := b3 * 16777216 + b2 * 65536 + b1 * 256 + b0.

(* reads the four bytes after the tag; a short cursor here means the bounds test did not do its work *)
Definition load_word (s : list Z) : lres Z :=
  match s with
  | b3 :: b2 :: b1 :: b0 :: r => LOk (be32_val b3 b2 b1 b0) r
  | _ => LOOB
  end.

Definition load_u32 (v : variant) (s : list Z) (ty : Z) : lres Z :=
  if v_check_first v then
    if zlen s <? v_ld_need v then LReject else
    match s with
    | [] => LOOB                                        (* *sm->state at state_end *)
    | t :: s1 => if negb (t =? ty) then LReject else load_word s1
    end
  else
    match s with
    | [] => LOOB
    | t :: s1 =>
      if negb (t =? ty) then LReject else
      if zlen s1 <? v_ld_need v then LReject else load_word s1
    end.

(* returns the allocated buffer (l bytes and a NUL) and l *)
Definition load_string (v : variant) (s : list Z) : lres (list Z * Z) :=
  match load_u32 v s ld_tag_str with
  | LOk l s1 =>
    if v_str_check v && (l >? zlen s1) then LReject else
    if u32 (l + 1) <? l + 1 then LOOB else            (* strophe_alloc(l + 1) computed in uint32_t *)
    if l >? zlen s1 then LOOB else                    (* the memcpy of l bytes from sm->state runs past state_end *)
    LOk (firstn (Z.to_nat l) s1 ++ [0], l) (skipn (Z.to_nat l) s1)
  | LReject => LReject
  | LOOB => LOOB
  end.

(* ------------------------------------------------------------------------------------------------ *)
(* queue primitives *)

(* add_queue_back(queue, item) *)
Definition add_queue_back (h : heap) (hd tl : option nat) (item : nat)
  : res (heap * option nat * option nat) :=
  do h1 <- hupd h item (set_next None);
  match tl with
  | None => do h2 <- hupd h1 item (set_prev None); Ok (h2, Some item, Some item)
  | Some t =>
    do h2 <- hupd h1 item (set_prev (Some t));
    do h3 <- hupd h2 t (set_next (Some item));
    Ok (h3, hd, Some item)
  end.

(* pop_queue_front(queue) *)
Definition pop_queue_front (h : heap) (hd tl : option nat)
  : res (heap * option nat * option nat * option nat) :=
  match hd with
  | None => Ok (h, None, hd, tl)
  | Some i =>
    do n <- hget h i;
    let hd' := n_next n in
    do r <- match hd' with
            | None => Ok (h, None)
            | Some j => do h1 <- hupd h j (set_prev None); Ok (h1, tl)
            end;
    let '(h1, tl') := r in
    do h2 <- hupd h1 i (fun x => set_next None (set_prev None x));
    Ok (h2, Some i, hd', tl')
  end.

(* queue_element_free(ctx, e): returns e->data *)
Definition queue_element_free (h : heap) (e : nat) : res (heap * option (list Z)) :=
  do n <- hget h e; do h1 <- hfree h e; Ok (h1, n_data n).

(* xmpp_free_sm_state's loop: while ((smq = pop_queue_front(q))) free(queue_element_free(smq)) *)
Fixpoint free_mq (fuel : nat) (h : heap) (hd tl : option nat) : res heap :=
  match fuel with
  | O => Fuel
  | S f =>
    do r <- pop_queue_front h hd tl;
    let '(h1, ret, hd1, tl1) := r in
    match ret with
    | None => Ok h1
    | Some e => do r2 <- queue_element_free h1 e; free_mq f (fst r2) hd1 tl1
    end
  end.

(* xmpp_free_sm_state(conn->sm_state): the pointer itself is left as it was *)
Definition free_sm_state (c : conn) : res conn :=
  match c_sm c with
  | SmNull => Ok c
  | SmDangling => UAF                                  (* reads sm_state->ctx of a freed object *)
  | SmLive s => do h <- free_mq (walk_fuel (c_heap c)) (c_heap c) (mq_head s) (mq_tail s);
                Ok (with_sm (with_heap c h) SmDangling)
  end.

(* the loop shared by _conn_reset and the repaired err_reload: free every element from head on *)
Fixpoint free_sq (fuel : nat) (h : heap) (p : option nat) : res heap :=
  match p with
  | None => Ok h
  | Some i =>
    match fuel with
    | O => Fuel
    | S f => do n <- hget h i; do r <- queue_element_free h i; free_sq f (fst r) (n_next n)
    end
  end.

(* ------------------------------------------------------------------------------------------------ *)
(* xmpp_conn_restore_sm_state *)

Fixpoint list_eqb (a b : list Z) : bool :=
  match a, b with
  | [], [] => true
  | x :: r, y :: q => (x =? y) && list_eqb r q
  | _, _ => false
  end.

(* a failure of one result type seen at another *)
Definition cast_err {A B} (r : res A) : res B :=
  match r with Ok _ => Crash | OOB => OOB | UAF => UAF | DoubleFree => DoubleFree | Crash => Crash | Fuel => Fuel end.

Definition err_reload (v : variant) (c : conn) : res (Z * conn) :=
  do c1 <- (if v_err_queue v then
              do h <- free_sq (walk_fuel (c_heap c)) (c_heap c) (sq_head c);
              Ok (with_queue (with_heap c h) None None 0 0)
            else Ok c);
  do c2 <- free_sm_state c1;
  Ok (EINVOP, if v_err_null v then with_sm c2 SmNull else c2).

(* links a zeroed element to the tail of the send queue as the restore loop does *)
Definition restore_link (v : variant) (c : conn) (item : nat) : res conn :=
  match sq_tail c with
  | None => Ok (with_queue c (Some item) (Some item) (sq_len c) (sq_ulen c))
  | Some t =>
    do h1 <- (if v_links_prev v then hupd (c_heap c) item (set_prev (Some t)) else Ok (c_heap c));
    do h2 <- hupd h1 t (set_next (Some item));
    Ok (with_queue (with_heap c h2) (sq_head c) (Some item) (sq_len c) (sq_ulen c))
  end.

Fixpoint restore_sq (v : variant) (fuel : nat) (i len : Z) (c : conn) (s : list Z)
  : res (Z * conn) + (conn * list Z) :=
  if len <=? i then inr (c, s) else
  match fuel with
  | O => inl Fuel
  | S f =>
    let '(h1, item) := halloc (c_heap c) zero_node in
    match restore_link v (with_heap c h1) item with
    | Ok c1 =>
      match load_string v s with
      | LOk (d, l) s1 =>
        match hupd (c_heap c1) item (fun n => set_owner OWNER_USER (set_data (Some d) l n)) with
        | Ok h2 => restore_sq v f (i + 1) len (with_heap c1 h2) s1
        | e => inl (cast_err e)
        end
      | LReject => inl (err_reload v c1)
      | LOOB => inl OOB
      end
    | e => inl (cast_err e)
    end
  end.

Fixpoint restore_mq (v : variant) (fuel : nat) (i len : Z) (c : conn) (sm : smstate) (s : list Z)
  : res (Z * conn) + (conn * smstate * list Z) :=
  if len <=? i then inr (c, sm, s) else
  match fuel with
  | O => inl Fuel
  | S f =>
    let '(h1, item) := halloc (c_heap c) zero_node in
    match add_queue_back h1 (mq_head sm) (mq_tail sm) item with
    | Ok (h2, hd, tl) =>
      let sm1 := sm_with_queue sm hd tl in
      let c1 := with_sm (with_heap c h2) (SmLive sm1) in
      match load_u32 v s ld_tag_mqh with
      | LOk hv s1 =>
        match hupd h2 item (set_smh hv) with
        | Ok h3 =>
          let c2 := with_heap c1 h3 in
          match load_string v s1 with
          | LOk (d, l) s2 =>
            match hupd h3 item (fun n => set_owner OWNER_USER (set_data (Some d) l n)) with
            | Ok h4 => restore_mq v f (i + 1) len (with_heap c2 h4) sm1 s2
            | e => inl (cast_err e)
            end
          | LReject => inl (err_reload v c2)
          | LOOB => inl OOB
          end
        | e => inl (cast_err e)
        end
      | LReject => inl (err_reload v c1)
      | LOOB => inl OOB
      end
    | e => inl (cast_err e)
    end
  end.

Definition sm_restored0 : smstate := mkSm true true true true false 0 0 None None None.

Definition restore_v (v : variant) (c : conn) (bs : list Z) : res (Z * conn) :=
  if negb (c_state c =? ST_DISCONNECTED) then Ok (EINVOP, c) else
  match c_sm c with
  | SmLive _ | SmDangling => Ok (EINVOP, c)               (* if (conn->sm_state) *)
  | SmNull =>
    if zlen bs <? blob_min_len then Ok (EINVOP, c) else
    match rdn bs (zlen ld_version) with                   (* memcmp(sm.state, version, 5) *)
    | None => OOB
    | Some pre =>
      if negb (list_eqb pre ld_version) then Ok (EINVOP, c) else
      if zlen bs <? ld_skip then OOB else                 (* sm.state += 5 *)
      let s0 := skipn (Z.to_nat ld_skip) bs in
      let fuel := S (length bs) in
      let sm0 := sm_restored0 in
      let c0 := with_sm c (SmLive sm0) in
      match load_u32 v s0 ld_tag_sent with
      | LOOB => OOB | LReject => err_reload v c0
      | LOk sent s1 =>
        let sm1 := sm_with_counters sm0 0 sent in
        let c1 := with_sm c (SmLive sm1) in
        match load_u32 v s1 ld_tag_handled with
        | LOOB => OOB | LReject => err_reload v c1
        | LOk handled s2 =>
          let sm2 := sm_with_counters sm1 handled sent in
          let c2 := with_sm c (SmLive sm2) in
          match load_string v s2 with
          | LOOB => OOB | LReject => err_reload v c2
          | LOk (idbuf, idl) s3 =>
            let sm3 := sm_with_id sm2 (Some idbuf) in
            let c3 := with_sm c (SmLive sm3) in
            if v_idnul v && negb (zlen (cstr idbuf) =? idl) then err_reload v c3 else
            match load_u32 v s3 ld_tag_sqcount with
            | LOOB => OOB | LReject => err_reload v c3
            | LOk n s4 =>
              let c4 := with_queue c3 (sq_head c3) (sq_tail c3) (to_int n) (to_int n) in
              match restore_sq v fuel 0 n c4 s4 with
              | inl r => r
              | inr (c5, s5) =>
                match load_u32 v s5 ld_tag_mqcount with
                | LOOB => OOB | LReject => err_reload v c5
                | LOk m s6 =>
                  match restore_mq v fuel 0 m c5 sm3 s6 with
                  | inl r => r
                  | inr (c6, _, s7) =>
                    if v_trailing v && negb (zlen s7 =? 0) then err_reload v c6 else Ok (0, c6)
                  end
                end
              end
            end
          end
        end
      end
    end
  end.

Definition restore : conn -> list Z -> res (Z * conn) := restore_v gen_variant.

(* ------------------------------------------------------------------------------------------------ *)
(* sending: xmpp_send_raw / xmpp_send_raw_string -> send_raw -> _send_raw *)

Definition bit_sm (o : Z) : bool := (o / OWNER_SM) mod 2 =? 1.       (* o & XMPP_QUEUE_SM *)
Definition bit_user (o : Z) : bool := (o / OWNER_USER) mod 2 =? 1.   (* o & XMPP_QUEUE_USER *)
Definition OWNER_SM_STROPHE : Z := OWNER_SM + OWNER_STROPHE.

(* strophe_strndup(ctx, s, len) of a NUL-terminated s whose bytes before the terminator are `text` *)
Definition strndup (text : list Z) (len : Z) : list Z :=
  firstn (Z.to_nat (Z.min (zlen (cstr text)) len)) text ++ [0].

(* the part of _send_raw that creates and links the element *)
Definition enqueue (c : conn) (data : list Z) (len owner : Z) (ud : option nat) : res (conn * nat) :=
  let nd := mkNode (Some data) len 0 false owner ud 0 (sq_tail c) None in
  let '(h1, item) := halloc (c_heap c) nd in
  do h2 <- match sq_tail c with None => Ok h1 | Some t => hupd h1 t (set_next (Some item)) end;
  let hd := match sq_tail c with None => Some item | Some _ => sq_head c end in
  Ok (with_queue (with_heap c h2) hd (Some item) (sq_len c + 1)
                 (if owner =? OWNER_USER then sq_ulen c + 1 else sq_ulen c), item).

(* send_raw(conn, text, len, XMPP_QUEUE_USER, NULL) *)
Definition send_user (c : conn) (text : list Z) (len : Z) : res (conn * option sres) :=
  if negb (c_state c =? ST_CONNECTED) then Ok (c, None) else
  do r <- enqueue c (strndup text len) len OWNER_USER None;
  let '(c1, item) := r in
  do s <- deref_sm c1;
  if negb (bit_sm OWNER_USER) && sm_enabled s && negb (sm_r_sent s) then
    let c2 := with_sm c1 (SmLive (sm_with_rsent s true)) in
    (* send_raw(conn, req_ack, strlen(req_ack), XMPP_QUEUE_SM_STROPHE, item) *)
    if negb (c_state c2 =? ST_CONNECTED) then Ok (c2, None) else
    do r2 <- enqueue c2 (strndup req_ack (zlen req_ack)) (zlen req_ack) OWNER_SM_STROPHE (Some item);
    Ok (fst r2, trigger (fst r2))
  else Ok (c1, trigger c1).

(* xmpp_send_raw_string(conn, "%s", text): _is_connected(conn, XMPP_QUEUE_USER) first *)
Definition send_user_str (c : conn) (text : list Z) : res (conn * option sres) :=
  if negb ((c_state c =? ST_CONNECTED) && c_neg c) then Ok (c, None)
  else send_user c (cstr text) (zlen (cstr text)).

(* ------------------------------------------------------------------------------------------------ *)
(* xmpp_conn_send_queue_len *)

Definition qlen (c : conn) : res Z :=
  match sq_head c with
  | None => Ok (sq_ulen c)
  | Some hd =>
    do n <- hget (c_heap c) hd;
    if n_wip n && (n_owner n =? OWNER_USER) then Ok (sq_ulen c - 1) else Ok (sq_ulen c)
  end.

(* ------------------------------------------------------------------------------------------------ *)
(* _drop_send_queue_element / xmpp_conn_send_queue_drop_element *)

Definition drop_elem (c : conn) (e : nat) : res (conn * option (list Z)) :=
  do n <- hget (c_heap c) e;
  let hd1 := if oeq (Some e) (sq_head c) then n_next n else sq_head c in
  let tl1 := if oeq (Some e) (sq_tail c) then n_prev n else sq_tail c in
  let tl2 := match hd1 with None => None | Some _ => tl1 end in
  do h1 <- match n_prev n with Some p => hupd (c_heap c) p (set_next (n_next n)) | None => Ok (c_heap c) end;
  do n1 <- hget h1 e;
  do h2 <- match n_next n1 with Some x => hupd h1 x (set_prev (n_prev n1)) | None => Ok h1 end;
  do n2 <- hget h2 e;
  let l := sq_len c - 1 in
  let ul := if n_owner n2 =? OWNER_USER then sq_ulen c - 1 else sq_ulen c in
  do r <- queue_element_free h2 e;
  Ok (with_queue (with_heap c (fst r)) hd1 tl2 l ul, snd r).

(* while (t && t->owner != XMPP_QUEUE_USER) t = t->prev;   (dir = false)   / t = t->next; (dir = true) *)
Fixpoint find_user (fuel : nat) (h : heap) (dir : bool) (t : option nat) : res (option nat) :=
  match t with
  | None => Ok None
  | Some i =>
    match fuel with
    | O => Fuel
    | S f =>
      do n <- hget h i;
      if n_owner n =? OWNER_USER then Ok (Some i)
      else find_user f h dir (if dir then n_next n else n_prev n)
    end
  end.

Definition Q_OLDEST : Z := -1.
Definition Q_YOUNGEST : Z := -2.

Definition drop (c : conn) (which : Z) : res (conn * option (list Z) * option sres) :=
  let h := c_heap c in
  let disc := c_state c =? ST_DISCONNECTED in
  let nothing := Ok (c, None, None) in
  match sq_head c with
  | None => nothing
  | Some hd =>
    do early <- (if oeq (sq_head c) (sq_tail c)
                 then do hn <- hget h hd; Ok ((n_wip hn && negb disc) || negb (n_owner hn =? OWNER_USER))
                 else Ok false);
    if early then nothing else
    do t0 <- (if which =? Q_OLDEST then Ok (Some hd)
              else if which =? Q_YOUNGEST then find_user (walk_fuel h) h false (sq_tail c)
              else Ok None);
    match t0 with
    | None => nothing
    | Some t =>
      do t1 <- (if oeq (Some t) (sq_head c)
                then do tn <- hget h t; Ok (if n_wip tn && negb disc then n_next tn else Some t)
                else Ok (Some t));
      do t2 <- find_user (walk_fuel h) h true t1;
      match t2 with
      | None => nothing
      | Some t =>
        do tn <- hget h t;
        do c1 <- match n_next tn with
                 | None => Ok c
                 | Some x =>
                   do xn <- hget h x;
                   if oeq (n_ud xn) (Some t) then
                     do r <- drop_elem c x;
                     do s <- deref_sm (fst r);
                     Ok (with_sm (fst r) (SmLive (sm_with_rsent s false)))
                   else Ok c
                 end;
        do r <- drop_elem c1 t;
        Ok (fst r, snd r, trigger (fst r))
      end
    end
  end.

(* ------------------------------------------------------------------------------------------------ *)
(* the send loop at the top of xmpp_run_once; `sched` scripts the transport: one entry per write call =
   the number of bytes it accepts (negative: recoverable error, -1 returned; exhausted: 0) *)

Inductive wev := WBytes (l : list Z) | WZero | WErr.

Fixpoint send_loop (fuel : nat) (c : conn) (sq : option nat) (sched : list Z) (wire : list wev)
         (cb : option sres) : res (conn * list wev * option sres) :=
  match sq with
  | None => Ok (c, wire, cb)
  | Some i =>
    match fuel with
    | O => Fuel
    | S f =>
      do n <- hget (c_heap c) i;
      let towrite := n_len n - n_written n in
      let '(v, sched1) := match sched with [] => (0, []) | x :: r => (x, r) end in
      do wr <- (if v <? 0 then Ok (-1, WErr)
                else let k := Z.min v towrite in
                     if k <=? 0 then Ok (k, WZero)
                     else match n_data n with
                          | None => Crash
                          | Some d => match rdn (skipn (Z.to_nat (n_written n)) d) k with
                                      | None => OOB
                                      | Some bs => Ok (k, WBytes bs)
                                      end
                          end);
      let '(ret, ev) := wr in
      let n1 := if (0 <? ret) && (ret <? towrite) then set_written (n_written n + ret) n else n in
      let n2 := set_wip true n1 in
      let h1 := lset (c_heap c) i (Live n2) in
      if negb (ret =? towrite) then Ok (with_heap c h1, wire ++ [ev], cb) else
      let sq1 := n_next n2 in
      let l := sq_len c - 1 in
      let ul := if bit_user (n_owner n2) then sq_ulen c - 1 else sq_ulen c in
      do r <- (if bit_sm (n_owner n2) then
                 do h2 <- hfree h1 i; Ok (h2, c_sm c)
               else
                 do s <- deref_sm c;
                 if sm_enabled s then
                   do h2 <- hupd h1 i (set_smh (sm_sent s));
                   do q <- add_queue_back h2 (mq_head s) (mq_tail s) i;
                   let '(h3, hd, tl) := q in
                   Ok (h3, SmLive (sm_with_queue (sm_with_counters s (sm_handled s) (u32 (sm_sent s + 1))) hd tl))
                 else
                   do h2 <- hfree h1 i; Ok (h2, c_sm c));
      let '(h2, smp) := r in
      let tl := match sq1 with None => None | Some _ => sq_tail c end in
      do h3 <- match sq1 with
               | Some j => if loop_clears_prev then hupd h2 j (set_prev None) else Ok h2   (* else sq->prev = NULL; *)
               | None => Ok h2
               end;
      let c1 := mkConn h3 (c_state c) (c_neg c) (c_cb c) smp sq1 tl l ul in
      send_loop f c1 sq1 sched1 (wire ++ [ev]) (match trigger c1 with Some b => Some b | None => cb end)
    end
  end.

Definition run_once (c : conn) (sched : list Z) : res (conn * list wev * option sres) :=
  if negb (c_state c =? ST_CONNECTED) then Ok (c, [], None)
  else send_loop (walk_fuel (c_heap c)) c (sq_head c) sched [] None.

(* ------------------------------------------------------------------------------------------------ *)
(* inbound stanzas: _handle_stream_stanza -> _conn_sm_handle_stanza *)

Fixpoint ack_loop (fuel : nat) (h : heap) (hd tl : option nat) (hval : Z)
  : res (heap * option nat * option nat) :=
  match hd with
  | None => Ok (h, hd, tl)
  | Some i =>
    match fuel with
    | O => Fuel
    | S f =>
      do n <- hget h i;
      if n_smh n <? hval then
        do r <- pop_queue_front h hd tl;
        let '(h1, ret, hd1, tl1) := r in
        match ret with
        | None => Ok (h1, hd1, tl1)
        | Some e => do r2 <- queue_element_free h1 e; ack_loop f (fst r2) hd1 tl1 hval
        end
      else Ok (h, hd, tl)
    end
  end.

(* <a xmlns='urn:xmpp:sm:3' h='hval'/> *)
Definition ack (c : conn) (hval : Z) : res (conn * option sres) :=
  do s <- deref_sm c;
  if negb (sm_enabled s) then Ok (c, None) else
  do r <- ack_loop (walk_fuel (c_heap c)) (c_heap c) (mq_head s) (mq_tail s) hval;
  let '(h1, hd, tl) := r in
  let c1 := with_sm (with_heap c h1) (SmLive (sm_with_rsent (sm_with_queue s hd tl) false)) in
  Ok (c1, trigger c1).

(* any stanza outside the SM namespace *)
Definition incoming (c : conn) : res (conn * option sres) :=
  do s <- deref_sm c;
  if negb (sm_enabled s) then Ok (c, None) else
  let c1 := with_sm c (SmLive (sm_with_counters s (u32 (sm_handled s + 1)) (sm_sent s))) in
  Ok (c1, trigger c1).

(* ------------------------------------------------------------------------------------------------ *)
(* what the drivers do around the library *)

Definition sm_zero : smstate := mkSm false false false false false 0 0 None None None.

(* "connect": xmpp_connect_client allocates a zeroed sm_state when the pointer is NULL; then the state the
   negotiation would reach *)
Definition op_connect (c : conn) : conn :=
  let c1 := match c_sm c with SmNull => with_sm c (SmLive sm_zero) | _ => c end in
  with_state c1 ST_CONNECTED true.
Definition op_disconnect (c : conn) : conn := with_state c ST_DISCONNECTED false.

(* xmpp_conn_release of a disconnected connection: _conn_reset's queue loop, then xmpp_free_sm_state *)
Definition release (c : conn) : res heap :=
  do h <- free_sq (walk_fuel (c_heap c)) (c_heap c) (sq_head c);
  let c1 := with_queue (with_heap c h) None None 0 0 in
  match c_sm c1 with
  | SmNull => Ok h
  | _ => do c2 <- free_sm_state c1; Ok (c_heap c2)
  end.

Definition live_count (h : heap) : Z :=
  zlen (filter (fun x => match x with Live _ => true | Freed => false end) h).

(* ------------------------------------------------------------------------------------------------ *)
(* a connection whose queues are built natively: SM state injected, the unsent texts submitted with
   xmpp_send_raw while connected (r_sent held at 1 so that no <r/> is interleaved), the unacknowledged ones
   appended with add_queue_back as the send loop does *)

Definition strdup (s : list Z) : list Z := cstr s ++ [0].

Fixpoint native_sends (c : conn) (l : list (list Z)) : res conn :=
  match l with
  | [] => Ok c
  | t :: r => do x <- send_user c t (zlen t); native_sends (fst x) r
  end.

Fixpoint native_acked (c : conn) (s : smstate) (l : list (Z * list Z)) : res (conn * smstate) :=
  match l with
  | [] => Ok (c, s)
  | (hv, t) :: r =>
    let nd := mkNode (Some (t ++ [0])) (zlen t) 0 false OWNER_USER None hv None None in
    let '(h1, item) := halloc (c_heap c) nd in
    do q <- add_queue_back h1 (mq_head s) (mq_tail s) item;
    let '(h2, hd, tl) := q in
    let s1 := sm_with_queue s hd tl in
    native_acked (with_sm (with_heap c h2) (SmLive s1)) s1 r
  end.

Definition native (sent handled : Z) (id : list Z) (unsent : list (list Z)) (unacked : list (Z * list Z))
  : res conn :=
  let s0 := mkSm true true true true true handled sent (Some (strdup id)) None None in
  let c0 := mkConn [] ST_CONNECTED true true (SmLive s0) None None 0 0 in
  do c1 <- native_sends c0 unsent;
  do s1 <- deref_sm c1;
  do r <- native_acked c1 s1 unacked;
  let '(c2, s2) := r in
  Ok (with_state (with_sm c2 (SmLive (sm_with_rsent s2 false))) ST_DISCONNECTED false).

(* the source connection of a round-trip scenario before its own operations *)
Definition source_conn (sent handled : Z) (id : list Z) : conn :=
  mkConn [] ST_CONNECTED true true
         (SmLive (mkSm true true true false false handled sent (Some (strdup id)) None None)) None None 0 0.

(* ------------------------------------------------------------------------------------------------ *)
(* operation sequences *)

Inductive op :=
| OpSend (text : list Z)            (* xmpp_send_raw(conn, text, length) *)
| OpSendStr (text : list Z)         (* xmpp_send_raw_string(conn, "%s", text) *)
| OpRun (sched : list Z)            (* xmpp_run_once with this write schedule *)
| OpDrop (which : Z)                (* xmpp_conn_send_queue_drop_element *)
| OpQlen
| OpAck (h : Z)
| OpIncoming
| OpConnect
| OpDisconnect.

Inductive obs :=
| ObSend (cb : option sres)
| ObRun (wire : list wev) (cb : option sres)
| ObDrop (text : option (list Z)) (cb : option sres)     (* the returned C string *)
| ObQlen (n : Z)
| ObStanza (cb : option sres)
| ObNone.

Definition step (c : conn) (o : op) : res (conn * obs) :=
  match o with
  | OpSend t => do r <- send_user c t (zlen t); Ok (fst r, ObSend (snd r))
  | OpSendStr t => do r <- send_user_str c t; Ok (fst r, ObSend (snd r))
  | OpRun sched => do r <- run_once c sched; let '(c1, w, cb) := r in Ok (c1, ObRun w cb)
  | OpDrop which => do r <- drop c which; let '(c1, d, cb) := r in
                    Ok (c1, ObDrop (match d with Some b => Some (cstr b) | None => None end) cb)
  | OpQlen => do n <- qlen c; Ok (c, ObQlen n)
  | OpAck hv => do r <- ack c hv; Ok (fst r, ObStanza (snd r))
  | OpIncoming => do r <- incoming c; Ok (fst r, ObStanza (snd r))
  | OpConnect => Ok (op_connect c, ObNone)
  | OpDisconnect => Ok (op_disconnect c, ObNone)
  end.

(* observations up to the first abnormal outcome, and the final state *)
Fixpoint run (ops : list op) (c : conn) : list obs * res conn :=
  match ops with
  | [] => ([], Ok c)
  | o :: r =>
    match step c o with
    | Ok (c1, ob) => let '(obs1, fin) := run r c1 in (ob :: obs1, fin)
    | e => ([], cast_err e)
    end
  end.

(* ------------------------------------------------------------------------------------------------ *)
(* the abstract content of a connection (what the property talks about) *)

Definition text_of (n : node) : res (list Z) :=
  match n_data n with
  | None => if n_len n =? 0 then Ok [] else Crash
  | Some d => match rdn d (n_len n) with Some t => Ok t | None => OOB end
  end.

Fixpoint texts_of (l : list node) : res (list (list Z)) :=
  match l with [] => Ok [] | n :: r => do t <- text_of n; do ts <- texts_of r; Ok (t :: ts) end.

Fixpoint htexts_of (l : list node) : res (list (Z * list Z)) :=
  match l with [] => Ok [] | n :: r => do t <- text_of n; do ts <- htexts_of r; Ok ((n_smh n, t) :: ts) end.

(* (sent, handled, id, unsent texts, unacknowledged (h, text)) *)
Definition abs_conn (c : conn) : res (Z * Z * list Z * list (list Z) * list (Z * list Z)) :=
  do s <- deref_sm c;
  match sm_id s with
  | None => Crash
  | Some idbuf =>
    do sq <- walk (c_heap c) (sq_head c) (walk_fuel (c_heap c));
    do mq <- walk (c_heap c) (mq_head s) (walk_fuel (c_heap c));
    do us <- texts_of sq;
    do ua <- htexts_of mq;
    Ok (sm_sent s, sm_handled s, cstr idbuf, us, ua)
  end.

(* ------------------------------------------------------------------------------------------------ *)
(* well-formed doubly linked queue: from `first` (whose prev is `pv`) via next through exactly the ids `l`,
   each element's prev being its predecessor; `last` is the final id *)

Fixpoint dllb (h : heap) (pv : option nat) (first : option nat) (l : list nat) : option (option nat) :=
  match l with
  | [] => match first with None => Some pv | Some _ => None end
  | i :: r =>
    match first with
    | Some j =>
      if Nat.eqb i j then
        match nth_error h i with
        | Some (Live n) => if oeq (n_prev n) pv then dllb h (Some i) (n_next n) r else None
        | _ => None
        end
      else None
    | None => None
    end
  end.

(* head/tail/prev/next consistent: the forward walk from head visits l, every prev link is right, the walk
   ends at tail, head->prev and tail->next are NULL, no element occurs twice *)
Definition wf_queue (h : heap) (hd tl : option nat) (l : list nat) : Prop :=
  dllb h None hd l = Some tl /\ NoDup l.
