(* Executable model of libstrophe's XEP-0198 stream-management bookkeeping (definitions only, no proofs).

   Mirrors, with the fixes fixes/C04-1..4.patch and fixes/C05-1.patch applied (they are in /repo by now):
     src/event.c  xmpp_run_once, send phase (write loop, numbering sm_h = sm_sent_nr++, move to the SM queue)
     src/conn.c   _send_raw / send_raw / send_stanza (queueing, the <r/> piggy-back, r_sent), _conn_sm_handle_stanza
                  (<r/>, <a h>, inbound count), _handle_stream_stanza, _handle_stream_end, conn_disconnect,
                  _reset_sm_state_for_reconnect, reset_sm_state, _conn_reset (at connect), sm_state_serialize
                  (what the SM callback observes), xmpp_disconnect
     src/auth.c   _handle_features_sasl (resume-or-bind), _do_bind, _handle_bind, _sm_enable, _handle_sm
                  (enabled / resumed / failed / anything else + the error tail), _sm_queue_cleanup,
                  _sm_queue_resend, _stream_negotiation_success

   What is abstracted: everything before the post-authentication <stream:features/> (TCP connect, TLS, SASL,
   stream restarts) is the single step `do_connect`; an inbound top-level element is an `initem` (the parser and
   the handler filters are C10/C11's subject); user stanza handlers, timed handlers (the virtual clock never
   moves), the session-establishment iq, the `sm_disable` flag and stream features without <bind/> are not used.
   The application's connection handler is the script `on_connect`: on XMPP_CONN_CONNECT it submits these stanzas
   (simworld: `onconnect send:..`), at exactly the point where _stream_negotiation_success calls it.
   Byte strings are `list Z`; the 32-bit counters are reduced with `w32` exactly where the C wraps.

   Every element that enters the send queue carries a ghost id (`q_gid`, allocated from `next_gid`; a stanza
   keeps its id when it is re-queued by _sm_queue_resend).  The step functions also emit ghost marks (`OG _`)
   at the protocol points; marks and ghost ids never influence the state.  Spec/SmSpec.v folds the marks into
   the ghost server. *)
Require Import LV.Common.Bytes.
From Coq Require Import String Ascii.
Local Open Scope Z_scope.

Definition W32 : Z := 4294967296.
Definition w32 (x : Z) : Z := x mod W32.

(* ---------------------------------------------------------------- texts *)
Definition str (s : string) : list Z := map (fun a => Z.of_nat (nat_of_ascii a)) (list_ascii_of_string s).

(* "%u" *)
Fixpoint dec_digits (fuel : nat) (n : Z) (acc : list Z) : list Z :=
  match fuel with
  | O => acc
  | S f => let acc' := (48 + n mod 10) :: acc in
           if n / 10 =? 0 then acc' else dec_digits f (n / 10) acc'
  end.
Definition dec (n : Z) : list Z := dec_digits 20 n [].

Definition R_TEXT : list Z := str "<r xmlns='urn:xmpp:sm:3'/>".
Definition a_text (h : Z) : list Z := str "<a h=""" ++ dec h ++ str """ xmlns=""urn:xmpp:sm:3""/>".
Definition resume_text (previd : list Z) (h : Z) : list Z :=
  str "<resume h=""" ++ dec h ++ str """ previd=""" ++ previd ++ str """ xmlns=""urn:xmpp:sm:3""/>".
Definition enable_text (req_resume : bool) : list Z :=
  if req_resume then str "<enable xmlns=""urn:xmpp:sm:3"" resume=""true""/>" else str "<enable xmlns=""urn:xmpp:sm:3""/>".
Definition END_TEXT : list Z := str "</stream:stream>".

(* ---------------------------------------------------------------- queues *)
Inductive owner := OUser | OLib | OSm.        (* XMPP_QUEUE_USER, XMPP_QUEUE_STROPHE, XMPP_QUEUE_SM_STROPHE *)
Definition countable (o : owner) : bool := match o with OSm => false | _ => true end.   (* !(owner & XMPP_QUEUE_SM) *)
Definition is_user (o : owner) : bool := match o with OUser => true | _ => false end.

Record sqe := mk_sqe { q_gid : Z; q_owner : owner; q_text : list Z; q_written : Z; q_resend : bool }.
Record sme := mk_sme { s_gid : Z; s_h : Z; s_owner : owner; s_text : list Z }.

Record state := mk_state {
  connected : bool;
  neg_done : bool;
  h_feat : bool;
  h_bind : bool;
  h_sm : bool;
  sm_enabled : bool;
  sm_support : bool;
  can_resume : bool;
  resume : bool;
  dont_req : bool;
  r_sent : bool;
  sent_nr : Z;
  handled_nr : Z;
  sq : list sqe;
  smq : list sme;
  sm_id : option (list Z);
  previd : option (list Z);
  bound : bool;
  sm_bound : bool;
  bind_saved : bool;
  next_gid : Z;
  nconn : Z;
  on_connect : list (list Z)
}.

Definition set_connected (s : state) (v : bool) : state :=
  mk_state v (neg_done s) (h_feat s) (h_bind s) (h_sm s) (sm_enabled s) (sm_support s) (can_resume s) (resume s) (dont_req s) (r_sent s) (sent_nr s) (handled_nr s) (sq s) (smq s) (sm_id s) (previd s) (bound s) (sm_bound s) (bind_saved s) (next_gid s) (nconn s) (on_connect s).
Definition set_neg_done (s : state) (v : bool) : state :=
  mk_state (connected s) v (h_feat s) (h_bind s) (h_sm s) (sm_enabled s) (sm_support s) (can_resume s) (resume s) (dont_req s) (r_sent s) (sent_nr s) (handled_nr s) (sq s) (smq s) (sm_id s) (previd s) (bound s) (sm_bound s) (bind_saved s) (next_gid s) (nconn s) (on_connect s).
Definition set_h_feat (s : state) (v : bool) : state :=
  mk_state (connected s) (neg_done s) v (h_bind s) (h_sm s) (sm_enabled s) (sm_support s) (can_resume s) (resume s) (dont_req s) (r_sent s) (sent_nr s) (handled_nr s) (sq s) (smq s) (sm_id s) (previd s) (bound s) (sm_bound s) (bind_saved s) (next_gid s) (nconn s) (on_connect s).
Definition set_h_bind (s : state) (v : bool) : state :=
  mk_state (connected s) (neg_done s) (h_feat s) v (h_sm s) (sm_enabled s) (sm_support s) (can_resume s) (resume s) (dont_req s) (r_sent s) (sent_nr s) (handled_nr s) (sq s) (smq s) (sm_id s) (previd s) (bound s) (sm_bound s) (bind_saved s) (next_gid s) (nconn s) (on_connect s).
Definition set_h_sm (s : state) (v : bool) : state :=
  mk_state (connected s) (neg_done s) (h_feat s) (h_bind s) v (sm_enabled s) (sm_support s) (can_resume s) (resume s) (dont_req s) (r_sent s) (sent_nr s) (handled_nr s) (sq s) (smq s) (sm_id s) (previd s) (bound s) (sm_bound s) (bind_saved s) (next_gid s) (nconn s) (on_connect s).
Definition set_sm_enabled (s : state) (v : bool) : state :=
  mk_state (connected s) (neg_done s) (h_feat s) (h_bind s) (h_sm s) v (sm_support s) (can_resume s) (resume s) (dont_req s) (r_sent s) (sent_nr s) (handled_nr s) (sq s) (smq s) (sm_id s) (previd s) (bound s) (sm_bound s) (bind_saved s) (next_gid s) (nconn s) (on_connect s).
Definition set_sm_support (s : state) (v : bool) : state :=
  mk_state (connected s) (neg_done s) (h_feat s) (h_bind s) (h_sm s) (sm_enabled s) v (can_resume s) (resume s) (dont_req s) (r_sent s) (sent_nr s) (handled_nr s) (sq s) (smq s) (sm_id s) (previd s) (bound s) (sm_bound s) (bind_saved s) (next_gid s) (nconn s) (on_connect s).
Definition set_can_resume (s : state) (v : bool) : state :=
  mk_state (connected s) (neg_done s) (h_feat s) (h_bind s) (h_sm s) (sm_enabled s) (sm_support s) v (resume s) (dont_req s) (r_sent s) (sent_nr s) (handled_nr s) (sq s) (smq s) (sm_id s) (previd s) (bound s) (sm_bound s) (bind_saved s) (next_gid s) (nconn s) (on_connect s).
Definition set_resume (s : state) (v : bool) : state :=
  mk_state (connected s) (neg_done s) (h_feat s) (h_bind s) (h_sm s) (sm_enabled s) (sm_support s) (can_resume s) v (dont_req s) (r_sent s) (sent_nr s) (handled_nr s) (sq s) (smq s) (sm_id s) (previd s) (bound s) (sm_bound s) (bind_saved s) (next_gid s) (nconn s) (on_connect s).
Definition set_dont_req (s : state) (v : bool) : state :=
  mk_state (connected s) (neg_done s) (h_feat s) (h_bind s) (h_sm s) (sm_enabled s) (sm_support s) (can_resume s) (resume s) v (r_sent s) (sent_nr s) (handled_nr s) (sq s) (smq s) (sm_id s) (previd s) (bound s) (sm_bound s) (bind_saved s) (next_gid s) (nconn s) (on_connect s).
Definition set_r_sent (s : state) (v : bool) : state :=
  mk_state (connected s) (neg_done s) (h_feat s) (h_bind s) (h_sm s) (sm_enabled s) (sm_support s) (can_resume s) (resume s) (dont_req s) v (sent_nr s) (handled_nr s) (sq s) (smq s) (sm_id s) (previd s) (bound s) (sm_bound s) (bind_saved s) (next_gid s) (nconn s) (on_connect s).
Definition set_sent_nr (s : state) (v : Z) : state :=
  mk_state (connected s) (neg_done s) (h_feat s) (h_bind s) (h_sm s) (sm_enabled s) (sm_support s) (can_resume s) (resume s) (dont_req s) (r_sent s) v (handled_nr s) (sq s) (smq s) (sm_id s) (previd s) (bound s) (sm_bound s) (bind_saved s) (next_gid s) (nconn s) (on_connect s).
Definition set_handled_nr (s : state) (v : Z) : state :=
  mk_state (connected s) (neg_done s) (h_feat s) (h_bind s) (h_sm s) (sm_enabled s) (sm_support s) (can_resume s) (resume s) (dont_req s) (r_sent s) (sent_nr s) v (sq s) (smq s) (sm_id s) (previd s) (bound s) (sm_bound s) (bind_saved s) (next_gid s) (nconn s) (on_connect s).
Definition set_sq (s : state) (v : list sqe) : state :=
  mk_state (connected s) (neg_done s) (h_feat s) (h_bind s) (h_sm s) (sm_enabled s) (sm_support s) (can_resume s) (resume s) (dont_req s) (r_sent s) (sent_nr s) (handled_nr s) v (smq s) (sm_id s) (previd s) (bound s) (sm_bound s) (bind_saved s) (next_gid s) (nconn s) (on_connect s).
Definition set_smq (s : state) (v : list sme) : state :=
  mk_state (connected s) (neg_done s) (h_feat s) (h_bind s) (h_sm s) (sm_enabled s) (sm_support s) (can_resume s) (resume s) (dont_req s) (r_sent s) (sent_nr s) (handled_nr s) (sq s) v (sm_id s) (previd s) (bound s) (sm_bound s) (bind_saved s) (next_gid s) (nconn s) (on_connect s).
Definition set_sm_id (s : state) (v : option (list Z)) : state :=
  mk_state (connected s) (neg_done s) (h_feat s) (h_bind s) (h_sm s) (sm_enabled s) (sm_support s) (can_resume s) (resume s) (dont_req s) (r_sent s) (sent_nr s) (handled_nr s) (sq s) (smq s) v (previd s) (bound s) (sm_bound s) (bind_saved s) (next_gid s) (nconn s) (on_connect s).
Definition set_previd (s : state) (v : option (list Z)) : state :=
  mk_state (connected s) (neg_done s) (h_feat s) (h_bind s) (h_sm s) (sm_enabled s) (sm_support s) (can_resume s) (resume s) (dont_req s) (r_sent s) (sent_nr s) (handled_nr s) (sq s) (smq s) (sm_id s) v (bound s) (sm_bound s) (bind_saved s) (next_gid s) (nconn s) (on_connect s).
Definition set_bound (s : state) (v : bool) : state :=
  mk_state (connected s) (neg_done s) (h_feat s) (h_bind s) (h_sm s) (sm_enabled s) (sm_support s) (can_resume s) (resume s) (dont_req s) (r_sent s) (sent_nr s) (handled_nr s) (sq s) (smq s) (sm_id s) (previd s) v (sm_bound s) (bind_saved s) (next_gid s) (nconn s) (on_connect s).
Definition set_sm_bound (s : state) (v : bool) : state :=
  mk_state (connected s) (neg_done s) (h_feat s) (h_bind s) (h_sm s) (sm_enabled s) (sm_support s) (can_resume s) (resume s) (dont_req s) (r_sent s) (sent_nr s) (handled_nr s) (sq s) (smq s) (sm_id s) (previd s) (bound s) v (bind_saved s) (next_gid s) (nconn s) (on_connect s).
Definition set_bind_saved (s : state) (v : bool) : state :=
  mk_state (connected s) (neg_done s) (h_feat s) (h_bind s) (h_sm s) (sm_enabled s) (sm_support s) (can_resume s) (resume s) (dont_req s) (r_sent s) (sent_nr s) (handled_nr s) (sq s) (smq s) (sm_id s) (previd s) (bound s) (sm_bound s) v (next_gid s) (nconn s) (on_connect s).
Definition set_next_gid (s : state) (v : Z) : state :=
  mk_state (connected s) (neg_done s) (h_feat s) (h_bind s) (h_sm s) (sm_enabled s) (sm_support s) (can_resume s) (resume s) (dont_req s) (r_sent s) (sent_nr s) (handled_nr s) (sq s) (smq s) (sm_id s) (previd s) (bound s) (sm_bound s) (bind_saved s) v (nconn s) (on_connect s).
Definition set_nconn (s : state) (v : Z) : state :=
  mk_state (connected s) (neg_done s) (h_feat s) (h_bind s) (h_sm s) (sm_enabled s) (sm_support s) (can_resume s) (resume s) (dont_req s) (r_sent s) (sent_nr s) (handled_nr s) (sq s) (smq s) (sm_id s) (previd s) (bound s) (sm_bound s) (bind_saved s) (next_gid s) v (on_connect s).
Definition set_on_connect (s : state) (v : list (list Z)) : state :=
  mk_state (connected s) (neg_done s) (h_feat s) (h_bind s) (h_sm s) (sm_enabled s) (sm_support s) (can_resume s) (resume s) (dont_req s) (r_sent s) (sent_nr s) (handled_nr s) (sq s) (smq s) (sm_id s) (previd s) (bound s) (sm_bound s) (bind_saved s) (next_gid s) (nconn s) v.

Definition init : state :=
  mk_state false false false false false  false false false false false false  0 0 [] []  None None false false false  1 0 [].

(* ---------------------------------------------------------------- outputs *)
Record blob := mk_blob { b_sent : Z; b_handled : Z; b_id : list Z; b_sq : list (list Z); b_smq : list (Z * list Z) }.

Inductive gmark :=
| GSubmit (gid : Z)                     (* a countable element entered the send queue for the first time *)
| GDone (gid : Z) (numbered : bool)     (* a countable element was written completely; numbered = moved to the SM queue *)
| GRelease (gids : list Z)              (* popped from the SM queue because of a server report *)
| GAck (h : Z)                          (* <a h> processed by _conn_sm_handle_stanza *)
| GNewSession                           (* _sm_enable: <enable/> queued, sm_sent_nr := 0 *)
| GEnabledSeen                          (* _handle_sm got an <enabled/>: the inbound count restarts *)
| GEnabled                              (* <enabled/> accepted *)
| GResumed (h : Z)                      (* <resumed h> accepted *)
| GFailed                               (* <failed/> processed by _handle_sm *)
| GSmOff                                (* error tail of _handle_sm *)
| GDown                                 (* conn_disconnect *)
| GDiscard (fresh resent : list Z)      (* _conn_reset freed these countable elements of the send queue *)
| GStanzaIn                             (* a message/presence/iq was dispatched *)
| GRIn                                  (* an <r/> was dispatched *)
| GAOut (h : Z)                         (* an <a h/> was queued *)
| GResumeOut (h : Z).                   (* a <resume h/> was queued *)

Inductive out :=
| OBytes (bs : list Z)                  (* bytes accepted by the transport *)
| OCb (b : option blob)                 (* one invocation of the SM callback (None = NULL state) *)
| OConnect                              (* XMPP_CONN_CONNECT *)
| ODisc                                 (* socket closed + XMPP_CONN_DISCONNECT *)
| OG (m : gmark).

(* sm_state_serialize (C04-4: NULL unless an id is known) *)
Definition blob_of (st : state) : option blob :=
  if sm_support st && sm_enabled st && can_resume st then
    match sm_id st with
    | Some i => Some (mk_blob (sent_nr st) (handled_nr st) i (map q_text (sq st))
                              (map (fun e => (s_h e, s_text e)) (smq st)))
    | None => None
    end
  else None.
Definition cb (st : state) : out := OCb (blob_of st).

(* ---------------------------------------------------------------- sending *)
(* _send_raw: append; piggy-back one <r/> per burst; SM callback *)
(* library elements queued before stream management is enabled are not part of the acknowledged stream *)
Definition eff_owner (st : state) (o : owner) : owner :=
  match o with OLib => if sm_enabled st then OLib else OSm | _ => o end.

Definition send_raw_ (st : state) (gid : Z) (o0 : owner) (text : list Z) (resend : bool) : state * list out :=
  let o := eff_owner st o0 in
  let st1 := set_sq st (sq st ++ [mk_sqe gid o text 0 resend]) in
  if countable o && sm_enabled st1 && negb (r_sent st1) then
    let st2 := set_r_sent st1 true in
    let st3 := set_next_gid (set_sq st2 (sq st2 ++ [mk_sqe (next_gid st2) OSm R_TEXT 0 false])) (next_gid st2 + 1) in
    (st3, [cb st3])
  else (st1, [cb st1]).

(* send_raw / send_stanza / send_raw_string for library-owned data: only in state CONNECTED *)
Definition send_lib (st : state) (o : owner) (text : list Z) : state * list out :=
  if connected st then
    let g := next_gid st in
    let '(st1, outs) := send_raw_ (set_next_gid st (g + 1)) g o text false in
    (st1, (if countable (eff_owner st o) then [OG (GSubmit g)] else []) ++ outs)
  else (st, []).

(* xmpp_send / xmpp_send_raw_string: dropped unless connected and negotiated *)
Definition user_send (st : state) (text : list Z) : state * list out :=
  if connected st && neg_done st then
    let g := next_gid st in
    let '(st1, outs) := send_raw_ (set_next_gid st (g + 1)) g OUser text false in
    (st1, OG (GSubmit g) :: outs)
  else (st, []).

(* xmpp_disconnect: queue </stream:stream> (the clean-up timer never fires: the clock does not move) *)
Definition xmpp_disconnect (st : state) : state * list out := send_lib st OSm END_TEXT.

(* ---------------------------------------------------------------- conn_disconnect *)
(* _reset_sm_state_for_reconnect + conn_disconnect *)
Definition disconnect (st : state) : state * list out :=
  if negb (connected st) then (st, []) else
  let st := set_neg_done (set_connected st false) false in
  let st := set_previd st None in
  let st := if can_resume st
            then set_bound (set_sm_bound (set_sm_id (set_previd st (sm_id st)) None) (bound st)) false
            else set_sm_id st None in
  let st := set_resume (set_sm_support (set_sm_enabled (set_r_sent st false) false) false) false in
  let st := set_bind_saved st false in
  (st, [OG GDown; ODisc]).

(* _handle_stream_end *)
Definition stream_end (st : state) : state * list out :=
  let st1 := set_can_resume st false in
  let '(st2, o) := disconnect st1 in
  (st2, cb st1 :: o).

(* ---------------------------------------------------------------- send phase of xmpp_run_once *)
Inductive sitem := SAll | SK (n : Z) | SAgain | SErr.

(* one send(2) call against the scripted transport: (return value, unrecoverable?, rest of the script) *)
Definition next_send (sched : list sitem) (towrite : Z) : Z * bool * list sitem :=
  match sched with
  | [] => (towrite, false, [])
  | SAll :: r => (towrite, false, r)
  | SK n :: r => let acc := Z.min n towrite in if acc <=? 0 then (-1, false, r) else (acc, false, r)
  | SAgain :: r => (-1, false, r)
  | SErr :: r => (-1, true, r)
  end.

Definition slice (text : list Z) (from n : Z) : list Z := firstn (Z.to_nat n) (skipn (Z.to_nat from) text).

(* the walk over the send queue; `st` is the state whose send queue is `q` *)
Fixpoint wloop (q : list sqe) (sched : list sitem) (st : state) : state * list out * bool * list sitem :=
  match q with
  | [] => (set_sq st [], [], false, sched)
  | e :: rest =>
      let towrite := zlen (q_text e) - q_written e in
      let '(ret, err, sched') := next_send sched towrite in
      if ret =? towrite then
        let st0 := set_sq st rest in
        let '(st1, marks) :=
          if countable (q_owner e) && sm_enabled st0 then
            (set_sent_nr (set_smq st0 (smq st0 ++ [mk_sme (q_gid e) (sent_nr st0) (q_owner e) (q_text e)]))
                         (w32 (sent_nr st0 + 1)),
             [OG (GDone (q_gid e) true)])
          else (st0, if countable (q_owner e) then [OG (GDone (q_gid e) false)] else []) in
        let '(st2, o, er, sl) := wloop rest sched' st1 in
        (st2, OBytes (slice (q_text e) (q_written e) towrite) :: marks ++ cb st1 :: o, er, sl)
      else if 0 <? ret then
        (set_sq st (mk_sqe (q_gid e) (q_owner e) (q_text e) (q_written e + ret) (q_resend e) :: rest),
         [OBytes (slice (q_text e) (q_written e) ret)], err, sched')
      else (set_sq st (e :: rest), [], err, sched')
  end.

Definition write_phase (st : state) (sched : list sitem) : state * list out * list sitem :=
  if connected st then
    let '(st1, o, err, sl) := wloop (sq st) sched st in
    if err then let '(st2, o2) := disconnect st1 in (st2, o ++ o2, sl) else (st1, o, sl)
  else (st, [], sched).

(* ---------------------------------------------------------------- negotiation *)
(* what the application's connection handler does on XMPP_CONN_CONNECT: it submits the stanzas of `on_connect` *)
Fixpoint run_script (l : list (list Z)) (st : state) : state * list out :=
  match l with
  | [] => (st, [])
  | t :: r => let '(st1, o1) := user_send st t in
              let '(st2, o2) := run_script r st1 in (st2, o1 ++ o2)
  end.

(* _stream_negotiation_success: the connection handler runs here, inside the library call *)
Definition neg_success (st : state) : state * list out :=
  if neg_done st then (st, []) else
  let st1 := set_neg_done st true in
  let '(st2, o) := run_script (on_connect st1) st1 in
  (st2, OConnect :: o).

(* _do_bind *)
Definition do_bind (bind_text : list Z) (st : state) : state * list out :=
  send_lib (set_h_bind st true) OLib bind_text.

(* _sm_enable *)
Definition sm_enable (st : state) : state * list out :=
  let st := set_h_sm st true in
  let '(st1, o) := send_lib st OSm (enable_text (negb (dont_req st))) in
  let st2 := set_sm_enabled (set_sent_nr st1 0) true in
  (st2, o ++ [OG GNewSession; cb st2]).

(* _handle_features_sasl (features always offer <bind/>) *)
Definition handle_features (bind_text : list Z) (st : state) (sm_offered : bool) : state * list out :=
  let st := set_h_feat st false in
  let st := if sm_offered then set_sm_support st true else st in
  match previd st with
  | Some pv =>
      if sm_support st && can_resume st && sm_bound st then
        let st1 := set_resume (set_bind_saved st true) true in
        let '(st2, o) := send_lib st1 OSm (resume_text pv (handled_nr st1)) in
        (set_h_sm st2 true, OG (GResumeOut (handled_nr st1)) :: o)
      else do_bind bind_text st
  | None => do_bind bind_text st
  end.

(* _handle_bind, type='result' *)
Definition handle_bind (st : state) : state * list out :=
  let st := set_bound (set_h_bind st false) true in
  if sm_support st then sm_enable st else neg_success st.

(* _sm_queue_cleanup: pop while head.sm_h < h; (kept, released) *)
Fixpoint cleanup (l : list sme) (h : Z) : list sme * list sme :=
  match l with
  | [] => ([], [])
  | e :: r => if s_h e <? h then let '(k, rl) := cleanup r h in (k, e :: rl) else (l, [])
  end.

(* _sm_queue_resend: pop every element and queue it again with its owner *)
Fixpoint resend (l : list sme) (st : state) : state * list out :=
  match l with
  | [] => (st, [])
  | e :: r =>
      let st0 := set_smq st r in
      let '(st1, o1) := if connected st0 then send_raw_ st0 (s_gid e) (s_owner e) (s_text e) true else (st0, []) in
      let '(st2, o2) := resend r st1 in
      (st2, o1 ++ o2)
  end.

Inductive aval := AMissing | ABad | AVal (h : Z).
Inductive fcause := FNone | FItemNotFound | FNotImpl | FOtherCause.
Inductive smel :=
| SmR
| SmA (h : aval)
| SmEnabled (resume_attr : bool) (id : option (list Z))
| SmResumed (previd_attr : option (list Z)) (h : option Z)
| SmFailed (cause : fcause) (h : option Z)
| SmOther.

Fixpoint list_eqb (a b : list Z) : bool :=
  match a, b with
  | [], [] => true
  | x :: a', y :: b' => (x =? y) && list_eqb a' b'
  | _, _ => false
  end.

(* reset_sm_state *)
Definition reset_sm_state (st : state) : state :=
  set_r_sent (set_sent_nr (set_handled_nr (set_bind_saved (set_sm_bound (set_previd (set_sm_id st None) None) false) false) 0) 0) false.

(* the error tail of _handle_sm (C04-3: SM is off afterwards) *)
Definition sm_err (st : state) : state * list out := (set_sm_enabled st false, [OG GSmOff]).

(* _handle_sm; the handler returns 0 on every path, i.e. it is removed *)
Definition handle_sm (bind_text : list Z) (st : state) (el : smel) : state * list out :=
  let st := set_h_sm st false in
  match el with
  | SmEnabled ra id =>
      if negb (sm_enabled st) then sm_err st else      (* we asked to resume, not to enable *)
      let st := set_handled_nr st 0 in
      let accepted :=
        if ra then match id with
                   | Some i => Some (set_sm_id (set_can_resume st true) (Some i))
                   | None => None
                   end
        else Some st in
      match accepted with
      | None => let '(st1, o) := sm_err st in (st1, OG GEnabledSeen :: o)
      | Some st1 =>
          let '(st2, o) := resend (smq st1) st1 in
          let '(st3, o3) := neg_success st2 in
          (st3, OG GEnabledSeen :: OG GEnabled :: o ++ o3 ++ [cb st3])
      end
  | SmResumed pv h =>
      match pv with
      | None => sm_err st
      | Some p =>
          match previd st with
          | None => sm_err st
          | Some mine =>
              if list_eqb p mine then
                match h with
                | None => sm_err st
                | Some hv =>
                    let st1 := set_sm_bound (set_bound (set_previd (set_sm_id (set_sm_enabled st true) (Some mine)) None)
                                                       (sm_bound st)) false in
                    let st1 := set_sent_nr st1 (w32 hv) in                         (* C04-1 *)
                    let '(kept, rel) := cleanup (smq st1) hv in
                    let '(st2, o) := resend kept (set_smq st1 kept) in
                    let '(st3, o3) := neg_success st2 in
                    (st3, OG (GResumed hv) :: OG (GRelease (map s_gid rel)) :: o ++ o3 ++ [cb st3])
                end
              else sm_err st
          end
      end
  | SmFailed cause h =>
      let resuming := resume st in
      let st := set_sm_enabled st false in
      match cause with
      | FNone => sm_err st
      | _ =>
          let '(st1, rel) :=
            match cause with
            | FItemNotFound =>
                if resume st then
                  let hv := match h with Some v => v | None => 0 end in          (* C04-2 *)
                  let '(k, rl) := cleanup (smq st) hv in (set_smq st k, rl)
                else (st, [])
            | FNotImpl => (set_dont_req (set_can_resume (set_resume st false) false) true, [])
            | _ => (st, [])
            end in
          let had_bind := bind_saved st1 in
          let st2 := reset_sm_state st1 in
          let '(st3, o) :=
            if had_bind then do_bind bind_text st2
            else if resuming then xmpp_disconnect st2
            else neg_success st2 in
          (set_sm_enabled st3 false, OG (GRelease (map s_gid rel)) :: OG GFailed :: o ++ [cb st3; OG GSmOff])
      end
  | _ => (set_sm_enabled st false, [cb st; OG GSmOff])
  end.

(* ---------------------------------------------------------------- inbound elements *)
Inductive initem :=
| IStanza                       (* <message/>, <presence/> or <iq/> without a library handler *)
| IOther                        (* top-level element of another namespace that is not a stanza, e.g. <stream:error/> *)
| IBindResult                   (* <iq type='result' id='_xmpp_bind1'> with a <jid/> *)
| IFeatures (sm_offered : bool) (* post-authentication <stream:features/> with <bind/> *)
| ISm (e : smel).

(* handler_fire_stanza, library handlers only *)
Definition fire (bind_text : list Z) (st : state) (it : initem) : state * list out :=
  match it with
  | IFeatures smo => if h_feat st then handle_features bind_text st smo else (st, [])
  | IBindResult => if h_bind st then handle_bind st else (st, [])
  | ISm e => if h_sm st then handle_sm bind_text st e else (st, [])
  | _ => (st, [])
  end.

(* _conn_sm_handle_stanza (C05-1: only stanzas are counted) *)
Definition sm_handle (st : state) (it : initem) : state * list out :=
  match it with
  | IStanza | IBindResult =>
      let st1 := set_handled_nr st (w32 (handled_nr st + 1)) in (st1, [cb st1])
  | IOther | IFeatures _ => (st, [cb st])
  | ISm SmR =>
      let '(st1, o) := send_lib st OSm (a_text (handled_nr st)) in
      (st1, OG (GAOut (handled_nr st)) :: o ++ [cb st1])
  | ISm (SmA AMissing) => (st, [])
  | ISm (SmA a) =>
      let '(kept, rel) := match a with
                          | AVal h => cleanup (smq st) h
                          | _ => ([], smq st)                (* unparsable h: ULONG_MAX, the whole queue goes *)
                          end in
      let st1 := set_r_sent (set_smq st kept) false in
      (st1, [OG (GAck (match a with AVal h => h | _ => -1 end)); OG (GRelease (map s_gid rel)); cb st1])
  | ISm _ => (st, [cb st])
  end.

Definition mark_in (it : initem) : list out :=
  match it with
  | IStanza | IBindResult => [OG GStanzaIn]
  | ISm SmR => [OG GRIn]
  | _ => []
  end.

(* _handle_stream_stanza *)
Definition dispatch (bind_text : list Z) (st : state) (it : initem) : state * list out :=
  if negb (connected st) then (st, []) else
  let '(st1, o1) := fire bind_text st it in
  let '(st2, o2) := if sm_enabled st1 then sm_handle st1 it else (st1, []) in
  (st2, o1 ++ mark_in it ++ o2).

(* ---------------------------------------------------------------- connect *)
(* xmpp_connect_client on a disconnected object: _conn_reset, then everything up to the second stream start *)
Definition do_connect (st : state) : state * list out :=
  if connected st then (st, []) else
  let cs := filter (fun e => countable (q_owner e)) (sq st) in
  let fresh := map q_gid (filter (fun e => negb (q_resend e)) cs) in
  let resent := map q_gid (filter q_resend cs) in
  let st := set_sq st [] in
  let st := set_bound (set_neg_done st false) false in
  let st := set_h_sm (set_h_bind (set_h_feat st true) false) false in
  let st := set_nconn (set_connected st true) (nconn st + 1) in
  (st, [OG (GDiscard fresh resent)]).

(* ---------------------------------------------------------------- primitive actions *)
Inductive action :=
| ASend (text : list Z)
| AWrite (sched : list sitem)
| AIn (it : initem)
| AEnd                            (* </stream:stream> *)
| ALoss                           (* recv() = 0 or ECONNRESET *)
| AConnect
| AOnConnect (l : list (list Z)). (* the application changes what its connection handler submits on CONNECT *)

Definition step (bind_text : list Z) (st : state) (a : action) : state * list out :=
  match a with
  | ASend t => user_send st t
  | AWrite s => let '(st1, o, _) := write_phase st s in (st1, o)
  | AIn it => dispatch bind_text st it
  | AEnd => if connected st then stream_end st else (st, [])
  | ALoss => disconnect st
  | AConnect => do_connect st
  | AOnConnect l => (set_on_connect st l, [])
  end.

Fixpoint run (bind_text : list Z) (st : state) (l : list action) : state * list out :=
  match l with
  | [] => (st, [])
  | a :: r => let '(st1, o1) := step bind_text st a in
              let '(st2, o2) := run bind_text st1 r in (st2, o1 ++ o2)
  end.

(* ---------------------------------------------------------------- the scripted world of harness/c/simworld.c *)
Inductive rxchunk := RxItems (l : list initem) | RxEnd | RxClose | RxReset.
Record dstate := mk_d { d_st : state; d_tx : list sitem; d_rx : list rxchunk }.
Inductive cmd :=
| CSend (text : list Z)        (* sendst / send *)
| CTx (l : list sitem)         (* tx *)
| CRx (c : rxchunk)            (* rx / rxclose / rxreset *)
| CRun                         (* run: one xmpp_run_once *)
| CConnect                     (* connect client + the fixed negotiation up to the second stream start *)
| COnConnect (l : list (list Z))  (* onconnect send:..,send:.. *)
| CPoke (sent handled : option Z). (* smpoke: the harness sets the counters directly; not an action of the library's
                                      environment, so it is a command of the scripted world only (the theorems over
                                      `action` histories do not range over it) *)

Fixpoint dispatch_all (bind_text : list Z) (st : state) (l : list initem) : state * list out :=
  match l with
  | [] => (st, [])
  | it :: r => let '(st1, o1) := dispatch bind_text st it in
               let '(st2, o2) := dispatch_all bind_text st1 r in (st2, o1 ++ o2)
  end.

Definition read_chunk (bind_text : list Z) (st : state) (c : rxchunk) : state * list out :=
  match c with
  | RxItems l => dispatch_all bind_text st l
  | RxEnd => step bind_text st AEnd
  | RxClose | RxReset => step bind_text st ALoss
  end.

Definition exec (bind_text : list Z) (d : dstate) (c : cmd) : dstate * list out :=
  match c with
  | CSend t => let '(st, o) := step bind_text (d_st d) (ASend t) in (mk_d st (d_tx d) (d_rx d), o)
  | CTx l => (mk_d (d_st d) (d_tx d ++ l) (d_rx d), [])
  | CRx c => (mk_d (d_st d) (d_tx d) (d_rx d ++ [c]), [])
  | CRun =>
      let '(st1, o1, tx') := write_phase (d_st d) (d_tx d) in
      if connected st1 then
        match d_rx d with
        | [] => (mk_d st1 tx' [], o1)
        | c :: r => let '(st2, o2) := read_chunk bind_text st1 c in (mk_d st2 tx' r, o1 ++ o2)
        end
      else (mk_d st1 tx' (d_rx d), o1)
  | CConnect =>
      if connected (d_st d) then (d, [])
      else let '(st, o) := step bind_text (d_st d) AConnect in (mk_d st [] [], o)
  | COnConnect l => let '(st, o) := step bind_text (d_st d) (AOnConnect l) in (mk_d st (d_tx d) (d_rx d), o)
  | CPoke s h =>
      let st := d_st d in
      let st := match s with Some v => set_sent_nr st (w32 v) | None => st end in
      let st := match h with Some v => set_handled_nr st (w32 v) | None => st end in
      (mk_d st (d_tx d) (d_rx d), [])
  end.

Definition dinit : dstate := mk_d init [] [].
