(* C14 - executable model of server discovery (definitions only, no proofs).

   Mirrors, for one connection:
     src/sock.c   sock_new, sock_getaddrinfo, sock_connect (the do/while over addresses and targets)
     src/event.c  _connect_next, the XMPP_STATE_CONNECTING branches of xmpp_run_once
                  (time-out test before select(), write-readiness -> sock_connect_error after it),
                  the send phase as far as the stream header is concerned
     src/conn.c   xmpp_connect_client / _raw / _component (altdomain, legacy-SSL, component bypass,
                  _conn_default_port), _conn_connect, conn_established, conn_disconnect
   Constants (time-out, ports, return codes, flag bits, the comparison of the time-out test, the
   SRV service/protocol strings) come from Gen_srv, regenerated from the C source on every run.

   Oracles (Section variables, parameters after extraction):
     gai   host -> number of addresses getaddrinfo returns (0 = failure or empty)
     behv  k -> what the k-th socket()/connect() meets (descriptors are numbered by creation)
     fx    true = sock_connect as repaired by fixes/C14-1.patch (`while`), false = as found (`if`)
   The SRV answer enters already decoded and sorted (ResolverModel / C15); None = lookup failed.
   The clock is virtual: [OpClock d] advances it, time_stamp() reads it. *)
Require Import LV.Common.Bytes LV.Gen.Gen_srv LV.Spec.SrvSpec.
Local Open Scope Z_scope.

(* ---------------------------------------------------------------- flags, ports *)

Definition cfg_legacy_ssl (cfg : config) : bool := flag_set (cf_flags cfg) FLAG_LEGACY_SSL.

(* xmpp_connect_component: DISABLE_TLS is or-ed in; xmpp_conn_set_flags refuses that together with
   MANDATORY_TLS / LEGACY_SSL / TRUST_TLS, tls_disabled then stays 0 and XMPP_EINT is returned *)
Definition tls_conflict (flags : Z) : bool :=
  flag_set flags FLAG_MANDATORY_TLS || flag_set flags FLAG_LEGACY_SSL || flag_set flags FLAG_TRUST_TLS.

(* _conn_default_port *)
Definition conn_default_port (cfg : config) (component : bool) : Z :=
  if component then default_port_component else default_port_client (cfg_legacy_ssl cfg).

(* `port = port ? port : _conn_default_port(...)` *)
Definition port_or_default (cfg : config) (component : bool) : Z :=
  if cf_port cfg =? 0 then conn_default_port cfg component else cf_port cfg.

(* ---------------------------------------------------------------- xmpp_sock_t *)

(* ainfo_cur .. end of the current address list; srv_rr_cur .. end of the record list *)
Record xsock : Type := mk_xsock { xs_ainfo : list cand; xs_srv : list srv_rec }.

Inductive sc_res : Type := ScSock (fd : nat) | ScInvalid | ScFuel.

Inductive cstate : Type := Disconnected | Connecting | Connected.

Record conn : Type := mk_conn {
  cn_state : cstate;
  cn_sock : option nat;      (* None = INVALID_SOCKET *)
  cn_xs : xsock;
  cn_stamp : Z;              (* conn->timeout_stamp *)
  cn_nfd : nat;              (* number of sockets created so far = next descriptor *)
  cn_hdr : bool;             (* stream header queued and not yet written *)
  cn_secured : bool
}.

Definition conn0 : conn := mk_conn Disconnected None (mk_xsock [] []) 0 0 false false.

(* time_elapsed: uint64_t subtraction *)
Definition elapsed (stamp now : Z) : Z := (now - stamp) mod 18446744073709551616.

Section World.
  Variable gai : list Z -> nat.
  Variable behv : nat -> beh.
  Variable fx : bool.

  (* the addrinfo list getaddrinfo(target, port) yields *)
  Definition addrs (r : srv_rec) : list cand :=
    map (fun i => mk_cand (sr_target r) i (sr_port r)) (seq 0 (gai (sr_target r))).

  (* sock_getaddrinfo: frees the old list; with a current record resolves it (failure = empty list);
     ainfo_cur = ainfo_list *)
  Definition sock_getaddrinfo (xs : xsock) : xsock * list ev :=
    match xs_srv xs with
    | [] => (mk_xsock [] [], [])
    | r :: _ => (mk_xsock (addrs r) (xs_srv xs), [EvG (sr_target r) (sr_port r) (gai (sr_target r))])
    end.

  (* `if (xsock->srv_rr_cur) xsock->srv_rr_cur = xsock->srv_rr_cur->next;` *)
  Definition srv_advance (xs : xsock) : xsock := mk_xsock (xs_ainfo xs) (tl (xs_srv xs)).

  (* resolver_srv_rr_new(ctx, host, port, 0, 0): snprintf into target[MAX_DOMAIN_LEN] *)
  Definition sr_new (host : list Z) (port : Z) : srv_rec :=
    mk_sr (firstn (Z.to_nat (SRV_MAX_DOMAIN_LEN - 1)) host) port 0 0.

  (* sock_new(conn, domain, host, port); [srv] is what resolver_srv_lookup would deliver *)
  Definition sock_new (domain : list Z) (host : option (list Z)) (port : Z)
                      (srv : option (list srv_rec)) : xsock * list ev :=
    let '(found, e_q) :=
      match host with
      | None => (match srv with Some (r :: l) => Some (r :: l) | _ => None end, [EvQ domain])
      | Some _ => (None, [])
      end in
    let l := match found with
             | Some l => l
             | None => [sr_new (match host with Some h => h | None => domain end) port]
             end in
    let '(xs, e_g) := sock_getaddrinfo (mk_xsock [] l) in
    (srv_advance xs, e_q ++ e_g).

  (* sock_connect.  One unit of fuel per evaluation of a loop condition (the inner refill loop and
     the outer do/while are run by the same recursion):
       ainfo_cur == NULL and a record is left -> sock_getaddrinfo, advance the record cursor;
           repaired code: test again (while); code as found: give up at once if that record
           resolved to nothing (`if (!xsock->ainfo_cur) return INVALID_SOCKET`)
       ainfo_cur == NULL and no record left   -> INVALID_SOCKET
       otherwise socket()/connect() to *ainfo_cur, advance ainfo_cur; an immediate error closes the
           descriptor and loops, anything else ("in progress") returns it *)
  Fixpoint sock_connect (fuel : nat) (xs : xsock) (nfd : nat) : sc_res * xsock * nat * list ev :=
    match fuel with
    | O => (ScFuel, xs, nfd, [EvFuel])
    | S f =>
        match xs_ainfo xs with
        | a :: rest =>
            let b := behv nfd in
            let xs' := mk_xsock rest (xs_srv xs) in
            match b with
            | Refuse =>
                let '(r, xs2, n2, e2) := sock_connect f xs' (S nfd) in
                (r, xs2, n2, EvC nfd a b :: EvX nfd :: e2)
            | _ => (ScSock nfd, xs', S nfd, [EvC nfd a b])
            end
        | [] =>
            match xs_srv xs with
            | [] => (ScInvalid, mk_xsock [] [], nfd, [])
            | _ :: _ =>
                let '(xs1, e1) := sock_getaddrinfo xs in
                let xs1 := srv_advance xs1 in
                match xs_ainfo xs1, fx with
                | [], false => (ScInvalid, xs1, nfd, e1)
                | _, _ =>
                    let '(r, xs2, n2, e2) := sock_connect f xs1 nfd in
                    (r, xs2, n2, e1 ++ e2)
                end
            end
        end
    end.

  (* enough for every loop condition that can be evaluated: one per address, one per record *)
  Definition sc_fuel (xs : xsock) : nat :=
    S (length (xs_ainfo xs) + length (flat_map addrs (xs_srv xs)) + length (xs_srv xs)).

  Section Conn.
    Variable cfg : config.

    Definition is_component : bool := match cf_type cfg with Component => true | _ => false end.
    Definition is_raw : bool := match cf_type cfg with Raw => true | _ => false end.
    (* conn->domain, the `to` of the stream header: the JID's domain, for a component the JID *)
    Definition stream_to : list Z :=
      if is_component then match cf_jid cfg with Some j => j | None => [] end else cf_domain cfg.

    (* conn_disconnect with conn->error = e (no TLS object exists while connecting) *)
    Definition conn_disconnect (c : conn) (e : derr) : conn * list ev :=
      (mk_conn Disconnected (cn_sock c) (cn_xs c) (cn_stamp c) (cn_nfd c) false false,
       match cn_sock c with Some fd => [EvX fd] | None => [] end ++ [EvDisc e]).

    (* _connect_next: close, sock_connect, on success a new stamp *)
    Definition connect_next (c : conn) (now : Z) : bool * conn * list ev :=
      let e_x := match cn_sock c with Some fd => [EvX fd] | None => [] end in
      let '(r, xs, nfd, e) := sock_connect (sc_fuel (cn_xs c)) (cn_xs c) (cn_nfd c) in
      match r with
      | ScSock fd => (true, mk_conn (cn_state c) (Some fd) xs now nfd (cn_hdr c) (cn_secured c), e_x ++ e)
      | _ => (false, mk_conn (cn_state c) None xs (cn_stamp c) nfd (cn_hdr c) (cn_secured c), e_x ++ e)
      end.

    (* conn_established (the fake TLS of the simulated world always succeeds) *)
    Definition conn_established (c : conn) (fd : nat) : conn * list ev :=
      let tls := cfg_legacy_ssl cfg && negb is_raw in
      let e_tls := if tls then [EvTls fd] else [] in
      if is_raw
      then (mk_conn Connected (Some fd) (cn_xs c) (cn_stamp c) (cn_nfd c) false tls, e_tls ++ [EvRawConnect])
      else (mk_conn Connected (Some fd) (cn_xs c) (cn_stamp c) (cn_nfd c) true tls, e_tls).

    (* xmpp_run_once, "find events to watch", case XMPP_STATE_CONNECTING *)
    Definition phase_watch (c : conn) (now : Z) : conn * list ev :=
      match cn_state c with
      | Connecting =>
          let el := elapsed (cn_stamp c) now in
          if connect_in_time el CONNECT_TIMEOUT then (c, [])
          else
            let e_t := match cn_sock c with Some fd => [EvTimedOut fd el] | None => [] end in
            let '(ok, c1, e1) := connect_next c now in
            if ok then (c1, e_t ++ e1)
            else let '(c2, e2) := conn_disconnect c1 ErrTimedOut in (c2, e_t ++ e1 ++ e2)
      | _ => (c, [])
      end.

    (* select() + "process events", case XMPP_STATE_CONNECTING: the descriptor is reported writable
       for Accept and Late; sock_connect_error is 0 for Accept *)
    Definition phase_events (c : conn) (now : Z) : conn * list ev :=
      match cn_state c, cn_sock c with
      | Connecting, Some fd =>
          match behv fd with
          | Accept => conn_established c fd
          | Late =>
              let '(ok, c1, e1) := connect_next c now in
              if ok then (c1, e1)
              else let '(c2, e2) := conn_disconnect c1 ErrMinus1 in (c2, e1 ++ e2)
          | _ => (c, [])
          end
      | _, _ => (c, [])
      end.

    (* send phase at the top of xmpp_run_once, CONNECTED only: the queued stream header goes out *)
    Definition phase_send (c : conn) : conn * list ev :=
      match cn_state c, cn_sock c with
      | Connected, Some fd =>
          if cn_hdr c
          then (mk_conn Connected (Some fd) (cn_xs c) (cn_stamp c) (cn_nfd c) false (cn_secured c),
                [EvHdr fd (cn_secured c) stream_to is_component])
          else (c, [])
      | _, _ => (c, [])
      end.

    Definition run_once (c : conn) (now : Z) : conn * list ev :=
      let '(c1, e1) := phase_send c in
      let '(c2, e2) := phase_watch c1 now in
      let '(c3, e3) := phase_events c2 now in
      (c3, e1 ++ e2 ++ e3 ++ [EvTick]).

    (* _conn_connect on a fresh (DISCONNECTED) connection *)
    Definition conn_connect (xs : xsock) (now : Z) : conn * list ev :=
      let '(r, xs', nfd, e) := sock_connect (sc_fuel xs) xs 0%nat in
      match r with
      | ScSock fd => (mk_conn Connecting (Some fd) xs' now nfd false false, e ++ [EvR XMPP_EOK])
      | _ => (mk_conn Disconnected None xs' 0 nfd false false, e ++ [EvR XMPP_EINT])
      end.

    (* xmpp_connect_client / xmpp_connect_raw / xmpp_connect_component *)
    Definition connect (srv : option (list srv_rec)) (now : Z) : conn * list ev :=
      match cf_type cfg with
      | Component =>
          match cf_host cfg, cf_jid cfg, cf_pass cfg with
          | Some server, Some _, true =>
              if tls_conflict (cf_flags cfg) then (conn0, [EvR XMPP_EINT])
              else
                let '(xs, e) := sock_new [] (Some server) (port_or_default cfg true) srv in
                let '(c, e') := conn_connect xs now in (c, e ++ e')
          | _, _, _ => (conn0, [EvR XMPP_EINVOP])
          end
      | _ =>
          match cf_jid cfg with
          | None => (conn0, [EvR XMPP_EINVOP])
          | Some _ =>
              let alt := match cf_host cfg with
                         | Some h => Some h
                         | None => if cfg_legacy_ssl cfg then Some (cf_domain cfg) else None
                         end in
              let '(xs, e) := sock_new (cf_domain cfg) alt (port_or_default cfg false) srv in
              let '(c, e') := conn_connect xs now in (c, e ++ e')
          end
      end.

    Fixpoint exec (ops : list op) (c : conn) (now : Z) : conn * list ev :=
      match ops with
      | [] => (c, [])
      | OpClock d :: r => exec r c (now + d)
      | OpRun :: r =>
          let '(c1, e1) := run_once c now in
          let '(c2, e2) := exec r c1 now in
          (c2, e1 ++ e2)
      end.

    (* one scenario: connect at time t0, then runs and clock steps *)
    Definition scenario (srv : option (list srv_rec)) (t0 : Z) (ops : list op) : conn * list ev :=
      let '(c, e) := connect srv t0 in
      let '(c', e') := exec ops c t0 in
      (c', e ++ e').
  End Conn.
End World.

(* instances of the specification's parameters at the generated constants *)
Definition eff_rrs : config -> option (list srv_rec) -> list srv_rec :=
  effective_rrs FLAG_LEGACY_SSL SRV_MAX_DOMAIN_LEN.
Definition byp_host : config -> option (list Z) := bypass_host FLAG_LEGACY_SSL.
Definition cfg_ok : config -> bool := config_ok tls_conflict.
