(* C12 - explicit heap model of the stanza object graph of src/stanza.c
   (xmpp_stanza_new / clone / copy / release / add_child_ex / set_* / reply / reply_error / to_text and the
   get_children / get_next / parent walks), and an abstract ownership model of the connection-lifetime
   objects of src/conn.c / src/handler.c (send queue, SM queue, handler items with library-owned userdata,
   SM state hand-over, xmpp_conn_clone / xmpp_conn_release).

   Definitions only, no proofs.  Attribute tables, escaping and the format strings are those of
   StanzaModel (hash.c order included), which take their constants from Gen_stanza.

   A node is a heap cell  id |-> Some node  (live)  or  None  (freed);  ids are never reused, so a
   dangling pointer stays recognisable: reading or writing a freed cell is the outcome UAF, freeing
   it again DoubleFree.  Every pointer dereference of the C code goes through [rd].

   The parameter [fx] selects which links xmpp_stanza_release clears in a child before releasing it:
     fx = false : as in libstrophe 0.14.0      (tchild->next = NULL only)
     fx = true  : with fixes/C12-1.patch        (next, prev and parent are cleared)
   The theorems are about fx = true; fx = false is kept to replay the defect. *)
Require Import LV.Common.Bytes LV.Gen.Gen_stanza LV.Model.StanzaModel.
Local Open Scope Z_scope.

(* ------------------------------------------------------------------------------------ *)
(* outcomes                                                                               *)
(* ------------------------------------------------------------------------------------ *)
Inductive res (A : Type) : Type :=
| Ok (a : A)
| UAF            (* a freed (or never allocated) cell was dereferenced *)
| DoubleFree     (* a freed cell was freed again *)
| Fuel.          (* recursion fuel exhausted: a cyclic structure, i.e. non-termination in C *)
Arguments Ok {A} a.
Arguments UAF {A}.
Arguments DoubleFree {A}.
Arguments Fuel {A}.

Definition bind {A B} (x : res A) (f : A -> res B) : res B :=
  match x with
  | Ok a => f a
  | UAF => UAF
  | DoubleFree => DoubleFree
  | Fuel => Fuel
  end.
Notation "x <- e ;; k" := (bind e (fun x => k)) (at level 61, e at next level, right associativity).

(* ------------------------------------------------------------------------------------ *)
(* the heap                                                                               *)
(* ------------------------------------------------------------------------------------ *)
Record snode := mkS {
  s_ref : Z;                      (* int ref *)
  s_type : ntype;                 (* XMPP_STANZA_UNKNOWN / TEXT / TAG *)
  s_data : option bstr;           (* char *data (name or text), NULL = None *)
  s_attrs : attrs;                (* hash_t *attributes, NULL = None *)
  s_parent : option nat;
  s_children : option nat;        (* head of the child list *)
  s_next : option nat;
  s_prev : option nat }.

Definition sheap := list (option snode).

Definition rd (h : sheap) (i : nat) : res snode :=
  match nth_error h i with
  | Some (Some n) => Ok n
  | _ => UAF
  end.

(* store to a cell that has just been read *)
Definition wr (h : sheap) (i : nat) (n : snode) : sheap := set_nth i h (Some n).

(* strophe_free(ctx, stanza) *)
Definition free_cell (h : sheap) (i : nat) : res sheap :=
  match nth_error h i with
  | Some (Some _) => Ok (set_nth i h None)
  | _ => DoubleFree
  end.

Definition with_ref (n : snode) (r : Z) : snode :=
  mkS r (s_type n) (s_data n) (s_attrs n) (s_parent n) (s_children n) (s_next n) (s_prev n).
Definition with_payload (n : snode) (ty : ntype) (d : option bstr) (a : attrs) : snode :=
  mkS (s_ref n) ty d a (s_parent n) (s_children n) (s_next n) (s_prev n).
Definition with_links (n : snode) (par ch nx pv : option nat) : snode :=
  mkS (s_ref n) (s_type n) (s_data n) (s_attrs n) par ch nx pv.

Definition live_count (h : sheap) : Z :=
  zlen (filter (fun c => match c with Some _ => true | None => false end) h).

(* enough for every traversal of a well-formed heap: two units per node *)
Definition fuel_of (h : sheap) : nat := S (S (2 * length h)).

(* ------------------------------------------------------------------------------------ *)
(* xmpp_stanza_new / xmpp_stanza_clone                                                    *)
(* ------------------------------------------------------------------------------------ *)
Definition fresh_node : snode := mkS 1 NUnknown None None None None None None.

Definition stanza_new (h : sheap) : sheap * nat := (h ++ [Some fresh_node], length h).

Definition stanza_clone (h : sheap) (i : nat) : res sheap :=
  n <- rd h i ;; Ok (wr h i (with_ref n (s_ref n + 1))).

(* ------------------------------------------------------------------------------------ *)
(* xmpp_stanza_release                                                                    *)
(* ------------------------------------------------------------------------------------ *)
(*  if (stanza->ref > 1) stanza->ref--;
    else { child = stanza->children;
           while (child) { tchild = child; child = child->next; tchild->next = NULL;
                           [fix: tchild->prev = NULL; tchild->parent = NULL;]
                           xmpp_stanza_release(tchild); }
           hash_release(attributes); free(data); free(stanza); }                          *)
Definition detach_links (fx : bool) (n : snode) : snode :=
  if fx then with_links n None (s_children n) None None
  else with_links n (s_parent n) (s_children n) None (s_prev n).

Fixpoint release (fx : bool) (fuel : nat) (h : sheap) (i : nat) {struct fuel} : res sheap :=
  match fuel with
  | O => Fuel
  | S f =>
      n <- rd h i ;;
      if 1 <? s_ref n then Ok (wr h i (with_ref n (s_ref n - 1)))
      else
        h1 <- release_loop fx f h (s_children n) ;;
        free_cell h1 i
  end
with release_loop (fx : bool) (fuel : nat) (h : sheap) (child : option nat) {struct fuel} : res sheap :=
  match child with
  | None => Ok h
  | Some c =>
      match fuel with
      | O => Fuel
      | S f =>
          nc <- rd h c ;;
          h1 <- release fx f (wr h c (detach_links fx nc)) c ;;
          release_loop fx f h1 (s_next nc)
      end
  end.

(* ------------------------------------------------------------------------------------ *)
(* xmpp_stanza_add_child_ex                                                               *)
(* ------------------------------------------------------------------------------------ *)
(* s = stanza->children; while (s->next) s = s->next; *)
Fixpoint last_sib (fuel : nat) (h : sheap) (s : nat) : res nat :=
  match fuel with
  | O => Fuel
  | S f =>
      n <- rd h s ;;
      match s_next n with
      | None => Ok s
      | Some s' => last_sib f h s'
      end
  end.

(* child->parent = stanza; append at the end of stanza's child list *)
Definition link_child (h : sheap) (p c : nat) : res sheap :=
  nc <- rd h c ;;
  let h1 := wr h c (with_links nc (Some p) (s_children nc) (s_next nc) (s_prev nc)) in
  np <- rd h1 p ;;
  match s_children np with
  | None => Ok (wr h1 p (with_links np (s_parent np) (Some c) (s_next np) (s_prev np)))
  | Some s =>
      l <- last_sib (fuel_of h1) h1 s ;;
      nl <- rd h1 l ;;
      let h2 := wr h1 l (with_links nl (s_parent nl) (s_children nl) (Some c) (s_prev nl)) in
      nc2 <- rd h2 c ;;
      Ok (wr h2 c (with_links nc2 (s_parent nc2) (s_children nc2) (s_next nc2) (Some l)))
  end.

Definition add_child (h : sheap) (p c : nat) (do_clone : bool) : res sheap :=
  h1 <- (if do_clone then stanza_clone h c else Ok h) ;;
  link_child h1 p c.

(* ------------------------------------------------------------------------------------ *)
(* setters (the stanza pointer is dereferenced first)                                     *)
(* ------------------------------------------------------------------------------------ *)
Definition set_name (h : sheap) (i : nat) (name : bstr) : res (sheap * Z) :=
  n <- rd h i ;;
  match s_type n with
  | NText => Ok (h, XMPP_EINVOP)
  | _ => Ok (wr h i (with_payload n NTag (Some name) (s_attrs n)), XMPP_EOK)
  end.

Definition set_text (h : sheap) (i : nat) (text : bstr) : res (sheap * Z) :=
  n <- rd h i ;;
  match s_type n with
  | NTag => Ok (h, XMPP_EINVOP)
  | _ => Ok (wr h i (with_payload n NText (Some text) (s_attrs n)), XMPP_EOK)
  end.

Definition set_attribute (h : sheap) (i : nat) (k v : bstr) : res (sheap * Z) :=
  n <- rd h i ;;
  match s_type n with
  | NTag => Ok (wr h i (with_payload n NTag (s_data n) (attr_set (s_attrs n) k v)), XMPP_EOK)
  | _ => Ok (h, XMPP_EINVOP)
  end.

Definition del_attribute (h : sheap) (i : nat) (k : bstr) : res (sheap * Z) :=
  n <- rd h i ;;
  match s_type n with
  | NTag => let '(a', rc) := attr_del (s_attrs n) k in
            Ok (wr h i (with_payload n NTag (s_data n) a'), rc)
  | _ => Ok (h, -1)
  end.

(* xmpp_stanza_get_attribute *)
Definition get_attribute (h : sheap) (i : nat) (k : bstr) : res (option bstr) :=
  n <- rd h i ;;
  match s_type n with
  | NTag => Ok (attr_get (s_attrs n) k)
  | _ => Ok None
  end.

(* ------------------------------------------------------------------------------------ *)
(* xmpp_stanza_to_text: which cells _render_stanza_recursive reads, and the text          *)
(* ------------------------------------------------------------------------------------ *)
Inductive rout : Type :=
| RT (s : bstr)          (* rendered bytes *)
| RE (code : Z).         (* negative return of _render_stanza_recursive *)

Definition has_key (a : attrs) (k : bstr) : bool := existsb (beq k) (match a with Some t => hash_keys t | None => [] end).

(* the xmlns test dereferences stanza->parent (only when the element carries an xmlns attribute);
   with fixes/C09-1 (Gen_stanza.render_root_is_top = true) the stanza handed to xmpp_stanza_to_text is
   the top of the output and its own parent is not looked at *)
Definition parent_ctx (h : sheap) (n : snode) : res pctx :=
  match s_parent n with
  | None => Ok NoParent
  | Some p => pn <- rd h p ;; Ok (Parent (attr_get (s_attrs pn) xmlns_key))
  end.

Fixpoint render (fuel : nat) (h : sheap) (top : bool) (i : nat) {struct fuel} : res rout :=
  match fuel with
  | O => Fuel
  | S f =>
      n <- rd h i ;;
      match s_type n with
      | NUnknown => Ok (RE XMPP_EINVOP)
      | NText => match s_data n with
                 | None => Ok (RE XMPP_EINVOP)
                 | Some d => Ok (RT (format fmt_text [escape d]))
                 end
      | NTag =>
          match s_data n with
          | None => Ok (RE XMPP_EINVOP)
          | Some name =>
              c <- (if has_key (s_attrs n) xmlns_key
                    then (if top && render_root_is_top then Ok NoParent else parent_ctx h n)
                    else Ok NoParent) ;;
              let open := format fmt_open [name] ++
                          match s_attrs n with Some t => flat_map (attr_chunk c t) (hash_keys t) | None => [] end in
              match s_children n with
              | None => Ok (RT (open ++ fmt_empty))
              | Some ch =>
                  r <- render_loop f h (Some ch) ;;
                  match r with
                  | RT body => Ok (RT (open ++ fmt_gt ++ body ++ format fmt_close [name]))
                  | RE e => Ok (RE e)
                  end
              end
          end
      end
  end
with render_loop (fuel : nat) (h : sheap) (child : option nat) {struct fuel} : res rout :=
  match child with
  | None => Ok (RT [])
  | Some c =>
      match fuel with
      | O => Fuel
      | S f =>
          r <- render f h false c ;;
          match r with
          | RE e => Ok (RE e)
          | RT s =>
              nc <- rd h c ;;
              r2 <- render_loop f h (s_next nc) ;;
              match r2 with
              | RT s2 => Ok (RT (s ++ s2))
              | RE e => Ok (RE e)
              end
          end
      end
  end.

Definition to_text (h : sheap) (i : nat) : res rout := render (fuel_of h) h true i.

(* ------------------------------------------------------------------------------------ *)
(* walks over xmpp_stanza_get_children / xmpp_stanza_get_next, and the parent pointer      *)
(* ------------------------------------------------------------------------------------ *)
(* the ids of the subtree below i in document order (every visited stanza is dereferenced) *)
Fixpoint subtree (fuel : nat) (h : sheap) (i : nat) {struct fuel} : res (list nat) :=
  match fuel with
  | O => Fuel
  | S f =>
      n <- rd h i ;;
      l <- subtree_loop f h (s_children n) ;;
      Ok (i :: l)
  end
with subtree_loop (fuel : nat) (h : sheap) (child : option nat) {struct fuel} : res (list nat) :=
  match child with
  | None => Ok []
  | Some c =>
      match fuel with
      | O => Fuel
      | S f =>
          l1 <- subtree f h c ;;
          nc <- rd h c ;;
          l2 <- subtree_loop f h (s_next nc) ;;
          Ok (l1 ++ l2)
      end
  end.

(* walk: (1 if stanza->parent is set, after dereferencing it, else 0; number of stanzas below and including i) *)
Definition walk (h : sheap) (i : nat) : res (Z * Z) :=
  n <- rd h i ;;
  up <- match s_parent n with
        | None => Ok 0
        | Some p => pn <- rd h p ;; Ok 1
        end ;;
  l <- subtree (fuel_of h) h i ;;
  Ok (up, zlen l).

(* c = xmpp_stanza_get_children(s); k times c = xmpp_stanza_get_next(c) *)
Fixpoint nth_sib (k : nat) (h : sheap) (c : option nat) : res (option nat) :=
  match c with
  | None => Ok None
  | Some i =>
      match k with
      | O => Ok (Some i)
      | S k' => n <- rd h i ;; nth_sib k' h (s_next n)
      end
  end.

Definition nth_child (h : sheap) (i : nat) (k : nat) : res (option nat) :=
  n <- rd h i ;; nth_sib k h (s_children n).

(* ------------------------------------------------------------------------------------ *)
(* xmpp_stanza_copy                                                                       *)
(* ------------------------------------------------------------------------------------ *)
(* _stanza_copy_attributes(copy, stanza) when stanza->attributes != NULL;  None = "goto copy_error"
   (xmpp_stanza_set_attribute on a non-TAG copy returns XMPP_EINVOP, which xmpp_stanza_copy does not
   treat as an error; the copy then has no attributes) *)
Definition copy_attrs_of (ty : ntype) (a : attrs) : option attrs :=
  match a with
  | None => Some None
  | Some _ => match ty with NTag => copy_attrs a | _ => Some None end
  end.

(* returns the new heap and the copy (None = NULL) *)
Fixpoint copy (fx : bool) (fuel : nat) (h : sheap) (i : nat) {struct fuel} : res (sheap * option nat) :=
  match fuel with
  | O => Fuel
  | S f =>
      n <- rd h i ;;
      let '(h0, cp) := stanza_new h in
      ncp <- rd h0 cp ;;
      match copy_attrs_of (s_type n) (s_attrs n) with
      | None => h' <- release fx (fuel_of h0) h0 cp ;; Ok (h', None)
      | Some a' =>
          let h1 := wr h0 cp (with_payload ncp (s_type n) (s_data n) a') in
          copy_loop fx f h1 cp None (s_children n)
      end
  end
with copy_loop (fx : bool) (fuel : nat) (h : sheap) (cp : nat) (tail : option nat) (child : option nat)
       {struct fuel} : res (sheap * option nat) :=
  match child with
  | None => Ok (h, Some cp)
  | Some c =>
      match fuel with
      | O => Fuel
      | S f =>
          r <- copy fx f h c ;;
          let '(h1, cc) := r in
          match cc with
          | None => h' <- release fx (fuel_of h1) h1 cp ;; Ok (h', None)
          | Some cc =>
              ncc <- rd h1 cc ;;
              let h2 := wr h1 cc (with_links ncc (Some cp) (s_children ncc) (s_next ncc) (s_prev ncc)) in
              h4 <- match tail with
                    | Some t =>
                        ncc2 <- rd h2 cc ;;
                        let h3 := wr h2 cc (with_links ncc2 (s_parent ncc2) (s_children ncc2) (s_next ncc2) (Some t)) in
                        nt <- rd h3 t ;;
                        Ok (wr h3 t (with_links nt (s_parent nt) (s_children nt) (Some cc) (s_prev nt)))
                    | None =>
                        ncp <- rd h2 cp ;;
                        Ok (wr h2 cp (with_links ncp (s_parent ncp) (Some cc) (s_next ncp) (s_prev ncp)))
                    end ;;
              nc <- rd h4 c ;;
              copy_loop fx f h4 cp (Some cc) (s_next nc)
          end
      end
  end.

Definition stanza_copy (fx : bool) (h : sheap) (i : nat) : res (sheap * option nat) := copy fx (fuel_of h) h i.

(* ------------------------------------------------------------------------------------ *)
(* xmpp_stanza_reply / xmpp_stanza_reply_error                                            *)
(* ------------------------------------------------------------------------------------ *)
Definition stanza_reply (fx : bool) (h : sheap) (i : nat) : res (sheap * option nat) :=
  from <- get_attribute h i k_from ;;
  match from with
  | None => Ok (h, None)
  | Some from =>
      n <- rd h i ;;
      let '(h0, cp) := stanza_new h in
      ncp <- rd h0 cp ;;
      match (match s_attrs n with Some _ => copy_attrs (s_attrs n) | None => Some None end) with
      | None => h' <- release fx (fuel_of h0) h0 cp ;; Ok (h', None)
      | Some a1 =>
          let h1 := wr h0 cp (with_payload ncp (s_type n) (s_data n) a1) in
          r1 <- del_attribute h1 cp (nth 0 reply_deleted []) ;;
          r2 <- del_attribute (fst r1) cp (nth 1 reply_deleted []) ;;
          r3 <- del_attribute (fst r2) cp (nth 2 reply_deleted []) ;;
          r4 <- set_attribute (fst r3) cp k_to from ;;
          if snd r4 =? XMPP_EOK then Ok (fst r4, Some cp)
          else h' <- release fx (fuel_of (fst r4)) (fst r4) cp ;; Ok (h', None)
      end
  end.

(* element := new; set_name; one attribute; add_child(parent, element); release(element) *)
Definition new_child_elem (fx : bool) (h : sheap) (parent : nat) (name key value : bstr) : res (sheap * nat) :=
  let '(h0, e) := stanza_new h in
  r1 <- set_name h0 e name ;;
  r2 <- set_attribute (fst r1) e key value ;;
  h3 <- add_child (fst r2) parent e true ;;
  h4 <- release fx (fuel_of h3) h3 e ;;
  Ok (h4, e).

(* error_type and condition are non-NULL (NULL arguments are refused before anything is touched) *)
Definition stanza_reply_error (fx : bool) (h : sheap) (i : nat) (error_type condition : bstr) (text : option bstr)
  : res (sheap * option nat) :=
  r <- stanza_reply fx h i ;;
  let '(h0, rp) := r in
  match rp with
  | None => Ok (h0, None)
  | Some reply =>
      r1 <- set_attribute h0 reply k_type (lit 0) ;;
      to <- get_attribute (fst r1) i k_to ;;
      r2 <- match to with
            | Some to => set_attribute (fst r1) reply k_from to
            | None => Ok (fst r1, XMPP_EOK)
            end ;;
      r3 <- new_child_elem fx (fst r2) reply (lit 1) k_type error_type ;;
      let '(h3, error) := r3 in
      r4 <- new_child_elem fx h3 error condition xmlns_key (lit 2) ;;
      let '(h4, _) := r4 in
      match text with
      | None => Ok (h4, Some reply)
      | Some txt =>
          r5 <- new_child_elem fx h4 error (lit 3) xmlns_key (lit 4) ;;
          let '(h5, item) := r5 in
          let '(h6, ts) := stanza_new h5 in
          r7 <- set_text h6 ts txt ;;
          h8 <- add_child (fst r7) item ts true ;;
          h9 <- release fx (fuel_of h8) h8 ts ;;
          Ok (h9, Some reply)
      end
  end.

(* ------------------------------------------------------------------------------------ *)
(* API programs: the user's handles live in numbered slots                                 *)
(* ------------------------------------------------------------------------------------ *)
Inductive sop : Type :=
| ONew (k : nat)
| OClone (k j : nat)                       (* slot j := xmpp_stanza_clone(slot k) *)
| OCopy (k j : nat)
| ORelease (k : nat)
| OAddChild (p c : nat) (do_clone : bool)  (* do_clone = false: ownership transferred, slot c is emptied *)
| OSetName (k : nat) (s : bstr)
| OSetText (k : nat) (s : bstr)
| OSetAttr (k : nat) (key v : bstr)
| ODelAttr (k : nat) (key : bstr)
| OToText (k : nat)
| OWalk (k : nat)
| OChild (k i j : nat)                     (* slot j := clone of the i-th child of slot k, if there is one *)
| OReply (k j : nat)
| OReplyErr (k j : nat) (ty cond : bstr) (text : option bstr).

Inductive sout : Type :=
| SRet (rc : Z)
| SHandle (nonnull : bool)
| SText (r : rout)
| SWalk (up down : Z)
| SBad            (* a slot is used that holds nothing / a target slot is occupied: skipped *)
| SUAF | SDoubleFree | SFuel.

Record sstate := mkSt { st_heap : sheap; st_slots : list (option nat) }.

Definition slot (st : sstate) (k : nat) : option nat := nth k (st_slots st) None.

Fixpoint slot_set (l : list (option nat)) (k : nat) (v : option nat) : list (option nat) :=
  match k, l with
  | O, [] => [v]
  | O, _ :: r => v :: r
  | S k', [] => None :: slot_set [] k' v
  | S k', x :: r => x :: slot_set r k' v
  end.

Definition put (st : sstate) (h : sheap) (k : nat) (v : option nat) : sstate := mkSt h (slot_set (st_slots st) k v).

Definition out_of_err {A} (r : res A) : sout :=
  match r with
  | Ok _ => SBad
  | UAF => SUAF
  | DoubleFree => SDoubleFree
  | Fuel => SFuel
  end.

(* one API call; None = the call crashed (UAF / DoubleFree / Fuel): the program stops *)
Definition step (fx : bool) (st : sstate) (o : sop) : option sstate * sout :=
  let h := st_heap st in
  let ret {A} (r : res A) (f : A -> sstate * sout) : option sstate * sout :=
      match r with Ok a => let '(s, o) := f a in (Some s, o) | _ => (None, out_of_err r) end in
  let bad := (Some st, SBad) in
  match o with
  | ONew k =>
      match slot st k with
      | Some _ => bad
      | None => let '(h', i) := stanza_new h in (Some (put st h' k (Some i)), SHandle true)
      end
  | OClone k j =>
      match slot st k, slot st j with
      | Some i, None => ret (stanza_clone h i) (fun h' => (put st h' j (Some i), SHandle true))
      | _, _ => bad
      end
  | OCopy k j =>
      match slot st k, slot st j with
      | Some i, None => ret (stanza_copy fx h i) (fun r => (put st (fst r) j (snd r), SHandle (if snd r then true else false)))
      | _, _ => bad
      end
  | ORelease k =>
      match slot st k with
      | Some i => ret (release fx (fuel_of h) h i) (fun h' => (put st h' k None, SRet (if live_count h' <? live_count h then 1 else 0)))
      | None => bad
      end
  | OAddChild p c do_clone =>
      match slot st p, slot st c with
      | Some ip, Some ic =>
          ret (add_child h ip ic do_clone)
              (fun h' => ((if do_clone then mkSt h' (st_slots st) else put st h' c None), SRet XMPP_EOK))
      | _, _ => bad
      end
  | OSetName k s =>
      match slot st k with
      | Some i => ret (set_name h i s) (fun r => (mkSt (fst r) (st_slots st), SRet (snd r)))
      | None => bad
      end
  | OSetText k s =>
      match slot st k with
      | Some i => ret (set_text h i s) (fun r => (mkSt (fst r) (st_slots st), SRet (snd r)))
      | None => bad
      end
  | OSetAttr k key v =>
      match slot st k with
      | Some i => ret (set_attribute h i key v) (fun r => (mkSt (fst r) (st_slots st), SRet (snd r)))
      | None => bad
      end
  | ODelAttr k key =>
      match slot st k with
      | Some i => ret (del_attribute h i key) (fun r => (mkSt (fst r) (st_slots st), SRet (snd r)))
      | None => bad
      end
  | OToText k =>
      match slot st k with
      | Some i => ret (to_text h i) (fun r => (st, SText r))
      | None => bad
      end
  | OWalk k =>
      match slot st k with
      | Some i => ret (walk h i) (fun r => (st, SWalk (fst r) (snd r)))
      | None => bad
      end
  | OChild k i j =>
      match slot st k, slot st j with
      | Some ik, None =>
          ret (c <- nth_child h ik i ;;
               match c with
               | None => Ok (h, None)
               | Some ic => h' <- stanza_clone h ic ;; Ok (h', Some ic)
               end)
              (fun r => (put st (fst r) j (snd r), SHandle (if snd r then true else false)))
      | _, _ => bad
      end
  | OReply k j =>
      match slot st k, slot st j with
      | Some i, None => ret (stanza_reply fx h i) (fun r => (put st (fst r) j (snd r), SHandle (if snd r then true else false)))
      | _, _ => bad
      end
  | OReplyErr k j ty cond text =>
      match slot st k, slot st j with
      | Some i, None => ret (stanza_reply_error fx h i ty cond text)
                            (fun r => (put st (fst r) j (snd r), SHandle (if snd r then true else false)))
      | _, _ => bad
      end
  end.

(* the outputs of a program with the number of live stanza objects after each call; stops at a crash *)
Fixpoint run_from (fx : bool) (st : sstate) (prog : list sop) : list (sout * Z) * option sstate :=
  match prog with
  | [] => ([], Some st)
  | o :: r =>
      match step fx st o with
      | (Some st', out) => let '(outs, fin) := run_from fx st' r in ((out, live_count (st_heap st')) :: outs, fin)
      | (None, out) => ([(out, live_count (st_heap st))], None)
      end
  end.

Definition init_state : sstate := mkSt [] [].
Definition run (fx : bool) (prog : list sop) : list (sout * Z) * option sstate := run_from fx init_state prog.

(* release every handle still held (what the driver does at the end of a program) *)
Fixpoint held_slots (l : list (option nat)) (k : nat) : list nat :=
  match l with
  | [] => []
  | Some _ :: r => k :: held_slots r (S k)
  | None :: r => held_slots r (S k)
  end.
Definition release_all_ops (st : sstate) : list sop := map ORelease (held_slots (st_slots st) 0).

(* ------------------------------------------------------------------------------------ *)
(* well-owned programs                                                                    *)
(* ------------------------------------------------------------------------------------ *)
(* The user only passes handles it currently holds a reference for, stores a returned handle in a free
   slot, and respects the one documented structural rule of xmpp_stanza_add_child[_ex]: the child has no
   parent (a stanza taken from another tree must be xmpp_stanza_copy'd first: "the returned stanza will
   have no parent and no siblings ... useful for extracting a child stanza for inclusion in another
   tree") and is not the new parent itself or one of its ancestors. *)
Definition holds (st : sstate) (k : nat) : bool := match slot st k with Some _ => true | None => false end.
Definition free_slot (st : sstate) (k : nat) : bool := match slot st k with Some _ => false | None => true end.

Definition attachable (h : sheap) (ip ic : nat) : bool :=
  match rd h ic with
  | Ok nc =>
      match s_parent nc with
      | Some _ => false
      | None =>
          match subtree (fuel_of h) h ic with
          | Ok l => negb (existsb (Nat.eqb ip) l)
          | _ => false
          end
      end
  | _ => false
  end.

Definition wo_step (st : sstate) (o : sop) : bool :=
  match o with
  | ONew k => free_slot st k
  | OClone k j | OCopy k j | OReply k j | OReplyErr k j _ _ _ | OChild k _ j => holds st k && free_slot st j
  | ORelease k | OSetName k _ | OSetText k _ | OSetAttr k _ _ | ODelAttr k _ | OToText k | OWalk k => holds st k
  | OAddChild p c _ =>
      match slot st p, slot st c with
      | Some ip, Some ic => attachable (st_heap st) ip ic
      | _, _ => false
      end
  end.

Fixpoint well_owned_from (fx : bool) (st : sstate) (prog : list sop) : bool :=
  match prog with
  | [] => true
  | o :: r =>
      wo_step st o &&
      match step fx st o with
      | (Some st', _) => well_owned_from fx st' r
      | (None, _) => true
      end
  end.
Definition well_owned (fx : bool) (prog : list sop) : bool := well_owned_from fx init_state prog.

(* ==================================================================================== *)
(* Abstract ownership model of the connection-lifetime objects                            *)
(* ==================================================================================== *)
(* Blocks are numbered; [Some owner] = allocated, [None] = returned to the allocator.  The owners:
   a connection object (its own block, send-queue elements, handler items and the userdata blocks the
   library allocated for them, e.g. the SCRAM context), an SM state object (its block and the
   elements of its SM queue), or the user (an SM state taken with xmpp_conn_get_sm_state).
   conn.c: xmpp_conn_new/clone/release, _conn_connect (allocates sm_state when absent), send_raw
   (queue element), the writer (moves a written element to the SM queue when SM is on, frees it
   otherwise), <a/> handling (frees acknowledged SM-queue elements), handler_add of a library
   handler with owned userdata, the handler finishing (frees its userdata, item removed),
   conn_disconnect + _conn_reset (frees the send queue and the library's handler items -- and, with
   fixes/C12-2, their userdata), xmpp_conn_get_sm_state / set_sm_state / xmpp_free_sm_state. *)
Inductive cowner : Type :=
| OwConn (c : nat)          (* owned by connection c (queue element, handler item, userdata) *)
| OwSm (s : nat).           (* owned by SM state s (SM-queue element) *)

Record cconn := mkC {
  c_ref : Z;
  c_connected : bool;
  c_queue : list nat;                      (* send queue: block ids *)
  c_handlers : list (nat * option nat);    (* library handler items: (item block, owned userdata block) *)
  c_sm : option nat }.                     (* conn->sm_state *)

Record cworld := mkW {
  w_blocks : list (option cowner);         (* queue / handler / userdata blocks *)
  w_conns : list (option cconn);           (* None = the connection object was freed *)
  w_sms : list (option (list nat));        (* SM state objects: their SM queue; None = freed *)
  w_user_conn : list nat;                  (* connection references held by the user (multiset) *)
  w_user_sm : list nat }.                  (* SM states held by the user *)

Inductive cop : Type :=
| CNew
| CClone (c : nat)
| CRelease (c : nat)
| CConnect (c : nat)
| CSend (c : nat)                (* one element appended to the send queue *)
| CWritten (c : nat)             (* the head of the send queue was written out *)
| CAck (c : nat)                 (* the server acknowledged the head of the SM queue *)
| CAddHandler (c : nat) (ud : bool)   (* library handler, with an owned userdata block or without *)
| CHandlerDone (c : nat)         (* the first library handler finished and removed itself *)
| CDisconnect (c : nat)
| CGetSm (c : nat)
| CSetSm (c s : nat)
| CFreeSm (s : nat).

Inductive cout : Type :=
| COk                      (* call carried out *)
| CRefused                 (* the library's own refusal (state not disconnected, state already set, nothing to take) *)
| CReleased (freed : bool) (* xmpp_conn_release: TRUE if the object was freed *)
| CBad                     (* not a well-owned call: skipped *)
| CUAF | CDoubleFree.

Definition w_conn (w : cworld) (c : nat) : option cconn :=
  match nth_error (w_conns w) c with Some (Some x) => Some x | _ => None end.

Definition balloc (w : cworld) (o : cowner) : cworld * nat :=
  (mkW (w_blocks w ++ [Some o]) (w_conns w) (w_sms w) (w_user_conn w) (w_user_sm w), length (w_blocks w)).

Definition bfree (bl : list (option cowner)) (b : nat) : res (list (option cowner)) :=
  match nth_error bl b with
  | Some (Some _) => Ok (set_nth b bl None)
  | _ => DoubleFree
  end.

Fixpoint bfree_all (bl : list (option cowner)) (bs : list nat) : res (list (option cowner)) :=
  match bs with
  | [] => Ok bl
  | b :: r => bl' <- bfree bl b ;; bfree_all bl' r
  end.

Definition bchown (bl : list (option cowner)) (b : nat) (o : cowner) : res (list (option cowner)) :=
  match nth_error bl b with
  | Some (Some _) => Ok (set_nth b bl (Some o))
  | _ => UAF
  end.

Definition set_conn (w : cworld) (c : nat) (x : option cconn) (bl : list (option cowner)) : cworld :=
  mkW bl (set_nth c (w_conns w) x) (w_sms w) (w_user_conn w) (w_user_sm w).

Fixpoint remove1 (x : nat) (l : list nat) : list nat :=
  match l with
  | [] => []
  | y :: r => if Nat.eqb x y then r else y :: remove1 x r
  end.

Definition handler_blocks (ud_freed : bool) (hs : list (nat * option nat)) : list nat :=
  flat_map (fun it => fst it :: (if ud_freed then match snd it with Some u => [u] | None => [] end else [])) hs.

(* xmpp_free_sm_state *)
Definition sm_free (w : cworld) (s : nat) : res cworld :=
  match nth_error (w_sms w) s with
  | Some (Some q) =>
      bl <- bfree_all (w_blocks w) q ;;
      Ok (mkW bl (w_conns w) (set_nth s (w_sms w) None) (w_user_conn w) (w_user_sm w))
  | _ => DoubleFree
  end.

(* conn_disconnect + _conn_reset; fx2 = true: the library's handler userdata is freed with the item (fixes/C12-2) *)
Definition conn_reset (fx2 : bool) (w : cworld) (c : nat) (x : cconn) : res cworld :=
  bl <- bfree_all (w_blocks w) (c_queue x) ;;
  bl2 <- bfree_all bl (handler_blocks fx2 (c_handlers x)) ;;
  Ok (set_conn w c (Some (mkC (c_ref x) false [] [] (c_sm x))) bl2).

Definition cstep (fx2 : bool) (w : cworld) (o : cop) : option cworld * cout :=
  let ret (r : res cworld) (out : cout) : option cworld * cout :=
      match r with Ok w' => (Some w', out) | UAF => (None, CUAF) | DoubleFree => (None, CDoubleFree) | Fuel => (None, CBad) end in
  let bad := (Some w, CBad) in
  let held c := existsb (Nat.eqb c) (w_user_conn w) in
  match o with
  | CNew =>
      let c := length (w_conns w) in
      (Some (mkW (w_blocks w) (w_conns w ++ [Some (mkC 1 false [] [] None)]) (w_sms w) (c :: w_user_conn w) (w_user_sm w)), COk)
  | CClone c =>
      if held c then
        match w_conn w c with
        | Some x => (Some (mkW (w_blocks w) (set_nth c (w_conns w) (Some (mkC (c_ref x + 1) (c_connected x) (c_queue x) (c_handlers x) (c_sm x))))
                               (w_sms w) (c :: w_user_conn w) (w_user_sm w)), COk)
        | None => (None, CUAF)
        end
      else bad
  | CRelease c =>
      if held c then
        match w_conn w c with
        | None => (None, CUAF)
        | Some x =>
            let uc := remove1 c (w_user_conn w) in
            if 1 <? c_ref x then
              (Some (mkW (w_blocks w) (set_nth c (w_conns w) (Some (mkC (c_ref x - 1) (c_connected x) (c_queue x) (c_handlers x) (c_sm x))))
                         (w_sms w) uc (w_user_sm w)), CReleased false)
            else
              ret (w1 <- conn_reset fx2 w c x ;;
                   w2 <- match c_sm x with Some s => sm_free w1 s | None => Ok w1 end ;;
                   match w_conn w2 c with
                   | Some _ => Ok (mkW (w_blocks w2) (set_nth c (w_conns w2) None) (w_sms w2) uc (w_user_sm w2))
                   | None => DoubleFree
                   end) (CReleased true)
        end
      else bad
  | CConnect c =>
      if held c then
        match w_conn w c with
        | None => (None, CUAF)
        | Some x =>
            if c_connected x then (Some w, CRefused)
            else
              match c_sm x with
              | Some _ => (Some (set_conn w c (Some (mkC (c_ref x) true (c_queue x) (c_handlers x) (c_sm x))) (w_blocks w)), COk)
              | None =>
                  let s := length (w_sms w) in
                  (Some (mkW (w_blocks w) (set_nth c (w_conns w) (Some (mkC (c_ref x) true (c_queue x) (c_handlers x) (Some s))))
                             (w_sms w ++ [Some []]) (w_user_conn w) (w_user_sm w)), COk)
              end
        end
      else bad
  | CSend c =>
      if held c then
        match w_conn w c with
        | None => (None, CUAF)
        | Some x =>
            if c_connected x then
              let '(w1, b) := balloc w (OwConn c) in
              (Some (set_conn w1 c (Some (mkC (c_ref x) true (c_queue x ++ [b]) (c_handlers x) (c_sm x))) (w_blocks w1)), COk)
            else (Some w, CRefused)
        end
      else bad
  | CWritten c =>
      if held c then
        match w_conn w c with
        | None => (None, CUAF)
        | Some x =>
            match c_connected x, c_queue x, c_sm x with
            | true, b :: q, Some s =>
                match nth_error (w_sms w) s with
                | Some (Some smq) =>
                    ret (bl <- bchown (w_blocks w) b (OwSm s) ;;
                         Ok (mkW bl (set_nth c (w_conns w) (Some (mkC (c_ref x) true q (c_handlers x) (c_sm x))))
                                 (set_nth s (w_sms w) (Some (smq ++ [b]))) (w_user_conn w) (w_user_sm w))) COk
                | _ => (None, CUAF)
                end
            | _, _, _ => (Some w, CRefused)
            end
        end
      else bad
  | CAck c =>
      if held c then
        match w_conn w c with
        | None => (None, CUAF)
        | Some x =>
            match c_connected x, c_sm x with
            | true, Some s =>
                match nth_error (w_sms w) s with
                | Some (Some (b :: smq)) =>
                    ret (bl <- bfree (w_blocks w) b ;;
                         Ok (mkW bl (w_conns w) (set_nth s (w_sms w) (Some smq)) (w_user_conn w) (w_user_sm w))) COk
                | Some (Some []) => (Some w, CRefused)
                | _ => (None, CUAF)
                end
            | _, _ => (Some w, CRefused)
            end
        end
      else bad
  | CAddHandler c ud =>
      if held c then
        match w_conn w c with
        | None => (None, CUAF)
        | Some x =>
            if c_connected x then
              let '(w1, it) := balloc w (OwConn c) in
              let '(w2, u) := if ud then (let '(w2, u) := balloc w1 (OwConn c) in (w2, Some u)) else (w1, None) in
              (Some (set_conn w2 c (Some (mkC (c_ref x) true (c_queue x) (c_handlers x ++ [(it, u)]) (c_sm x))) (w_blocks w2)), COk)
            else (Some w, CRefused)
        end
      else bad
  | CHandlerDone c =>
      if held c then
        match w_conn w c with
        | None => (None, CUAF)
        | Some x =>
            match c_connected x, c_handlers x with
            | true, (it, u) :: hs =>
                ret (bl <- bfree_all (w_blocks w) (it :: match u with Some u => [u] | None => [] end) ;;
                     Ok (set_conn w c (Some (mkC (c_ref x) true (c_queue x) hs (c_sm x))) bl)) COk
            | _, _ => (Some w, CRefused)
            end
        end
      else bad
  | CDisconnect c =>
      if held c then
        match w_conn w c with
        | None => (None, CUAF)
        | Some x => if c_connected x then ret (conn_reset fx2 w c x) COk else (Some w, CRefused)
        end
      else bad
  | CGetSm c =>
      if held c then
        match w_conn w c with
        | None => (None, CUAF)
        | Some x =>
            match c_connected x, c_sm x with
            | false, Some s =>
                (Some (mkW (w_blocks w) (set_nth c (w_conns w) (Some (mkC (c_ref x) false (c_queue x) (c_handlers x) None)))
                           (w_sms w) (w_user_conn w) (s :: w_user_sm w)), COk)
            | _, _ => (Some w, CRefused)
            end
        end
      else bad
  | CSetSm c s =>
      if held c && existsb (Nat.eqb s) (w_user_sm w) then
        match w_conn w c with
        | None => (None, CUAF)
        | Some x =>
            match c_connected x, c_sm x with
            | false, None =>
                (Some (mkW (w_blocks w) (set_nth c (w_conns w) (Some (mkC (c_ref x) false (c_queue x) (c_handlers x) (Some s))))
                           (w_sms w) (w_user_conn w) (remove1 s (w_user_sm w))), COk)
            | _, _ => (Some w, CRefused)
            end
        end
      else bad
  | CFreeSm s =>
      if existsb (Nat.eqb s) (w_user_sm w) then
        ret (w1 <- sm_free w s ;;
             Ok (mkW (w_blocks w1) (w_conns w1) (w_sms w1) (w_user_conn w1) (remove1 s (w_user_sm w1)))) COk
      else bad
  end.

Definition cinit : cworld := mkW [] [] [] [] [].

Fixpoint crun_from (fx2 : bool) (w : cworld) (prog : list cop) : list cout * option cworld :=
  match prog with
  | [] => ([], Some w)
  | o :: r =>
      match cstep fx2 w o with
      | (Some w', out) => let '(outs, fin) := crun_from fx2 w' r in (out :: outs, fin)
      | (None, out) => ([out], None)
      end
  end.
Definition crun (fx2 : bool) (prog : list cop) := crun_from fx2 cinit prog.

(* everything the allocator still holds: blocks, connection objects, SM state objects *)
Definition clive (w : cworld) : Z :=
  zlen (filter (fun c => match c with Some _ => true | None => false end) (w_blocks w)) +
  zlen (filter (fun c => match c with Some _ => true | None => false end) (w_conns w)) +
  zlen (filter (fun c => match c with Some _ => true | None => false end) (w_sms w)).
