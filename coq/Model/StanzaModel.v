(* Executable model of src/stanza.c (rendering, escaping, copy, reply helpers) and of the
   attribute storage of src/hash.c.  Definitions only, no proofs.
   Constants, format strings and tables come from Gen_stanza (regenerated from the C source
   on every run). *)
Require Import LV.Common.Bytes LV.Gen.Gen_stanza.
Local Open Scope Z_scope.

Definition bstr := list Z.

Fixpoint beq (a b : bstr) : bool :=
  match a, b with
  | [], [] => true
  | x :: a', y :: b' => (x =? y) && beq a' b'
  | _, _ => false
  end.

(* ------------------------------------------------------------------------------------ *)
(* hash.c : chained hash table with `length` buckets                                     *)
(* ------------------------------------------------------------------------------------ *)
Record htable := mkH { h_len : Z; h_entries : list (list (bstr * bstr)) }.

(* _hash_key: hash ^= (unsigned)*c++ << shift; shift += 8; if (shift > 24) shift = 0 *)
Fixpoint hash_acc (key : bstr) (hash shift : Z) : Z :=
  match key with
  | [] => hash
  | c :: r =>
      let hash' := Z.lxor hash ((c * 2 ^ shift) mod 4294967296) in
      let shift' := shift + 8 in
      hash_acc r hash' (if 24 <? shift' then 0 else shift')
  end.
Definition hash_key (t : htable) (key : bstr) : Z := hash_acc key 0 0 mod h_len t.

Definition hash_new (size : Z) : htable := mkH size (repeat [] (Z.to_nat size)).

Definition bucket (t : htable) (i : Z) : list (bstr * bstr) := nth (Z.to_nat i) (h_entries t) [].

Fixpoint set_nth {A} (n : nat) (l : list A) (x : A) : list A :=
  match l, n with
  | [], _ => []
  | _ :: r, O => x :: r
  | y :: r, S k => y :: set_nth k r x
  end.

(* _hash_entry_find on one chain *)
Fixpoint chain_find (ch : list (bstr * bstr)) (key : bstr) : option bstr :=
  match ch with
  | [] => None
  | (k, v) :: r => if beq key k then Some v else chain_find r key
  end.
Definition hash_get (t : htable) (key : bstr) : option bstr :=
  chain_find (bucket t (hash_key t key)) key.

Fixpoint chain_replace (ch : list (bstr * bstr)) (key v : bstr) : list (bstr * bstr) :=
  match ch with
  | [] => []
  | (k, x) :: r => if beq key k then (k, v) :: r else (k, x) :: chain_replace r key v
  end.

(* hash_add: replace the value of an equal key in place, otherwise insert at the chain head *)
Definition hash_add (t : htable) (key v : bstr) : htable :=
  let i := hash_key t key in
  let ch := bucket t i in
  match chain_find ch key with
  | None => mkH (h_len t) (set_nth (Z.to_nat i) (h_entries t) ((key, v) :: ch))
  | Some _ => mkH (h_len t) (set_nth (Z.to_nat i) (h_entries t) (chain_replace ch key v))
  end.

Fixpoint chain_remove (ch : list (bstr * bstr)) (key : bstr) : option (list (bstr * bstr)) :=
  match ch with
  | [] => None
  | (k, x) :: r =>
      if beq key k then Some r
      else match chain_remove r key with Some r' => Some ((k, x) :: r') | None => None end
  end.

(* hash_drop: (table, 0) or (table, -1) when the key is absent *)
Definition hash_drop (t : htable) (key : bstr) : htable * Z :=
  let i := hash_key t key in
  match chain_remove (bucket t i) key with
  | Some ch' => (mkH (h_len t) (set_nth (Z.to_nat i) (h_entries t) ch'), 0)
  | None => (t, -1)
  end.

(* hash_iter_next: bucket by bucket, each chain from its head *)
Definition hash_items (t : htable) : list (bstr * bstr) := concat (h_entries t).
Definition hash_keys (t : htable) : list bstr := map fst (hash_items t).
Definition hash_num_keys (t : htable) : Z := zlen (hash_items t).

(* ------------------------------------------------------------------------------------ *)
(* stanza attributes: NULL or a table of attr_hash_size buckets                           *)
(* ------------------------------------------------------------------------------------ *)
Definition attrs := option htable.

Definition attr_get (a : attrs) (key : bstr) : option bstr :=
  match a with Some t => hash_get t key | None => None end.

(* xmpp_stanza_set_attribute on a TAG stanza *)
Definition attr_set (a : attrs) (key v : bstr) : attrs :=
  let t := match a with Some t => t | None => hash_new attr_hash_size end in
  Some (hash_add t key v).

(* xmpp_stanza_del_attribute on a TAG stanza *)
Definition attr_del (a : attrs) (key : bstr) : attrs * Z :=
  match a with
  | None => (None, -1)
  | Some t => let '(t', rc) := hash_drop t key in (Some t', rc)
  end.

Definition k_id : bstr := [105; 100].
Definition k_to : bstr := [116; 111].
Definition k_from : bstr := [102; 114; 111; 109].
Definition k_type : bstr := [116; 121; 112; 101].

(* ------------------------------------------------------------------------------------ *)
(* the DOM                                                                                *)
(* ------------------------------------------------------------------------------------ *)
Inductive tree : Type :=
| Unk (children : list tree)                            (* XMPP_STANZA_UNKNOWN, data == NULL; children may already be attached *)
| Text (s : bstr)
| Tag (name : bstr) (a : attrs) (children : list tree).

Definition XMPP_EOK : Z := 0.
Definition XMPP_EMEM : Z := -1.
Definition XMPP_EINVOP : Z := -2.

(* ------------------------------------------------------------------------------------ *)
(* cell buffers (None = never written)                                                    *)
(* ------------------------------------------------------------------------------------ *)
Definition cells := list (option Z).

(* overwrite the first |s| cells; None = the run does not fit *)
Fixpoint zwrite (rest : cells) (s : bstr) {struct s} : option cells :=
  match s with
  | [] => Some rest
  | c :: s' =>
      match rest with
      | [] => None
      | _ :: r => match zwrite r s' with Some r' => Some (Some c :: r') | None => None end
      end
  end.

Fixpoint wr_at (n : nat) (buf : cells) (s : bstr) : option cells :=
  match n with
  | O => zwrite buf s
  | S k => match buf with
           | [] => None
           | c :: r => match wr_at k r s with Some r' => Some (c :: r') | None => None end
           end
  end.

(* checked write of a run of bytes at offset p; None = outside the allocation *)
Definition wr_bytes (buf : cells) (p : Z) (s : bstr) : option cells :=
  if p <? 0 then None else wr_at (Z.to_nat p) buf s.

(* the C string starting at the first cell: None when an unwritten cell or the end of the
   allocation is met before a terminator *)
Fixpoint cstring (buf : cells) : option bstr :=
  match buf with
  | [] => None
  | None :: _ => None
  | Some c :: r => if c =? 0 then Some [] else
                   match cstring r with Some s => Some (c :: s) | None => None end
  end.

(* ------------------------------------------------------------------------------------ *)
(* _escape_xml                                                                            *)
(* ------------------------------------------------------------------------------------ *)
Fixpoint lookup {B} (tbl : list (Z * B)) (c : Z) : option B :=
  match tbl with
  | [] => None
  | (k, v) :: r => if c =? k then Some v else lookup r c
  end.

(* the functional reading of the fill pass *)
Definition esc1 (c : Z) : bstr := match lookup esc_table c with Some e => e | None => [c] end.
Fixpoint escape (s : bstr) : bstr :=
  match s with
  | [] => []
  | c :: r => esc1 c ++ escape r
  end.

(* first pass: len *)
Definition esc_len1 (c : Z) : Z := match lookup esc_len_table c with Some n => n | None => 1 end.
Fixpoint esc_len (s : bstr) (len : Z) : Z :=
  match s with
  | [] => len
  | c :: r => esc_len r (len + esc_len1 c)
  end.

(* second pass over the (len+1)-byte allocation.  The allocation and the moving pointer dst are kept as
   a zipper: `done` holds the cells below dst (nearest first), `rest` the cells from dst to the end of
   the allocation.  A write beyond the end of `rest` is outside the allocation. *)
(* dst += n *)
Fixpoint zadvance (n : nat) (done rest : cells) : option (cells * cells) :=
  match n with
  | O => Some (done, rest)
  | S k => match rest with
           | [] => None
           | c :: r => zadvance k (c :: done) r
           end
  end.

Fixpoint esc_fill (s : bstr) (done rest : cells) : option (cells * cells) :=
  match s with
  | [] => Some (done, rest)
  | c :: r =>
      match lookup esc_table c with
      | Some ent =>
          (* strcpy(dst, ent) writes the terminator too; dst += N *)
          match zwrite rest (ent ++ [0]) with
          | None => None
          | Some rest' =>
              match zadvance (Z.to_nat (match lookup esc_adv_table c with Some a => a | None => 0 end)) done rest' with
              | None => None
              | Some (d', r') => esc_fill r d' r'
              end
          end
      | None =>
          (* *dst = *src; dst++ *)
          match zwrite rest [c] with
          | None => None
          | Some rest' =>
              match zadvance 1 done rest' with
              | None => None
              | Some (d', r') => esc_fill r d' r'
              end
          end
      end
  end.

Inductive eres : Type :=
| EOk (s : bstr)      (* the returned C string *)
| EOOB                (* a write outside the len+1 bytes *)
| EUninit.            (* the result is not a terminated, fully written string *)

Definition escape_xml (s : bstr) : eres :=
  let len := esc_len s 0 in
  let buf := repeat None (Z.to_nat (len + 1)) in
  match esc_fill s [] buf with
  | None => EOOB
  | Some (done, rest) =>
      match zwrite rest [0] with
      | None => EOOB
      | Some rest' => match cstring (rev_append done rest') with Some str => EOk str | None => EUninit end
      end
  end.

(* ------------------------------------------------------------------------------------ *)
(* snprintf / _render_update                                                              *)
(* ------------------------------------------------------------------------------------ *)
(* "%s" substitution *)
Fixpoint format (f : bstr) (args : list bstr) : bstr :=
  match f with
  | 37 :: 115 :: r =>
      match args with
      | a :: args' => a ++ format r args'
      | [] => format r []
      end
  | c :: r => c :: format r args
  | [] => []
  end.

Definition fmt_text : bstr := nth 0 render_formats [].
Definition fmt_open : bstr := nth 1 render_formats [].
Definition fmt_attr : bstr := nth 2 render_formats [].
Definition fmt_empty : bstr := nth 3 render_formats [].
Definition fmt_gt : bstr := nth 4 render_formats [].
Definition fmt_close : bstr := nth 5 render_formats [].

Inductive rres (A : Type) : Type :=
| ROk (a : A)
| RErr (code : Z)     (* the function's own error return *)
| ROOB                (* write outside the buffer *)
| RCrash              (* NULL dereference *)
| RUninit.
Arguments ROk {A} a.
Arguments RErr {A} code.
Arguments ROOB {A}.
Arguments RCrash {A}.
Arguments RUninit {A}.

Definition rbind {A B} (x : rres A) (f : A -> rres B) : rres B :=
  match x with
  | ROk a => f a
  | RErr e => RErr e
  | ROOB => ROOB
  | RCrash => RCrash
  | RUninit => RUninit
  end.

(* snprintf(ptr, left, ..) of the already formatted string s: writes min(left-1, |s|) bytes
   and a terminator when left > 0, nothing when left == 0; returns |s|.
   (int results are not reduced modulo 2^31: rendered sizes are assumed below INT_MAX) *)
Definition snprintf (buf : cells) (ptr : option Z) (left : Z) (s : bstr) : rres (cells * Z) :=
  if left =? 0 then ROk (buf, zlen s)
  else match ptr with
       | None => RCrash
       | Some p =>
           let k := Z.min (left - 1) (zlen s) in
           match wr_bytes buf p (firstn (Z.to_nat k) s ++ [0]) with
           | None => ROOB
           | Some b => ROk (b, zlen s)
           end
       end.

Record rstate := mkR { r_buf : cells; r_ptr : option Z; r_left : Z; r_written : Z }.

(* _render_update(&written, length, lastwrite, &left, &ptr); left is a size_t *)
Definition render_update (st : rstate) (length lastwrite : Z) (b : cells) : rstate :=
  let written := r_written st + lastwrite in
  if length <=? written then mkR b None 0 written
  else mkR b (option_map (fun p => p + lastwrite) (r_ptr st))
           ((r_left st - lastwrite) mod 18446744073709551616) written.

(* ret = snprintf(ptr, left, ...); _render_update(&written, buflen, ret, &left, &ptr) *)
Definition emit (buflen : Z) (st : rstate) (s : bstr) : rres rstate :=
  match snprintf (r_buf st) (r_ptr st) (r_left st) s with
  | ROk (b, ret) => ROk (render_update st buflen ret b)
  | RErr e => RErr e
  | ROOB => ROOB
  | RCrash => RCrash
  | RUninit => RUninit
  end.

(* tmp = _escape_xml(raw); snprintf(ptr, left, f, pre..., tmp) *)
Definition emit_escaped (buflen : Z) (st : rstate) (f : bstr) (pre : list bstr) (raw : bstr) : rres rstate :=
  match escape_xml raw with
  | EOk e => emit buflen st (format f (pre ++ [e]))
  | EOOB => ROOB
  | EUninit => RUninit
  end.

(* what _render_stanza_recursive sees of the parent *)
Inductive pctx : Type :=
| NoParent                              (* stanza->parent == NULL *)
| Parent (pxmlns : option bstr).        (* the parent's own "xmlns" attribute, if any *)

Definition elide_xmlns (c : pctx) (key val : bstr) : bool :=
  if beq key xmlns_key then
    match c with
    | Parent (Some pv) => beq val pv
    | Parent None => false
    | NoParent => beq val top_elided_ns
    end
  else false.

Fixpoint render_attrs (c : pctx) (t : htable) (keys : list bstr) (buflen : Z) (st : rstate) : rres rstate :=
  match keys with
  | [] => ROk st
  | key :: r =>
      match hash_get t key with
      | None => RCrash
      | Some v =>
          if elide_xmlns c key v then render_attrs c t r buflen st
          else rbind (emit_escaped buflen st fmt_attr [key] v) (render_attrs c t r buflen)
      end
  end.

Definition child_ctx (a : attrs) : pctx := Parent (attr_get a xmlns_key).

(* the loop over the children: ret = _render_stanza_recursive(child, ptr, left); _render_update(..) *)
Section RenderList.
  Variable f : tree -> cells -> option Z -> Z -> rres (cells * Z).
  Fixpoint render_list (cs : list tree) (buflen : Z) (st : rstate) {struct cs} : rres rstate :=
    match cs with
    | [] => ROk st
    | ch :: r =>
        match f ch (r_buf st) (r_ptr st) (r_left st) with
        | ROk (b, ret) => render_list r buflen (render_update st buflen ret b)
        | RErr e => RErr e
        | ROOB => ROOB
        | RCrash => RCrash
        | RUninit => RUninit
        end
    end.
End RenderList.

Definition rdone (st : rstate) : rres (cells * Z) := ROk (r_buf st, r_written st).

Fixpoint render_rec (c : pctx) (t : tree) (buf : cells) (ptr : option Z) (buflen : Z) {struct t}
  : rres (cells * Z) :=
  let st0 := mkR buf ptr buflen 0 in
  match t with
  | Unk _ => RErr XMPP_EINVOP
  | Text s => rbind (emit_escaped buflen st0 fmt_text [] s) rdone
  | Tag name a children =>
      rbind (emit buflen st0 (format fmt_open [name])) (fun st1 =>
      rbind (match a with
             | Some h => if 0 <? hash_num_keys h then render_attrs c h (hash_keys h) buflen st1 else ROk st1
             | None => ROk st1
             end) (fun st2 =>
      match children with
      | [] => rbind (emit buflen st2 fmt_empty) rdone
      | _ :: _ =>
          rbind (emit buflen st2 fmt_gt) (fun st3 =>
          rbind (render_list (render_rec (child_ctx a)) children buflen st3) (fun st4 =>
          rbind (emit buflen st4 (format fmt_close [name])) rdone))
      end))
  end.

(* ------------------------------------------------------------------------------------ *)
(* xmpp_stanza_to_text                                                                    *)
(* ------------------------------------------------------------------------------------ *)
Inductive tres : Type :=
| TOk (buf : cells) (len : Z)      (* the returned allocation and *buflen *)
| TErr (code : Z)
| TOOB
| TCrash
| TUninit.

(* strophe_realloc: the old content is kept, new bytes are unwritten *)
Definition realloc (b : cells) (n : Z) : cells :=
  firstn (Z.to_nat n) b ++ repeat None (Z.to_nat n - length b).

Definition tt_finish (b : cells) (length ret : Z) : tres :=
  match wr_bytes b (length - 1) [0] with
  | Some b' => TOk b' ret
  | None => TOOB
  end.

Definition to_text (c : pctx) (t : tree) : tres :=
  let length := stanza_init_buf in
  let buffer := repeat None (Z.to_nat length) in
  match render_rec c t buffer (Some 0) length with
  | RErr e => TErr e
  | ROOB => TOOB
  | RCrash => TCrash
  | RUninit => TUninit
  | ROk (buffer1, ret) =>
      if length - 1 <? ret then
        let length2 := ret + 1 in
        let buffer2 := realloc buffer1 length2 in
        match render_rec c t buffer2 (Some 0) length2 with
        | ROk (buffer3, ret2) =>
            if length2 - 1 <? ret2 then TErr XMPP_EMEM else tt_finish buffer3 length2 ret2
        | RErr _ => TErr XMPP_EMEM         (* (size_t)ret > length - 1 for a negative ret *)
        | ROOB => TOOB
        | RCrash => TCrash
        | RUninit => TUninit
        end
      else tt_finish buffer1 length ret
  end.

(* the ideal, unbounded renderer *)
Definition attr_chunk (c : pctx) (h : htable) (key : bstr) : bstr :=
  match hash_get h key with
  | Some v => if elide_xmlns c key v then [] else format fmt_attr [key; escape v]
  | None => []
  end.

Fixpoint render (c : pctx) (t : tree) : bstr :=
  match t with
  | Unk _ => []
  | Text s => format fmt_text [escape s]
  | Tag name a children =>
      format fmt_open [name] ++
      match a with Some h => flat_map (attr_chunk c h) (hash_keys h) | None => [] end ++
      match children with
      | [] => fmt_empty
      | _ :: _ => fmt_gt ++ flat_map (render (child_ctx a)) children ++ format fmt_close [name]
      end
  end.

(* ------------------------------------------------------------------------------------ *)
(* xmpp_stanza_copy                                                                       *)
(* ------------------------------------------------------------------------------------ *)
(* _stanza_copy_attributes: iterate src, look each key up again, set it on dst.
   None = failure (XMPP_EINT) *)
Fixpoint copy_attrs_loop (src : htable) (keys : list bstr) (dst : attrs) : option attrs :=
  match keys with
  | [] => Some dst
  | k :: r =>
      match hash_get src k with
      | None => None
      | Some v => copy_attrs_loop src r (attr_set dst k v)
      end
  end.
Definition copy_attrs (a : attrs) : option attrs :=
  match a with
  | Some h => copy_attrs_loop h (hash_keys h) None
  | None => Some None
  end.

(* the loop over the children of xmpp_stanza_copy *)
Section CopyList.
  Variable f : tree -> option tree.
  Fixpoint copy_list (cs : list tree) : option (list tree) :=
    match cs with
    | [] => Some []
    | ch :: r =>
        match f ch with
        | None => None
        | Some ch' => match copy_list r with Some r' => Some (ch' :: r') | None => None end
        end
    end.
End CopyList.

(* None = NULL.  Children are copied whatever the type of the node is. *)
Fixpoint copy_tree (t : tree) : option tree :=
  match t with
  | Unk children =>
      match copy_list copy_tree children with
      | None => None
      | Some cs' => Some (Unk cs')
      end
  | Text s => Some (Text s)
  | Tag name a children =>
      match copy_attrs a with
      | None => None
      | Some a' =>
          match copy_list copy_tree children with
          | None => None
          | Some cs' => Some (Tag name a' cs')
          end
      end
  end.

(* ------------------------------------------------------------------------------------ *)
(* xmpp_stanza_reply / xmpp_stanza_reply_error / xmpp_error_new                           *)
(* ------------------------------------------------------------------------------------ *)
Definition tree_attr (t : tree) (key : bstr) : option bstr :=
  match t with Tag _ a _ => attr_get a key | _ => None end.

Definition stanza_reply (t : tree) : option tree :=
  match tree_attr t k_from with
  | None => None
  | Some from =>
      match t with
      | Tag name a _ =>
          match copy_attrs a with
          | None => None
          | Some a1 =>
              let a2 := fold_left (fun acc k => fst (attr_del acc k)) reply_deleted a1 in
              Some (Tag name (attr_set a2 k_to from) [])
          end
      | _ => None
      end
  end.

Definition lit (i : nat) : bstr := nth i reply_error_literals [].

(* error_type and condition are non-NULL here (NULL arguments are refused before anything else) *)
Definition stanza_reply_error (t : tree) (error_type condition : bstr) (text : option bstr) : option tree :=
  match stanza_reply t with
  | None => None
  | Some (Tag name a _) =>
      let a1 := attr_set a k_type (lit 0) in
      let a2 := match tree_attr t k_to with Some to => attr_set a1 k_from to | None => a1 end in
      let item := Tag condition (attr_set None xmlns_key (lit 2)) [] in
      let txt := match text with
                 | Some x => [Tag (lit 3) (attr_set None xmlns_key (lit 4)) [Text x]]
                 | None => []
                 end in
      let error := Tag (lit 1) (attr_set None k_type error_type) (item :: txt) in
      Some (Tag name a2 [error])
  | Some _ => None
  end.

Definition error_new (ty : Z) (text : option bstr) : tree :=
  let name := if (0 <=? ty) && (ty <? zlen stream_error_names)
              then nth (Z.to_nat ty) stream_error_names stream_error_default
              else stream_error_default in
  let cond := Tag name (attr_set None xmlns_key stream_error_ns) [] in
  let txt := match text with
             | Some x => [Tag stream_error_text_elem (attr_set None xmlns_key stream_error_ns) [Text x]]
             | None => []
             end in
  Tag stream_error_elem None (cond :: txt).

(* ------------------------------------------------------------------------------------ *)
(* reference semantics of the API (handles share nodes): a heap of nodes                  *)
(* ------------------------------------------------------------------------------------ *)
Inductive ntype : Type := NUnknown | NText | NTag.
Record node := mkN { n_type : ntype; n_data : bstr; n_attrs : attrs;
                     n_children : list nat; n_parent : option nat }.
Definition heap := list node.

Definition upd_node (h : heap) (id : nat) (f : node -> node) : heap :=
  match nth_error h id with
  | Some n => set_nth id h (f n)
  | None => h
  end.

(* the tree below a node; None = fuel exhausted (cyclic structure) or dangling id.
   (children hanging below a text node are never looked at by the renderer and are left out) *)
Section TreesOf.
  Variable f : nat -> option tree.
  Fixpoint trees_of (ids : list nat) : option (list tree) :=
    match ids with
    | [] => Some []
    | i :: r =>
        match f i with
        | None => None
        | Some t => match trees_of r with Some ts => Some (t :: ts) | None => None end
        end
    end.
End TreesOf.

Fixpoint tree_of (fuel : nat) (h : heap) (id : nat) : option tree :=
  match fuel with
  | O => None
  | S f =>
      match nth_error h id with
      | None => None
      | Some n =>
          match n_type n with
          | NText => Some (Text (n_data n))
          | NUnknown =>
              match trees_of (tree_of f h) (n_children n) with
              | None => None
              | Some cs => Some (Unk cs)
              end
          | NTag =>
              match trees_of (tree_of f h) (n_children n) with
              | None => None
              | Some cs => Some (Tag (n_data n) (n_attrs n) cs)
              end
          end
      end
  end.

(* fresh nodes for a tree (what xmpp_stanza_new + setters + add_child build) *)
Section AllocList.
  Variable f : heap -> tree -> heap * nat.
  Fixpoint alloc_list (cs : list tree) (hh : heap) : heap * list nat :=
    match cs with
    | [] => (hh, [])
    | ch :: r =>
        let '(h', i) := f hh ch in
        let '(h'', is) := alloc_list r h' in
        (h'', i :: is)
    end.
End AllocList.

Fixpoint alloc_tree (h : heap) (parent : option nat) (t : tree) : heap * nat :=
  let id := length h in
  match t with
  | Text s => (h ++ [mkN NText s None [] parent], id)
  | Unk children =>
      let h1 := h ++ [mkN NUnknown [] None [] parent] in
      let '(h2, ids) := alloc_list (fun hh ch => alloc_tree hh (Some id) ch) children h1 in
      (upd_node h2 id (fun n => mkN (n_type n) (n_data n) (n_attrs n) ids (n_parent n)), id)
  | Tag name a children =>
      let h1 := h ++ [mkN NTag name a [] parent] in
      let '(h2, ids) := alloc_list (fun hh ch => alloc_tree hh (Some id) ch) children h1 in
      (upd_node h2 id (fun n => mkN (n_type n) (n_data n) (n_attrs n) ids (n_parent n)), id)
  end.

Definition ctx_of (h : heap) (id : nat) : pctx :=
  match nth_error h id with
  | Some n =>
      match n_parent n with
      | Some p => match nth_error h p with
                  | Some pn => Parent (attr_get (n_attrs pn) xmlns_key)
                  | None => NoParent
                  end
      | None => NoParent
      end
  | None => NoParent
  end.

Fixpoint root_of (fuel : nat) (h : heap) (id : nat) : nat :=
  match fuel with
  | O => id
  | S f => match nth_error h id with
           | Some n => match n_parent n with Some p => root_of f h p | None => id end
           | None => id
           end
  end.

(* ------------------------------------------------------------------------------------ *)
(* API programs (the correspondence driver's language)                                    *)
(* ------------------------------------------------------------------------------------ *)
Inductive op : Type :=
| ONew (d : nat)
| OSetName (s : nat) (name : bstr)
| OSetText (s : nat) (text : bstr)
| OSetTextSize (s : nat) (text : bstr) (size : Z)      (* xmpp_stanza_set_text_with_size; size <= |text| *)
| OSetAttr (s : nat) (k v : bstr)
| OSetNs (s : nat) (v : bstr)
| OSetId (s : nat) (v : bstr)
| OSetTo (s : nat) (v : bstr)
| OSetFrom (s : nat) (v : bstr)
| OSetType (s : nat) (v : bstr)
| ODelAttr (s : nat) (k : bstr)
| OAddChild (p c : nat)
| OCopy (d s : nat)
| OReply (d s : nat)
| OReplyError (d s : nat) (ty cond : bstr) (text : option bstr)
| OErrorNew (d : nat) (ty : Z) (text : option bstr)
| OToText (s : nat)
| ODump (s : nat).

Inductive out : Type :=
| ORc (rc : Z)                       (* return code of a setter *)
| OSkip                              (* handle undefined / NULL, or add_child refused by the driver *)
| OHandle (null : bool)              (* a constructor returned NULL? *)
| OText (r : tres)
| OTree (t : option tree).

Record pstate := mkP { p_heap : heap; p_slots : list (option nat) }.

Definition slot (st : pstate) (s : nat) : option nat :=
  match nth_error (p_slots st) s with Some (Some id) => Some id | _ => None end.

Fixpoint set_slot (l : list (option nat)) (s : nat) (v : option nat) : list (option nat) :=
  match s, l with
  | O, [] => [v]
  | O, _ :: r => v :: r
  | S k, [] => None :: set_slot [] k v
  | S k, x :: r => x :: set_slot r k v
  end.

Definition fuel_of (h : heap) : nat := S (length h).

Definition set_attr_op (st : pstate) (s : nat) (k v : bstr) : pstate * out :=
  match slot st s with
  | None => (st, OSkip)
  | Some id =>
      match nth_error (p_heap st) id with
      | None => (st, OSkip)
      | Some n =>
          match n_type n with
          | NTag => (mkP (upd_node (p_heap st) id (fun n => mkN NTag (n_data n) (attr_set (n_attrs n) k v)
                                                               (n_children n) (n_parent n))) (p_slots st),
                     ORc XMPP_EOK)
          | _ => (st, ORc XMPP_EINVOP)
          end
      end
  end.

Definition set_text_op (st : pstate) (s : nat) (text : bstr) : pstate * out :=
  match slot st s with
  | None => (st, OSkip)
  | Some id =>
      match nth_error (p_heap st) id with
      | None => (st, OSkip)
      | Some n =>
          match n_type n with
          | NTag => (st, ORc XMPP_EINVOP)
          | _ => (mkP (upd_node (p_heap st) id (fun n => mkN NText text (n_attrs n) (n_children n) (n_parent n)))
                      (p_slots st), ORc XMPP_EOK)
          end
      end
  end.

Definition new_handle (st : pstate) (d : nat) (r : option tree) : pstate * out :=
  match r with
  | None => (mkP (p_heap st) (set_slot (p_slots st) d None), OHandle true)
  | Some t => let '(h', id) := alloc_tree (p_heap st) None t in
              (mkP h' (set_slot (p_slots st) d (Some id)), OHandle false)
  end.

Definition with_tree (st : pstate) (s : nat) (f : heap -> nat -> tree -> pstate * out) : pstate * out :=
  match slot st s with
  | None => (st, OSkip)
  | Some id =>
      match tree_of (fuel_of (p_heap st)) (p_heap st) id with
      | None => (st, OSkip)
      | Some t => f (p_heap st) id t
      end
  end.

Definition run_op (st : pstate) (o : op) : pstate * out :=
  match o with
  | ONew d =>
      let h := p_heap st in
      (mkP (h ++ [mkN NUnknown [] None [] None]) (set_slot (p_slots st) d (Some (length h))), OHandle false)
  | OSetName s name =>
      match slot st s with
      | None => (st, OSkip)
      | Some id =>
          match nth_error (p_heap st) id with
          | None => (st, OSkip)
          | Some n =>
              match n_type n with
              | NText => (st, ORc XMPP_EINVOP)
              | _ => (mkP (upd_node (p_heap st) id (fun n => mkN NTag name (n_attrs n) (n_children n) (n_parent n)))
                          (p_slots st), ORc XMPP_EOK)
              end
          end
      end
  | OSetText s text => set_text_op st s text
  | OSetTextSize s text size =>
      (* a fresh size+1 allocation, memcpy of the first size bytes, terminator: plain replacement *)
      set_text_op st s (firstn (Z.to_nat size) text)
  | OSetAttr s k v => set_attr_op st s k v
  | OSetNs s v => set_attr_op st s xmlns_key v
  | OSetId s v => set_attr_op st s k_id v
  | OSetTo s v => set_attr_op st s k_to v
  | OSetFrom s v => set_attr_op st s k_from v
  | OSetType s v => set_attr_op st s k_type v
  | ODelAttr s k =>
      match slot st s with
      | None => (st, OSkip)
      | Some id =>
          match nth_error (p_heap st) id with
          | None => (st, OSkip)
          | Some n =>
              match n_type n with
              | NTag => let '(a', rc) := attr_del (n_attrs n) k in
                        (mkP (upd_node (p_heap st) id (fun n => mkN NTag (n_data n) a' (n_children n) (n_parent n)))
                             (p_slots st), ORc rc)
              | _ => (st, ORc (-1))
              end
          end
      end
  | OAddChild p c =>
      match slot st p, slot st c with
      | Some pid, Some cid =>
          let h := p_heap st in
          match nth_error h cid with
          | None => (st, OSkip)
          | Some cn =>
              (* the driver only appends parent-less nodes that are not the root of the target's tree *)
              match n_parent cn with
              | Some _ => (st, OSkip)
              | None =>
                  if Nat.eqb (root_of (fuel_of h) h pid) cid then (st, OSkip)
                  else
                    let h1 := upd_node h pid (fun n => mkN (n_type n) (n_data n) (n_attrs n)
                                                           (n_children n ++ [cid]) (n_parent n)) in
                    let h2 := upd_node h1 cid (fun n => mkN (n_type n) (n_data n) (n_attrs n)
                                                            (n_children n) (Some pid)) in
                    (mkP h2 (p_slots st), ORc XMPP_EOK)
              end
          end
      | _, _ => (st, OSkip)
      end
  | OCopy d s => with_tree st s (fun _ _ t => new_handle st d (copy_tree t))
  | OReply d s => with_tree st s (fun _ _ t => new_handle st d (stanza_reply t))
  | OReplyError d s ty cond text =>
      with_tree st s (fun _ _ t => new_handle st d (stanza_reply_error t ty cond text))
  | OErrorNew d ty text => new_handle st d (Some (error_new ty text))
  | OToText s =>
      (* the stanza handed to xmpp_stanza_to_text is the top of the output; before the repair its own parent's
         xmlns was consulted (render_root_is_top = false) *)
      with_tree st s (fun h id t =>
        (st, OText (to_text (if render_root_is_top then NoParent else ctx_of h id) t)))
  | ODump s =>
      match slot st s with
      | None => (st, OSkip)
      | Some id => (st, OTree (tree_of (fuel_of (p_heap st)) (p_heap st) id))
      end
  end.

Fixpoint run_prog (st : pstate) (ops : list op) : list out :=
  match ops with
  | [] => []
  | o :: r => let '(st', x) := run_op st o in x :: run_prog st' r
  end.

Definition run (ops : list op) : list out := run_prog (mkP [] []) ops.
