(* C08 - TLS trust policy and result propagation.  Executable definitions only.

   Mirrors, of /repo/src:
     tls_openssl.c  tls_new (verify mode / callback / host pinning, defined over the calls the translator
                    finds in the source: Gen_tls), _tls_verify, tls_start
     conn.c         conn_tls_start, xmpp_conn_is_secured, conn_established (legacy SSL), xmpp_disconnect,
                    conn_disconnect, _disconnect_cleanup
     auth.c         _auth's tls_new probe, _handle_proceedtls_default
     event.c        the send phase of xmpp_run_once (queued data written through conn->intf, then
                    "if (conn->error) ... conn_disconnect")
   What OpenSSL does is NOT modelled: its per-chain-element verdicts (preverify_ok) are an input
   stream, and whether the handshake as such completes is an input.  The only thing written down about
   OpenSSL is the documented contract of the verify callback (ssl_verify / tls_start below): the walk
   stops at the first 0 answer; with SSL_VERIFY_PEER a failed verification aborts the handshake, with
   SSL_VERIFY_NONE the client continues regardless; without a callback OpenSSL keeps its own verdict. *)
From Coq Require Import List ZArith Bool.
Require Import LV.Gen.Gen_tls.
Import ListNotations.
Local Open Scope Z_scope.

(* ---------------------------------------------------------------- inputs *)
Inductive entry : Type := EStartTls | ELegacy.
(* the user's certfail handler: none, or a scripted answer for the i-th invocation *)
(*   or an answer that depends on which certificate it is shown (0 leaf, 1 intermediate, 2 root ...) *)
Inductive cbk : Type := CbNone | CbScript (answers : list Z) (dflt : Z) | CbByCert (answers : list (Z * Z)) (dflt : Z).
(* what the peer does after the client gave up *)
Inductive peer_after : Type := PeerCloses | PeerSilent.

Record scenario : Type := mkScenario {
  s_trust : bool;          (* XMPP_CONN_FLAG_TRUST_TLS *)
  s_cafile : bool;         (* xmpp_conn_set_cafile called *)
  s_capath : bool;         (* xmpp_conn_set_capath called *)
  s_cb_before : list cbk;  (* earlier xmpp_conn_set_certfail_handler calls on the same connection object, in order *)
  s_cb : cbk;              (* the last xmpp_conn_set_certfail_handler call (CbNone: NULL, or never called) *)
  s_entry : entry;
  s_mandatory : bool;      (* XMPP_CONN_FLAG_MANDATORY_TLS *)
  s_ssl_ok : bool;         (* tls_new's resources: allocation, SSL_CTX_new, default paths, SSL_new, SSL_set_fd *)
  s_ca_ok : bool;          (* SSL_CTX_load_verify_locations succeeds (only consulted when a CA location is set) *)
  s_stream : list (Z * Z); (* OpenSSL: (preverify_ok, which certificate the verdict is about) of each
                              verify-callback invocation, in order *)
  s_hs_ok : bool;          (* OpenSSL/peer: the handshake completes apart from the certificate verdict *)
  s_tls_err : Z;           (* tls->lasterror as tls_start leaves it: SSL_get_error of the last SSL_connect, or
                              SSL_ERROR_SYSCALL when libstrophe's own handshake deadline expired *)
  s_after : peer_after
}.

(* ---------------------------------------------------------------- vocabulary of the output trace *)
Inductive welem : Type := WHeader | WStartTls | WAuth | WBind | WClose.
Inductive derr : Type := ErrNone | ErrTls (e : Z) | ErrAborted | ErrPeer.
Inductive cstate : Type := Disconnected | Connected.

(* the configuration handed to OpenSSL *)
Record sslcfg : Type := mkCfg {
  v_mode : Z;              (* SSL_set_verify mode *)
  v_cb : Z;                (* 0 = no callback, 1 = _tls_verify, 9 = something else *)
  v_hostflags : Z;         (* X509_VERIFY_PARAM host flags *)
  v_host : bool;           (* reference identity pinned to conn->domain, and that is the configured JID's domain *)
  v_ca : bool;             (* SSL_CTX_load_verify_locations was called with the user's CA file / path *)
  v_clock : bool           (* verification time and flags untouched: validity is checked against the real clock *)
}.

Inductive out : Type :=
| OWire (tls : bool) (w : welem)          (* bytes handed to conn->intf.write; tls = which interface was active *)
| OTlsNew (probe : bool) (cfg : option sslcfg)
| OVerify (pre ret : Z)                   (* one invocation of the verify callback OpenSSL holds *)
| OCertfail (idx : nat) (shown ans : Z)   (* one invocation of the user's handler: the certificate it was shown *)
| OTlsStart (ok : bool)
| OTlsFree | OTlsStop | OSockClose
| OConnect (sec : bool)                   (* XMPP_CONN_CONNECT, with xmpp_conn_is_secured at that moment *)
| ODisconnect (sec : bool) (e : derr)
| OIs (sec : bool)                        (* xmpp_conn_is_secured polled after an event-loop iteration *)
| OCrash.                                 (* call through a NULL handler pointer *)

(* ---------------------------------------------------------------- connection object (the fields that matter) *)
Record conn : Type := mkConn {
  c_state : cstate;
  c_secured : bool;
  c_tls_failed : bool;
  c_tls : option sslcfg;        (* conn->tls *)
  c_intf_tls : bool;            (* conn->intf == tls_intf *)
  c_error : derr;               (* conn->error *)
  c_cbn : nat                   (* how often the user's handler has been called (state of the scripted user) *)
}.

Definition set_state v c := mkConn v (c_secured c) (c_tls_failed c) (c_tls c) (c_intf_tls c) (c_error c) (c_cbn c).
Definition set_secured v c := mkConn (c_state c) v (c_tls_failed c) (c_tls c) (c_intf_tls c) (c_error c) (c_cbn c).
Definition set_tls_failed v c := mkConn (c_state c) (c_secured c) v (c_tls c) (c_intf_tls c) (c_error c) (c_cbn c).
Definition set_tls v c := mkConn (c_state c) (c_secured c) (c_tls_failed c) v (c_intf_tls c) (c_error c) (c_cbn c).
Definition set_intf v c := mkConn (c_state c) (c_secured c) (c_tls_failed c) (c_tls c) v (c_error c) (c_cbn c).
Definition set_error v c := mkConn (c_state c) (c_secured c) (c_tls_failed c) (c_tls c) (c_intf_tls c) v (c_cbn c).
Definition set_cbn v c := mkConn (c_state c) (c_secured c) (c_tls_failed c) (c_tls c) (c_intf_tls c) (c_error c) v.

(* after _conn_reset and a completed TCP connect *)
Definition conn0 : conn := mkConn Connected false false None false ErrNone 0.

(* xmpp_conn_is_secured *)
Definition is_secured (c : conn) : bool :=
  c_secured c && negb (c_tls_failed c) && match c_tls c with Some _ => true | None => false end.

(* ---------------------------------------------------------------- tls_new *)
Definition guard_holds (g : Z) (trust : bool) : bool :=
  if g =? 0 then true else if g =? 1 then trust else if g =? 2 then negb trust else false.

(* a client SSL object starts with SSL_VERIFY_NONE and no callback; every applicable call overrides *)
Definition verify_setting (trust : bool) : Z * Z :=
  fold_left (fun acc c => match c with (g, m, cb) => if guard_holds g trust then (m, cb) else acc end)
            tls_verify_calls (0, 0).
Definition hostflags_setting (trust : bool) : Z :=
  fold_left (fun acc c => match c with (g, f) => if guard_holds g trust then f else acc end) tls_hostflags_calls 0.
(* conn->domain is the domain of the JID the user configured for as long as only _conn_connect (which copies
   it from the JID / the caller's argument) and _conn_reset write it; a write anywhere else (e.g. from something the
   peer sent) means the pinned name is no longer the user's *)
Definition domain_is_configured : bool :=
  forallb (fun c => (c =? 1) || (c =? 2)) tls_domain_written_in && existsb (fun c => c =? 1) tls_domain_written_in.
Definition host_setting (trust : bool) : bool :=
  fold_left (fun acc c => match c with (g, d) => if guard_holds g trust then (d =? 1) else acc end) tls_host_calls false
  && domain_is_configured.

Definition tls_new (sc : scenario) : option sslcfg :=
  let ca := s_cafile sc || s_capath sc in
  if s_ssl_ok sc && (if ca then s_ca_ok sc else true) then
    Some (mkCfg (fst (verify_setting (s_trust sc))) (snd (verify_setting (s_trust sc)))
                (hostflags_setting (s_trust sc)) (host_setting (s_trust sc)) ca (tls_time_overrides =? 0))
  else None.

(* ---------------------------------------------------------------- xmpp_conn_set_certfail_handler *)
(* stores its argument; were the store guarded by `if (hndl)`, NULL would leave the old handler in place *)
Definition set_handler (old new : cbk) : cbk :=
  if tls_set_handler_unconditional then new else match new with CbNone => old | _ => new end.
(* conn->certfail_handler when the connection is started *)
Definition effective_cb (sc : scenario) : cbk := fold_left set_handler (s_cb_before sc ++ [s_cb sc]) CbNone.

(* ---------------------------------------------------------------- _tls_verify *)
Definition shape_ret (g : Z) : option Z :=
  option_map snd (find (fun p => fst p =? g) tls_verify_shape).
Definition ret_val (code ans : Z) : Z := if code =? 100 then ans else code.

(* returns (value handed back to OpenSSL, events, handler invocations so far) *)
(* which certificate _tls_verify converts for the handler: the one the error is about
   (X509_STORE_CTX_get_current_cert, accessor 1) or always the leaf (get0_cert, accessor 2) *)
Definition shown_cert (current : Z) : Z :=
  if tls_verify_cert_accessor =? 1 then current else if tls_verify_cert_accessor =? 2 then 0 else 9.
Fixpoint lookup (k : Z) (l : list (Z * Z)) (d : Z) : Z :=
  match l with [] => d | (k', v) :: r => if k =? k' then v else lookup k r d end.
Definition cb_answer (cb : cbk) (n : nat) (shown : Z) : option Z :=
  match cb with
  | CbNone => None
  | CbScript a d => Some (nth n a d)
  | CbByCert l d => Some (lookup shown l d)
  end.

Definition tls_verify (pre current : Z) (cb : cbk) (n : nat) : Z * list out * nat :=
  match (if pre =? 1 then shape_ret 1 else None) with
  | Some r => (ret_val r pre, [], n)
  | None =>
    match cb_answer cb n (shown_cert current) with
    | None =>
        match shape_ret 2 with
        | Some r => (ret_val r 0, [], n)
        | None => (0, [OCrash], n)
        end
    | Some ans =>
        match shape_ret 0 with
        | Some r => (ret_val r ans, [OCertfail n (shown_cert current) ans], S n)
        | None => (0, [OCertfail n (shown_cert current) ans], S n)
        end
    end
  end.

(* ---------------------------------------------------------------- OpenSSL's use of the callback (contract) *)
Fixpoint ssl_verify (cfg : sslcfg) (cb : cbk) (stream : list (Z * Z)) (n : nat) : bool * list out * nat :=
  match stream with
  | [] => (true, [], n)
  | (pre, cur) :: rest =>
      match (if v_cb cfg =? 1 then tls_verify pre cur cb n else (pre, [], n)) with
      | (r, evs, n') =>
          if r =? 0 then (false, evs ++ [OVerify pre r], n')
          else match ssl_verify cfg cb rest n' with
               | (ok, evs', n'') => (ok, evs ++ [OVerify pre r] ++ evs', n'')
               end
      end
  end.

(* tls_start: 1 iff SSL_connect finally returned > 0 *)
Definition tls_start (cfg : sslcfg) (sc : scenario) (n : nat) : bool * list out * nat :=
  match ssl_verify cfg (effective_cb sc) (s_stream sc) n with
  | (vok, evs, n') => (s_hs_ok sc && (negb (Z.odd (v_mode cfg)) || vok), evs, n')
  end.

(* ---------------------------------------------------------------- conn.c *)
(* conn->error = tls_error(...): an int, 0 meaning "no error" to every later `if (conn->error)` *)
Definition tls_error (sc : scenario) : derr := if s_tls_err sc =? 0 then ErrNone else ErrTls (s_tls_err sc).

(* returns the new connection, the events and rc = 0 on success *)
Definition conn_tls_start (sc : scenario) (c : conn) : conn * list out * bool :=
  match tls_new sc with
  | None => (set_tls None c, [OTlsNew false None], false)                          (* XMPP_EMEM *)
  | Some cfg =>
      let c1 := set_intf true (set_tls (Some cfg) c) in
      match tls_start cfg sc (c_cbn c1) with
      | (true, evs, n') =>
          (set_secured true (set_cbn n' c1), [OTlsNew false (Some cfg)] ++ evs ++ [OTlsStart true], true)
      | (false, evs, n') =>
          (set_intf (c_intf_tls c) (set_tls_failed true (set_tls None (set_error (tls_error sc) (set_cbn n' c1)))),
           [OTlsNew false (Some cfg)] ++ evs ++ [OTlsStart false; OTlsFree], false)   (* XMPP_EINT *)
      end
  end.

Definition conn_disconnect (c : conn) : conn * list out :=
  match c_state c with
  | Disconnected => (c, [])
  | Connected =>
      let c1 := set_state Disconnected c in
      let '(c2, o) := match c_tls c1 with
                      | Some _ => (set_tls None c1, [OTlsStop; OTlsFree])
                      | None => (c1, [])
                      end in
      (c2, o ++ [OSockClose; ODisconnect (is_secured c2) (c_error c2)])
  end.

(* data queued by the library, as written by the send phase of the next xmpp_run_once *)
Definition wire (c : conn) (ws : list welem) : list out := map (OWire (c_intf_tls c)) ws.

(* event.c: after writing the queue, "if (conn->error) { conn->error = ECONNABORTED; conn_disconnect }" *)
Definition send_phase (c : conn) (ws : list welem) : conn * list out :=
  match c_state c with
  | Disconnected => (c, [])
  | Connected =>
      match c_error c with
      | ErrNone => (c, wire c ws)
      | _ => let '(c', o) := conn_disconnect (set_error ErrAborted c) in (c', wire c ws ++ o)
      end
  end.

(* the peer's reaction once the client has asked to close (or nothing more will come):
   it closes the socket (read error -> conn_disconnect) or stays silent (_disconnect_cleanup after 2 s) *)
Definition peer_ends (sc : scenario) (c : conn) : conn * list out :=
  match c_state c with
  | Disconnected => (c, [])
  | Connected =>
      match s_after sc with
      | PeerCloses => conn_disconnect (set_error ErrPeer c)
      | PeerSilent => conn_disconnect c
      end
  end.

(* the rest of the connection's life once the handler has returned with q queued *)
Definition finish (sc : scenario) (c : conn) (q : list welem) : conn * list out :=
  let '(c1, o1) := send_phase c q in
  let '(c2, o2) := peer_ends sc c1 in
  (c2, o1 ++ o2 ++ [OIs (is_secured c2)]).

(* _auth on a connection without TLS (the harness server offers SASL PLAIN before TLS as well):
   refused when TLS is mandatory, otherwise the password goes out with <auth mechanism="PLAIN"> *)
Definition auth_clear (sc : scenario) (c : conn) : conn * list out * list welem :=
  if s_mandatory sc && negb (is_secured c) then let '(c', o) := conn_disconnect c in (c', o, [])
  else (c, [], [WAuth]).

(* what a caller does when conn_tls_start failed, read off the source by the translator:
   1 xmpp_disconnect, 2 conn_disconnect, 3 _auth, 4 conn_open_stream, 6 return; anything else has no effect here *)
Fixpoint react (sc : scenario) (calls : list Z) (c : conn) (o : list out) (q : list welem)
  : conn * list out * list welem * bool :=
  match calls with
  | [] => (c, o, q, false)
  | k :: r =>
      if k =? 6 then (c, o, q, true)
      else if k =? 1 then react sc r c o (q ++ match c_state c with Connected => [WClose] | Disconnected => [] end)
      else if k =? 2 then let '(c', o') := conn_disconnect c in react sc r c' (o ++ o') q
      else if k =? 3 then let '(c', o', q') := auth_clear sc c in react sc r c' (o ++ o') (q ++ q')
      else if k =? 4 then react sc r c o (q ++ [WHeader])
      else react sc r c o q
  end.

(* the negotiation on a protected stream with the harness server: header, SASL PLAIN, header, bind,
   XMPP_CONN_CONNECT, the user's handler calls xmpp_disconnect, the server answers </stream:stream> *)
Definition negotiate_rest (c : conn) : conn * list out :=
  let o1 := wire c [WHeader] ++ [OIs (is_secured c)] ++ wire c [WAuth; WHeader; WBind] ++ [OConnect (is_secured c)]
            ++ wire c [WClose] in
  let '(c1, o2) := conn_disconnect c in
  (c1, o1 ++ o2 ++ [OIs (is_secured c1)]).

Definition run (sc : scenario) : conn * list out :=
  match s_entry sc with
  | ELegacy =>
      (* conn_established *)
      match conn_tls_start sc conn0 with
      | (c1, o1, true) => let '(c2, o2) := negotiate_rest c1 in (c2, o1 ++ o2)
      | (c1, o1, false) =>
          (* "if (conn_tls_start(conn) != 0) { conn_disconnect(conn); return; }", else on to conn_open_stream *)
          let '(c2, o2, q, stopped) := react sc tls_legacy_failure_calls c1 [] [] in
          let '(c3, o3) := finish sc c2 (if stopped then q else q ++ [WHeader]) in
          (c3, o1 ++ o2 ++ o3)
      end
  | EStartTls =>
      (* conn_open_stream; <stream:features> offering starttls and SASL PLAIN; _auth probes tls_new *)
      let o0 := wire conn0 [WHeader] in
      match tls_new sc with
      | None =>
          (* "If we couldn't init tls, it isn't there, so go on": _auth again, now without TLS *)
          let '(c1, o1, q) := auth_clear sc conn0 in
          let '(c2, o2) := finish sc c1 q in (c2, o0 ++ [OTlsNew true None] ++ o1 ++ o2)
      | Some cfg =>
          let o1 := [OTlsNew true (Some cfg); OTlsFree] ++ wire conn0 [WStartTls] in
          (* <proceed/> -> _handle_proceedtls_default *)
          match conn_tls_start sc conn0 with
          | (c1, o2, true) => let '(c2, o3) := negotiate_rest c1 in (c2, o0 ++ o1 ++ o2 ++ o3)
          | (c1, o2, false) =>
              (* the failure branch of _handle_proceedtls_default *)
              let '(c2, o3, q, _) := react sc tls_proceed_failure_calls c1 [] [] in
              let '(c3, o4) := finish sc c2 q in
              (c3, o0 ++ o1 ++ o2 ++ o3 ++ o4)
          end
      end
  end.

(* ---------------------------------------------------------------- observations used by theorems and drivers *)
Definition is_tls_wire (o : out) : bool := match o with OWire true _ => true | _ => false end.
Definition is_clear_wire (o : out) : bool := match o with OWire false _ => true | _ => false end.
Definition is_disconnect (o : out) : bool := match o with ODisconnect _ _ => true | _ => false end.
Definition reports_secured (o : out) : bool :=
  match o with OConnect true => true | ODisconnect true _ => true | OIs true => true | _ => false end.
Definition is_start_failed (o : out) : bool := match o with OTlsStart false => true | _ => false end.
Definition is_crash (o : out) : bool := match o with OCrash => true | _ => false end.

Definition ever_secured (tr : list out) : bool := existsb reports_secured tr.
Definition tls_wire_used (tr : list out) : bool := existsb is_tls_wire tr.
Definition n_disconnects (tr : list out) : nat := length (filter is_disconnect tr).

(* the part of the trace after the first failed tls_start *)
Fixpoint after_failed_start (tr : list out) : option (list out) :=
  match tr with
  | [] => None
  | o :: r => if is_start_failed o then Some r else after_failed_start r
  end.
Definition wire_of (tr : list out) : list out := filter (fun o => is_tls_wire o || is_clear_wire o) tr.
