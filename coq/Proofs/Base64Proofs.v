(* C18 - proofs about the base64 model (Model/Base64Model.v) against the RFC 4648 spec
   (Spec/Base64Spec.v).  Only the Coq standard library is used. *)
Require Import LV.Common.Bytes LV.Gen.Gen_base64 LV.Model.Base64Model LV.Spec.Base64Spec.
From Coq Require Import List ZArith Lia Bool ZifyBool.
Import ListNotations.
Local Open Scope Z_scope.

Ltac Zify.zify_post_hook ::= Z.div_mod_to_equations.

(* ------------------------------------------------------------------------- *)
(* 1. The tables                                                             *)
(* ------------------------------------------------------------------------- *)

Lemma Gen_b64_ok : b64_chr = spec_alphabet ++ [spec_pad] /\ b64_inv = spec_inv.
Proof. split; vm_compute; reflexivity. Qed.

(* boolean sweep over an initial segment of Z *)
Lemma sweep : forall (P : Z -> bool) (n : nat),
  forallb P (map Z.of_nat (seq 0 n)) = true ->
  forall c, 0 <= c < Z.of_nat n -> P c = true.
Proof.
  intros P n H c Hc. rewrite forallb_forall in H. apply H.
  apply in_map_iff. exists (Z.to_nat c). split; [lia|].
  apply in_seq. lia.
Qed.

Definition chk_inv (c : Z) : bool :=
  (0 <=? inv c) && (inv c <=? 65) &&
  match sextet_of c with
  | Some v => (inv c =? v) && (v <? 64)
  | None => 64 <=? inv c
  end &&
  Bool.eqb (inv c =? 64) (c =? 61).

Lemma inv_sweep : forall c, 0 <= c < 256 -> chk_inv c = true.
Proof. apply (sweep chk_inv 256). vm_compute. reflexivity. Qed.

Definition chk_chr (v : Z) : bool :=
  (chr v =? sym v) && (inv (chr v) =? v) && (0 <=? chr v) && (chr v <? 256) &&
  negb (chr v =? 61).

Lemma chr_sweep : forall v, 0 <= v < 64 -> chk_chr v = true.
Proof. apply (sweep chk_chr 64). vm_compute. reflexivity. Qed.

Lemma PAD_61 : PAD = 61.
Proof. vm_compute. reflexivity. Qed.

(* "alphabet character" as the decoder sees it *)
Definition al (c : Z) : bool := inv c <? 64.

Lemma inv_range : forall c, is_byte c -> 0 <= inv c <= 65.
Proof.
  intros c Hc. pose proof (inv_sweep c Hc) as H. unfold chk_inv in H.
  repeat (apply andb_prop in H; destruct H as [H ?]). lia.
Qed.

Lemma sextet_of_inv : forall c, is_byte c ->
  sextet_of c = if al c then Some (inv c) else None.
Proof.
  intros c Hc. pose proof (inv_sweep c Hc) as H. unfold chk_inv in H.
  repeat (apply andb_prop in H; destruct H as [H ?]).
  unfold al. destruct (sextet_of c) as [v|].
  - destruct (inv c <? 64) eqn:E; [f_equal; lia | lia].
  - destruct (inv c <? 64) eqn:E; [lia | reflexivity].
Qed.

Lemma is_alpha_al : forall c, is_byte c -> is_alpha c = al c.
Proof.
  intros c Hc. unfold is_alpha. rewrite (sextet_of_inv c Hc). destruct (al c); reflexivity.
Qed.

Lemma inv_pad : forall c, is_byte c -> (inv c =? 64) = (c =? spec_pad).
Proof.
  intros c Hc. pose proof (inv_sweep c Hc) as H. unfold chk_inv in H.
  repeat (apply andb_prop in H; destruct H as [H ?]).
  unfold spec_pad. apply eqb_prop. assumption.
Qed.

Lemma chr_facts : forall v, 0 <= v < 64 ->
  chr v = sym v /\ inv (chr v) = v /\ is_byte (chr v) /\ chr v <> 61.
Proof.
  intros v Hv. pose proof (chr_sweep v Hv) as H. unfold chk_chr in H.
  repeat (apply andb_prop in H; destruct H as [H ?]).
  unfold is_byte. repeat split; try lia.
Qed.

(* ------------------------------------------------------------------------- *)
(* 2. Induction principles over triples and quartets                         *)
(* ------------------------------------------------------------------------- *)

Lemma list_ind3 : forall (A : Type) (P : list A -> Prop),
  P [] -> (forall a, P [a]) -> (forall a b, P [a; b]) ->
  (forall a b c l, P l -> P (a :: b :: c :: l)) -> forall l, P l.
Proof.
  intros A P H0 H1 H2 H3.
  assert (forall l, P l /\ (forall a, P (a :: l)) /\ (forall a b, P (a :: b :: l))) as H.
  { induction l as [|x l IH].
    - auto.
    - destruct IH as (Ha & Hb & Hc). repeat split; auto. }
  intro l; apply H.
Qed.

Lemma list_ind4 : forall (A : Type) (P : list A -> Prop),
  P [] -> (forall a, P [a]) -> (forall a b, P [a; b]) -> (forall a b c, P [a; b; c]) ->
  (forall a b c d l, P l -> P (a :: b :: c :: d :: l)) -> forall l, P l.
Proof.
  intros A P H0 H1 H2 H3 H4.
  assert (forall l, P l /\ (forall a, P (a :: l)) /\ (forall a b, P (a :: b :: l)) /\
                    (forall a b c, P (a :: b :: c :: l))) as H.
  { induction l as [|x l IH].
    - auto.
    - destruct IH as (Ha & Hb & Hc & Hd). repeat split; auto. }
  intro l; apply H.
Qed.

(* ------------------------------------------------------------------------- *)
(* 3. The encoder is the RFC one                                             *)
(* ------------------------------------------------------------------------- *)

Lemma chunks_fuel : forall f g l, (length l <= f)%nat -> (length l <= g)%nat ->
  chunks f 6 l = chunks g 6 l.
Proof.
  induction f as [|f IH]; intros g l Hf Hg.
  - destruct l; [|simpl in Hf; lia]. destruct g; reflexivity.
  - destruct g as [|g].
    + destruct l; [reflexivity | simpl in Hg; lia].
    + destruct l as [|x l]; [reflexivity|]. cbn [chunks]. f_equal.
      apply IH; rewrite skipn_length; simpl length in *; lia.
Qed.

Lemma chunks4 : forall f x1 x2 x3 x4 x5 x6 x7 x8 x9 x10 x11 x12 x13 x14 x15 x16 x17 x18
                         x19 x20 x21 x22 x23 x24 rest,
  chunks (S (S (S (S f)))) 6
    (x1 :: x2 :: x3 :: x4 :: x5 :: x6 :: x7 :: x8 :: x9 :: x10 :: x11 :: x12 :: x13 :: x14 ::
     x15 :: x16 :: x17 :: x18 :: x19 :: x20 :: x21 :: x22 :: x23 :: x24 :: rest) =
  [x1; x2; x3; x4; x5; x6] :: [x7; x8; x9; x10; x11; x12] ::
  [x13; x14; x15; x16; x17; x18] :: [x19; x20; x21; x22; x23; x24] :: chunks f 6 rest.
Proof. reflexivity. Qed.

Lemma pad4 : forall n, ((4 - S (S (S (S n))) mod 4) mod 4 = (4 - n mod 4) mod 4)%nat.
Proof.
  intro n. replace (S (S (S (S n)))) with (n + 1 * 4)%nat by lia.
  rewrite Nat.mod_add by lia. reflexivity.
Qed.

Definition sx (g : list Z) : Z := sym (bval g).

Lemma spec_encode_3 : forall a b c l,
  spec_encode (a :: b :: c :: l) =
  sx [a / 128 mod 2; a / 64 mod 2; a / 32 mod 2; a / 16 mod 2; a / 8 mod 2; a / 4 mod 2] ::
  sx [a / 2 mod 2; a mod 2; b / 128 mod 2; b / 64 mod 2; b / 32 mod 2; b / 16 mod 2] ::
  sx [b / 8 mod 2; b / 4 mod 2; b / 2 mod 2; b mod 2; c / 128 mod 2; c / 64 mod 2] ::
  sx [c / 32 mod 2; c / 16 mod 2; c / 8 mod 2; c / 4 mod 2; c / 2 mod 2; c mod 2] ::
  spec_encode l.
Proof.
  intros.
  assert (E : flat_map bits8 (a :: b :: c :: l) =
    a / 128 mod 2 :: a / 64 mod 2 :: a / 32 mod 2 :: a / 16 mod 2 :: a / 8 mod 2 :: a / 4 mod 2 ::
    a / 2 mod 2 :: a mod 2 :: b / 128 mod 2 :: b / 64 mod 2 :: b / 32 mod 2 :: b / 16 mod 2 ::
    b / 8 mod 2 :: b / 4 mod 2 :: b / 2 mod 2 :: b mod 2 :: c / 128 mod 2 :: c / 64 mod 2 ::
    c / 32 mod 2 :: c / 16 mod 2 :: c / 8 mod 2 :: c / 4 mod 2 :: c / 2 mod 2 :: c mod 2 ::
    flat_map bits8 l) by reflexivity.
  unfold spec_encode. rewrite E. cbn [length].
  rewrite chunks4.
  rewrite (chunks_fuel _ (length (flat_map bits8 l)) (flat_map bits8 l)) by lia.
  cbn [map length app].
  rewrite pad4. reflexivity.
Qed.

Lemma spec_encode_1 : forall a,
  spec_encode [a] =
  [sx [a / 128 mod 2; a / 64 mod 2; a / 32 mod 2; a / 16 mod 2; a / 8 mod 2; a / 4 mod 2];
   sx [a / 2 mod 2; a mod 2; 0; 0; 0; 0]; spec_pad; spec_pad].
Proof. reflexivity. Qed.

Lemma spec_encode_2 : forall a b,
  spec_encode [a; b] =
  [sx [a / 128 mod 2; a / 64 mod 2; a / 32 mod 2; a / 16 mod 2; a / 8 mod 2; a / 4 mod 2];
   sx [a / 2 mod 2; a mod 2; b / 128 mod 2; b / 64 mod 2; b / 32 mod 2; b / 16 mod 2];
   sx [b / 8 mod 2; b / 4 mod 2; b / 2 mod 2; b mod 2; 0; 0]; spec_pad].
Proof. reflexivity. Qed.

Ltac bv := unfold bval; cbn [fold_left].

Lemma sx_chr : forall g v, 0 <= v < 64 -> bval g = v -> sx g = chr v.
Proof. intros g v Hv Hg. unfold sx. rewrite Hg. symmetry. apply chr_facts. assumption. Qed.

Section Sextets.
  Variables a b c : Z.
  Hypothesis Ha : 0 <= a < 256.
  Hypothesis Hb : 0 <= b < 256.
  Hypothesis Hc : 0 <= c < 256.
  Let word := a * 65536 + b * 256 + c.

  Lemma e_s0 : bval [a / 128 mod 2; a / 64 mod 2; a / 32 mod 2; a / 16 mod 2; a / 8 mod 2; a / 4 mod 2]
               = word / 262144 mod 64.
  Proof. subst word. bv. lia. Qed.
  Lemma e_s1 : bval [a / 2 mod 2; a mod 2; b / 128 mod 2; b / 64 mod 2; b / 32 mod 2; b / 16 mod 2]
               = word / 4096 mod 64.
  Proof. subst word. bv. lia. Qed.
  Lemma e_s2 : bval [b / 8 mod 2; b / 4 mod 2; b / 2 mod 2; b mod 2; c / 128 mod 2; c / 64 mod 2]
               = word / 64 mod 64.
  Proof. subst word. bv. lia. Qed.
  Lemma e_s3 : bval [c / 32 mod 2; c / 16 mod 2; c / 8 mod 2; c / 4 mod 2; c / 2 mod 2; c mod 2]
               = word mod 64.
  Proof. subst word. bv. lia. Qed.
End Sextets.

Section Tails.
  Variables a b : Z.
  Hypothesis Ha : 0 <= a < 256.
  Hypothesis Hb : 0 <= b < 256.
  Lemma e_t0 : bval [a / 128 mod 2; a / 64 mod 2; a / 32 mod 2; a / 16 mod 2; a / 8 mod 2; a / 4 mod 2]
               = a / 4.
  Proof. clear Hb. bv. lia. Qed.
  Lemma e_t1 : bval [a / 2 mod 2; a mod 2; 0; 0; 0; 0] = (a mod 4) * 16.
  Proof. clear Hb. bv. lia. Qed.
  Lemma e_t2 : bval [a / 2 mod 2; a mod 2; b / 128 mod 2; b / 64 mod 2; b / 32 mod 2; b / 16 mod 2]
               = (a mod 4) * 16 + b / 16.
  Proof. bv. lia. Qed.
  Lemma e_t3 : bval [b / 8 mod 2; b / 4 mod 2; b / 2 mod 2; b mod 2; 0; 0] = (b mod 16) * 4.
  Proof. clear Ha. bv. lia. Qed.
End Tails.

Lemma bytes_cons : forall a l, bytes (a :: l) <-> is_byte a /\ bytes l.
Proof. intros. unfold bytes. apply Forall_cons_iff. Qed.

Lemma encode_3 : forall a b c l,
  encode (a :: b :: c :: l) =
  chr ((a * 65536 + b * 256 + c) / 262144 mod 64) :: chr ((a * 65536 + b * 256 + c) / 4096 mod 64) ::
  chr ((a * 65536 + b * 256 + c) / 64 mod 64) :: chr ((a * 65536 + b * 256 + c) mod 64) :: encode l.
Proof. reflexivity. Qed.

Lemma encode_canonical : forall bs, bytes bs -> encode bs = spec_encode bs.
Proof.
  intro bs. pattern bs. apply list_ind3; clear bs.
  - reflexivity.
  - intros a Hb. apply bytes_cons in Hb. destruct Hb as [Ha _]. unfold is_byte in Ha.
    rewrite spec_encode_1. cbn [encode]. rewrite PAD_61. unfold spec_pad.
    rewrite (sx_chr _ (a / 4)) by (try apply e_t0; lia).
    rewrite (sx_chr _ ((a mod 4) * 16)) by (try apply e_t1; lia).
    reflexivity.
  - intros a b Hb. apply bytes_cons in Hb. destruct Hb as [Ha Hb].
    apply bytes_cons in Hb. destruct Hb as [Hb _]. unfold is_byte in Ha, Hb.
    rewrite spec_encode_2. cbn [encode]. rewrite PAD_61. unfold spec_pad.
    rewrite (sx_chr _ (a / 4)) by (try apply e_t0; lia).
    rewrite (sx_chr _ ((a mod 4) * 16 + b / 16)) by (try apply e_t2; lia).
    rewrite (sx_chr _ ((b mod 16) * 4)) by (try apply e_t3; lia).
    reflexivity.
  - intros a b c l IH Hb. apply bytes_cons in Hb. destruct Hb as [Ha Hb].
    apply bytes_cons in Hb. destruct Hb as [Hb Hc].
    apply bytes_cons in Hc. destruct Hc as [Hc Hl]. unfold is_byte in Ha, Hb, Hc.
    rewrite spec_encode_3, encode_3, (IH Hl).
    rewrite (sx_chr _ ((a * 65536 + b * 256 + c) / 262144 mod 64)) by (try apply e_s0; lia).
    rewrite (sx_chr _ ((a * 65536 + b * 256 + c) / 4096 mod 64)) by (try apply e_s1; lia).
    rewrite (sx_chr _ ((a * 65536 + b * 256 + c) / 64 mod 64)) by (try apply e_s2; lia).
    rewrite (sx_chr _ ((a * 65536 + b * 256 + c) mod 64)) by (try apply e_s3; lia).
    reflexivity.
Qed.

Example encode_canonical_ex :
  bytes [77; 97; 110; 0; 255] /\ encode [77; 97; 110; 0; 255] = [84; 87; 70; 117; 65; 80; 56; 61].
Proof. split; [repeat constructor; unfold is_byte; lia | vm_compute; reflexivity]. Qed.

(* ------------------------------------------------------------------------- *)
(* 4. A reference decoder on quartets, and the model's decoder in terms of it *)
(* ------------------------------------------------------------------------- *)

Definition dec3 (c0 c1 c2 c3 : Z) : list Z :=
  let word := inv c0 * 262144 + inv c1 * 4096 + inv c2 * 64 + inv c3 in
  [word / 65536 mod 256; word / 256 mod 256; word mod 256].

Definition al4 (c0 c1 c2 c3 : Z) : bool := al c0 && al c1 && al c2 && al c3.

(* value of a sequence of all-alphabet quartets *)
Fixpoint decq (s : list Z) : list Z :=
  match s with
  | c0 :: c1 :: c2 :: c3 :: rest => dec3 c0 c1 c2 c3 ++ decq rest
  | _ => []
  end.

(* value of the last quartet: xxxx, xxx= or xx== *)
Definition qlast (c0 c1 c2 c3 : Z) : option (list Z) :=
  if al c0 && al c1 then
    if al c2 then
      if al c3 then Some (dec3 c0 c1 c2 c3)
      else if inv c3 =? 64 then
        Some [(inv c0 * 1024 + inv c1 * 16 + inv c2 / 4) / 256 mod 256;
              (inv c0 * 1024 + inv c1 * 16 + inv c2 / 4) mod 256]
      else None
    else if (inv c2 =? 64) && (inv c3 =? 64) then Some [(inv c0 * 4 + inv c1 / 16) mod 256]
    else None
  else None.

Fixpoint refdec (s : list Z) : option (list Z) :=
  match s with
  | c0 :: c1 :: c2 :: c3 :: rest =>
      match rest with
      | [] => qlast c0 c1 c2 c3
      | _ => if al4 c0 c1 c2 c3 then option_map (app (dec3 c0 c1 c2 c3)) (refdec rest) else None
      end
  | _ => None
  end.

Lemma refdec_cons : forall c0 c1 c2 c3 x rest,
  refdec (c0 :: c1 :: c2 :: c3 :: x :: rest) =
  if al4 c0 c1 c2 c3 then option_map (app (dec3 c0 c1 c2 c3)) (refdec (x :: rest)) else None.
Proof. reflexivity. Qed.

Lemma forallb_al4 : forall c0 c1 c2 c3 l,
  forallb al (c0 :: c1 :: c2 :: c3 :: l) = al4 c0 c1 c2 c3 && forallb al l.
Proof.
  intros. cbn [forallb]. unfold al4.
  destruct (al c0), (al c1), (al c2), (al c3); reflexivity.
Qed.

Lemma quartets_inv : forall (k : nat) (pre : list Z), length pre = (4 * S k)%nat ->
  exists c0 c1 c2 c3 pre', pre = c0 :: c1 :: c2 :: c3 :: pre' /\ length pre' = (4 * k)%nat.
Proof.
  intros k pre H.
  destruct pre as [|c0 [|c1 [|c2 [|c3 pre']]]]; simpl in H; try lia.
  exists c0, c1, c2, c3, pre'. split; [reflexivity | lia].
Qed.

Lemma refdec_app : forall (k : nat) pre c0 c1 c2 c3, length pre = (4 * k)%nat ->
  refdec (pre ++ [c0; c1; c2; c3]) =
  if forallb al pre then option_map (app (decq pre)) (qlast c0 c1 c2 c3) else None.
Proof.
  induction k as [|k IH]; intros pre c0 c1 c2 c3 H.
  - destruct pre; [|simpl in H; lia]. cbn [app forallb decq refdec].
    destruct (qlast c0 c1 c2 c3); reflexivity.
  - destruct (quartets_inv k pre H) as (a & b & c & d & pre' & -> & H').
    rewrite forallb_al4. cbn [app decq].
    destruct (pre' ++ [c0; c1; c2; c3]) as [|x r] eqn:E.
    { apply app_eq_nil in E. destruct E as [_ E]. discriminate E. }
    rewrite refdec_cons. rewrite <- E. rewrite (IH pre' c0 c1 c2 c3 H').
    destruct (al4 a b c d); [|reflexivity]. cbn [andb].
    destruct (forallb al pre'); [|reflexivity].
    destruct (qlast c0 c1 c2 c3); [|reflexivity].
    cbn [option_map]. rewrite app_assoc. reflexivity.
Qed.

Lemma mod4_SSSS : forall n, (S (S (S (S n))) mod 4 = n mod 4)%nat.
Proof.
  intro n. replace (S (S (S (S n)))) with (n + 1 * 4)%nat by lia.
  apply Nat.mod_add. lia.
Qed.

Lemma refdec_badlen : forall s, (length s mod 4 <> 0)%nat -> refdec s = None.
Proof.
  intro s. pattern s. apply list_ind4; clear s; try reflexivity.
  intros a b c d l IH H. cbn [length] in H. rewrite mod4_SSSS in H.
  destruct l as [|x l].
  - exfalso. apply H. reflexivity.
  - rewrite refdec_cons. rewrite (IH H). destruct (al4 a b c d); reflexivity.
Qed.

(* every list is empty, of bad length, or a multiple-of-four prefix followed by a last quartet *)
Lemma quartet_decomp : forall s : list Z,
  s = [] \/ (length s mod 4 <> 0)%nat \/
  exists (k : nat) pre c0 c1 c2 c3, s = pre ++ [c0; c1; c2; c3] /\ length pre = (4 * k)%nat.
Proof.
  intro s. pattern s. apply list_ind4; clear s.
  - left. reflexivity.
  - intros. right. left. cbn. discriminate.
  - intros. right. left. cbn. discriminate.
  - intros. right. left. cbn. discriminate.
  - intros a b c d l [IH | [IH | IH]].
    + subst l. right. right. exists 0%nat, [], a, b, c, d. split; reflexivity.
    + right. left. cbn [length]. rewrite mod4_SSSS. assumption.
    + destruct IH as (k & pre & c0 & c1 & c2 & c3 & -> & H).
      right. right. exists (S k), (a :: b :: c :: d :: pre), c0, c1, c2, c3.
      split; [reflexivity | cbn [length]; lia].
Qed.

(* ------------------------------------------------------------------------- *)
(* 5. The pieces of the model's decoder                                      *)
(* ------------------------------------------------------------------------- *)

Lemma leb64 : forall x, (64 <=? x) = negb (x <? 64).
Proof. intro x. apply Z.leb_antisym. Qed.

(* the value left in `hextet` when the main loop breaks in a quartet *)
Definition stoph (c0 c1 c2 c3 : Z) : Z :=
  if al c0 then if al c1 then if al c2 then inv c3 else inv c2 else inv c1 else inv c0.

Lemma dloop_go : forall c0 c1 c2 c3 rest out h, al4 c0 c1 c2 c3 = true ->
  dloop (c0 :: c1 :: c2 :: c3 :: rest) out h = dloop rest (out ++ dec3 c0 c1 c2 c3) (inv c3).
Proof.
  intros c0 c1 c2 c3 rest out h. unfold al4, al. intro H. cbn [dloop]. rewrite !leb64.
  destruct (inv c0 <? 64); [|discriminate H].
  destruct (inv c1 <? 64); [|discriminate H].
  destruct (inv c2 <? 64); [|discriminate H].
  destruct (inv c3 <? 64); [|discriminate H].
  reflexivity.
Qed.

Lemma dloop_stop : forall c0 c1 c2 c3 rest out h, al4 c0 c1 c2 c3 = false ->
  dloop (c0 :: c1 :: c2 :: c3 :: rest) out h = (out, stoph c0 c1 c2 c3).
Proof.
  intros c0 c1 c2 c3 rest out h. unfold al4, stoph, al. intro H. cbn [dloop]. rewrite !leb64.
  destruct (inv c0 <? 64); [|reflexivity].
  destruct (inv c1 <? 64); [|reflexivity].
  destruct (inv c2 <? 64); [|reflexivity].
  destruct (inv c3 <? 64); [discriminate H|reflexivity].
Qed.

Lemma al4_last : forall c0 c1 c2 c3, al4 c0 c1 c2 c3 = true -> inv c3 < 64.
Proof.
  intros c0 c1 c2 c3 H. unfold al4 in H. apply andb_prop in H. destruct H as [_ H].
  unfold al in H. lia.
Qed.

Lemma dloop_pre_al : forall (k : nat) pre, length pre = (4 * k)%nat -> forallb al pre = true ->
  forall rest out h, h <= 64 ->
  exists h', h' <= 64 /\ dloop (pre ++ rest) out h = dloop rest (out ++ decq pre) h'.
Proof.
  induction k as [|k IH]; intros pre H Hal rest out h Hh.
  - destruct pre; [|simpl in H; lia]. exists h. split; [assumption|].
    cbn [app decq]. rewrite app_nil_r. reflexivity.
  - destruct (quartets_inv k pre H) as (a & b & c & d & pre' & -> & H').
    rewrite forallb_al4 in Hal. apply andb_prop in Hal. destruct Hal as [H4 Hal].
    pose proof (al4_last _ _ _ _ H4) as Hd.
    destruct (IH pre' H' Hal rest (out ++ dec3 a b c d) (inv d)) as (h' & Hh' & E); [lia|].
    exists h'. split; [assumption|].
    cbn [app decq]. rewrite (dloop_go _ _ _ _ _ _ _ H4). rewrite E. rewrite app_assoc. reflexivity.
Qed.

Lemma decq_len : forall (k : nat) pre, length pre = (4 * k)%nat -> zlen (decq pre) = 3 * Z.of_nat k.
Proof.
  induction k as [|k IH]; intros pre H.
  - destruct pre; [reflexivity | simpl in H; lia].
  - destruct (quartets_inv k pre H) as (a & b & c & d & pre' & -> & H').
    specialize (IH pre' H'). unfold zlen in *. cbn [decq dec3 app length]. lia.
Qed.

Lemma dloop_pre_nal : forall (k : nat) pre, length pre = (4 * k)%nat -> forallb al pre = false ->
  forall rest out h,
  exists out' h', dloop (pre ++ rest) out h = (out ++ out', h') /\ zlen out' < 3 * Z.of_nat k.
Proof.
  induction k as [|k IH]; intros pre H Hal rest out h.
  - destruct pre; [discriminate Hal | simpl in H; lia].
  - destruct (quartets_inv k pre H) as (a & b & c & d & pre' & -> & H').
    rewrite forallb_al4 in Hal. cbn [app].
    destruct (al4 a b c d) eqn:H4.
    + cbn [andb] in Hal. rewrite (dloop_go _ _ _ _ _ _ _ H4).
      destruct (IH pre' H' Hal rest (out ++ dec3 a b c d) (inv d)) as (out' & h' & E & L).
      exists (dec3 a b c d ++ out'), h'. split.
      * rewrite E. rewrite app_assoc. reflexivity.
      * unfold zlen in *. rewrite app_length. cbn [dec3 length]. lia.
    + rewrite (dloop_stop _ _ _ _ _ _ _ H4). exists [], (stoph a b c d). split.
      * rewrite app_nil_r. reflexivity.
      * unfold zlen. cbn [length]. lia.
Qed.

Lemma scan_pad_ge : forall r n, match scan_pad r n with Some m => n <= m | None => True end.
Proof.
  induction r as [|c r IH]; intro n; cbn [scan_pad].
  - lia.
  - destruct (inv c <? 64); [lia|]. destruct (inv c =? 64); [|exact I].
    specialize (IH (n + 1)). destruct (scan_pad r (n + 1)); [lia | exact I].
Qed.

(* the pad count seen by base64_decoded_len, from the last three characters *)
Definition nudge_of (c1 c2 c3 : Z) : option Z :=
  if al c3 then Some 0
  else if inv c3 =? 64 then
    if al c2 then Some 1
    else if inv c2 =? 64 then
      if al c1 then Some 2 else None
    else None
  else None.

Lemma zlen_app4 : forall (k : nat) pre (c0 c1 c2 c3 : Z), length pre = (4 * k)%nat ->
  zlen (pre ++ [c0; c1; c2; c3]) = 4 * Z.of_nat k + 4.
Proof. intros. unfold zlen. rewrite app_length. cbn [length]. lia. Qed.

Lemma decoded_len_app : forall (k : nat) pre c0 c1 c2 c3, length pre = (4 * k)%nat ->
  decoded_len (pre ++ [c0; c1; c2; c3]) =
  match nudge_of c1 c2 c3 with Some n => 3 * (Z.of_nat k + 1) - n | None => 0 end.
Proof.
  intros k pre c0 c1 c2 c3 H. unfold decoded_len. rewrite (zlen_app4 k pre c0 c1 c2 c3 H).
  rewrite rev_app_distr. cbn [rev app]. generalize (c0 :: rev pre); intro r.
  cbn [scan_pad]. unfold nudge_of, al.
  destruct (4 * Z.of_nat k + 4 <? 4) eqn:E0; [lia|].
  destruct (inv c3 <? 64).
  { destruct (2 <? 0) eqn:E; lia. }
  destruct (inv c3 =? 64); [|reflexivity].
  destruct (inv c2 <? 64).
  { destruct (2 <? 0 + 1) eqn:E; lia. }
  destruct (inv c2 =? 64); [|reflexivity].
  destruct (inv c1 <? 64).
  { destruct (2 <? 0 + 1 + 1) eqn:E; lia. }
  destruct (inv c1 =? 64); [|reflexivity].
  pose proof (scan_pad_ge r (0 + 1 + 1 + 1)) as G.
  destruct (scan_pad r (0 + 1 + 1 + 1)) as [m|]; [|reflexivity].
  destruct (2 <? m) eqn:E; lia.
Qed.

Lemma nudge_range : forall c1 c2 c3 n, nudge_of c1 c2 c3 = Some n -> 0 <= n <= 2.
Proof.
  intros c1 c2 c3 n. unfold nudge_of.
  destruct (al c3); [intro E; inversion E; lia|].
  destruct (inv c3 =? 64); [|discriminate].
  destruct (al c2); [intro E; inversion E; lia|].
  destruct (inv c2 =? 64); [|discriminate].
  destruct (al c1); [intro E; inversion E; lia|discriminate].
Qed.

Lemma skipn_length_app : forall (A : Type) (l1 l2 : list A), skipn (length l1) (l1 ++ l2) = l2.
Proof. induction l1 as [|x l1 IH]; intro l2; [reflexivity | apply IH]. Qed.

Lemma dtail_app : forall pre c0 c1 c2 c3 d,
  dtail (pre ++ [c0; c1; c2; c3]) d = dtail [c0; c1; c2; c3] d.
Proof.
  intros. unfold dtail. rewrite app_length. cbn [length].
  replace (length pre + 4 - 4)%nat with (length pre) by lia.
  rewrite skipn_length_app. reflexivity.
Qed.

(* ------------------------------------------------------------------------- *)
(* 6. The model's decoder is the reference decoder                           *)
(* ------------------------------------------------------------------------- *)

(* what base64_decode does once dlen, the loop result and the tail are known *)
Definition finish (D : Z) (o : list Z) (hh : Z) (tl : option (list Z)) : dres :=
  if D =? 0 then DReject else
  if (64 <? hh) || negb (zlen o =? D - D mod 3) then DReject else
  match tl with
  | None => DReject
  | Some t =>
      let written := o ++ t ++ [0] in
      if D + 1 <? zlen written then DOOB
      else DOk (map Some written ++ repeat None (Z.to_nat (D + 1 - zlen written))) D
  end.

Lemma decode_finish : forall s, zlen s mod 4 = 0 ->
  decode s = finish (decoded_len s) (fst (dloop s [] 0)) (snd (dloop s [] 0))
                    (dtail s (decoded_len s)).
Proof.
  intros s H. unfold decode, finish. rewrite H. change (0 =? 0) with true. cbn [negb].
  destruct (dloop s [] 0) as [o hh]. reflexivity.
Qed.

Lemma finish_ok : forall D o hh t,
  D <> 0 -> hh <= 64 -> zlen o = D - D mod 3 -> zlen t = D mod 3 ->
  finish D o hh (Some t) = DOk (map Some ((o ++ t) ++ [0])) (zlen (o ++ t)).
Proof.
  intros D o hh t HD Hh Ho Ht. unfold finish. cbv zeta.
  destruct (D =? 0) eqn:E1; [lia|].
  destruct (64 <? hh) eqn:E2; [lia|].
  destruct (zlen o =? D - D mod 3) eqn:E3; [|lia]. cbn [orb negb].
  assert (L : zlen (o ++ t ++ [0]) = D + 1).
  { unfold zlen in *. rewrite !app_length. cbn [length]. lia. }
  assert (L' : zlen (o ++ t) = D).
  { unfold zlen in *. rewrite !app_length. lia. }
  rewrite L, L'. destruct (D + 1 <? D + 1) eqn:E4; [lia|].
  replace (D + 1 - (D + 1)) with 0 by lia. change (Z.to_nat 0) with 0%nat.
  cbn [repeat]. rewrite app_nil_r. rewrite app_assoc. reflexivity.
Qed.

Lemma finish_rej : forall D o hh tl,
  D = 0 \/ zlen o <> D - D mod 3 \/ tl = None -> finish D o hh tl = DReject.
Proof.
  intros D o hh tl H. unfold finish.
  destruct (D =? 0) eqn:E1; [reflexivity|].
  destruct (64 <? hh) eqn:E2; [reflexivity|].
  destruct (zlen o =? D - D mod 3) eqn:E3; [|reflexivity]. cbn [orb negb].
  destruct H as [H | [H | H]]; [lia | lia | rewrite H; reflexivity].
Qed.

Lemma dtail_q : forall c0 c1 c2 c3 D,
  dtail [c0; c1; c2; c3] D =
  if D mod 3 =? 0 then Some []
  else if D mod 3 =? 1 then
    if al c0 && al c1 && (inv c2 =? 64) && (inv c3 =? 64)
    then Some [(inv c0 * 4 + inv c1 / 16) mod 256] else None
  else
    if al c0 && al c1 && al c2 && (inv c3 =? 64)
    then Some [(inv c0 * 1024 + inv c1 * 16 + inv c2 / 4) / 256 mod 256;
               (inv c0 * 1024 + inv c1 * 16 + inv c2 / 4) mod 256] else None.
Proof.
  intros. unfold dtail.
  change (skipn (length [c0; c1; c2; c3] - 4) [c0; c1; c2; c3]) with [c0; c1; c2; c3].
  cbv beta iota zeta. rewrite !leb64. unfold al.
  destruct (D mod 3 =? 0); [reflexivity|].
  destruct (D mod 3 =? 1);
    destruct (inv c0 <? 64), (inv c1 <? 64), (inv c2 <? 64), (inv c2 =? 64), (inv c3 =? 64);
    reflexivity.
Qed.

Ltac iftac :=
  repeat match goal with
         | |- context [if ?b then _ else _] =>
             let E := fresh "E" in destruct b eqn:E; try (exfalso; lia)
         end.

Lemma last_quartet : forall (k : nat) out h c0 c1 c2 c3,
  zlen out = 3 * Z.of_nat k -> h <= 64 ->
  forall D, D = match nudge_of c1 c2 c3 with Some n => 3 * (Z.of_nat k + 1) - n | None => 0 end ->
  finish D (fst (dloop [c0; c1; c2; c3] out h)) (snd (dloop [c0; c1; c2; c3] out h))
         (dtail [c0; c1; c2; c3] D) =
  match option_map (app out) (qlast c0 c1 c2 c3) with
  | Some v => DOk (map Some (v ++ [0])) (zlen v)
  | None => DReject
  end.
Proof.
  intros k out h c0 c1 c2 c3 Lo Hh D HD.
  destruct (al4 c0 c1 c2 c3) eqn:H4.
  - rewrite (dloop_go _ _ _ _ _ _ _ H4). cbn [dloop fst snd].
    pose proof (al4_last _ _ _ _ H4) as H3.
    unfold al4 in H4.
    apply andb_prop in H4; destruct H4 as [H4 A3].
    apply andb_prop in H4; destruct H4 as [H4 A2].
    apply andb_prop in H4; destruct H4 as [A0 A1].
    unfold nudge_of in HD. unfold qlast. rewrite A0, A1, A2, A3 in *. cbn [andb option_map].
    rewrite dtail_q. destruct (D mod 3 =? 0) eqn:E; [|lia].
    rewrite finish_ok.
    + rewrite app_nil_r. reflexivity.
    + lia.
    + lia.
    + unfold zlen in *. rewrite app_length. cbn [dec3 length]. lia.
    + unfold zlen. cbn [length]. lia.
  - rewrite (dloop_stop _ _ _ _ _ _ _ H4). cbn [fst snd].
    rewrite dtail_q. unfold al4 in H4. unfold nudge_of in HD. unfold qlast, stoph.
    destruct (al c0) eqn:A0, (al c1) eqn:A1, (al c2) eqn:A2, (al c3) eqn:A3;
      try discriminate H4; cbn [andb option_map] in *;
      destruct (inv c3 =? 64) eqn:P3; destruct (inv c2 =? 64) eqn:P2;
      cbn [andb option_map] in *; unfold al in *.
    all: try (exfalso; lia).
    all: try (apply finish_rej; first [ left; lia | right; left; lia | right; right; iftac; reflexivity ]).
    all: iftac.
    all: apply finish_ok; [lia | lia | lia | unfold zlen; cbn [length]; lia].
Qed.

Lemma zmod4 : forall n : nat, Z.of_nat n mod 4 = Z.of_nat (n mod 4).
Proof. intro n. rewrite (Nat2Z.inj_mod n 4). reflexivity. Qed.

Theorem decode_ref : forall s,
  decode s = match refdec s with
             | Some v => DOk (map Some (v ++ [0])) (zlen v)
             | None => DReject
             end.
Proof.
  intro s.
  destruct (quartet_decomp s) as [-> | [Hbad | (k & pre & c0 & c1 & c2 & c3 & -> & H)]].
  - reflexivity.
  - rewrite (refdec_badlen s Hbad). unfold decode.
    destruct (zlen s mod 4 =? 0) eqn:E; [|reflexivity]. exfalso. unfold zlen in E. rewrite zmod4 in E. lia.
  - rewrite (refdec_app k pre c0 c1 c2 c3 H).
    rewrite decode_finish by (rewrite (zlen_app4 k pre c0 c1 c2 c3 H); lia).
    rewrite (decoded_len_app k pre c0 c1 c2 c3 H), dtail_app.
    destruct (forallb al pre) eqn:Hal.
    + destruct (dloop_pre_al k pre H Hal [c0; c1; c2; c3] [] 0) as (h' & Hh' & E); [lia|].
      rewrite E. cbn [app].
      apply (last_quartet k (decq pre) h' c0 c1 c2 c3 (decq_len k pre H) Hh'). reflexivity.
    + destruct (dloop_pre_nal k pre H Hal [c0; c1; c2; c3] [] 0) as (out' & h' & E & L).
      rewrite E. cbn [app fst snd]. apply finish_rej.
      destruct (nudge_of c1 c2 c3) as [n|] eqn:N; [|left; reflexivity].
      apply nudge_range in N. right. left. lia.
Qed.

(* ------------------------------------------------------------------------- *)
(* 7. Memory-safety corollaries and the round trip                           *)
(* ------------------------------------------------------------------------- *)

Lemma decode_no_oob : forall s, bytes s -> decode s <> DOOB.
Proof.
  intros s _. rewrite decode_ref. destruct (refdec s); discriminate.
Qed.

Lemma decode_initialised : forall s buf n, bytes s -> decode s = DOk buf n ->
  zlen buf = n + 1 /\ Forall is_Some buf /\ nth (Z.to_nat n) buf None = Some 0.
Proof.
  intros s buf n _ H. rewrite decode_ref in H. destruct (refdec s) as [v|]; [|discriminate H].
  inversion H; subst buf n; clear H. repeat split.
  - unfold zlen. rewrite map_length, app_length. cbn [length]. lia.
  - apply Forall_forall. intros x Hx. apply in_map_iff in Hx. destruct Hx as (y & <- & _). exact I.
  - unfold zlen. rewrite Nat2Z.id. rewrite map_app. rewrite app_nth2; rewrite map_length; [|lia].
    rewrite Nat.sub_diag. reflexivity.
Qed.

Example decode_initialised_ex :
  bytes [84; 87; 70; 117; 65; 80; 56; 61] /\
  decode [84; 87; 70; 117; 65; 80; 56; 61] =
    DOk [Some 77; Some 97; Some 110; Some 0; Some 255; Some 0] 5.
Proof. split; [repeat constructor; unfold is_byte; lia | vm_compute; reflexivity]. Qed.

Lemma inv_chr : forall v, 0 <= v < 64 -> inv (chr v) = v.
Proof. intros v Hv. apply chr_facts. assumption. Qed.

Lemma al_chr : forall v, 0 <= v < 64 -> al (chr v) = true.
Proof. intros v Hv. unfold al. rewrite (inv_chr v Hv). lia. Qed.

Lemma inv_PAD : inv PAD = 64.
Proof. vm_compute. reflexivity. Qed.

Lemma al_PAD : al PAD = false.
Proof. vm_compute. reflexivity. Qed.

Lemma enc3_dec3 : forall a b c, 0 <= a < 256 -> 0 <= b < 256 -> 0 <= c < 256 ->
  forall v0 v1 v2 v3,
  v0 = (a * 65536 + b * 256 + c) / 262144 mod 64 ->
  v1 = (a * 65536 + b * 256 + c) / 4096 mod 64 ->
  v2 = (a * 65536 + b * 256 + c) / 64 mod 64 ->
  v3 = (a * 65536 + b * 256 + c) mod 64 ->
  al4 (chr v0) (chr v1) (chr v2) (chr v3) = true /\
  dec3 (chr v0) (chr v1) (chr v2) (chr v3) = [a; b; c].
Proof.
  intros a b c Ha Hb Hc v0 v1 v2 v3 E0 E1 E2 E3.
  assert (R0 : 0 <= v0 < 64) by lia. assert (R1 : 0 <= v1 < 64) by lia.
  assert (R2 : 0 <= v2 < 64) by lia. assert (R3 : 0 <= v3 < 64) by lia.
  split.
  - unfold al4. rewrite !al_chr by assumption. reflexivity.
  - unfold dec3. rewrite !inv_chr by assumption.
    repeat (f_equal; try lia).
Qed.

Lemma encode_nonempty : forall x l, encode (x :: l) <> [].
Proof. intros x [|y [|z l]]; discriminate. Qed.

Lemma refdec_encode : forall bs, bytes bs -> bs <> [] -> refdec (encode bs) = Some bs.
Proof.
  intro bs. pattern bs. apply list_ind3; clear bs.
  - intros _ H. exfalso. apply H. reflexivity.
  - intros a Hb _. apply bytes_cons in Hb. destruct Hb as [Ha _]. unfold is_byte in Ha.
    cbn [encode refdec]. unfold qlast.
    rewrite !al_chr by lia. rewrite al_PAD, inv_PAD. rewrite !inv_chr by lia.
    cbn [andb]. change (64 =? 64) with true. cbn [andb].
    repeat (f_equal; try lia).
  - intros a b Hb _. apply bytes_cons in Hb. destruct Hb as [Ha Hb].
    apply bytes_cons in Hb. destruct Hb as [Hb _]. unfold is_byte in Ha, Hb.
    cbn [encode refdec]. unfold qlast.
    rewrite !al_chr by lia. rewrite al_PAD, inv_PAD. rewrite !inv_chr by lia.
    cbn [andb]. change (64 =? 64) with true. cbv iota.
    repeat (f_equal; try lia).
  - intros a b c l IH Hb _. apply bytes_cons in Hb. destruct Hb as [Ha Hb].
    apply bytes_cons in Hb. destruct Hb as [Hb Hc].
    apply bytes_cons in Hc. destruct Hc as [Hc Hl]. unfold is_byte in Ha, Hb, Hc.
    rewrite encode_3.
    destruct (enc3_dec3 a b c Ha Hb Hc _ _ _ _ eq_refl eq_refl eq_refl eq_refl) as [H4 H3].
    destruct l as [|x l].
    + cbn [encode refdec]. unfold qlast. unfold al4 in H4.
      apply andb_prop in H4; destruct H4 as [H4 A3].
      apply andb_prop in H4; destruct H4 as [H4 A2].
      apply andb_prop in H4; destruct H4 as [A0 A1].
      rewrite A0, A1, A2, A3. cbn [andb]. rewrite H3. reflexivity.
    + destruct (encode (x :: l)) as [|y r] eqn:E.
      { exfalso. exact (encode_nonempty x l E). }
      rewrite refdec_cons, H4, H3. rewrite IH; [reflexivity | assumption | discriminate].
Qed.

Lemma roundtrip : forall bs, bytes bs -> bs <> [] ->
  decode_bin (encode bs) = DOk (map Some bs ++ [Some 0]) (zlen bs).
Proof.
  intros bs Hb Hne. unfold decode_bin. rewrite decode_ref. rewrite (refdec_encode bs Hb Hne).
  rewrite map_app. reflexivity.
Qed.

Example roundtrip_ex :
  bytes [0; 255; 16; 32] /\ [0; 255; 16; 32] <> [] /\
  decode_bin (encode [0; 255; 16; 32]) = DOk [Some 0; Some 255; Some 16; Some 32; Some 0] 4.
Proof.
  split; [repeat constructor; unfold is_byte; lia|]. split; [discriminate | vm_compute; reflexivity].
Qed.

Example decode_no_oob_ex : bytes [65; 61; 61; 61] /\ decode [65; 61; 61; 61] = DReject.
Proof. split; [repeat constructor; unfold is_byte; lia | vm_compute; reflexivity]. Qed.

(* ------------------------------------------------------------------------- *)
(* 8. The reference decoder is the RFC one                                   *)
(* ------------------------------------------------------------------------- *)

Definition F (c : Z) : list Z := match sextet_of c with Some v => bits6 v | None => [] end.
Definition octs (l : list Z) : list Z := take_octets (length l) l.

Lemma spec_decode_eq : forall s, spec_decode s = octs (flat_map F (fst (strip_pad s))).
Proof. intro s. unfold spec_decode, octs. destruct (strip_pad s); reflexivity. Qed.

Lemma valid_b64_eq : forall s,
  valid_b64 s = negb (Nat.eqb (length s) 0) && Nat.eqb (length s mod 4) 0 &&
                forallb is_alpha (fst (strip_pad s)).
Proof. intro s. unfold valid_b64. destruct (strip_pad s); reflexivity. Qed.

Lemma strip_pad_app : forall pre c0 c1 c2 c3,
  strip_pad (pre ++ [c0; c1; c2; c3]) =
  if c3 =? spec_pad then
    if c2 =? spec_pad then (pre ++ [c0; c1], 2%nat) else (pre ++ [c0; c1; c2], 1%nat)
  else (pre ++ [c0; c1; c2; c3], 0%nat).
Proof.
  intros. unfold strip_pad. rewrite rev_app_distr. cbn [rev app].
  destruct (c3 =? spec_pad); [|reflexivity].
  destruct (c2 =? spec_pad); rewrite rev_involutive, <- !app_assoc; reflexivity.
Qed.

Lemma take_octets_fuel : forall f g l, (length l <= f)%nat -> (length l <= g)%nat ->
  take_octets f l = take_octets g l.
Proof.
  induction f as [|f IH]; intros g l Hf Hg.
  - destruct l; [|simpl in Hf; lia]. destruct g; reflexivity.
  - destruct g as [|g].
    + destruct l; [reflexivity | simpl in Hg; lia].
    + cbn [take_octets]. destruct (Nat.leb 8 (length l)) eqn:E; [|reflexivity].
      apply Nat.leb_le in E. f_equal. apply IH; rewrite skipn_length; lia.
Qed.

Lemma take_octets3 : forall f x1 x2 x3 x4 x5 x6 x7 x8 x9 x10 x11 x12 x13 x14 x15 x16 x17 x18
                            x19 x20 x21 x22 x23 x24 rest,
  take_octets (S (S (S f)))
    (x1 :: x2 :: x3 :: x4 :: x5 :: x6 :: x7 :: x8 :: x9 :: x10 :: x11 :: x12 :: x13 :: x14 ::
     x15 :: x16 :: x17 :: x18 :: x19 :: x20 :: x21 :: x22 :: x23 :: x24 :: rest) =
  bval [x1; x2; x3; x4; x5; x6; x7; x8] :: bval [x9; x10; x11; x12; x13; x14; x15; x16] ::
  bval [x17; x18; x19; x20; x21; x22; x23; x24] :: take_octets f rest.
Proof. reflexivity. Qed.

Section Octets.
  Variables h0 h1 h2 h3 : Z.
  Hypothesis R0 : 0 <= h0 < 64.
  Hypothesis R1 : 0 <= h1 < 64.
  Hypothesis R2 : 0 <= h2 < 64.
  Hypothesis R3 : 0 <= h3 < 64.

  Lemma d_o0 : bval [h0 / 32 mod 2; h0 / 16 mod 2; h0 / 8 mod 2; h0 / 4 mod 2; h0 / 2 mod 2;
                     h0 mod 2; h1 / 32 mod 2; h1 / 16 mod 2] =
               (h0 * 262144 + h1 * 4096 + h2 * 64 + h3) / 65536 mod 256.
  Proof. bv. lia. Qed.
  Lemma d_o1 : bval [h1 / 8 mod 2; h1 / 4 mod 2; h1 / 2 mod 2; h1 mod 2; h2 / 32 mod 2;
                     h2 / 16 mod 2; h2 / 8 mod 2; h2 / 4 mod 2] =
               (h0 * 262144 + h1 * 4096 + h2 * 64 + h3) / 256 mod 256.
  Proof. bv. lia. Qed.
  Lemma d_o2 : bval [h2 / 2 mod 2; h2 mod 2; h3 / 32 mod 2; h3 / 16 mod 2; h3 / 8 mod 2;
                     h3 / 4 mod 2; h3 / 2 mod 2; h3 mod 2] =
               (h0 * 262144 + h1 * 4096 + h2 * 64 + h3) mod 256.
  Proof. bv. lia. Qed.
End Octets.

Section Octets3.
  Variables h0 h1 h2 : Z.
  Hypothesis R0 : 0 <= h0 < 64.
  Hypothesis R1 : 0 <= h1 < 64.
  Hypothesis R2 : 0 <= h2 < 64.
  Lemma d_p0 : bval [h0 / 32 mod 2; h0 / 16 mod 2; h0 / 8 mod 2; h0 / 4 mod 2; h0 / 2 mod 2;
                     h0 mod 2; h1 / 32 mod 2; h1 / 16 mod 2] =
               (h0 * 1024 + h1 * 16 + h2 / 4) / 256 mod 256.
  Proof. bv. lia. Qed.
  Lemma d_p1 : bval [h1 / 8 mod 2; h1 / 4 mod 2; h1 / 2 mod 2; h1 mod 2; h2 / 32 mod 2;
                     h2 / 16 mod 2; h2 / 8 mod 2; h2 / 4 mod 2] =
               (h0 * 1024 + h1 * 16 + h2 / 4) mod 256.
  Proof. bv. lia. Qed.
End Octets3.

Lemma d_q0 : forall h0 h1, 0 <= h0 < 64 -> 0 <= h1 < 64 ->
  bval [h0 / 32 mod 2; h0 / 16 mod 2; h0 / 8 mod 2; h0 / 4 mod 2; h0 / 2 mod 2;
        h0 mod 2; h1 / 32 mod 2; h1 / 16 mod 2] = (h0 * 4 + h1 / 16) mod 256.
Proof. intros h0 h1 R0 R1. bv. lia. Qed.

Lemma F_al : forall c, is_byte c -> al c = true -> F c = bits6 (inv c).
Proof. intros c Hc Ha. unfold F. rewrite (sextet_of_inv c Hc), Ha. reflexivity. Qed.

Lemma al_range : forall c, is_byte c -> al c = true -> 0 <= inv c < 64.
Proof. intros c Hc Ha. pose proof (inv_range c Hc). unfold al in Ha. lia. Qed.

Lemma octs_24 : forall h0 h1 h2 h3 r,
  0 <= h0 < 64 -> 0 <= h1 < 64 -> 0 <= h2 < 64 -> 0 <= h3 < 64 ->
  octs (bits6 h0 ++ bits6 h1 ++ bits6 h2 ++ bits6 h3 ++ r) =
  [(h0 * 262144 + h1 * 4096 + h2 * 64 + h3) / 65536 mod 256;
   (h0 * 262144 + h1 * 4096 + h2 * 64 + h3) / 256 mod 256;
   (h0 * 262144 + h1 * 4096 + h2 * 64 + h3) mod 256] ++ octs r.
Proof.
  intros h0 h1 h2 h3 r R0 R1 R2 R3. unfold bits6. cbn [app]. unfold octs. cbn [length].
  rewrite take_octets3. rewrite (take_octets_fuel _ (length r) r) by lia.
  rewrite (d_o0 h0 h1 h2 h3), (d_o1 h0 h1 h2 h3), (d_o2 h0 h1 h2 h3) by assumption.
  reflexivity.
Qed.

Lemma octs_18 : forall h0 h1 h2, 0 <= h0 < 64 -> 0 <= h1 < 64 -> 0 <= h2 < 64 ->
  octs (bits6 h0 ++ bits6 h1 ++ bits6 h2 ++ []) =
  [(h0 * 1024 + h1 * 16 + h2 / 4) / 256 mod 256; (h0 * 1024 + h1 * 16 + h2 / 4) mod 256].
Proof.
  intros h0 h1 h2 R0 R1 R2.
  cbv [octs bits6 app length take_octets Nat.leb firstn skipn].
  rewrite (d_p0 h0 h1 h2), (d_p1 h0 h1 h2) by assumption. reflexivity.
Qed.

Lemma octs_12 : forall h0 h1, 0 <= h0 < 64 -> 0 <= h1 < 64 ->
  octs (bits6 h0 ++ bits6 h1 ++ []) = [(h0 * 4 + h1 / 16) mod 256].
Proof.
  intros h0 h1 R0 R1.
  cbv [octs bits6 app length take_octets Nat.leb firstn skipn].
  rewrite (d_q0 h0 h1) by assumption. reflexivity.
Qed.

Lemma octs_pre : forall (k : nat) pre, length pre = (4 * k)%nat -> bytes pre ->
  forallb al pre = true ->
  forall rest, octs (flat_map F pre ++ rest) = decq pre ++ octs rest.
Proof.
  induction k as [|k IH]; intros pre H Hb Hal rest.
  - destruct pre; [reflexivity | simpl in H; lia].
  - destruct (quartets_inv k pre H) as (a & b & c & d & pre' & -> & H').
    apply bytes_cons in Hb. destruct Hb as [Ba Hb].
    apply bytes_cons in Hb. destruct Hb as [Bb Hb].
    apply bytes_cons in Hb. destruct Hb as [Bc Hb].
    apply bytes_cons in Hb. destruct Hb as [Bd Hb].
    rewrite forallb_al4 in Hal. apply andb_prop in Hal. destruct Hal as [H4 Hal].
    unfold al4 in H4.
    apply andb_prop in H4; destruct H4 as [H4 A3].
    apply andb_prop in H4; destruct H4 as [H4 A2].
    apply andb_prop in H4; destruct H4 as [A0 A1].
    cbn [flat_map decq]. rewrite !F_al by assumption. rewrite <- !app_assoc.
    rewrite octs_24 by (apply al_range; assumption).
    rewrite (IH pre' H' Hb Hal rest). reflexivity.
Qed.

Lemma forallb_alpha_bytes : forall l, bytes l -> forallb is_alpha l = forallb al l.
Proof.
  induction l as [|c l IH]; intro Hb; [reflexivity|].
  apply bytes_cons in Hb. destruct Hb as [Hc Hb]. cbn [forallb].
  rewrite (is_alpha_al c Hc), (IH Hb). reflexivity.
Qed.

Lemma spec_ref : forall s, bytes s ->
  match refdec s with
  | Some v => valid_b64 s = true /\ spec_decode s = v
  | None => valid_b64 s = false
  end.
Proof.
  intros s Hb.
  destruct (quartet_decomp s) as [-> | [Hbad | (k & pre & c0 & c1 & c2 & c3 & -> & H)]].
  - reflexivity.
  - rewrite (refdec_badlen s Hbad). rewrite valid_b64_eq. apply Nat.eqb_neq in Hbad.
    rewrite Hbad. rewrite andb_false_r. reflexivity.
  - rewrite (refdec_app k pre c0 c1 c2 c3 H). rewrite valid_b64_eq, spec_decode_eq, strip_pad_app.
    assert (L : length (pre ++ [c0; c1; c2; c3]) = (S k * 4)%nat).
    { rewrite app_length. cbn [length]. lia. }
    rewrite L. rewrite Nat.mod_mul by lia.
    change (Nat.eqb (S k * 4) 0) with false. change (Nat.eqb 0 0) with true. cbn [negb andb].
    apply Forall_app in Hb. destruct Hb as [Hpre Hb].
    apply bytes_cons in Hb. destruct Hb as [B0 Hb].
    apply bytes_cons in Hb. destruct Hb as [B1 Hb].
    apply bytes_cons in Hb. destruct Hb as [B2 Hb].
    apply bytes_cons in Hb. destruct Hb as [B3 _].
    rewrite <- (inv_pad c3 B3), <- (inv_pad c2 B2).
    pose proof (forallb_alpha_bytes pre Hpre) as Epre.
    unfold qlast.
    destruct (inv c3 =? 64) eqn:P3; [destruct (inv c2 =? 64) eqn:P2|]; cbn [fst];
      rewrite forallb_app, flat_map_app, Epre; cbn [forallb flat_map];
      rewrite ?(is_alpha_al c0 B0), ?(is_alpha_al c1 B1), ?(is_alpha_al c2 B2),
              ?(is_alpha_al c3 B3);
      (destruct (forallb al pre) eqn:Hal; cbn [andb]; [|reflexivity]).
    + (* xx== *)
      assert (A2 : al c2 = false) by (unfold al; lia). rewrite A2.
      destruct (al c0) eqn:A0; [|reflexivity].
      destruct (al c1) eqn:A1; [|reflexivity].
      cbn [andb option_map]. split; [reflexivity|].
      rewrite (octs_pre k pre H Hpre Hal). rewrite !F_al by assumption.
      rewrite octs_12 by (apply al_range; assumption). reflexivity.
    + (* xxx= *)
      assert (A3 : al c3 = false) by (unfold al; lia). rewrite A3.
      destruct (al c0) eqn:A0; [|reflexivity].
      destruct (al c1) eqn:A1; [|reflexivity].
      destruct (al c2) eqn:A2; [|reflexivity].
      cbn [andb option_map]. split; [reflexivity|].
      rewrite (octs_pre k pre H Hpre Hal). rewrite !F_al by assumption.
      rewrite octs_18 by (apply al_range; assumption). reflexivity.
    + (* xxxx *)
      rewrite andb_false_r.
      destruct (al c0) eqn:A0; [|reflexivity].
      destruct (al c1) eqn:A1; [|reflexivity].
      destruct (al c2) eqn:A2; [|reflexivity].
      destruct (al c3) eqn:A3; [|reflexivity].
      cbn [andb option_map]. split; [reflexivity|].
      rewrite (octs_pre k pre H Hpre Hal). rewrite !F_al by assumption.
      rewrite octs_24 by (apply al_range; assumption). reflexivity.
Qed.

(* ------------------------------------------------------------------------- *)
(* 9. Exactness of decode_bin and decode_str                                 *)
(* ------------------------------------------------------------------------- *)

Lemma cells_prefix_map : forall v r, cells_prefix (map Some v ++ r) (length v) = Some v.
Proof.
  induction v as [|a v IH]; intro r; [destruct r; reflexivity|].
  cbn [map app length cells_prefix]. rewrite IH. reflexivity.
Qed.

Lemma cells_prefix_value : forall v,
  cells_prefix (map Some (v ++ [0])) (Z.to_nat (zlen v)) = Some v.
Proof.
  intro v. unfold zlen. rewrite Nat2Z.id, map_app. apply cells_prefix_map.
Qed.

Lemma decode_exact : forall s, bytes s ->
  (valid_b64 s = true ->
     exists buf, decode_bin s = DOk buf (zlen (spec_decode s)) /\
                 decode_bin_value s = Some (spec_decode s)) /\
  (valid_b64 s = false -> decode_bin s = DReject).
Proof.
  intros s Hb. pose proof (spec_ref s Hb) as R.
  unfold decode_bin, decode_bin_value. rewrite decode_ref.
  destruct (refdec s) as [v|].
  - destruct R as [Hv <-]. split.
    + intros _. exists (map Some (spec_decode s ++ [0])). split; [reflexivity|].
      apply cells_prefix_value.
    + intro Hf. rewrite Hf in Hv. discriminate Hv.
  - split.
    + intro Ht. rewrite Ht in R. discriminate R.
    + intros _. reflexivity.
Qed.

Example decode_exact_ex :
  bytes [84; 87; 70; 117; 65; 80; 56; 61] /\ valid_b64 [84; 87; 70; 117; 65; 80; 56; 61] = true /\
  spec_decode [84; 87; 70; 117; 65; 80; 56; 61] = [77; 97; 110; 0; 255] /\
  bytes [84; 87; 61; 117] /\ valid_b64 [84; 87; 61; 117] = false.
Proof.
  repeat split; try (vm_compute; reflexivity); repeat constructor; unfold is_byte; lia.
Qed.

Lemma zlen_cons : forall (A : Type) (a : A) l, zlen (a :: l) = zlen l + 1.
Proof. intros. unfold zlen. cbn [length]. lia. Qed.

Lemma cstrlen_value : forall v, exists k,
  cstrlen (map Some (v ++ [0])) = Some k /\ 0 <= k <= zlen v /\
  (k =? zlen v) = negb (existsb (Z.eqb 0) v).
Proof.
  induction v as [|a v IH].
  - exists 0. repeat split; reflexivity || (unfold zlen; cbn [length]; lia).
  - destruct IH as (k & E & R & B). rewrite zlen_cons. cbn [app map existsb].
    destruct a as [|p|p].
    + exists 0. cbn [cstrlen]. split; [reflexivity|]. split; [lia|].
      change (0 =? 0) with true. cbn [orb negb]. lia.
    + exists (k + 1). cbn [cstrlen]. rewrite E. split; [reflexivity|]. split; [lia|].
      change (0 =? Z.pos p) with false. cbn [orb]. rewrite <- B. lia.
    + exists (k + 1). cbn [cstrlen]. rewrite E. split; [reflexivity|]. split; [lia|].
      change (0 =? Z.neg p) with false. cbn [orb]. rewrite <- B. lia.
Qed.

Lemma str_exact : forall s, bytes s ->
  decode_str s =
    if zlen s =? 0 then SOk []
    else if valid_b64 s && negb (existsb (Z.eqb 0) (spec_decode s)) then SOk (spec_decode s)
    else SNull.
Proof.
  intros s Hb. unfold decode_str. destruct (zlen s =? 0); [reflexivity|].
  pose proof (spec_ref s Hb) as R. rewrite decode_ref.
  destruct (refdec s) as [v|].
  - destruct R as [-> <-]. cbn [andb].
    destruct (cstrlen_value (spec_decode s)) as (k & E & _ & B). rewrite E, B.
    destruct (existsb (Z.eqb 0) (spec_decode s)); cbn [negb]; [reflexivity|].
    rewrite cells_prefix_value. reflexivity.
  - rewrite R. reflexivity.
Qed.

Example str_exact_ex :
  bytes [84; 87; 70; 117] /\ decode_str [84; 87; 70; 117] = SOk [77; 97; 110] /\
  bytes [84; 87; 70; 117; 65; 80; 56; 61] /\ decode_str [84; 87; 70; 117; 65; 80; 56; 61] = SNull.
Proof.
  repeat split; try (vm_compute; reflexivity); repeat constructor; unfold is_byte; lia.
Qed.

Print Assumptions Gen_b64_ok.
Print Assumptions encode_canonical.
Print Assumptions roundtrip.
Print Assumptions decode_exact.
Print Assumptions decode_initialised.
Print Assumptions decode_no_oob.
Print Assumptions str_exact.
