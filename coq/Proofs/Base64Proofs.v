(* C18 - proofs about the base64 model (Model/Base64Model.v) against the RFC 4648 spec
   (Spec/Base64Spec.v).  Only the Coq standard library is used. *)
Require Import LV.Common.Bytes LV.Gen.Gen_base64 LV.Model.Base64Model LV.Spec.Base64Spec.
From Coq Require Import List ZArith Lia Bool ZifyBool.
Import ListNotations.
Local Open Scope Z_scope.

Ltac Zify.zify_post_hook ::= Z.div_mod_to_equations.

(* ------------------------------------------------------------------------- *)
(* 1. The tables                                                             *)
(* ------------------------------------------------------------------------- *)

Lemma Gen_b64_ok : b64_chr = spec_alphabet ++ [spec_pad] /\ b64_inv = spec_inv.
Proof. split; vm_compute; reflexivity. Qed.

(* boolean sweep over an initial segment of Z *)
Lemma sweep : forall (P : Z -> bool) (n : nat),
  forallb P (map Z.of_nat (seq 0 n)) = true ->
  forall c, 0 <= c < Z.of_nat n -> P c = true.
Proof.
  intros P n H c Hc. rewrite forallb_forall in H. apply H.
  apply in_map_iff. exists (Z.to_nat c). split; [lia|].
  apply in_seq. lia.
Qed.

Definition chk_inv (c : Z) : bool :=
  (0 <=? inv c) && (inv c <=? 65) &&
  match sextet_of c with
  | Some v => (inv c =? v) && (v <? 64)
  | None => 64 <=? inv c
  end &&
  Bool.eqb (inv c =? 64) (c =? 61).

Lemma inv_sweep : forall c, 0 <= c < 256 -> chk_inv c = true.
Proof. apply (sweep chk_inv 256). vm_compute. reflexivity. Qed.

Definition chk_chr (v : Z) : bool :=
  (chr v =? sym v) && (inv (chr v) =? v) && (0 <=? chr v) && (chr v <? 256) &&
  negb (chr v =? 61).

Lemma chr_sweep : forall v, 0 <= v < 64 -> chk_chr v = true.
Proof. apply (sweep chk_chr 64). vm_compute. reflexivity. Qed.

Lemma PAD_61 : PAD = 61.
Proof. vm_compute. reflexivity. Qed.

(* "alphabet character" as the decoder sees it *)
Definition al (c : Z) : bool := inv c <? 64.

Lemma inv_range : forall c, is_byte c -> 0 <= inv c <= 65.
Proof.
  intros c Hc. pose proof (inv_sweep c Hc) as H. unfold chk_inv in H.
  repeat (apply andb_prop in H; destruct H as [H ?]). lia.
Qed.

Lemma sextet_of_inv : forall c, is_byte c ->
  sextet_of c = if al c then Some (inv c) else None.
Proof.
  intros c Hc. pose proof (inv_sweep c Hc) as H. unfold chk_inv in H.
  repeat (apply andb_prop in H; destruct H as [H ?]).
  unfold al. destruct (sextet_of c) as [v|].
  - destruct (inv c <? 64) eqn:E; [f_equal; lia | lia].
  - destruct (inv c <? 64) eqn:E; [lia | reflexivity].
Qed.

Lemma is_alpha_al : forall c, is_byte c -> is_alpha c = al c.
Proof.
  intros c Hc. unfold is_alpha. rewrite (sextet_of_inv c Hc). destruct (al c); reflexivity.
Qed.

Lemma inv_pad : forall c, is_byte c -> (inv c =? 64) = (c =? spec_pad).
Proof.
  intros c Hc. pose proof (inv_sweep c Hc) as H. unfold chk_inv in H.
  repeat (apply andb_prop in H; destruct H as [H ?]).
  unfold spec_pad. apply eqb_prop. assumption.
Qed.

Lemma chr_facts : forall v, 0 <= v < 64 ->
  chr v = sym v /\ inv (chr v) = v /\ is_byte (chr v) /\ chr v <> 61.
Proof.
  intros v Hv. pose proof (chr_sweep v Hv) as H. unfold chk_chr in H.
  repeat (apply andb_prop in H; destruct H as [H ?]).
  unfold is_byte. repeat split; try lia.
Qed.

(* ------------------------------------------------------------------------- *)
(* 2. Induction principles over triples and quartets                         *)
(* ------------------------------------------------------------------------- *)

Lemma list_ind3 : forall (A : Type) (P : list A -> Prop),
  P [] -> (forall a, P [a]) -> (forall a b, P [a; b]) ->
  (forall a b c l, P l -> P (a :: b :: c :: l)) -> forall l, P l.
Proof.
  intros A P H0 H1 H2 H3.
  assert (forall l, P l /\ (forall a, P (a :: l)) /\ (forall a b, P (a :: b :: l))) as H.
  { induction l as [|x l IH].
    - auto.
    - destruct IH as (Ha & Hb & Hc). repeat split; auto. }
  intro l; apply H.
Qed.

Lemma list_ind4 : forall (A : Type) (P : list A -> Prop),
  P [] -> (forall a, P [a]) -> (forall a b, P [a; b]) -> (forall a b c, P [a; b; c]) ->
  (forall a b c d l, P l -> P (a :: b :: c :: d :: l)) -> forall l, P l.
Proof.
  intros A P H0 H1 H2 H3 H4.
  assert (forall l, P l /\ (forall a, P (a :: l)) /\ (forall a b, P (a :: b :: l)) /\
                    (forall a b c, P (a :: b :: c :: l))) as H.
  { induction l as [|x l IH].
    - auto.
    - destruct IH as (Ha & Hb & Hc & Hd). repeat split; auto. }
  intro l; apply H.
Qed.

(* ------------------------------------------------------------------------- *)
(* 3. The encoder is the RFC one                                             *)
(* ------------------------------------------------------------------------- *)

Lemma chunks_fuel : forall f g l, (length l <= f)%nat -> (length l <= g)%nat ->
  chunks f 6 l = chunks g 6 l.
Proof.
  induction f as [|f IH]; intros g l Hf Hg.
  - destruct l; [|simpl in Hf; lia]. destruct g; reflexivity.
  - destruct g as [|g].
    + destruct l; [reflexivity | simpl in Hg; lia].
    + destruct l as [|x l]; [reflexivity|]. cbn [chunks]. f_equal.
      apply IH; rewrite skipn_length; simpl length in *; lia.
Qed.

Lemma chunks4 : forall f x1 x2 x3 x4 x5 x6 x7 x8 x9 x10 x11 x12 x13 x14 x15 x16 x17 x18
                         x19 x20 x21 x22 x23 x24 rest,
  chunks (S (S (S (S f)))) 6
    (x1 :: x2 :: x3 :: x4 :: x5 :: x6 :: x7 :: x8 :: x9 :: x10 :: x11 :: x12 :: x13 :: x14 ::
     x15 :: x16 :: x17 :: x18 :: x19 :: x20 :: x21 :: x22 :: x23 :: x24 :: rest) =
  [x1; x2; x3; x4; x5; x6] :: [x7; x8; x9; x10; x11; x12] ::
  [x13; x14; x15; x16; x17; x18] :: [x19; x20; x21; x22; x23; x24] :: chunks f 6 rest.
Proof. reflexivity. Qed.

Lemma pad4 : forall n, ((4 - S (S (S (S n))) mod 4) mod 4 = (4 - n mod 4) mod 4)%nat.
Proof.
  intro n. replace (S (S (S (S n)))) with (n + 1 * 4)%nat by lia.
  rewrite Nat.mod_add by lia. reflexivity.
Qed.

Definition sx (g : list Z) : Z := sym (bval g).

Lemma spec_encode_3 : forall a b c l,
  spec_encode (a :: b :: c :: l) =
  sx [a / 128 mod 2; a / 64 mod 2; a / 32 mod 2; a / 16 mod 2; a / 8 mod 2; a / 4 mod 2] ::
  sx [a / 2 mod 2; a mod 2; b / 128 mod 2; b / 64 mod 2; b / 32 mod 2; b / 16 mod 2] ::
  sx [b / 8 mod 2; b / 4 mod 2; b / 2 mod 2; b mod 2; c / 128 mod 2; c / 64 mod 2] ::
  sx [c / 32 mod 2; c / 16 mod 2; c / 8 mod 2; c / 4 mod 2; c / 2 mod 2; c mod 2] ::
  spec_encode l.
Proof.
  intros.
  assert (E : flat_map bits8 (a :: b :: c :: l) =
    a / 128 mod 2 :: a / 64 mod 2 :: a / 32 mod 2 :: a / 16 mod 2 :: a / 8 mod 2 :: a / 4 mod 2 ::
    a / 2 mod 2 :: a mod 2 :: b / 128 mod 2 :: b / 64 mod 2 :: b / 32 mod 2 :: b / 16 mod 2 ::
    b / 8 mod 2 :: b / 4 mod 2 :: b / 2 mod 2 :: b mod 2 :: c / 128 mod 2 :: c / 64 mod 2 ::
    c / 32 mod 2 :: c / 16 mod 2 :: c / 8 mod 2 :: c / 4 mod 2 :: c / 2 mod 2 :: c mod 2 ::
    flat_map bits8 l) by reflexivity.
  unfold spec_encode. rewrite E. cbn [length].
  rewrite chunks4.
  rewrite (chunks_fuel _ (length (flat_map bits8 l)) (flat_map bits8 l)) by lia.
  cbn [map length app].
  rewrite pad4. reflexivity.
Qed.

Lemma spec_encode_1 : forall a,
  spec_encode [a] =
  [sx [a / 128 mod 2; a / 64 mod 2; a / 32 mod 2; a / 16 mod 2; a / 8 mod 2; a / 4 mod 2];
   sx [a / 2 mod 2; a mod 2; 0; 0; 0; 0]; spec_pad; spec_pad].
Proof. reflexivity. Qed.

Lemma spec_encode_2 : forall a b,
  spec_encode [a; b] =
  [sx [a / 128 mod 2; a / 64 mod 2; a / 32 mod 2; a / 16 mod 2; a / 8 mod 2; a / 4 mod 2];
   sx [a / 2 mod 2; a mod 2; b / 128 mod 2; b / 64 mod 2; b / 32 mod 2; b / 16 mod 2];
   sx [b / 8 mod 2; b / 4 mod 2; b / 2 mod 2; b mod 2; 0; 0]; spec_pad].
Proof. reflexivity. Qed.

Ltac bv := unfold bval; cbn [fold_left].

Lemma sx_chr : forall g v, 0 <= v < 64 -> bval g = v -> sx g = chr v.
Proof. intros g v Hv Hg. unfold sx. rewrite Hg. symmetry. apply chr_facts. assumption. Qed.

Section Sextets.
  Variables a b c : Z.
  Hypothesis Ha : 0 <= a < 256.
  Hypothesis Hb : 0 <= b < 256.
  Hypothesis Hc : 0 <= c < 256.
  Let word := a * 65536 + b * 256 + c.

  Lemma e_s0 : bval [a / 128 mod 2; a / 64 mod 2; a / 32 mod 2; a / 16 mod 2; a / 8 mod 2; a / 4 mod 2]
               = word / 262144 mod 64.
  Proof. subst word. bv. lia. Qed.
  Lemma e_s1 : bval [a / 2 mod 2; a mod 2; b / 128 mod 2; b / 64 mod 2; b / 32 mod 2; b / 16 mod 2]
               = word / 4096 mod 64.
  Proof. subst word. bv. lia. Qed.
  Lemma e_s2 : bval [b / 8 mod 2; b / 4 mod 2; b / 2 mod 2; b mod 2; c / 128 mod 2; c / 64 mod 2]
               = word / 64 mod 64.
  Proof. subst word. bv. lia. Qed.
  Lemma e_s3 : bval [c / 32 mod 2; c / 16 mod 2; c / 8 mod 2; c / 4 mod 2; c / 2 mod 2; c mod 2]
               = word mod 64.
  Proof. subst word. bv. lia. Qed.
End Sextets.

Section Tails.
  Variables a b : Z.
  Hypothesis Ha : 0 <= a < 256.
  Hypothesis Hb : 0 <= b < 256.
  Lemma e_t0 : bval [a / 128 mod 2; a / 64 mod 2; a / 32 mod 2; a / 16 mod 2; a / 8 mod 2; a / 4 mod 2]
               = a / 4.
  Proof. clear Hb. bv. lia. Qed.
  Lemma e_t1 : bval [a / 2 mod 2; a mod 2; 0; 0; 0; 0] = (a mod 4) * 16.
  Proof. clear Hb. bv. lia. Qed.
  Lemma e_t2 : bval [a / 2 mod 2; a mod 2; b / 128 mod 2; b / 64 mod 2; b / 32 mod 2; b / 16 mod 2]
               = (a mod 4) * 16 + b / 16.
  Proof. bv. lia. Qed.
  Lemma e_t3 : bval [b / 8 mod 2; b / 4 mod 2; b / 2 mod 2; b mod 2; 0; 0] = (b mod 16) * 4.
  Proof. clear Ha. bv. lia. Qed.
End Tails.

Lemma bytes_cons : forall a l, bytes (a :: l) <-> is_byte a /\ bytes l.
Proof. intros. unfold bytes. apply Forall_cons_iff. Qed.

Lemma encode_3 : forall a b c l,
  encode (a :: b :: c :: l) =
  chr ((a * 65536 + b * 256 + c) / 262144 mod 64) :: chr ((a * 65536 + b * 256 + c) / 4096 mod 64) ::
  chr ((a * 65536 + b * 256 + c) / 64 mod 64) :: chr ((a * 65536 + b * 256 + c) mod 64) :: encode l.
Proof. reflexivity. Qed.

Lemma encode_canonical : forall bs, bytes bs -> encode bs = spec_encode bs.
Proof.
  intro bs. pattern bs. apply list_ind3; clear bs.
  - reflexivity.
  - intros a Hb. apply bytes_cons in Hb. destruct Hb as [Ha _]. unfold is_byte in Ha.
    rewrite spec_encode_1. cbn [encode]. rewrite PAD_61. unfold spec_pad.
    rewrite (sx_chr _ (a / 4)) by (try apply e_t0; lia).
    rewrite (sx_chr _ ((a mod 4) * 16)) by (try apply e_t1; lia).
    reflexivity.
  - intros a b Hb. apply bytes_cons in Hb. destruct Hb as [Ha Hb].
    apply bytes_cons in Hb. destruct Hb as [Hb _]. unfold is_byte in Ha, Hb.
    rewrite spec_encode_2. cbn [encode]. rewrite PAD_61. unfold spec_pad.
    rewrite (sx_chr _ (a / 4)) by (try apply e_t0; lia).
    rewrite (sx_chr _ ((a mod 4) * 16 + b / 16)) by (try apply e_t2; lia).
    rewrite (sx_chr _ ((b mod 16) * 4)) by (try apply e_t3; lia).
    reflexivity.
  - intros a b c l IH Hb. apply bytes_cons in Hb. destruct Hb as [Ha Hb].
    apply bytes_cons in Hb. destruct Hb as [Hb Hc].
    apply bytes_cons in Hc. destruct Hc as [Hc Hl]. unfold is_byte in Ha, Hb, Hc.
    rewrite spec_encode_3, encode_3, (IH Hl).
    rewrite (sx_chr _ ((a * 65536 + b * 256 + c) / 262144 mod 64)) by (try apply e_s0; lia).
    rewrite (sx_chr _ ((a * 65536 + b * 256 + c) / 4096 mod 64)) by (try apply e_s1; lia).
    rewrite (sx_chr _ ((a * 65536 + b * 256 + c) / 64 mod 64)) by (try apply e_s2; lia).
    rewrite (sx_chr _ ((a * 65536 + b * 256 + c) mod 64)) by (try apply e_s3; lia).
    reflexivity.
Qed.

Example encode_canonical_ex :
  bytes [77; 97; 110; 0; 255] /\ encode [77; 97; 110; 0; 255] = [84; 87; 70; 117; 65; 80; 56; 61].
Proof. split; [repeat constructor; unfold is_byte; lia | vm_compute; reflexivity]. Qed.

(* ------------------------------------------------------------------------- *)
(* 4. A reference decoder on quartets, and the model's decoder in terms of it *)
(* ------------------------------------------------------------------------- *)

Definition dec3 (c0 c1 c2 c3 : Z) : list Z :=
  let word := inv c0 * 262144 + inv c1 * 4096 + inv c2 * 64 + inv c3 in
  [word / 65536 mod 256; word / 256 mod 256; word mod 256].

Definition al4 (c0 c1 c2 c3 : Z) : bool := al c0 && al c1 && al c2 && al c3.

(* value of a sequence of all-alphabet quartets *)
Fixpoint decq (s : list Z) : list Z :=
  match s with
  | c0 :: c1 :: c2 :: c3 :: rest => dec3 c0 c1 c2 c3 ++ decq rest
  | _ => []
  end.

(* value of the last quartet: xxxx, xxx= or xx== *)
Definition qlast (c0 c1 c2 c3 : Z) : option (list Z) :=
  if al c0 && al c1 then
    if al c2 then
      if al c3 then Some (dec3 c0 c1 c2 c3)
      else if inv c3 =? 64 then
        Some [(inv c0 * 1024 + inv c1 * 16 + inv c2 / 4) / 256 mod 256;
              (inv c0 * 1024 + inv c1 * 16 + inv c2 / 4) mod 256]
      else None
    else if (inv c2 =? 64) && (inv c3 =? 64) then Some [(inv c0 * 4 + inv c1 / 16) mod 256]
    else None
  else None.

Fixpoint refdec (s : list Z) : option (list Z) :=
  match s with
  | c0 :: c1 :: c2 :: c3 :: rest =>
      match rest with
      | [] => qlast c0 c1 c2 c3
      | _ => if al4 c0 c1 c2 c3 then option_map (app (dec3 c0 c1 c2 c3)) (refdec rest) else None
      end
  | _ => None
  end.

Lemma refdec_cons : forall c0 c1 c2 c3 x rest,
  refdec (c0 :: c1 :: c2 :: c3 :: x :: rest) =
  if al4 c0 c1 c2 c3 then option_map (app (dec3 c0 c1 c2 c3)) (refdec (x :: rest)) else None.
Proof. reflexivity. Qed.

Lemma forallb_al4 : forall c0 c1 c2 c3 l,
  forallb al (c0 :: c1 :: c2 :: c3 :: l) = al4 c0 c1 c2 c3 && forallb al l.
Proof.
  intros. cbn [forallb]. unfold al4.
  destruct (al c0), (al c1), (al c2), (al c3); reflexivity.
Qed.

Lemma quartets_inv : forall (k : nat) (pre : list Z), length pre = (4 * S k)%nat ->
  exists c0 c1 c2 c3 pre', pre = c0 :: c1 :: c2 :: c3 :: pre' /\ length pre' = (4 * k)%nat.
Proof.
  intros k pre H.
  destruct pre as [|c0 [|c1 [|c2 [|c3 pre']]]]; simpl in H; try lia.
  exists c0, c1, c2, c3, pre'. split; [reflexivity | lia].
Qed.

Lemma refdec_app : forall (k : nat) pre c0 c1 c2 c3, length pre = (4 * k)%nat ->
  refdec (pre ++ [c0; c1; c2; c3]) =
  if forallb al pre then option_map (app (decq pre)) (qlast c0 c1 c2 c3) else None.
Proof.
  induction k as [|k IH]; intros pre c0 c1 c2 c3 H.
  - destruct pre; [|simpl in H; lia]. cbn [app forallb decq refdec].
    destruct (qlast c0 c1 c2 c3); reflexivity.
  - destruct (quartets_inv k pre H) as (a & b & c & d & pre' & -> & H').
    rewrite forallb_al4. cbn [app decq].
    destruct (pre' ++ [c0; c1; c2; c3]) as [|x r] eqn:E.
    { apply app_eq_nil in E. destruct E as [_ E]. discriminate E. }
    rewrite refdec_cons. rewrite <- E. rewrite (IH pre' c0 c1 c2 c3 H').
    destruct (al4 a b c d); [|reflexivity]. cbn [andb].
    destruct (forallb al pre'); [|reflexivity].
    destruct (qlast c0 c1 c2 c3); [|reflexivity].
    cbn [option_map]. rewrite app_assoc. reflexivity.
Qed.

Lemma mod4_SSSS : forall n, (S (S (S (S n))) mod 4 = n mod 4)%nat.
Proof.
  intro n. replace (S (S (S (S n)))) with (n + 1 * 4)%nat by lia.
  apply Nat.mod_add. lia.
Qed.

Lemma refdec_badlen : forall s, (length s mod 4 <> 0)%nat -> refdec s = None.
Proof.
  intro s. pattern s. apply list_ind4; clear s; try reflexivity.
  intros a b c d l IH H. cbn [length] in H. rewrite mod4_SSSS in H.
  destruct l as [|x l].
  - exfalso. apply H. reflexivity.
  - rewrite refdec_cons. rewrite (IH H). destruct (al4 a b c d); reflexivity.
Qed.

(* every list is empty, of bad length, or a multiple-of-four prefix followed by a last quartet *)
Lemma quartet_decomp : forall s : list Z,
  s = [] \/ (length s mod 4 <> 0)%nat \/
  exists (k : nat) pre c0 c1 c2 c3, s = pre ++ [c0; c1; c2; c3] /\ length pre = (4 * k)%nat.
Proof.
  intro s. pattern s. apply list_ind4; clear s.
  - left. reflexivity.
  - intros. right. left. cbn. discriminate.
  - intros. right. left. cbn. discriminate.
  - intros. right. left. cbn. discriminate.
  - intros a b c d l [IH | [IH | IH]].
    + subst l. right. right. exists 0%nat, [], a, b, c, d. split; reflexivity.
    + right. left. cbn [length]. rewrite mod4_SSSS. assumption.
    + destruct IH as (k & pre & c0 & c1 & c2 & c3 & -> & H).
      right. right. exists (S k), (a :: b :: c :: d :: pre), c0, c1, c2, c3.
      split; [reflexivity | cbn [length]; lia].
Qed.

(* ------------------------------------------------------------------------- *)
(* 5. The pieces of the model's decoder                                      *)
(* ------------------------------------------------------------------------- *)

Lemma leb64 : forall x, (64 <=? x) = negb (x <? 64).
Proof. intro x. apply Z.leb_antisym. Qed.

(* the value left in `hextet` when the main loop breaks in a quartet *)
Definition stoph (c0 c1 c2 c3 : Z) : Z :=
  if al c0 then if al c1 then if al c2 then inv c3 else inv c2 else inv c1 else inv c0.

Lemma dloop_go : forall c0 c1 c2 c3 rest out h, al4 c0 c1 c2 c3 = true ->
  dloop (c0 :: c1 :: c2 :: c3 :: rest) out h = dloop rest (out ++ dec3 c0 c1 c2 c3) (inv c3).
Proof.
  intros c0 c1 c2 c3 rest out h. unfold al4, al. intro H. cbn [dloop]. rewrite !leb64.
  destruct (inv c0 <? 64); [|discriminate H].
  destruct (inv c1 <? 64); [|discriminate H].
  destruct (inv c2 <? 64); [|discriminate H].
  destruct (inv c3 <? 64); [|discriminate H].
  reflexivity.
Qed.

Lemma dloop_stop : forall c0 c1 c2 c3 rest out h, al4 c0 c1 c2 c3 = false ->
  dloop (c0 :: c1 :: c2 :: c3 :: rest) out h = (out, stoph c0 c1 c2 c3).
Proof.
  intros c0 c1 c2 c3 rest out h. unfold al4, stoph, al. intro H. cbn [dloop]. rewrite !leb64.
  destruct (inv c0 <? 64); [|reflexivity].
  destruct (inv c1 <? 64); [|reflexivity].
  destruct (inv c2 <? 64); [|reflexivity].
  destruct (inv c3 <? 64); [discriminate H|reflexivity].
Qed.

Lemma al4_last : forall c0 c1 c2 c3, al4 c0 c1 c2 c3 = true -> inv c3 < 64.
Proof.
  intros c0 c1 c2 c3 H. unfold al4 in H. apply andb_prop in H. destruct H as [_ H].
  unfold al in H. lia.
Qed.

Lemma dloop_pre_al : forall (k : nat) pre, length pre = (4 * k)%nat -> forallb al pre = true ->
  forall rest out h, h <= 64 ->
  exists h', h' <= 64 /\ dloop (pre ++ rest) out h = dloop rest (out ++ decq pre) h'.
Proof.
  induction k as [|k IH]; intros pre H Hal rest out h Hh.
  - destruct pre; [|simpl in H; lia]. exists h. split; [assumption|].
    cbn [app decq]. rewrite app_nil_r. reflexivity.
  - destruct (quartets_inv k pre H) as (a & b & c & d & pre' & -> & H').
    rewrite forallb_al4 in Hal. apply andb_prop in Hal. destruct Hal as [H4 Hal].
    pose proof (al4_last _ _ _ _ H4) as Hd.
    destruct (IH pre' H' Hal rest (out ++ dec3 a b c d) (inv d)) as (h' & Hh' & E); [lia|].
    exists h'. split; [assumption|].
    cbn [app decq]. rewrite (dloop_go _ _ _ _ _ _ _ H4). rewrite E. rewrite app_assoc. reflexivity.
Qed.

Lemma decq_len : forall (k : nat) pre, length pre = (4 * k)%nat -> zlen (decq pre) = 3 * Z.of_nat k.
Proof.
  induction k as [|k IH]; intros pre H.
  - destruct pre; [reflexivity | simpl in H; lia].
  - destruct (quartets_inv k pre H) as (a & b & c & d & pre' & -> & H').
    specialize (IH pre' H'). unfold zlen in *. cbn [decq dec3 app length]. lia.
Qed.

Lemma dloop_pre_nal : forall (k : nat) pre, length pre = (4 * k)%nat -> forallb al pre = false ->
  forall rest out h,
  exists out' h', dloop (pre ++ rest) out h = (out ++ out', h') /\ zlen out' < 3 * Z.of_nat k.
Proof.
  induction k as [|k IH]; intros pre H Hal rest out h.
  - destruct pre; [discriminate Hal | simpl in H; lia].
  - destruct (quartets_inv k pre H) as (a & b & c & d & pre' & -> & H').
    rewrite forallb_al4 in Hal. cbn [app].
    destruct (al4 a b c d) eqn:H4.
    + cbn [andb] in Hal. rewrite (dloop_go _ _ _ _ _ _ _ H4).
      destruct (IH pre' H' Hal rest (out ++ dec3 a b c d) (inv d)) as (out' & h' & E & L).
      exists (dec3 a b c d ++ out'), h'. split.
      * rewrite E. rewrite app_assoc. reflexivity.
      * unfold zlen in *. rewrite app_length. cbn [dec3 length]. lia.
    + rewrite (dloop_stop _ _ _ _ _ _ _ H4). exists [], (stoph a b c d). split.
      * rewrite app_nil_r. reflexivity.
      * unfold zlen. cbn [length]. lia.
Qed.

Lemma scan_pad_ge : forall r n, match scan_pad r n with Some m => n <= m | None => True end.
Proof.
  induction r as [|c r IH]; intro n; cbn [scan_pad].
  - lia.
  - destruct (inv c <? 64); [lia|]. destruct (inv c =? 64); [|exact I].
    specialize (IH (n + 1)). destruct (scan_pad r (n + 1)); [lia | exact I].
Qed.

(* the pad count seen by base64_decoded_len, from the last three characters *)
Definition nudge_of (c1 c2 c3 : Z) : option Z :=
  if al c3 then Some 0
  else if inv c3 =? 64 then
    if al c2 then Some 1
    else if inv c2 =? 64 then
      if al c1 then Some 2 else None
    else None
  else None.

Lemma zlen_app4 : forall (k : nat) pre (c0 c1 c2 c3 : Z), length pre = (4 * k)%nat ->
  zlen (pre ++ [c0; c1; c2; c3]) = 4 * Z.of_nat k + 4.
Proof. intros. unfold zlen. rewrite app_length. cbn [length]. lia. Qed.

Lemma decoded_len_app : forall (k : nat) pre c0 c1 c2 c3, length pre = (4 * k)%nat ->
  decoded_len (pre ++ [c0; c1; c2; c3]) =
  match nudge_of c1 c2 c3 with Some n => 3 * (Z.of_nat k + 1) - n | None => 0 end.
Proof.
  intros k pre c0 c1 c2 c3 H. unfold decoded_len. rewrite (zlen_app4 k pre c0 c1 c2 c3 H).
  rewrite rev_app_distr. cbn [rev app]. generalize (c0 :: rev pre); intro r.
  cbn [scan_pad]. unfold nudge_of, al.
  destruct (4 * Z.of_nat k + 4 <? 4) eqn:E0; [lia|].
  destruct (inv c3 <? 64).
  { destruct (2 <? 0) eqn:E; lia. }
  destruct (inv c3 =? 64); [|reflexivity].
  destruct (inv c2 <? 64).
  { destruct (2 <? 0 + 1) eqn:E; lia. }
  destruct (inv c2 =? 64); [|reflexivity].
  destruct (inv c1 <? 64).
  { destruct (2 <? 0 + 1 + 1) eqn:E; lia. }
  destruct (inv c1 =? 64); [|reflexivity].
  pose proof (scan_pad_ge r (0 + 1 + 1 + 1)) as G.
  destruct (scan_pad r (0 + 1 + 1 + 1)) as [m|]; [|reflexivity].
  destruct (2 <? m) eqn:E; lia.
Qed.

Lemma nudge_range : forall c1 c2 c3 n, nudge_of c1 c2 c3 = Some n -> 0 <= n <= 2.
Proof.
  intros c1 c2 c3 n. unfold nudge_of.
  destruct (al c3); [intro E; inversion E; lia|].
  destruct (inv c3 =? 64); [|discriminate].
  destruct (al c2); [intro E; inversion E; lia|].
  destruct (inv c2 =? 64); [|discriminate].
  destruct (al c1); [intro E; inversion E; lia|discriminate].
Qed.

Lemma skipn_length_app : forall (A : Type) (l1 l2 : list A), skipn (length l1) (l1 ++ l2) = l2.
Proof. induction l1 as [|x l1 IH]; intro l2; [reflexivity | apply IH]. Qed.

Lemma dtail_app : forall pre c0 c1 c2 c3 d,
  dtail (pre ++ [c0; c1; c2; c3]) d = dtail [c0; c1; c2; c3] d.
Proof.
  intros. unfold dtail. rewrite app_length. cbn [length].
  replace (length pre + 4 - 4)%nat with (length pre) by lia.
  rewrite skipn_length_app. reflexivity.
Qed.
