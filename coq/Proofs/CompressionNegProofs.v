(* CompressionNegProofs (property C20): where the connection automaton (NegModel) switches the compression
   layer on.  comp_active is written in exactly two places of NegModel: the <compressed/> branch of
   _handle_compress_result (true) and conn_reset (false); every other function leaves it alone.  The frame
   lemmas below follow the pattern (and reuse the tactics) of Proofs/NegFrame_C03.v. *)
Require Import LV.Common.Bytes LV.Gen.Gen_neg LV.Model.NegState LV.Model.NegModel LV.Spec.NegSpec LV.Proofs.NegFrame_C03.
Local Open Scope Z_scope.

(* the layer's switch is untouched *)
Definition CA (s s' : state) : Prop := comp_active s' = comp_active s.
Lemma CA_refl : forall s, CA s s. Proof. reflexivity. Qed.
Lemma CA_trans : forall a b c, CA a b -> CA b c -> CA a c. Proof. unfold CA; congruence. Qed.
#[export] Hint Resolve CA_refl : cadb.
Lemma CA_set_f_tls_disabled : forall v s0 s, CA s0 s -> CA s0 (set_f_tls_disabled v s).
Proof. intros v s0 s H; unfold CA in *; destruct s; exact H. Qed.
#[export] Hint Resolve CA_set_f_tls_disabled : cadb.
Lemma CA_set_f_tls_mandatory : forall v s0 s, CA s0 s -> CA s0 (set_f_tls_mandatory v s).
Proof. intros v s0 s H; unfold CA in *; destruct s; exact H. Qed.
#[export] Hint Resolve CA_set_f_tls_mandatory : cadb.
Lemma CA_set_f_legacy_ssl : forall v s0 s, CA s0 s -> CA s0 (set_f_legacy_ssl v s).
Proof. intros v s0 s H; unfold CA in *; destruct s; exact H. Qed.
#[export] Hint Resolve CA_set_f_legacy_ssl : cadb.
Lemma CA_set_f_tls_trust : forall v s0 s, CA s0 s -> CA s0 (set_f_tls_trust v s).
Proof. intros v s0 s H; unfold CA in *; destruct s; exact H. Qed.
#[export] Hint Resolve CA_set_f_tls_trust : cadb.
Lemma CA_set_f_legacy_auth : forall v s0 s, CA s0 s -> CA s0 (set_f_legacy_auth v s).
Proof. intros v s0 s H; unfold CA in *; destruct s; exact H. Qed.
#[export] Hint Resolve CA_set_f_legacy_auth : cadb.
Lemma CA_set_f_sm_disable : forall v s0 s, CA s0 s -> CA s0 (set_f_sm_disable v s).
Proof. intros v s0 s H; unfold CA in *; destruct s; exact H. Qed.
#[export] Hint Resolve CA_set_f_sm_disable : cadb.
Lemma CA_set_f_comp_allowed : forall v s0 s, CA s0 s -> CA s0 (set_f_comp_allowed v s).
Proof. intros v s0 s H; unfold CA in *; destruct s; exact H. Qed.
#[export] Hint Resolve CA_set_f_comp_allowed : cadb.
Lemma CA_set_f_comp_dont_reset : forall v s0 s, CA s0 s -> CA s0 (set_f_comp_dont_reset v s).
Proof. intros v s0 s H; unfold CA in *; destruct s; exact H. Qed.
#[export] Hint Resolve CA_set_f_comp_dont_reset : cadb.
Lemma CA_set_jid_set : forall v s0 s, CA s0 s -> CA s0 (set_jid_set v s).
Proof. intros v s0 s H; unfold CA in *; destruct s; exact H. Qed.
#[export] Hint Resolve CA_set_jid_set : cadb.
Lemma CA_set_jid_node : forall v s0 s, CA s0 s -> CA s0 (set_jid_node v s).
Proof. intros v s0 s H; unfold CA in *; destruct s; exact H. Qed.
#[export] Hint Resolve CA_set_jid_node : cadb.
Lemma CA_set_jid_res : forall v s0 s, CA s0 s -> CA s0 (set_jid_res v s).
Proof. intros v s0 s H; unfold CA in *; destruct s; exact H. Qed.
#[export] Hint Resolve CA_set_jid_res : cadb.
Lemma CA_set_pass_set : forall v s0 s, CA s0 s -> CA s0 (set_pass_set v s).
Proof. intros v s0 s H; unfold CA in *; destruct s; exact H. Qed.
#[export] Hint Resolve CA_set_pass_set : cadb.
Lemma CA_set_cert_set : forall v s0 s, CA s0 s -> CA s0 (set_cert_set v s).
Proof. intros v s0 s H; unfold CA in *; destruct s; exact H. Qed.
#[export] Hint Resolve CA_set_cert_set : cadb.
Lemma CA_set_is_raw : forall v s0 s, CA s0 s -> CA s0 (set_is_raw v s).
Proof. intros v s0 s H; unfold CA in *; destruct s; exact H. Qed.
#[export] Hint Resolve CA_set_is_raw : cadb.
Lemma CA_set_typ : forall v s0 s, CA s0 s -> CA s0 (set_typ v s).
Proof. intros v s0 s H; unfold CA in *; destruct s; exact H. Qed.
#[export] Hint Resolve CA_set_typ : cadb.
Lemma CA_set_user_handler : forall v s0 s, CA s0 s -> CA s0 (set_user_handler v s).
Proof. intros v s0 s H; unfold CA in *; destruct s; exact H. Qed.
#[export] Hint Resolve CA_set_user_handler : cadb.
Lemma CA_set_user_timed : forall v s0 s, CA s0 s -> CA s0 (set_user_timed v s).
Proof. intros v s0 s H; unfold CA in *; destruct s; exact H. Qed.
#[export] Hint Resolve CA_set_user_timed : cadb.
Lemma CA_set_tlsnew_ok : forall v s0 s, CA s0 s -> CA s0 (set_tlsnew_ok v s).
Proof. intros v s0 s H; unfold CA in *; destruct s; exact H. Qed.
#[export] Hint Resolve CA_set_tlsnew_ok : cadb.
Lemma CA_set_cb_avail : forall v s0 s, CA s0 s -> CA s0 (set_cb_avail v s).
Proof. intros v s0 s H; unfold CA in *; destruct s; exact H. Qed.
#[export] Hint Resolve CA_set_cb_avail : cadb.
Lemma CA_set_tls_verdicts : forall v s0 s, CA s0 s -> CA s0 (set_tls_verdicts v s).
Proof. intros v s0 s H; unfold CA in *; destruct s; exact H. Qed.
#[export] Hint Resolve CA_set_tls_verdicts : cadb.
Lemma CA_set_next_cands : forall v s0 s, CA s0 s -> CA s0 (set_next_cands v s).
Proof. intros v s0 s H; unfold CA in *; destruct s; exact H. Qed.
#[export] Hint Resolve CA_set_next_cands : cadb.
Lemma CA_set_cands : forall v s0 s, CA s0 s -> CA s0 (set_cands v s).
Proof. intros v s0 s H; unfold CA in *; destruct s; exact H. Qed.
#[export] Hint Resolve CA_set_cands : cadb.
Lemma CA_set_cur_ep : forall v s0 s, CA s0 s -> CA s0 (set_cur_ep v s).
Proof. intros v s0 s H; unfold CA in *; destruct s; exact H. Qed.
#[export] Hint Resolve CA_set_cur_ep : cadb.
Lemma CA_set_st : forall v s0 s, CA s0 s -> CA s0 (set_st v s).
Proof. intros v s0 s H; unfold CA in *; destruct s; exact H. Qed.
#[export] Hint Resolve CA_set_st : cadb.
Lemma CA_set_stamp : forall v s0 s, CA s0 s -> CA s0 (set_stamp v s).
Proof. intros v s0 s H; unfold CA in *; destruct s; exact H. Qed.
#[export] Hint Resolve CA_set_stamp : cadb.
Lemma CA_set_err : forall v s0 s, CA s0 s -> CA s0 (set_err v s).
Proof. intros v s0 s H; unfold CA in *; destruct s; exact H. Qed.
#[export] Hint Resolve CA_set_err : cadb.
Lemma CA_set_stream_error : forall v s0 s, CA s0 s -> CA s0 (set_stream_error v s).
Proof. intros v s0 s H; unfold CA in *; destruct s; exact H. Qed.
#[export] Hint Resolve CA_set_stream_error : cadb.
Lemma CA_set_secured : forall v s0 s, CA s0 s -> CA s0 (set_secured v s).
Proof. intros v s0 s H; unfold CA in *; destruct s; exact H. Qed.
#[export] Hint Resolve CA_set_secured : cadb.
Lemma CA_set_tls_present : forall v s0 s, CA s0 s -> CA s0 (set_tls_present v s).
Proof. intros v s0 s H; unfold CA in *; destruct s; exact H. Qed.
#[export] Hint Resolve CA_set_tls_present : cadb.
Lemma CA_set_tls_failed : forall v s0 s, CA s0 s -> CA s0 (set_tls_failed v s).
Proof. intros v s0 s H; unfold CA in *; destruct s; exact H. Qed.
#[export] Hint Resolve CA_set_tls_failed : cadb.
Lemma CA_set_tls_support : forall v s0 s, CA s0 s -> CA s0 (set_tls_support v s).
Proof. intros v s0 s H; unfold CA in *; destruct s; exact H. Qed.
#[export] Hint Resolve CA_set_tls_support : cadb.
Lemma CA_set_sasl : forall v s0 s, CA s0 s -> CA s0 (set_sasl v s).
Proof. intros v s0 s H; unfold CA in *; destruct s; exact H. Qed.
#[export] Hint Resolve CA_set_sasl : cadb.
Lemma CA_set_bind_required : forall v s0 s, CA s0 s -> CA s0 (set_bind_required v s).
Proof. intros v s0 s H; unfold CA in *; destruct s; exact H. Qed.
#[export] Hint Resolve CA_set_bind_required : cadb.
Lemma CA_set_session_required : forall v s0 s, CA s0 s -> CA s0 (set_session_required v s).
Proof. intros v s0 s H; unfold CA in *; destruct s; exact H. Qed.
#[export] Hint Resolve CA_set_session_required : cadb.
Lemma CA_set_comp_supported : forall v s0 s, CA s0 s -> CA s0 (set_comp_supported v s).
Proof. intros v s0 s H; unfold CA in *; destruct s; exact H. Qed.
#[export] Hint Resolve CA_set_comp_supported : cadb.
Lemma CA_set_sm_alloc : forall v s0 s, CA s0 s -> CA s0 (set_sm_alloc v s).
Proof. intros v s0 s H; unfold CA in *; destruct s; exact H. Qed.
#[export] Hint Resolve CA_set_sm_alloc : cadb.
Lemma CA_set_sm_support : forall v s0 s, CA s0 s -> CA s0 (set_sm_support v s).
Proof. intros v s0 s H; unfold CA in *; destruct s; exact H. Qed.
#[export] Hint Resolve CA_set_sm_support : cadb.
Lemma CA_set_sm_enabled : forall v s0 s, CA s0 s -> CA s0 (set_sm_enabled v s).
Proof. intros v s0 s H; unfold CA in *; destruct s; exact H. Qed.
#[export] Hint Resolve CA_set_sm_enabled : cadb.
Lemma CA_set_sm_can_resume : forall v s0 s, CA s0 s -> CA s0 (set_sm_can_resume v s).
Proof. intros v s0 s H; unfold CA in *; destruct s; exact H. Qed.
#[export] Hint Resolve CA_set_sm_can_resume : cadb.
Lemma CA_set_sm_resume : forall v s0 s, CA s0 s -> CA s0 (set_sm_resume v s).
Proof. intros v s0 s H; unfold CA in *; destruct s; exact H. Qed.
#[export] Hint Resolve CA_set_sm_resume : cadb.
Lemma CA_set_sm_dont_request : forall v s0 s, CA s0 s -> CA s0 (set_sm_dont_request v s).
Proof. intros v s0 s H; unfold CA in *; destruct s; exact H. Qed.
#[export] Hint Resolve CA_set_sm_dont_request : cadb.
Lemma CA_set_sm_has_previd : forall v s0 s, CA s0 s -> CA s0 (set_sm_has_previd v s).
Proof. intros v s0 s H; unfold CA in *; destruct s; exact H. Qed.
#[export] Hint Resolve CA_set_sm_has_previd : cadb.
Lemma CA_set_sm_has_id : forall v s0 s, CA s0 s -> CA s0 (set_sm_has_id v s).
Proof. intros v s0 s H; unfold CA in *; destruct s; exact H. Qed.
#[export] Hint Resolve CA_set_sm_has_id : cadb.
Lemma CA_set_sm_parked : forall v s0 s, CA s0 s -> CA s0 (set_sm_parked v s).
Proof. intros v s0 s H; unfold CA in *; destruct s; exact H. Qed.
#[export] Hint Resolve CA_set_sm_parked : cadb.
Lemma CA_set_sm_r_sent : forall v s0 s, CA s0 s -> CA s0 (set_sm_r_sent v s).
Proof. intros v s0 s H; unfold CA in *; destruct s; exact H. Qed.
#[export] Hint Resolve CA_set_sm_r_sent : cadb.
Lemma CA_set_sm_bind_saved : forall v s0 s, CA s0 s -> CA s0 (set_sm_bind_saved v s).
Proof. intros v s0 s H; unfold CA in *; destruct s; exact H. Qed.
#[export] Hint Resolve CA_set_sm_bind_saved : cadb.
Lemma CA_set_bound_jid : forall v s0 s, CA s0 s -> CA s0 (set_bound_jid v s).
Proof. intros v s0 s H; unfold CA in *; destruct s; exact H. Qed.
#[export] Hint Resolve CA_set_bound_jid : cadb.
Lemma CA_set_stream_id : forall v s0 s, CA s0 s -> CA s0 (set_stream_id v s).
Proof. intros v s0 s H; unfold CA in *; destruct s; exact H. Qed.
#[export] Hint Resolve CA_set_stream_id : cadb.
Lemma CA_set_neg_done : forall v s0 s, CA s0 s -> CA s0 (set_neg_done v s).
Proof. intros v s0 s H; unfold CA in *; destruct s; exact H. Qed.
#[export] Hint Resolve CA_set_neg_done : cadb.
Lemma CA_set_reset_parser : forall v s0 s, CA s0 s -> CA s0 (set_reset_parser v s).
Proof. intros v s0 s H; unfold CA in *; destruct s; exact H. Qed.
#[export] Hint Resolve CA_set_reset_parser : cadb.
Lemma CA_set_oh : forall v s0 s, CA s0 s -> CA s0 (set_oh v s).
Proof. intros v s0 s H; unfold CA in *; destruct s; exact H. Qed.
#[export] Hint Resolve CA_set_oh : cadb.
Lemma CA_set_ps : forall v s0 s, CA s0 s -> CA s0 (set_ps v s).
Proof. intros v s0 s H; unfold CA in *; destruct s; exact H. Qed.
#[export] Hint Resolve CA_set_ps : cadb.
Lemma CA_set_handlers : forall v s0 s, CA s0 s -> CA s0 (set_handlers v s).
Proof. intros v s0 s H; unfold CA in *; destruct s; exact H. Qed.
#[export] Hint Resolve CA_set_handlers : cadb.
Lemma CA_set_idhandlers : forall v s0 s, CA s0 s -> CA s0 (set_idhandlers v s).
Proof. intros v s0 s H; unfold CA in *; destruct s; exact H. Qed.
#[export] Hint Resolve CA_set_idhandlers : cadb.
Lemma CA_set_timed : forall v s0 s, CA s0 s -> CA s0 (set_timed v s).
Proof. intros v s0 s H; unfold CA in *; destruct s; exact H. Qed.
#[export] Hint Resolve CA_set_timed : cadb.
Lemma CA_set_sendq : forall v s0 s, CA s0 s -> CA s0 (set_sendq v s).
Proof. intros v s0 s H; unfold CA in *; destruct s; exact H. Qed.
#[export] Hint Resolve CA_set_sendq : cadb.
Lemma CA_set_rxq : forall v s0 s, CA s0 s -> CA s0 (set_rxq v s).
Proof. intros v s0 s H; unfold CA in *; destruct s; exact H. Qed.
#[export] Hint Resolve CA_set_rxq : cadb.
Lemma CA_set_smq : forall v s0 s, CA s0 s -> CA s0 (set_smq v s).
Proof. intros v s0 s H; unfold CA in *; destruct s; exact H. Qed.
#[export] Hint Resolve CA_set_smq : cadb.
Lemma CA_set_sm_sent : forall v s0 s, CA s0 s -> CA s0 (set_sm_sent v s).
Proof. intros v s0 s H; unfold CA in *; destruct s; exact H. Qed.
#[export] Hint Resolve CA_set_sm_sent : cadb.
Lemma CA_set_scram_serial : forall v s0 s, CA s0 s -> CA s0 (set_scram_serial v s).
Proof. intros v s0 s H; unfold CA in *; destruct s; exact H. Qed.
#[export] Hint Resolve CA_set_scram_serial : cadb.
Lemma CA_set_crashed : forall v s0 s, CA s0 s -> CA s0 (set_crashed v s).
Proof. intros v s0 s H; unfold CA in *; destruct s; exact H. Qed.
#[export] Hint Resolve CA_set_crashed : cadb.
Lemma CA_set_gh : forall v s0 s, CA s0 s -> CA s0 (set_gh v s).
Proof. intros v s0 s H; unfold CA in *; destruct s; exact H. Qed.
#[export] Hint Resolve CA_set_gh : cadb.

Ltac ca := intros; cases; eauto 30 with cadb.
Ltac caR := intros; name_result; cases; leaf; eauto 30 with cadb.

Lemma CA_upg : forall f s0 s, CA s0 s -> CA s0 (upg f s).
Proof. intros; unfold upg; eauto with cadb. Qed.
#[export] Hint Resolve CA_upg : cadb.
Lemma CA_q_append : forall w u o s0 s, CA s0 s -> CA s0 (q_append w u o s).
Proof. unfold q_append; ca. Qed.
#[export] Hint Resolve CA_q_append : cadb.
Lemma CA_send_gated : forall w u o s0 s, CA s0 s -> CA s0 (send_gated w u o s).
Proof. unfold send_gated; ca. Qed.
Lemma CA_send_raw_m : forall w u o s0 s, CA s0 s -> CA s0 (send_raw_m w u o s).
Proof. unfold send_raw_m; ca. Qed.
#[export] Hint Resolve CA_send_gated CA_send_raw_m : cadb.
Lemma CA_timed_add : forall k n s0 s, CA s0 s -> CA s0 (timed_add k n s).
Proof. unfold timed_add; ca. Qed.
Lemma CA_timed_del : forall k s0 s, CA s0 s -> CA s0 (timed_del k s).
Proof. unfold timed_del; ca. Qed.
Lemma CA_timed_reset_all : forall n s0 s, CA s0 s -> CA s0 (timed_reset_all n s).
Proof. unfold timed_reset_all; ca. Qed.
Lemma CA_timed_set_stamp : forall k n s0 s, CA s0 s -> CA s0 (timed_set_stamp k n s).
Proof. unfold timed_set_stamp; ca. Qed.
Lemma CA_h_add : forall k s0 s, CA s0 s -> CA s0 (h_add k s).
Proof. unfold h_add; ca. Qed.
Lemma CA_h_del : forall k s0 s, CA s0 s -> CA s0 (h_del k s).
Proof. unfold h_del; ca. Qed.
Lemma CA_id_add : forall k s0 s, CA s0 s -> CA s0 (id_add k s).
Proof. unfold id_add; ca. Qed.
Lemma CA_id_del : forall k s0 s, CA s0 s -> CA s0 (id_del k s).
Proof. unfold id_del; ca. Qed.
#[export] Hint Resolve CA_timed_add CA_timed_del CA_timed_reset_all CA_timed_set_stamp CA_h_add CA_h_del CA_id_add CA_id_del : cadb.
Lemma CA_reset_sm_for_reconnect : forall s0 s, CA s0 s -> CA s0 (reset_sm_for_reconnect s).
Proof. unfold reset_sm_for_reconnect; ca. Qed.
Lemma CA_sm_queue_cleanup : forall h s0 s, CA s0 s -> CA s0 (sm_queue_cleanup h s).
Proof. unfold sm_queue_cleanup; ca. Qed.
#[export] Hint Resolve CA_reset_sm_for_reconnect CA_sm_queue_cleanup : cadb.
Lemma CA_sm_queue_resend : forall s0 s, CA s0 s -> CA s0 (sm_queue_resend s).
Proof. intros; unfold sm_queue_resend. apply fold_left_inv; eauto with cadb. Qed.
#[export] Hint Resolve CA_sm_queue_resend : cadb.
Lemma CA_conn_disconnect : forall s0 s, CA s0 s -> CA s0 (fst (conn_disconnect s)).
Proof. unfold conn_disconnect, ret; caR. Qed.
#[export] Hint Resolve CA_conn_disconnect : cadb.
Lemma CA_xmpp_disconnect : forall n s0 s, CA s0 s -> CA s0 (xmpp_disconnect n s).
Proof. unfold xmpp_disconnect; ca. Qed.
Lemma CA_prepare_reset : forall h s0 s, CA s0 s -> CA s0 (prepare_reset h s).
Proof. unfold prepare_reset; ca. Qed.
Lemma CA_conn_open_stream : forall s0 s, CA s0 s -> CA s0 (conn_open_stream s).
Proof. unfold conn_open_stream; ca. Qed.
#[export] Hint Resolve CA_xmpp_disconnect CA_prepare_reset CA_conn_open_stream : cadb.
Lemma CA_conn_tls_start : forall s0 s, CA s0 s -> CA s0 (fst (fst (conn_tls_start s))).
Proof. unfold conn_tls_start; caR. Qed.
Lemma CA_stream_negotiation_success : forall s0 s, CA s0 s -> CA s0 (fst (stream_negotiation_success s)).
Proof. unfold stream_negotiation_success, ret; caR. Qed.
#[export] Hint Resolve CA_conn_tls_start CA_stream_negotiation_success : cadb.
Lemma CA_do_bind : forall n b s0 s, CA s0 s -> CA s0 (fst (do_bind n b s)).
Proof. unfold do_bind, ret; caR. Qed.
Lemma CA_session_start : forall n s0 s, CA s0 s -> CA s0 (session_start n s).
Proof. unfold session_start; ca. Qed.
Lemma CA_sm_enable : forall s0 s, CA s0 s -> CA s0 (sm_enable s).
Proof. unfold sm_enable; ca. Qed.
Lemma CA_auth_legacy : forall n s0 s, CA s0 s -> CA s0 (auth_legacy n s).
Proof. unfold auth_legacy; ca. Qed.
#[export] Hint Resolve CA_do_bind CA_session_start CA_sm_enable CA_auth_legacy : cadb.
Lemma CA_auth : forall fuel n s0 s, CA s0 s -> CA s0 (fst (auth fuel n s)).
Proof. induction fuel; intros; name_result; cbn [auth]; unfold ret; cases; leaf; eauto 30 with cadb. Qed.
#[export] Hint Resolve CA_auth : cadb.
Lemma CA_sasl_result : forall n e s0 s, CA s0 s -> CA s0 (fst (sasl_result n e s)).
Proof. unfold sasl_result, ret; caR. Qed.
Lemma CA_features_sasl : forall n e s0 s, CA s0 s -> CA s0 (fst (features_sasl n e s)).
Proof. unfold features_sasl, ret; caR. Qed.
#[export] Hint Resolve CA_sasl_result CA_features_sasl : cadb.

(* ------------------------------------------------------------------ the stanza handlers *)
Lemma CA_call_handler_other : forall k n e s0 s,
  k <> HCompressResult -> CA s0 s -> CA s0 (fst (fst (call_handler k n e s))).
Proof.
  intros k; destruct k; intros; try congruence; name_result; unfold call_handler, ret; cases; leaf; eauto 30 with cadb.
Qed.
Lemma CA_call_id_handler : forall k n e s0 s, CA s0 s -> CA s0 (fst (call_id_handler k n e s)).
Proof. intros k; destruct k; intros; name_result; unfold call_id_handler, ret; cases; leaf; eauto 30 with cadb. Qed.
#[export] Hint Resolve CA_call_id_handler : cadb.

(* _handle_compress_result *)
Lemma compress_result_spec : forall n e s,
  let r := call_handler HCompressResult n e s in
  (e_name e <> NmCompressed -> fst (fst r) = s) /\
  (e_name e = NmCompressed ->
     exists s2, fst (fst r) = conn_open_stream s2 /\ reset_parser s2 = true /\ oh s2 = OpenSasl /\
                sendq s2 = sendq s /\
                comp_active s2 = (if f_comp_allowed s && comp_supported s then true else comp_active s)).
Proof.
  intros n e s. cbn [call_handler]. split.
  - intros H. destruct (e_name e); try congruence; reflexivity.
  - intros ->. cbn [fst]. eexists. split; [reflexivity|].
    unfold prepare_reset. destruct (f_comp_allowed _ && comp_supported _) eqn:E; sproj; sproj_in E; rewrite ?E; auto.
Qed.

(* _handle_features_compress: the only place where the handler for the answer is registered, together
   with the request *)
Lemma features_compress_spec : forall n e s,
  let s' := fst (fst (call_handler HFeaturesCompress n e s)) in
  (comp_supported s = true \/ (f_comp_allowed s = true /\ e_zlib e = true) ->
     exists s1, s' = h_add HCompressResult (send_raw_m WCompress false false s1) /\ sendq s1 = sendq s /\ st s1 = st s) /\
  (comp_supported s = false -> (f_comp_allowed s = false \/ e_zlib e = false) ->
     exists s1, s' = fst (features_sasl n e s1) /\ handlers s1 = handlers s).
Proof.
  intros n e s. cbn [call_handler]. cbv zeta. unfold timed_del. sproj. split.
  - intros H. destruct (f_comp_allowed s && e_zlib e) eqn:E; sproj.
    + cbn [fst]. eexists; split; [reflexivity|]. sproj. auto.
    + destruct H as [H|[H1 H2]]; [|rewrite H1, H2 in E; discriminate]. rewrite H. cbn [fst].
      eexists; split; [reflexivity|]. sproj. auto.
  - intros H1 H2. assert (E : f_comp_allowed s && e_zlib e = false) by (destruct H2 as [->| ->]; auto using andb_false_r).
    rewrite E. sproj. rewrite H1.
    destruct (features_sasl n e _) as [s2 o] eqn:F. cbn [fst]. eexists. rewrite F. split; [reflexivity|]. sproj. reflexivity.
Qed.

(* ------------------------------------------------------------------ one inbound stanza *)
Lemma hfilter_compress_result : hfilter HCompressResult = (Some NsCompress, None).
Proof. vm_compute. reflexivity. Qed.

Lemma CA_note_rx : forall e s0 s, CA s0 s -> CA s0 (note_rx e s).
Proof. intros; unfold note_rx; cbv zeta; eauto 40 with cadb. Qed.
Lemma CA_sm_handle : forall e s0 s, CA s0 s -> CA s0 (sm_handle e s).
Proof. unfold sm_handle; ca. Qed.
#[export] Hint Resolve CA_note_rx CA_sm_handle : cadb.

(* what is known once the switch has been turned on while the stanza e was being dispatched *)
Definition turned_on (e : elem) (s0 s : state) : Prop :=
  comp_active s = comp_active s0 \/
  (e_name e = NmCompressed /\ e_ns e = NsCompress /\ f_comp_allowed s0 = true /\ reset_parser s = true).

Lemma ns_eqb_true : forall a b, ns_eqb a b = true -> a = b.
Proof. destruct a, b; cbn; congruence. Qed.

Lemma visit_turned_on : forall n e s0 r k,
  Fr s0 (fst r) -> turned_on e s0 (fst r) -> turned_on e s0 (fst (visit n e r k)).
Proof.
  intros n e s0 [s o] k HF HT. cbn [fst] in *. unfold visit.
  destruct (crashed s); [exact HT|].
  destruct (negb (h_has k s)); [exact HT|].
  destruct (hkind_eqb k HUser && negb (neg_done s)); [exact HT|].
  destruct (negb (filter_match k e)) eqn:Efm; [exact HT|].
  apply negb_false_iff in Efm.
  destruct (call_handler k n e s) as [[s1 o1] keep] eqn:Ech.
  assert (Hs1 : s1 = fst (fst (call_handler k n e s))) by (rewrite Ech; reflexivity).
  assert (HF1 : Fr s0 s1) by (rewrite Hs1; apply Fr_call_handler; exact HF).
  assert (Hfin : forall s2, s2 = (if keep then s1 else h_del k s1) ->
                 comp_active s2 = comp_active s1 /\ (reset_parser s1 = true -> reset_parser s2 = true)).
  { intros s2 ->. destruct keep; [auto|]. split; [apply (CA_h_del k s1 s1 (CA_refl s1))|].
    apply (fr_reset _ _ (Fr_h_del k s1 s1 (Fr_refl s1))). }
  destruct (Hfin _ eq_refl) as [Hc Hr]. cbn [fst].
  destruct HT as [HT|HT].
  - (* still as at the start *)
    destruct (hkind_eqb k HCompressResult) eqn:Ek.
    + assert (k = HCompressResult) by (destruct k; cbn in Ek; congruence). subst k.
      unfold filter_match in Efm. rewrite hfilter_compress_result in Efm. rewrite andb_true_r in Efm.
      apply ns_eqb_true in Efm.
      destruct (compress_result_spec n e s) as [A B]. rewrite Ech in A, B. cbn [fst] in A, B.
      destruct (ename_eqb (e_name e) NmCompressed) eqn:En.
      * assert (Hn : e_name e = NmCompressed) by (destruct (e_name e); cbn in En; congruence).
        destruct (B Hn) as (s2 & E1 & E2 & E3 & E4 & E5).
        assert (Hca : comp_active s1 = comp_active s2) by (rewrite E1; apply (CA_conn_open_stream s2 s2 (CA_refl s2))).
        assert (Hrp : reset_parser s1 = true).
        { rewrite E1. apply (fr_reset _ _ (Fr_conn_open_stream s2 s2 (Fr_refl s2))). exact E2. }
        destruct (f_comp_allowed s && comp_supported s) eqn:Eal.
        -- right. apply andb_true_iff in Eal. destruct Eal as [Eal _].
           rewrite (fr_f_comp_allowed _ _ HF) in Eal. auto.
        -- left. rewrite Hc, Hca, E5. exact HT.
      * assert (Hn : e_name e <> NmCompressed) by (intros X; rewrite X in En; discriminate).
        left. rewrite Hc, (A Hn). exact HT.
    + assert (Hk : k <> HCompressResult) by (intros ->; discriminate).
      left. rewrite Hc, Hs1. rewrite <- HT. apply (CA_call_handler_other k n e s s Hk (CA_refl s)).
  - right. destruct HT as (T1 & T2 & T3 & T4). repeat split; auto. apply Hr. apply (fr_reset _ _ (Fr_call_handler k n e s s (Fr_refl s))) in T4.
    rewrite Hs1. exact T4.
Qed.

Lemma dispatch_turned_on : forall n e s, turned_on e s (fst (dispatch n e s)).
Proof.
  intros n e s. unfold dispatch. cbv zeta.
  set (sa := note_rx e s).
  assert (Fa : Fr s sa) by (apply Fr_note_rx, Fr_refl).
  assert (Ca : CA s sa) by (apply CA_note_rx, CA_refl).
  destruct (negb (sm_alloc sa)); [left; cbn [fst]; apply (CA_set_crashed true s sa Ca)|].
  set (sb := set_handlers _ sa).
  assert (Fb : Fr s sb) by (subst sb; eauto with frdb).
  assert (Cb : CA s sb) by (subst sb; eauto with cadb).
  set (r1 := match idk_of (e_id e) with Some k => _ | None => _ end).
  assert (F1 : Fr s (fst r1) /\ CA s (fst r1)).
  { subst r1. destruct (idk_of (e_id e)) as [k|]; [|split; assumption].
    destruct (id_has k sb); [|split; assumption].
    destruct (is_user_id k && negb (neg_done sb)); [split; assumption|].
    destruct (call_id_handler k n e sb) as [s1 o1] eqn:E. cbn [fst].
    assert (s1 = fst (call_id_handler k n e sb)) by (rewrite E; reflexivity). subst s1.
    destruct (is_user_id k); split; eauto with frdb cadb. }
  destruct r1 as [s1 o1]. cbn [fst] in F1. destruct F1 as [F1 C1].
  set (snap := map fst _).
  assert (Hfold : Fr s (fst (fold_left (visit n e) snap (s1, o1))) /\ turned_on e s (fst (fold_left (visit n e) snap (s1, o1)))).
  { apply (fold_left_inv (fun r => Fr s (fst r) /\ turned_on e s (fst r))).
    - intros r k [A B]. split; [apply Fr_visit; exact A | apply visit_turned_on; assumption].
    - split; [exact F1 | left; exact C1]. }
  destruct (fold_left (visit n e) snap (s1, o1)) as [s3 o3]. cbn [fst] in Hfold. destruct Hfold as [F3 T3].
  destruct (crashed s3); [exact T3|].
  destruct (sm_enabled s3); [|exact T3]. cbn [fst].
  destruct T3 as [T|(T1 & T2 & T4 & T5)].
  - left. rewrite <- T. apply (CA_sm_handle e s3 s3 (CA_refl s3)).
  - right. repeat split; auto. apply (fr_reset _ _ (Fr_sm_handle e s3 s3 (Fr_refl s3))). exact T5.
Qed.

(* ------------------------------------------------------------------ everything else in an iteration *)
Lemma CA_open_handler : forall n s0 s, CA s0 s -> CA s0 (fst (open_handler n s)).
Proof. unfold open_handler, ret; caR. Qed.
#[export] Hint Resolve CA_open_handler : cadb.
Lemma CA_stream_start : forall n a b s0 s, CA s0 s -> CA s0 (fst (stream_start n a b s)).
Proof. unfold stream_start; caR. Qed.
Lemma CA_stream_end : forall s0 s, CA s0 s -> CA s0 (fst (stream_end s)).
Proof. unfold stream_end; caR. Qed.
Lemma CA_call_timed : forall k n s0 s, CA s0 s -> CA s0 (fst (fst (call_timed k n s))).
Proof. intros k; destruct k; intros; name_result; unfold call_timed; cases; leaf; eauto 30 with cadb. Qed.
#[export] Hint Resolve CA_stream_start CA_stream_end CA_call_timed : cadb.
Lemma CA_visit_timed : forall n s0 r k, CA s0 (fst r) -> CA s0 (fst (visit_timed n r k)).
Proof.
  intros n s0 [s o] k H. cbn [fst] in H. name_result. unfold visit_timed. cases; leaf; eauto 30 with cadb.
Qed.
Lemma CA_fire_timed : forall n s0 s, CA s0 s -> CA s0 (fst (fire_timed n s)).
Proof.
  intros n s0 s H. unfold fire_timed, ret. destruct (st s); cbn [fst]; auto.
  apply (fold_left_inv (fun r => CA s0 (fst r))); [intros; apply CA_visit_timed; auto|].
  cbn [fst]. eauto with cadb.
Qed.
Lemma CA_connect_next : forall n s0 s, CA s0 s -> CA s0 (fst (fst (connect_next n s))).
Proof. unfold connect_next; caR. Qed.
#[export] Hint Resolve CA_fire_timed CA_connect_next : cadb.
Lemma CA_conn_established : forall n s0 s, CA s0 s -> CA s0 (fst (conn_established n s)).
Proof. unfold conn_established; caR. Qed.

(* ------------------------------------------------------------------ the statement of Properties_C20.v *)
Lemma compression_switch :
  (* one inbound stanza switches the layer on only if it is <compressed/> in the compression namespace while
     compression is allowed; the parser restart (new stream) is then pending *)
  (forall n e s, comp_active (fst (dispatch n e s)) = comp_active s \/
     (e_name e = NmCompressed /\ e_ns e = NsCompress /\ f_comp_allowed s = true /\
      reset_parser (fst (dispatch n e s)) = true)) /\
  (* among the stanza handlers only _handle_compress_result touches the switch ... *)
  (forall k n e s, k <> HCompressResult -> comp_active (fst (fst (call_handler k n e s))) = comp_active s) /\
  (* ... on <compressed/> only, when compression is allowed and zlib was offered; it then prepares the parser
     reset, installs the layer and queues the new stream header, in this order *)
  (forall n e s,
     (e_name e <> NmCompressed -> fst (fst (call_handler HCompressResult n e s)) = s) /\
     (e_name e = NmCompressed ->
        exists s2, fst (fst (call_handler HCompressResult n e s)) = conn_open_stream s2 /\
                   reset_parser s2 = true /\ oh s2 = OpenSasl /\ sendq s2 = sendq s /\
                   comp_active s2 = (if f_comp_allowed s && comp_supported s then true else comp_active s))) /\
  (* that handler is registered by _handle_features_compress, together with the <compress/> request, exactly when
     zlib is (or was) offered and compression allowed *)
  (forall n e s,
     (comp_supported s = true \/ (f_comp_allowed s = true /\ e_zlib e = true) ->
        exists s1, fst (fst (call_handler HFeaturesCompress n e s)) = h_add HCompressResult (send_raw_m WCompress false false s1) /\
                   sendq s1 = sendq s /\ st s1 = st s) /\
     (comp_supported s = false -> (f_comp_allowed s = false \/ e_zlib e = false) ->
        exists s1, fst (fst (call_handler HFeaturesCompress n e s)) = fst (features_sasl n e s1) /\ handlers s1 = handlers s)) /\
  (* nothing else that runs in an iteration touches the switch *)
  (forall k n e s, comp_active (fst (call_id_handler k n e s)) = comp_active s) /\
  (forall n s, comp_active (fst (open_handler n s)) = comp_active s) /\
  (forall n a b s, comp_active (fst (stream_start n a b s)) = comp_active s) /\
  (forall s, comp_active (fst (stream_end s)) = comp_active s) /\
  (forall n s, comp_active (fst (fire_timed n s)) = comp_active s) /\
  (forall n s, comp_active (fst (conn_established n s)) = comp_active s) /\
  (forall n s, comp_active (fst (fst (connect_next n s))) = comp_active s) /\
  (forall s, comp_active (fst (NegModel.conn_disconnect s)) = comp_active s).
Proof.
  split; [intros; apply dispatch_turned_on|].
  split; [intros k n e s Hk; apply (CA_call_handler_other k n e s s Hk (CA_refl s))|].
  split; [intros; apply compress_result_spec|].
  split; [intros; apply features_compress_spec|].
  split; [intros k n e s; apply (CA_call_id_handler k n e s s (CA_refl s))|].
  split; [intros n s; apply (CA_open_handler n s s (CA_refl s))|].
  split; [intros n a b s; apply (CA_stream_start n a b s s (CA_refl s))|].
  split; [intros s; apply (CA_stream_end s s (CA_refl s))|].
  split; [intros n s; apply (CA_fire_timed n s s (CA_refl s))|].
  split; [intros n s; apply (CA_conn_established n s s (CA_refl s))|].
  split; [intros n s; apply (CA_connect_next n s s (CA_refl s))|].
  intros s; apply (CA_conn_disconnect s s (CA_refl s)).
Qed.

(* ------------------------------------------------------------------ who registers _handle_compress_result *)
(* no new registration of the handler that waits for the answer to <compress/> *)
Definition NH (s s' : state) : Prop := h_has HCompressResult s' = true -> h_has HCompressResult s = true.
Lemma NH_refl : forall s, NH s s. Proof. unfold NH; auto. Qed.
Lemma NH_trans : forall a b c, NH a b -> NH b c -> NH a c. Proof. unfold NH; auto. Qed.
#[export] Hint Resolve NH_refl : nhdb.
#[export] Hint Extern 1 (_ <> _) => discriminate : nhdb.
Lemma NH_h_add : forall k s0 s, k <> HCompressResult -> NH s0 s -> NH s0 (h_add k s).
Proof.
  intros k s0 s Hk H. unfold h_add. destruct (h_has k s); [exact H|].
  unfold NH, h_has in *. sproj. rewrite existsb_app. cbn [existsb fst]. intros X.
  apply orb_true_iff in X. destruct X as [X|X]; [apply H; exact X|].
  rewrite orb_false_r in X. exfalso. apply Hk. destruct k; cbn in X; congruence.
Qed.
Lemma NH_h_del : forall k s0 s, NH s0 s -> NH s0 (h_del k s).
Proof.
  intros k s0 s H. unfold NH, h_del, h_has in *. sproj. intros X. apply H.
  apply existsb_exists in X. destruct X as (x & Hin & Hx). apply filter_In in Hin. apply existsb_exists. exists x. tauto.
Qed.
Lemma NH_enable_all : forall s0 s, NH s0 s -> NH s0 (set_handlers (map (fun x => (fst x, true)) (handlers s)) s).
Proof.
  intros s0 s H. unfold NH, h_has in *. sproj. intros X. apply H.
  apply existsb_exists in X. destruct X as (x & Hin & Hx). apply in_map_iff in Hin. destruct Hin as (y & <- & Hy).
  apply existsb_exists. exists y. auto.
Qed.
#[export] Hint Resolve NH_h_add NH_h_del NH_enable_all : nhdb.
Lemma NH_set_f_tls_disabled : forall v s0 s, NH s0 s -> NH s0 (set_f_tls_disabled v s).
Proof. intros v s0 s H; unfold NH in *; destruct s; exact H. Qed.
#[export] Hint Resolve NH_set_f_tls_disabled : nhdb.
Lemma NH_set_f_tls_mandatory : forall v s0 s, NH s0 s -> NH s0 (set_f_tls_mandatory v s).
Proof. intros v s0 s H; unfold NH in *; destruct s; exact H. Qed.
#[export] Hint Resolve NH_set_f_tls_mandatory : nhdb.
Lemma NH_set_f_legacy_ssl : forall v s0 s, NH s0 s -> NH s0 (set_f_legacy_ssl v s).
Proof. intros v s0 s H; unfold NH in *; destruct s; exact H. Qed.
#[export] Hint Resolve NH_set_f_legacy_ssl : nhdb.
Lemma NH_set_f_tls_trust : forall v s0 s, NH s0 s -> NH s0 (set_f_tls_trust v s).
Proof. intros v s0 s H; unfold NH in *; destruct s; exact H. Qed.
#[export] Hint Resolve NH_set_f_tls_trust : nhdb.
Lemma NH_set_f_legacy_auth : forall v s0 s, NH s0 s -> NH s0 (set_f_legacy_auth v s).
Proof. intros v s0 s H; unfold NH in *; destruct s; exact H. Qed.
#[export] Hint Resolve NH_set_f_legacy_auth : nhdb.
Lemma NH_set_f_sm_disable : forall v s0 s, NH s0 s -> NH s0 (set_f_sm_disable v s).
Proof. intros v s0 s H; unfold NH in *; destruct s; exact H. Qed.
#[export] Hint Resolve NH_set_f_sm_disable : nhdb.
Lemma NH_set_f_comp_allowed : forall v s0 s, NH s0 s -> NH s0 (set_f_comp_allowed v s).
Proof. intros v s0 s H; unfold NH in *; destruct s; exact H. Qed.
#[export] Hint Resolve NH_set_f_comp_allowed : nhdb.
Lemma NH_set_f_comp_dont_reset : forall v s0 s, NH s0 s -> NH s0 (set_f_comp_dont_reset v s).
Proof. intros v s0 s H; unfold NH in *; destruct s; exact H. Qed.
#[export] Hint Resolve NH_set_f_comp_dont_reset : nhdb.
Lemma NH_set_jid_set : forall v s0 s, NH s0 s -> NH s0 (set_jid_set v s).
Proof. intros v s0 s H; unfold NH in *; destruct s; exact H. Qed.
#[export] Hint Resolve NH_set_jid_set : nhdb.
Lemma NH_set_jid_node : forall v s0 s, NH s0 s -> NH s0 (set_jid_node v s).
Proof. intros v s0 s H; unfold NH in *; destruct s; exact H. Qed.
#[export] Hint Resolve NH_set_jid_node : nhdb.
Lemma NH_set_jid_res : forall v s0 s, NH s0 s -> NH s0 (set_jid_res v s).
Proof. intros v s0 s H; unfold NH in *; destruct s; exact H. Qed.
#[export] Hint Resolve NH_set_jid_res : nhdb.
Lemma NH_set_pass_set : forall v s0 s, NH s0 s -> NH s0 (set_pass_set v s).
Proof. intros v s0 s H; unfold NH in *; destruct s; exact H. Qed.
#[export] Hint Resolve NH_set_pass_set : nhdb.
Lemma NH_set_cert_set : forall v s0 s, NH s0 s -> NH s0 (set_cert_set v s).
Proof. intros v s0 s H; unfold NH in *; destruct s; exact H. Qed.
#[export] Hint Resolve NH_set_cert_set : nhdb.
Lemma NH_set_is_raw : forall v s0 s, NH s0 s -> NH s0 (set_is_raw v s).
Proof. intros v s0 s H; unfold NH in *; destruct s; exact H. Qed.
#[export] Hint Resolve NH_set_is_raw : nhdb.
Lemma NH_set_typ : forall v s0 s, NH s0 s -> NH s0 (set_typ v s).
Proof. intros v s0 s H; unfold NH in *; destruct s; exact H. Qed.
#[export] Hint Resolve NH_set_typ : nhdb.
Lemma NH_set_user_handler : forall v s0 s, NH s0 s -> NH s0 (set_user_handler v s).
Proof. intros v s0 s H; unfold NH in *; destruct s; exact H. Qed.
#[export] Hint Resolve NH_set_user_handler : nhdb.
Lemma NH_set_user_timed : forall v s0 s, NH s0 s -> NH s0 (set_user_timed v s).
Proof. intros v s0 s H; unfold NH in *; destruct s; exact H. Qed.
#[export] Hint Resolve NH_set_user_timed : nhdb.
Lemma NH_set_tlsnew_ok : forall v s0 s, NH s0 s -> NH s0 (set_tlsnew_ok v s).
Proof. intros v s0 s H; unfold NH in *; destruct s; exact H. Qed.
#[export] Hint Resolve NH_set_tlsnew_ok : nhdb.
Lemma NH_set_cb_avail : forall v s0 s, NH s0 s -> NH s0 (set_cb_avail v s).
Proof. intros v s0 s H; unfold NH in *; destruct s; exact H. Qed.
#[export] Hint Resolve NH_set_cb_avail : nhdb.
Lemma NH_set_tls_verdicts : forall v s0 s, NH s0 s -> NH s0 (set_tls_verdicts v s).
Proof. intros v s0 s H; unfold NH in *; destruct s; exact H. Qed.
#[export] Hint Resolve NH_set_tls_verdicts : nhdb.
Lemma NH_set_next_cands : forall v s0 s, NH s0 s -> NH s0 (set_next_cands v s).
Proof. intros v s0 s H; unfold NH in *; destruct s; exact H. Qed.
#[export] Hint Resolve NH_set_next_cands : nhdb.
Lemma NH_set_cands : forall v s0 s, NH s0 s -> NH s0 (set_cands v s).
Proof. intros v s0 s H; unfold NH in *; destruct s; exact H. Qed.
#[export] Hint Resolve NH_set_cands : nhdb.
Lemma NH_set_cur_ep : forall v s0 s, NH s0 s -> NH s0 (set_cur_ep v s).
Proof. intros v s0 s H; unfold NH in *; destruct s; exact H. Qed.
#[export] Hint Resolve NH_set_cur_ep : nhdb.
Lemma NH_set_st : forall v s0 s, NH s0 s -> NH s0 (set_st v s).
Proof. intros v s0 s H; unfold NH in *; destruct s; exact H. Qed.
#[export] Hint Resolve NH_set_st : nhdb.
Lemma NH_set_stamp : forall v s0 s, NH s0 s -> NH s0 (set_stamp v s).
Proof. intros v s0 s H; unfold NH in *; destruct s; exact H. Qed.
#[export] Hint Resolve NH_set_stamp : nhdb.
Lemma NH_set_err : forall v s0 s, NH s0 s -> NH s0 (set_err v s).
Proof. intros v s0 s H; unfold NH in *; destruct s; exact H. Qed.
#[export] Hint Resolve NH_set_err : nhdb.
Lemma NH_set_stream_error : forall v s0 s, NH s0 s -> NH s0 (set_stream_error v s).
Proof. intros v s0 s H; unfold NH in *; destruct s; exact H. Qed.
#[export] Hint Resolve NH_set_stream_error : nhdb.
Lemma NH_set_secured : forall v s0 s, NH s0 s -> NH s0 (set_secured v s).
Proof. intros v s0 s H; unfold NH in *; destruct s; exact H. Qed.
#[export] Hint Resolve NH_set_secured : nhdb.
Lemma NH_set_tls_present : forall v s0 s, NH s0 s -> NH s0 (set_tls_present v s).
Proof. intros v s0 s H; unfold NH in *; destruct s; exact H. Qed.
#[export] Hint Resolve NH_set_tls_present : nhdb.
Lemma NH_set_tls_failed : forall v s0 s, NH s0 s -> NH s0 (set_tls_failed v s).
Proof. intros v s0 s H; unfold NH in *; destruct s; exact H. Qed.
#[export] Hint Resolve NH_set_tls_failed : nhdb.
Lemma NH_set_tls_support : forall v s0 s, NH s0 s -> NH s0 (set_tls_support v s).
Proof. intros v s0 s H; unfold NH in *; destruct s; exact H. Qed.
#[export] Hint Resolve NH_set_tls_support : nhdb.
Lemma NH_set_sasl : forall v s0 s, NH s0 s -> NH s0 (set_sasl v s).
Proof. intros v s0 s H; unfold NH in *; destruct s; exact H. Qed.
#[export] Hint Resolve NH_set_sasl : nhdb.
Lemma NH_set_bind_required : forall v s0 s, NH s0 s -> NH s0 (set_bind_required v s).
Proof. intros v s0 s H; unfold NH in *; destruct s; exact H. Qed.
#[export] Hint Resolve NH_set_bind_required : nhdb.
Lemma NH_set_session_required : forall v s0 s, NH s0 s -> NH s0 (set_session_required v s).
Proof. intros v s0 s H; unfold NH in *; destruct s; exact H. Qed.
#[export] Hint Resolve NH_set_session_required : nhdb.
Lemma NH_set_comp_supported : forall v s0 s, NH s0 s -> NH s0 (set_comp_supported v s).
Proof. intros v s0 s H; unfold NH in *; destruct s; exact H. Qed.
#[export] Hint Resolve NH_set_comp_supported : nhdb.
Lemma NH_set_sm_alloc : forall v s0 s, NH s0 s -> NH s0 (set_sm_alloc v s).
Proof. intros v s0 s H; unfold NH in *; destruct s; exact H. Qed.
#[export] Hint Resolve NH_set_sm_alloc : nhdb.
Lemma NH_set_sm_support : forall v s0 s, NH s0 s -> NH s0 (set_sm_support v s).
Proof. intros v s0 s H; unfold NH in *; destruct s; exact H. Qed.
#[export] Hint Resolve NH_set_sm_support : nhdb.
Lemma NH_set_sm_enabled : forall v s0 s, NH s0 s -> NH s0 (set_sm_enabled v s).
Proof. intros v s0 s H; unfold NH in *; destruct s; exact H. Qed.
#[export] Hint Resolve NH_set_sm_enabled : nhdb.
Lemma NH_set_sm_can_resume : forall v s0 s, NH s0 s -> NH s0 (set_sm_can_resume v s).
Proof. intros v s0 s H; unfold NH in *; destruct s; exact H. Qed.
#[export] Hint Resolve NH_set_sm_can_resume : nhdb.
Lemma NH_set_sm_resume : forall v s0 s, NH s0 s -> NH s0 (set_sm_resume v s).
Proof. intros v s0 s H; unfold NH in *; destruct s; exact H. Qed.
#[export] Hint Resolve NH_set_sm_resume : nhdb.
Lemma NH_set_sm_dont_request : forall v s0 s, NH s0 s -> NH s0 (set_sm_dont_request v s).
Proof. intros v s0 s H; unfold NH in *; destruct s; exact H. Qed.
#[export] Hint Resolve NH_set_sm_dont_request : nhdb.
Lemma NH_set_sm_has_previd : forall v s0 s, NH s0 s -> NH s0 (set_sm_has_previd v s).
Proof. intros v s0 s H; unfold NH in *; destruct s; exact H. Qed.
#[export] Hint Resolve NH_set_sm_has_previd : nhdb.
Lemma NH_set_sm_has_id : forall v s0 s, NH s0 s -> NH s0 (set_sm_has_id v s).
Proof. intros v s0 s H; unfold NH in *; destruct s; exact H. Qed.
#[export] Hint Resolve NH_set_sm_has_id : nhdb.
Lemma NH_set_sm_parked : forall v s0 s, NH s0 s -> NH s0 (set_sm_parked v s).
Proof. intros v s0 s H; unfold NH in *; destruct s; exact H. Qed.
#[export] Hint Resolve NH_set_sm_parked : nhdb.
Lemma NH_set_sm_r_sent : forall v s0 s, NH s0 s -> NH s0 (set_sm_r_sent v s).
Proof. intros v s0 s H; unfold NH in *; destruct s; exact H. Qed.
#[export] Hint Resolve NH_set_sm_r_sent : nhdb.
Lemma NH_set_sm_bind_saved : forall v s0 s, NH s0 s -> NH s0 (set_sm_bind_saved v s).
Proof. intros v s0 s H; unfold NH in *; destruct s; exact H. Qed.
#[export] Hint Resolve NH_set_sm_bind_saved : nhdb.
Lemma NH_set_bound_jid : forall v s0 s, NH s0 s -> NH s0 (set_bound_jid v s).
Proof. intros v s0 s H; unfold NH in *; destruct s; exact H. Qed.
#[export] Hint Resolve NH_set_bound_jid : nhdb.
Lemma NH_set_stream_id : forall v s0 s, NH s0 s -> NH s0 (set_stream_id v s).
Proof. intros v s0 s H; unfold NH in *; destruct s; exact H. Qed.
#[export] Hint Resolve NH_set_stream_id : nhdb.
Lemma NH_set_neg_done : forall v s0 s, NH s0 s -> NH s0 (set_neg_done v s).
Proof. intros v s0 s H; unfold NH in *; destruct s; exact H. Qed.
#[export] Hint Resolve NH_set_neg_done : nhdb.
Lemma NH_set_reset_parser : forall v s0 s, NH s0 s -> NH s0 (set_reset_parser v s).
Proof. intros v s0 s H; unfold NH in *; destruct s; exact H. Qed.
#[export] Hint Resolve NH_set_reset_parser : nhdb.
Lemma NH_set_oh : forall v s0 s, NH s0 s -> NH s0 (set_oh v s).
Proof. intros v s0 s H; unfold NH in *; destruct s; exact H. Qed.
#[export] Hint Resolve NH_set_oh : nhdb.
Lemma NH_set_ps : forall v s0 s, NH s0 s -> NH s0 (set_ps v s).
Proof. intros v s0 s H; unfold NH in *; destruct s; exact H. Qed.
#[export] Hint Resolve NH_set_ps : nhdb.
Lemma NH_set_idhandlers : forall v s0 s, NH s0 s -> NH s0 (set_idhandlers v s).
Proof. intros v s0 s H; unfold NH in *; destruct s; exact H. Qed.
#[export] Hint Resolve NH_set_idhandlers : nhdb.
Lemma NH_set_timed : forall v s0 s, NH s0 s -> NH s0 (set_timed v s).
Proof. intros v s0 s H; unfold NH in *; destruct s; exact H. Qed.
#[export] Hint Resolve NH_set_timed : nhdb.
Lemma NH_set_sendq : forall v s0 s, NH s0 s -> NH s0 (set_sendq v s).
Proof. intros v s0 s H; unfold NH in *; destruct s; exact H. Qed.
#[export] Hint Resolve NH_set_sendq : nhdb.
Lemma NH_set_rxq : forall v s0 s, NH s0 s -> NH s0 (set_rxq v s).
Proof. intros v s0 s H; unfold NH in *; destruct s; exact H. Qed.
#[export] Hint Resolve NH_set_rxq : nhdb.
Lemma NH_set_smq : forall v s0 s, NH s0 s -> NH s0 (set_smq v s).
Proof. intros v s0 s H; unfold NH in *; destruct s; exact H. Qed.
#[export] Hint Resolve NH_set_smq : nhdb.
Lemma NH_set_sm_sent : forall v s0 s, NH s0 s -> NH s0 (set_sm_sent v s).
Proof. intros v s0 s H; unfold NH in *; destruct s; exact H. Qed.
#[export] Hint Resolve NH_set_sm_sent : nhdb.
Lemma NH_set_scram_serial : forall v s0 s, NH s0 s -> NH s0 (set_scram_serial v s).
Proof. intros v s0 s H; unfold NH in *; destruct s; exact H. Qed.
#[export] Hint Resolve NH_set_scram_serial : nhdb.
Lemma NH_set_crashed : forall v s0 s, NH s0 s -> NH s0 (set_crashed v s).
Proof. intros v s0 s H; unfold NH in *; destruct s; exact H. Qed.
#[export] Hint Resolve NH_set_crashed : nhdb.
Lemma NH_set_gh : forall v s0 s, NH s0 s -> NH s0 (set_gh v s).
Proof. intros v s0 s H; unfold NH in *; destruct s; exact H. Qed.
#[export] Hint Resolve NH_set_gh : nhdb.

Ltac nh := intros; cases; eauto 30 with nhdb.
Ltac nhR := intros; name_result; cases; leaf; eauto 30 with nhdb.

Lemma NH_upg : forall f s0 s, NH s0 s -> NH s0 (upg f s).
Proof. intros; unfold upg; eauto with nhdb. Qed.
#[export] Hint Resolve NH_upg : nhdb.
Lemma NH_q_append : forall w u o s0 s, NH s0 s -> NH s0 (q_append w u o s).
Proof. unfold q_append; nh. Qed.
#[export] Hint Resolve NH_q_append : nhdb.
Lemma NH_send_gated : forall w u o s0 s, NH s0 s -> NH s0 (send_gated w u o s).
Proof. unfold send_gated; nh. Qed.
Lemma NH_send_raw_m : forall w u o s0 s, NH s0 s -> NH s0 (send_raw_m w u o s).
Proof. unfold send_raw_m; nh. Qed.
#[export] Hint Resolve NH_send_gated NH_send_raw_m : nhdb.
Lemma NH_timed_add : forall k n s0 s, NH s0 s -> NH s0 (timed_add k n s).
Proof. unfold timed_add; nh. Qed.
Lemma NH_timed_del : forall k s0 s, NH s0 s -> NH s0 (timed_del k s).
Proof. unfold timed_del; nh. Qed.
Lemma NH_timed_reset_all : forall n s0 s, NH s0 s -> NH s0 (timed_reset_all n s).
Proof. unfold timed_reset_all; nh. Qed.
Lemma NH_timed_set_stamp : forall k n s0 s, NH s0 s -> NH s0 (timed_set_stamp k n s).
Proof. unfold timed_set_stamp; nh. Qed.
Lemma NH_id_add : forall k s0 s, NH s0 s -> NH s0 (id_add k s).
Proof. unfold id_add; nh. Qed.
Lemma NH_id_del : forall k s0 s, NH s0 s -> NH s0 (id_del k s).
Proof. unfold id_del; nh. Qed.
#[export] Hint Resolve NH_timed_add NH_timed_del NH_timed_reset_all NH_timed_set_stamp NH_id_add NH_id_del : nhdb.
Lemma NH_reset_sm_for_reconnect : forall s0 s, NH s0 s -> NH s0 (reset_sm_for_reconnect s).
Proof. unfold reset_sm_for_reconnect; nh. Qed.
Lemma NH_sm_queue_cleanup : forall h s0 s, NH s0 s -> NH s0 (sm_queue_cleanup h s).
Proof. unfold sm_queue_cleanup; nh. Qed.
#[export] Hint Resolve NH_reset_sm_for_reconnect NH_sm_queue_cleanup : nhdb.
Lemma NH_sm_queue_resend : forall s0 s, NH s0 s -> NH s0 (sm_queue_resend s).
Proof. intros; unfold sm_queue_resend. apply fold_left_inv; eauto with nhdb. Qed.
#[export] Hint Resolve NH_sm_queue_resend : nhdb.
Lemma NH_conn_disconnect : forall s0 s, NH s0 s -> NH s0 (fst (conn_disconnect s)).
Proof. unfold conn_disconnect, ret; nhR. Qed.
#[export] Hint Resolve NH_conn_disconnect : nhdb.
Lemma NH_xmpp_disconnect : forall n s0 s, NH s0 s -> NH s0 (xmpp_disconnect n s).
Proof. unfold xmpp_disconnect; nh. Qed.
Lemma NH_prepare_reset : forall h s0 s, NH s0 s -> NH s0 (prepare_reset h s).
Proof. unfold prepare_reset; nh. Qed.
Lemma NH_conn_open_stream : forall s0 s, NH s0 s -> NH s0 (conn_open_stream s).
Proof. unfold conn_open_stream; nh. Qed.
#[export] Hint Resolve NH_xmpp_disconnect NH_prepare_reset NH_conn_open_stream : nhdb.
Lemma NH_conn_tls_start : forall s0 s, NH s0 s -> NH s0 (fst (fst (conn_tls_start s))).
Proof. unfold conn_tls_start; nhR. Qed.
Lemma NH_stream_negotiation_success : forall s0 s, NH s0 s -> NH s0 (fst (stream_negotiation_success s)).
Proof. unfold stream_negotiation_success, ret; nhR. Qed.
#[export] Hint Resolve NH_conn_tls_start NH_stream_negotiation_success : nhdb.
Lemma NH_do_bind : forall n b s0 s, NH s0 s -> NH s0 (fst (do_bind n b s)).
Proof. unfold do_bind, ret; nhR. Qed.
Lemma NH_session_start : forall n s0 s, NH s0 s -> NH s0 (session_start n s).
Proof. unfold session_start; nh. Qed.
Lemma NH_sm_enable : forall s0 s, NH s0 s -> NH s0 (sm_enable s).
Proof. unfold sm_enable; nh. Qed.
Lemma NH_auth_legacy : forall n s0 s, NH s0 s -> NH s0 (auth_legacy n s).
Proof. unfold auth_legacy; nh. Qed.
#[export] Hint Resolve NH_do_bind NH_session_start NH_sm_enable NH_auth_legacy : nhdb.
Lemma NH_auth : forall fuel n s0 s, NH s0 s -> NH s0 (fst (auth fuel n s)).
Proof. induction fuel; intros; name_result; cbn [auth]; unfold ret; cases; leaf; eauto 30 with nhdb. Qed.
#[export] Hint Resolve NH_auth : nhdb.
Lemma NH_sasl_result : forall n e s0 s, NH s0 s -> NH s0 (fst (sasl_result n e s)).
Proof. unfold sasl_result, ret; nhR. Qed.
Lemma NH_features_sasl : forall n e s0 s, NH s0 s -> NH s0 (fst (features_sasl n e s)).
Proof. unfold features_sasl, ret; nhR. Qed.
#[export] Hint Resolve NH_sasl_result NH_features_sasl : nhdb.


Lemma NH_call_handler_other : forall k n e s0 s,
  k <> HFeaturesCompress -> NH s0 s -> NH s0 (fst (fst (call_handler k n e s))).
Proof.
  intros k; destruct k; intros; try congruence; name_result; unfold call_handler, ret; cases; leaf; eauto 30 with nhdb.
Qed.
Lemma NH_call_id_handler : forall k n e s0 s, NH s0 s -> NH s0 (fst (call_id_handler k n e s)).
Proof. intros k; destruct k; intros; name_result; unfold call_id_handler, ret; cases; leaf; eauto 30 with nhdb. Qed.
Lemma NH_open_handler : forall n s0 s, NH s0 s -> NH s0 (fst (open_handler n s)).
Proof. unfold open_handler, ret; nhR. Qed.
#[export] Hint Resolve NH_call_id_handler NH_open_handler : nhdb.
Lemma NH_stream_start : forall n a b s0 s, NH s0 s -> NH s0 (fst (stream_start n a b s)).
Proof. unfold stream_start; nhR. Qed.
Lemma NH_stream_end : forall s0 s, NH s0 s -> NH s0 (fst (stream_end s)).
Proof. unfold stream_end; nhR. Qed.
Lemma NH_call_timed : forall k n s0 s, NH s0 s -> NH s0 (fst (fst (call_timed k n s))).
Proof. intros k; destruct k; intros; name_result; unfold call_timed; cases; leaf; eauto 30 with nhdb. Qed.
#[export] Hint Resolve NH_stream_start NH_stream_end NH_call_timed : nhdb.
Lemma NH_visit_timed : forall n s0 r k, NH s0 (fst r) -> NH s0 (fst (visit_timed n r k)).
Proof.
  intros n s0 [s o] k H. cbn [fst] in H. name_result. unfold visit_timed. cases; leaf; eauto 30 with nhdb.
Qed.
Lemma NH_fire_timed : forall n s0 s, NH s0 s -> NH s0 (fst (fire_timed n s)).
Proof.
  intros n s0 s H. unfold fire_timed, ret. destruct (st s); cbn [fst]; auto.
  apply (fold_left_inv (fun r => NH s0 (fst r))); [intros; apply NH_visit_timed; auto|].
  cbn [fst]. eauto with nhdb.
Qed.

(* the handler is registered by _handle_features_compress and by nothing else that runs in an iteration *)
Lemma compress_result_registration :
  (forall k n e s, k <> HFeaturesCompress ->
     h_has HCompressResult (fst (fst (call_handler k n e s))) = true -> h_has HCompressResult s = true) /\
  (forall k n e s, h_has HCompressResult (fst (call_id_handler k n e s)) = true -> h_has HCompressResult s = true) /\
  (forall n s, h_has HCompressResult (fst (open_handler n s)) = true -> h_has HCompressResult s = true) /\
  (forall n a b s, h_has HCompressResult (fst (stream_start n a b s)) = true -> h_has HCompressResult s = true) /\
  (forall s, h_has HCompressResult (fst (stream_end s)) = true -> h_has HCompressResult s = true) /\
  (forall n s, h_has HCompressResult (fst (fire_timed n s)) = true -> h_has HCompressResult s = true).
Proof.
  split; [intros k n e s Hk; apply (NH_call_handler_other k n e s s Hk (NH_refl s))|].
  split; [intros k n e s; apply (NH_call_id_handler k n e s s (NH_refl s))|].
  split; [intros n s; apply (NH_open_handler n s s (NH_refl s))|].
  split; [intros n a b s; apply (NH_stream_start n a b s s (NH_refl s))|].
  split; [intros s; apply (NH_stream_end s s (NH_refl s))|].
  intros n s; apply (NH_fire_timed n s s (NH_refl s)).
Qed.
