(* CompressionProofs (property C20): all lemmas.  The theorems of Properties_C20.v are at the end. *)
From Coq Require Import List ZArith Bool Lia.
Import ListNotations.
Require Import LV.Gen.Gen_compression LV.Model.CompressionModel LV.Spec.CompressionSpec.
Local Open Scope Z_scope.

(* ------------------------------------------------------------------ the generated constants and facts *)
Lemma Gen_compression_ok :
  COMPRESSION_BUFFER_SIZE = 4096 /\ MESSAGE_BUFFER_SIZE = 4096 /\
  flush_of_code flush_code_write = NoFlush /\
  flush_of_code flush_code_reset = FullFlush /\
  flush_of_code flush_code_dont_reset = SyncFlush /\
  flush_code_inflate = 2 /\
  forallb (fun b => b) src_facts = true.
Proof. vm_compute. repeat split; reflexivity. Qed.

(* ------------------------------------------------------------------ lists *)
Lemma prefix_refl {A} (a : list A) : prefix a a.
Proof. exists []. now rewrite app_nil_r. Qed.
Lemma prefix_trans {A} (a b c : list A) : prefix a b -> prefix b c -> prefix a c.
Proof. intros [x ->] [y ->]. exists (x ++ y). now rewrite app_assoc. Qed.
Lemma prefix_app {A} (a b : list A) : prefix a (a ++ b).
Proof. now exists b. Qed.
Lemma prefix_app_r {A} (a b c : list A) : prefix a b -> prefix a (b ++ c).
Proof. intros [x ->]. exists (x ++ c). now rewrite app_assoc. Qed.
Lemma prefix_nil {A} (a : list A) : prefix [] a.
Proof. now exists a. Qed.
Lemma prefix_length {A} (a b : list A) : prefix a b -> (length a <= length b)%nat.
Proof. intros [x ->]. rewrite app_length. lia. Qed.
Lemma prefix_same_length {A} (a b : list A) : prefix a b -> length a = length b -> a = b.
Proof.
  intros [x ->] H. rewrite app_length in H. assert (length x = O) by lia.
  destruct x; [now rewrite app_nil_r | discriminate].
Qed.

Lemma is_nil_true {A} (l : list A) : is_nil l = true <-> l = [].
Proof. destruct l; cbn; split; congruence. Qed.
Lemma is_nil_false {A} (l : list A) : is_nil l = false <-> l <> [].
Proof. destruct l; cbn; split; congruence. Qed.
Lemma firstn_skipn_app {A} n (l : list A) : firstn n l ++ skipn n l = l.
Proof. apply firstn_skipn. Qed.
Lemma skipn_skipn {A} a b (l : list A) : skipn a (skipn b l) = skipn (b + a) l.
Proof.
  revert l; induction b; intros l; cbn; [reflexivity|].
  destruct l; [now rewrite skipn_nil | apply IHb].
Qed.
Lemma firstn_add_skipn {A} a b (l : list A) : firstn a l ++ firstn b (skipn a l) = firstn (a + b) l.
Proof.
  revert l; induction a; intros l; cbn; [reflexivity|].
  destruct l; cbn; [now rewrite firstn_nil | now rewrite IHa].
Qed.
Lemma skipn_length_le {A} n (l : list A) : (length (skipn n l) <= length l)%nat.
Proof. rewrite skipn_length. lia. Qed.

(* ================================================================================================
   The staging logic over a codec that satisfies the contract
   ================================================================================================ *)
Section Staging.
  Variables zst ist : Type.
  Variable deflate_step : zst -> list Z -> nat -> flush_mode -> zst * nat * list Z * zstatus.
  Variable inflate_step : ist -> list Z -> nat -> ist * nat * list Z * zstatus.
  Variable z0 : zst.
  Variable i0 : ist.
  Variable dec : list Z -> list Z.
  Variable fp : list Z -> Prop.
  Variable wf : list Z -> Prop.
  Variables bufsz msgsz loopfuel : nat.
  Hypothesis HC : zcontract zst ist deflate_step inflate_step z0 i0 dec fp wf.
  Hypothesis Hbuf : (0 < bufsz)%nat.
  Hypothesis Hmsg : (0 < msgsz)%nat.

  Notation world := (world zst ist).
  Notation DRr := (DR zst deflate_step z0).
  Notation IRr := (IR ist inflate_step i0).
  Notation try_write := (try_write bufsz).
  Notation cw_loop := (cw_loop deflate_step bufsz).
  Notation compression_write_raw := (compression_write_raw deflate_step bufsz loopfuel).
  Notation compression_write := (compression_write deflate_step bufsz loopfuel).
  Notation compression_flush := (compression_flush deflate_step bufsz loopfuel).
  Notation top_write := (top_write deflate_step bufsz loopfuel).
  Notation send_elems := (send_elems deflate_step bufsz loopfuel).
  Notation send_phase := (send_phase deflate_step bufsz loopfuel).
  Notation conn_decompress := (conn_decompress inflate_step).
  Notation read_loop := (read_loop inflate_step bufsz).
  Notation compression_read := (compression_read inflate_step bufsz).
  Notation read_phase := (read_phase inflate_step bufsz msgsz).
  Notation run_once := (run_once deflate_step inflate_step bufsz msgsz loopfuel).
  Notation step := (step deflate_step inflate_step bufsz msgsz loopfuel).
  Notation run := (run deflate_step inflate_step bufsz msgsz loopfuel).

  (* what the write side never touches / what the read side never touches *)
  Definition wside_frame (w w' : world) : Prop :=
    w_i w' = w_i w /\ w_in w' = w_in w /\ w_rx w' = w_rx w /\ w_fed w' = w_fed w /\
    w_dont_reset w' = w_dont_reset w /\ w_sub w' = w_sub w.
  Definition rside_frame (w w' : world) : Prop :=
    w_z w' = w_z w /\ w_out w' = w_out w /\ w_q w' = w_q w /\ w_tx w' = w_tx w /\ w_wire w' = w_wire w /\
    w_dont_reset w' = w_dont_reset w /\ w_sub w' = w_sub w.
  Lemma wside_refl (w : world) : wside_frame w w. Proof. repeat split. Qed.
  Lemma wside_trans (a b c : world) : wside_frame a b -> wside_frame b c -> wside_frame a c.
  Proof. unfold wside_frame. intuition congruence. Qed.
  Lemma rside_refl (w : world) : rside_frame w w. Proof. repeat split. Qed.
  Lemma rside_trans (a b c : world) : rside_frame a b -> rside_frame b c -> rside_frame a c.
  Proof. unfold rside_frame. intuition congruence. Qed.

  (* faults and the disconnected state are sticky *)
  Definition mono (w w' : world) : Prop :=
    (w_fault w <> NoFault -> w_fault w' <> NoFault) /\ (w_disc w = true -> w_disc w' = true).
  Lemma mono_refl (w : world) : mono w w. Proof. split; auto. Qed.
  Lemma mono_trans (a b c : world) : mono a b -> mono b c -> mono a c.
  Proof. unfold mono. intuition. Qed.

  Lemma raise_fault f (w : world) : w_fault (raise f w) <> NoFault \/ f = NoFault.
  Proof. unfold raise. destruct (w_fault w) eqn:E; cbn; destruct f; auto; left; congruence. Qed.
  Lemma raise_mono f (w : world) : mono w (raise f w).
  Proof. unfold raise, mono. destruct (w_fault w) eqn:E; cbn; split; auto; congruence. Qed.
  Lemma disc_mono (w : world) : mono w (conn_disconnect w).
  Proof. unfold conn_disconnect, mono. destruct (w_disc w) eqn:E; cbn; split; auto. Qed.

  (* ------------------------------------------------------------------ the transport *)
  Lemma sock_write_spec bs (w : world) r w1 :
    sock_write bs w = (r, w1) ->
    wside_frame w w1 /\ w_z w1 = w_z w /\ w_out w1 = w_out w /\ w_q w1 = w_q w /\ w_disc w1 = w_disc w /\
    w_fault w1 = w_fault w /\ w_error w1 = w_error w /\ w_log w1 = w_log w /\
    ((r < 0 /\ w_wire w1 = w_wire w) \/
     ((bs <> [] -> 0 < r) /\ 0 <= r <= Z.of_nat (length bs) /\
      w_wire w1 = w_wire w ++ firstn (Z.to_nat r) bs /\ w_errno w1 = w_errno w)) /\
    (w_tx w = [] -> w_disc w = false -> r = Z.of_nat (length bs) /\ w_tx w1 = []).
  Proof.
    unfold sock_write. intros H.
    assert (Hlen : bs <> [] -> 0 < Z.of_nat (length bs)) by (destruct bs; cbn; [congruence | lia]).
    assert (Hfn : firstn (Z.to_nat (Z.of_nat (length bs))) bs = bs) by (rewrite Nat2Z.id; apply firstn_all).
    unfold wside_frame.
    destruct (w_disc w) eqn:Ed.
    { inversion H; subst; cbn. intuition (auto; try lia; try congruence). }
    destruct (w_tx w) as [|t rest] eqn:Et.
    { inversion H; subst; cbn. intuition (auto; try lia; try congruence). }
    destruct t; [| destruct (n <=? 0) eqn:En | |];
      inversion H; subst; cbn; intuition (auto; try lia; try congruence).
  Qed.

  Lemma next_write_spec bs (w : world) r w1 :
    next_write bs w = (r, w1) ->
    wside_frame w w1 /\ w_z w1 = w_z w /\ w_out w1 = w_out w /\ w_q w1 = w_q w /\ w_disc w1 = w_disc w /\
    w_fault w1 = w_fault w /\
    ((r < 0 /\ w_wire w1 = w_wire w) \/
     ((bs <> [] -> 0 < r) /\ 0 <= r <= Z.of_nat (length bs) /\
      w_wire w1 = w_wire w ++ firstn (Z.to_nat r) bs /\ w_error w1 = w_error w)) /\
    (w_tx w = [] -> w_disc w = false -> r = Z.of_nat (length bs) /\ w_tx w1 = [] /\ w_error w1 = w_error w).
  Proof.
    unfold next_write. intros H.
    destruct (sock_write bs w) as [r0 w0] eqn:E.
    apply sock_write_spec in E. unfold wside_frame in *.
    destruct ((r0 <? 0) && negb (recoverable (w_errno w0))) eqn:Eb;
      inversion H; subst; cbn;
      (assert (Hr : r < 0 \/ 0 <= r) by lia; destruct Hr as [Hr|Hr];
       [| apply andb_true_iff in Eb || idtac]); try (destruct Eb as [Eb _]; apply Z.ltb_lt in Eb);
      intuition (auto; try lia; try congruence).
  Qed.

  Lemma try_write_spec force (w : world) r w1 :
    try_write force w = (r, w1) ->
    wside_frame w w1 /\ w_z w1 = w_z w /\ w_q w1 = w_q w /\ w_disc w1 = w_disc w /\ w_fault w1 = w_fault w /\
    w_wire w1 ++ w_out w1 = w_wire w ++ w_out w /\
    (length (w_out w1) <= length (w_out w))%nat /\
    (0 <= r -> w_error w1 = w_error w /\ ((length (w_out w) <= bufsz)%nat -> (length (w_out w1) < bufsz)%nat \/ force = true)) /\
    (w_tx w = [] -> w_disc w = false ->
       0 <= r /\ w_tx w1 = [] /\ w_error w1 = w_error w /\
       (force = true \/ length (w_out w) = bufsz -> w_out w1 = [])).
  Proof.
    unfold try_write. intros H.
    destruct ((Nat.eqb (length (w_out w)) bufsz || force) && negb (Nat.eqb (length (w_out w)) 0)) eqn:Eg.
    - destruct (next_write (w_out w) w) as [ret w0] eqn:E.
      apply next_write_spec in E.
      apply andb_true_iff in Eg. destruct Eg as [Eg1 Eg2].
      apply negb_true_iff, Nat.eqb_neq in Eg2.
      assert (Hne : w_out w <> []) by (destruct (w_out w); cbn in *; congruence).
      destruct (ret <? 0) eqn:Er.
      + apply Z.ltb_lt in Er. inversion H; subst. unfold wside_frame in *.
        destruct E as (F & Hz & Ho & Hq & Hd & Hf & Hw & Hc).
        destruct Hw as [[_ Hw]|[Hp _]]; [|specialize (Hp Hne); lia].
        assert (Hcat : w_wire w1 ++ w_out w1 = w_wire w ++ w_out w) by (rewrite Hw, Ho; reflexivity).
        assert (Hlen : (length (w_out w1) <= length (w_out w))%nat) by (rewrite Ho; lia).
        intuition (auto; try lia; try congruence).
      + apply Z.ltb_ge in Er. inversion H; subst. cbn. unfold wside_frame in *.
        destruct E as (F & Hz & Ho & Hq & Hd & Hf & Hw & Hc).
        destruct Hw as [[Hneg _]|(Hp & Hrng & Hw & He)]; [lia|].
        specialize (Hp Hne).
        assert (Hsk : (length (skipn (Z.to_nat r) (w_out w)) = length (w_out w) - Z.to_nat r)%nat) by apply skipn_length.
        assert (Hcat : w_wire w0 ++ skipn (Z.to_nat r) (w_out w) = w_wire w ++ w_out w)
          by (rewrite Hw, <- app_assoc, firstn_skipn; reflexivity).
        assert (Hroom : (length (w_out w) <= bufsz)%nat -> (length (skipn (Z.to_nat r) (w_out w)) < bufsz)%nat \/ force = true).
        { intros Hle. apply orb_true_iff in Eg1. destruct Eg1 as [Eg1|Eg1]; [|now right].
          apply Nat.eqb_eq in Eg1. left. lia. }
        assert (Hall : r = Z.of_nat (length (w_out w)) -> skipn (Z.to_nat r) (w_out w) = []).
        { intros ->. rewrite Nat2Z.id. apply skipn_all. }
        intuition (auto; try lia; try congruence).
    - inversion H; subst. unfold wside_frame.
      assert (Hroom : (length (w_out w1) <= bufsz)%nat -> (length (w_out w1) < bufsz)%nat \/ force = true).
      { intros Hle. apply andb_false_iff in Eg. destruct Eg as [Eg|Eg].
        * apply orb_false_iff in Eg. destruct Eg as [Eg _]. apply Nat.eqb_neq in Eg. left; lia.
        * apply negb_false_iff, Nat.eqb_eq in Eg. left; lia. }
      assert (Hemp : force = true \/ length (w_out w1) = bufsz -> w_out w1 = []).
      { intros [Hf|Hf].
        * subst force. rewrite orb_true_r in Eg. cbn in Eg. apply negb_false_iff, Nat.eqb_eq in Eg.
          destruct (w_out w1); [reflexivity | discriminate].
        * rewrite Hf, Nat.eqb_refl in Eg. cbn in Eg. apply negb_false_iff, Nat.eqb_eq in Eg. lia. }
      intuition (auto; try lia; try congruence).
  Qed.

  (* ------------------------------------------------------------------ _compression_write *)
  Lemma skipn_nonnil {A} n (l : list A) : (n < length l)%nat -> skipn n l <> [].
  Proof. intros H E. apply (f_equal (@length A)) in E. rewrite skipn_length in E. cbn in E. lia. Qed.

  Lemma cw_loop_spec fuel : forall buff off fl (w : world) cin ret r w',
    DRr (w_z w) cin (w_wire w ++ w_out w) -> (length (w_out w) <= bufsz)%nat -> (off <= length buff)%nat ->
    (is_flush fl = false -> (off < length buff)%nat) -> (is_flush fl = true -> buff = []) ->
    cw_loop fuel buff off fl w = (ret, r, w') ->
    wside_frame w w' /\ w_q w' = w_q w /\ w_disc w' = w_disc w /\ mono w w' /\
    exists off', (off <= off' <= length buff)%nat /\
      DRr (w_z w') (cin ++ firstn (off' - off) (skipn off buff)) (w_wire w' ++ w_out w') /\
      (length (w_out w') <= bufsz)%nat /\
      (w_fault w' = NoFault ->
         (ret = true -> (off' = O -> r < 0) /\ (off' <> O -> r = Z.of_nat off')) /\
         (ret = false -> is_flush fl = false -> off' = length buff /\ r = Z.of_nat off')) /\
      (w_tx w = [] -> w_disc w = false -> w_fault w' = NoFault ->
         ret = false /\ w_tx w' = [] /\ w_error w' = w_error w /\
         (is_flush fl = true -> dec (w_wire w' ++ w_out w') = cin /\ fp (w_wire w' ++ w_out w'))).
  Proof.
    induction fuel as [|f IH]; intros buff off fl w cin ret r w' HDR Hout Hoff Hnf Hfl H.
    - cbn in H. inversion H; subst ret r w'. clear H.
      pose proof (raise_fault FFuel w) as [Hf|Hf]; [|discriminate].
      pose proof (raise_mono FFuel w) as Hm.
      assert (Hfr : wside_frame w (raise FFuel w) /\ w_q (raise FFuel w) = w_q w /\ w_disc (raise FFuel w) = w_disc w /\
                    w_z (raise FFuel w) = w_z w /\ w_wire (raise FFuel w) = w_wire w /\ w_out (raise FFuel w) = w_out w).
      { unfold raise, wside_frame. destruct (w_fault w); cbn; repeat split; reflexivity. }
      destruct Hfr as (F & Hq & Hd & Hz & Hwi & Ho).
      split; [exact F|]. split; [exact Hq|]. split; [exact Hd|]. split; [exact Hm|].
      exists off. rewrite Nat.sub_diag. cbn [firstn]. rewrite app_nil_r, Hz, Hwi, Ho.
      split; [lia|]. split; [exact HDR|]. split; [exact Hout|].
      split; intros; contradiction.
    - cbn [CompressionModel.cw_loop] in H.
      destruct (try_write false w) as [r0 w1] eqn:Etw.
      apply try_write_spec in Etw.
      destruct Etw as (F1 & Hz1 & Hq1 & Hd1 & Hf1 & Hcat1 & Hlen1 & Hok1 & Hcomp1).
      assert (Hm1 : mono w w1) by (unfold mono; rewrite Hf1, Hd1; tauto).
      assert (HDR1 : DRr (w_z w1) cin (w_wire w1 ++ w_out w1)) by (rewrite Hz1, Hcat1; exact HDR).
      destruct (r0 <? 0) eqn:Er0.
      + apply Z.ltb_lt in Er0. injection H as Eret Er Ew. subst ret w'.
        split; [exact F1|]. split; [exact Hq1|]. split; [exact Hd1|]. split; [exact Hm1|].
        exists off. rewrite Nat.sub_diag. cbn [firstn]. rewrite app_nil_r.
        split; [lia|]. split; [exact HDR1|]. split; [lia|].
        split.
        * intros _. split; [|intros; discriminate].
          intros _. split; intros Ho.
          -- subst off. cbn in Er. subst r. exact Er0.
          -- destruct (Nat.eqb off 0) eqn:E0; [apply Nat.eqb_eq in E0; lia | subst r; reflexivity].
        * intros Ht Hdd _. destruct (Hcomp1 Ht Hdd) as (Hx & _). lia.
      + apply Z.ltb_ge in Er0.
        destruct (Hok1 Er0) as (He1 & Hroom1).
        destruct (Hroom1 Hout) as [Hroom|Hroom]; [|discriminate].
        set (inp := skipn off buff) in *.
        set (room := (bufsz - length (w_out w1))%nat) in *.
        assert (Hrpos : (0 < room)%nat) by (subst room; lia).
        destruct (deflate_step (w_z w1) inp room fl) as [[[z' k] outp] st] eqn:Eds.
        destruct (zc_d_bounds _ _ _ _ _ _ _ _ _ HC _ _ _ _ _ _ _ _ _ _ HDR1 Hrpos Eds) as [Hk Ho].
        assert (Hinplen : length inp = (length buff - off)%nat) by (subst inp; apply skipn_length).
        assert (Eoob : Nat.ltb room (length outp) || Nat.ltb (length inp) k = false).
        { apply orb_false_iff; split; apply Nat.ltb_ge; lia. }
        rewrite Eoob in H.
        pose proof (DR_step _ deflate_step z0 _ _ _ _ _ _ _ _ _ _ HDR1 Hrpos Eds) as HDR2.
        destruct (zc_d_status _ _ _ _ _ _ _ _ _ HC _ _ _ _ _ _ _ _ _ _ HDR1 Hrpos Eds) as [Hst1 Hst2].
        set (w2 := set_out (w_out w1 ++ outp) (set_z z' w1)) in *.
        assert (Hw2out : length (w_out w2) = (length (w_out w1) + length outp)%nat) by (subst w2; cbn; apply app_length).
        assert (HDR2' : DRr (w_z w2) (cin ++ firstn k inp) (w_wire w2 ++ w_out w2))
          by (subst w2; cbn; rewrite app_assoc; exact HDR2).
        assert (Hfr2 : wside_frame w w2) by (subst w2; unfold wside_frame in *; cbn; intuition congruence).
        assert (Hm2 : mono w w2) by (subst w2; unfold mono; cbn; rewrite Hf1, Hd1; tauto).
        assert (Hq2 : w_q w2 = w_q w) by (subst w2; cbn; exact Hq1).
        assert (Hd2 : w_disc w2 = w_disc w) by (subst w2; cbn; exact Hd1).
        assert (Ht2 : w_tx w2 = w_tx w1) by (subst w2; reflexivity).
        assert (He2 : w_error w2 = w_error w) by (subst w2; cbn; exact He1).
        assert (Hf2 : w_fault w2 = w_fault w) by (subst w2; cbn; exact Hf1).
        destruct (is_flush fl) eqn:Efl.
        * (* flush: no input *)
          assert (Hb : buff = []) by auto. subst buff. cbn in Hoff. assert (off = O) by lia. subst off.
          assert (Hinp : inp = []) by (subst inp; reflexivity).
          assert (Hk0 : k = O) by (rewrite Hinp in Hk; cbn in Hk; lia).
          subst k. rewrite Hinp in *. cbn [firstn] in *. rewrite app_nil_r in *.
          destruct (Hst2 eq_refl eq_refl) as [Hst|Hst]; subst st.
          -- cbn [Nat.add length Nat.ltb Nat.leb orb andb] in H.
             destruct (Nat.eqb (length (w_out w2)) bufsz) eqn:Efull.
             ++ (* buffer full: go round again *)
                apply Nat.eqb_eq in Efull.
                specialize (IH [] O fl w2 cin ret r w' HDR2').
                destruct IH as (F3 & Hq3 & Hd3 & Hm3 & off' & Hoff' & HDR3 & Hout3 & Hres3 & Hcomp3); auto; try lia.
                { intros; congruence. }
                split; [eapply wside_trans; eauto|]. split; [congruence|]. split; [congruence|].
                split; [eapply mono_trans; eauto|].
                exists off'. split; [exact Hoff'|]. split; [exact HDR3|]. split; [exact Hout3|].
                rewrite Efl in Hres3, Hcomp3.
                split; [exact Hres3|].
                intros Ht Hdd Hf. destruct (Hcomp1 Ht Hdd) as (_ & Ht1 & _).
                destruct Hcomp3 as (Hr3 & Ht3 & He3 & Hd4); auto; try congruence.
                split; [exact Hr3|]. split; [exact Ht3|]. split; [congruence|]. exact Hd4.
             ++ (* room left: the flush is complete *)
                apply Nat.eqb_neq in Efull. inversion H; subst ret r w'. clear H.
                assert (Hlt : (length outp < room)%nat) by (subst room; lia).
                destruct (zc_d_flush _ _ _ _ _ _ _ _ _ HC _ _ _ _ _ _ _ _ _ HDR1 Hrpos Efl Eds Hlt) as (_ & Hdec & Hfp).
                rewrite app_nil_r in Hdec.
                split; [exact Hfr2|]. split; [exact Hq2|]. split; [exact Hd2|]. split; [exact Hm2|].
                exists O. cbn [Nat.sub skipn firstn]. rewrite app_nil_r.
                split; [cbn; lia|]. split; [exact HDR2'|]. split; [lia|].
                split.
                ** intros _. split; intros; discriminate.
                ** intros Ht Hdd _. destruct (Hcomp1 Ht Hdd) as (_ & Ht1 & _).
                   split; [reflexivity|]. split; [congruence|]. split; [exact He2|].
                   intros _. subst w2; cbn. rewrite app_assoc. split; [exact Hdec | exact Hfp].
          -- (* nothing to flush *)
             inversion H; subst ret r w'. clear H.
             destruct (zc_d_idle _ _ _ _ _ _ _ _ _ HC _ _ _ _ _ _ _ _ HDR1 Hrpos Efl Eds) as (_ & Hoe & Hdec & Hfp).
             subst outp.
             split; [exact Hfr2|]. split; [exact Hq2|]. split; [exact Hd2|]. split; [exact Hm2|].
             exists O. cbn [Nat.sub skipn firstn]. rewrite app_nil_r.
             split; [cbn; lia|]. split; [exact HDR2'|]. split; [lia|].
             split.
             ** intros _. split; intros; discriminate.
             ** intros Ht Hdd _. destruct (Hcomp1 Ht Hdd) as (_ & Ht1 & _).
                split; [reflexivity|]. split; [congruence|]. split; [exact He2|].
                intros _. subst w2; cbn. rewrite app_nil_r. split; [exact Hdec | exact Hfp].
        * (* no flush: input left *)
          assert (Hlt : (off < length buff)%nat) by auto.
          assert (Hinp : inp <> []) by (subst inp; apply skipn_nonnil; exact Hlt).
          rewrite (Hst1 eq_refl Hinp) in H. cbn [andb] in H. rewrite orb_false_r in H.
          destruct (Nat.ltb (off + k) (length buff)) eqn:Emore.
          -- apply Nat.ltb_lt in Emore.
             specialize (IH buff (off + k)%nat fl w2 (cin ++ firstn k inp) ret r w' HDR2').
             destruct IH as (F3 & Hq3 & Hd3 & Hm3 & off' & Hoff' & HDR3 & Hout3 & Hres3 & Hcomp3); auto; try lia.
             { intros; congruence. }
             assert (Hcin : (cin ++ firstn k inp) ++ firstn (off' - (off + k)) (skipn (off + k) buff)
                            = cin ++ firstn (off' - off) (skipn off buff)).
             { rewrite <- app_assoc. f_equal. subst inp. rewrite <- skipn_skipn.
               rewrite firstn_add_skipn. f_equal. lia. }
             rewrite Hcin in HDR3.
             split; [eapply wside_trans; eauto|]. split; [congruence|]. split; [congruence|].
             split; [eapply mono_trans; eauto|].
             exists off'. split; [lia|]. split; [exact HDR3|]. split; [exact Hout3|].
             rewrite Efl in Hres3, Hcomp3.
             split; [exact Hres3|].
             intros Ht Hdd Hf. destruct (Hcomp1 Ht Hdd) as (_ & Ht1 & _).
             destruct Hcomp3 as (Hr3 & Ht3 & He3 & Hd4); auto; try congruence.
             split; [exact Hr3|]. split; [exact Ht3|]. split; [congruence|]. intros; discriminate.
          -- apply Nat.ltb_ge in Emore. inversion H; subst ret r w'. clear H.
             split; [exact Hfr2|]. split; [exact Hq2|]. split; [exact Hd2|]. split; [exact Hm2|].
             exists (off + k)%nat.
             replace (off + k - off)%nat with k by lia.
             split; [lia|]. split; [exact HDR2'|]. split; [lia|].
             split.
             ** intros _. split; [intros; discriminate|]. intros _ _. split; [lia | reflexivity].
             ** intros Ht Hdd _. destruct (Hcomp1 Ht Hdd) as (_ & Ht1 & _).
                split; [reflexivity|]. split; [congruence|]. split; [exact He2|]. intros; discriminate.
  Qed.

  (* unconditional part: what the write side leaves alone, and stickiness *)
  Definition wlight (w w' : world) : Prop := wside_frame w w' /\ mono w w'.
  Lemma wlight_refl (w : world) : wlight w w. Proof. split; [apply wside_refl | apply mono_refl]. Qed.
  Lemma wlight_trans (a b c : world) : wlight a b -> wlight b c -> wlight a c.
  Proof. intros [A B] [C D]. split; [eapply wside_trans | eapply mono_trans]; eauto. Qed.
  Lemma wlight_raise f (w : world) : wlight w (raise f w).
  Proof. split; [|apply raise_mono]. unfold raise, wside_frame. destruct (w_fault w); cbn; repeat split. Qed.
  Lemma wlight_disc (w : world) : wlight w (conn_disconnect w).
  Proof. split; [|apply disc_mono]. unfold conn_disconnect, wside_frame. destruct (w_disc w); cbn; repeat split. Qed.
  Lemma wlight_try force (w : world) : wlight w (snd (try_write force w)).
  Proof.
    destruct (try_write force w) as [r w1] eqn:E. apply try_write_spec in E. cbn.
    destruct E as (F & _ & _ & Hd & Hf & _). split; [exact F|]. unfold mono. rewrite Hd, Hf. tauto.
  Qed.

  Lemma cw_loop_light fuel : forall buff off fl (w : world), wlight w (snd (cw_loop fuel buff off fl w)).
  Proof.
    induction fuel as [|f IH]; intros buff off fl w.
    - cbn. apply wlight_raise.
    - cbn [CompressionModel.cw_loop].
      pose proof (wlight_try false w) as L1.
      destruct (try_write false w) as [r0 w1]. cbn [snd] in L1.
      destruct (r0 <? 0); [exact L1|].
      destruct (deflate_step (w_z w1) (skipn off buff) (bufsz - length (w_out w1)) fl) as [[[z' k] outp] st].
      destruct (_ || _); [cbn; eapply wlight_trans; [exact L1 | apply wlight_raise]|].
      set (w2 := set_out (w_out w1 ++ outp) (set_z z' w1)).
      assert (L2 : wlight w w2).
      { eapply wlight_trans; [exact L1|]. subst w2. split; [unfold wside_frame|unfold mono]; cbn; tauto. }
      assert (Lf : forall c, wlight w (conn_disconnect (set_error c w2))).
      { intros c. eapply wlight_trans; [exact L2|]. eapply wlight_trans; [|apply wlight_disc].
        split; [unfold wside_frame|unfold mono]; cbn; tauto. }
      destruct st; cbn [snd].
      + destruct (_ || _); [eapply wlight_trans; [exact L2 | apply IH] | exact L2].
      + exact L2.
      + destruct (is_flush fl); [exact L2 | apply Lf].
      + apply Lf.
  Qed.

  Lemma cwr_light buff fl (w : world) : wlight w (snd (compression_write_raw buff fl w)).
  Proof.
    unfold compression_write_raw.
    pose proof (cw_loop_light (length buff + loopfuel) buff 0 fl w) as L.
    destruct (cw_loop (length buff + loopfuel) buff 0 fl w) as [[ret r] w1]. cbn [snd] in L.
    destruct ret; [exact L|]. destruct (is_flush fl); [|exact L].
    pose proof (wlight_try true w1) as L2. destruct (try_write true w1) as [r2 w2]. cbn [snd] in *.
    eapply wlight_trans; eauto.
  Qed.

  Lemma top_write_light e (w : world) : wlight w (snd (top_write e w)).
  Proof.
    unfold top_write, compression_write.
    destruct (is_nil e).
    - cbn. split; [unfold wside_frame|unfold mono]; cbn; tauto.
    - pose proof (cwr_light e (flush_of_code flush_code_write) w) as L.
      destruct (compression_write_raw e (flush_of_code flush_code_write) w) as [r w1]. cbn [snd] in *.
      eapply wlight_trans; [exact L|].
      destruct (_ && _); split; [unfold wside_frame|unfold mono|unfold wside_frame|unfold mono]; cbn; tauto.
  Qed.

  Lemma send_elems_light es : forall (w : world), wlight w (send_elems es w).
  Proof.
    induction es as [|e rest IH]; intros w; cbn [CompressionModel.send_elems].
    - split; [unfold wside_frame|unfold mono]; cbn; tauto.
    - pose proof (top_write_light e w) as L. destruct (top_write e w) as [ret w1]. cbn [snd] in L.
      destruct (ret =? _); [eapply wlight_trans; [exact L | apply IH]|].
      destruct (_ && _); (eapply wlight_trans; [exact L|]);
        split; [unfold wside_frame|unfold mono|unfold wside_frame|unfold mono]; cbn; tauto.
  Qed.

  Lemma send_phase_light (w : world) : wlight w (send_phase w).
  Proof.
    unfold send_phase. destruct (w_disc w); [apply wlight_refl|].
    pose proof (send_elems_light (w_q w) w) as L1.
    unfold compression_flush.
    pose proof (cwr_light [] (flush_of_code (if w_dont_reset (send_elems (w_q w) w) then flush_code_dont_reset else flush_code_reset)) (send_elems (w_q w) w)) as L2.
    destruct (compression_write_raw _ _ _) as [r w2]. cbn [snd] in L2.
    destruct (w_error w2 =? 0); [eapply wlight_trans; eauto|].
    eapply wlight_trans; [exact L1|]. eapply wlight_trans; [exact L2|]. eapply wlight_trans; [|apply wlight_disc].
    split; [unfold wside_frame|unfold mono]; cbn; tauto.
  Qed.

  (* ------------------------------------------------------------------ the invariant of the write side *)
  Definition OInvQ (w : world) (q : list (list Z)) : Prop :=
    exists cin, DRr (w_z w) cin (w_wire w ++ w_out w) /\ (length (w_out w) <= bufsz)%nat /\
                w_sub w = cin ++ concat q.
  Definition OInv (w : world) : Prop := OInvQ w (w_q w).

  Lemma cwr_spec buff fl (w : world) cin r w' :
    DRr (w_z w) cin (w_wire w ++ w_out w) -> (length (w_out w) <= bufsz)%nat ->
    (is_flush fl = false -> buff <> []) -> (is_flush fl = true -> buff = []) ->
    compression_write_raw buff fl w = (r, w') ->
    w_q w' = w_q w /\ w_disc w' = w_disc w /\
    exists c, (c <= length buff)%nat /\
      DRr (w_z w') (cin ++ firstn c buff) (w_wire w' ++ w_out w') /\ (length (w_out w') <= bufsz)%nat /\
      (w_fault w' = NoFault -> is_flush fl = false -> (r < 0 /\ c = O) \/ (r = Z.of_nat c /\ c <> O)) /\
      (w_tx w = [] -> w_disc w = false -> w_fault w' = NoFault ->
         w_tx w' = [] /\ w_error w' = w_error w /\
         (is_flush fl = false -> c = length buff /\ r = Z.of_nat c) /\
         (is_flush fl = true -> dec (w_wire w') = cin /\ w_out w' = [] /\ fp (w_wire w'))).
  Proof.
    intros HDR Hout Hnf Hfl H. unfold compression_write_raw in H.
    destruct (cw_loop (length buff + loopfuel) buff 0 fl w) as [[ret r1] w1] eqn:E.
    assert (Hnf' : is_flush fl = false -> (0 < length buff)%nat).
    { intros X. specialize (Hnf X). destruct buff; cbn; [congruence | lia]. }
    apply (cw_loop_spec _ _ _ _ _ cin) in E; auto; try lia.
    destruct E as (F1 & Hq1 & Hd1 & Hm1 & off' & Hoff' & HDR1 & Hout1 & Hres1 & Hcomp1).
    rewrite Nat.sub_0_r in HDR1. cbn [skipn] in HDR1.
    destruct ret.
    - injection H as Er Ew. subst r1 w1.
      split; [exact Hq1|]. split; [exact Hd1|].
      exists off'. split; [lia|]. split; [exact HDR1|]. split; [exact Hout1|].
      split.
      + intros Hf _. destruct (Hres1 Hf) as [A _]. destruct (A eq_refl) as [A1 A2].
        destruct off'; [left; split; auto | right; split; auto].
      + intros Ht Hdd Hf. destruct (Hcomp1 Ht Hdd Hf) as (X & _). discriminate.
    - destruct (is_flush fl) eqn:Efl.
      + destruct (try_write true w1) as [r2 w2] eqn:Etw. injection H as Er Ew. subst r2 w2.
        apply try_write_spec in Etw.
        destruct Etw as (F2 & Hz2 & Hq2 & Hd2 & Hf2 & Hcat2 & Hlen2 & Hok2 & Hcomp2).
        split; [congruence|]. split; [congruence|].
        exists off'. split; [lia|]. split; [rewrite Hz2, Hcat2; exact HDR1|]. split; [lia|].
        split; [intros; discriminate|].
        intros Ht Hdd Hf. rewrite Hf2 in Hf.
        destruct (Hcomp1 Ht Hdd Hf) as (_ & Ht1 & He1 & Hd4).
        destruct (Hd4 eq_refl) as (Hdec & Hfp).
        rewrite Hd1 in Hcomp2. destruct (Hcomp2 Ht1 Hdd) as (_ & Ht2 & He2 & Hemp).
        specialize (Hemp (or_introl eq_refl)).
        rewrite Hemp, app_nil_r in Hcat2.
        split; [exact Ht2|]. split; [congruence|]. split; [intros; discriminate|].
        intros _. rewrite Hcat2. split; [exact Hdec|]. split; [exact Hemp | exact Hfp].
      + injection H as Er Ew. subst r1 w1.
        split; [exact Hq1|]. split; [exact Hd1|].
        exists off'. split; [lia|]. split; [exact HDR1|]. split; [exact Hout1|].
        split.
        * intros Hf _. destruct (Hres1 Hf) as [_ B]. destruct (B eq_refl eq_refl) as [B1 B2].
          right. split; [exact B2|]. specialize (Hnf' eq_refl). lia.
        * intros Ht Hdd Hf. destruct (Hcomp1 Ht Hdd Hf) as (_ & Ht1 & He1 & _).
          destruct (Hres1 Hf) as [_ B]. destruct (B eq_refl eq_refl) as [B1 B2].
          split; [exact Ht1|]. split; [exact He1|]. split; [intros _; split; assumption | intros; discriminate].
  Qed.

  Lemma flush_of_write : flush_of_code flush_code_write = NoFlush.
  Proof. exact (proj1 (proj2 (proj2 Gen_compression_ok))). Qed.
  Lemma flush_of_flush b : is_flush (flush_of_code (if b : bool then flush_code_dont_reset else flush_code_reset)) = true.
  Proof.
    destruct Gen_compression_ok as (_ & _ & _ & A & B & _). destruct b; [rewrite B | rewrite A]; reflexivity.
  Qed.

  Lemma top_write_spec e (w : world) cin r w' :
    DRr (w_z w) cin (w_wire w ++ w_out w) -> (length (w_out w) <= bufsz)%nat ->
    top_write e w = (r, w') ->
    w_q w' = w_q w /\ w_disc w' = w_disc w /\
    exists c, (c <= length e)%nat /\
      DRr (w_z w') (cin ++ firstn c e) (w_wire w' ++ w_out w') /\ (length (w_out w') <= bufsz)%nat /\
      (w_fault w' = NoFault -> (r < 0 /\ c = O) \/ (r = Z.of_nat c /\ (c <> O \/ e = []))) /\
      (w_tx w = [] -> w_disc w = false -> w_fault w' = NoFault ->
         w_tx w' = [] /\ w_error w' = w_error w /\ c = length e /\ r = Z.of_nat c).
  Proof.
    intros HDR Hout H. unfold top_write, compression_write in H.
    destruct (is_nil e) eqn:En.
    - apply is_nil_true in En. subst e. injection H as Er Ew. subst r w'. cbn.
      split; [reflexivity|]. split; [reflexivity|]. exists O. cbn. rewrite app_nil_r.
      split; [lia|]. split; [exact HDR|]. split; [exact Hout|].
      split; [intros; right; split; auto|]. intros Ht _ _. repeat split; auto.
    - apply is_nil_false in En.
      destruct (compression_write_raw e (flush_of_code flush_code_write) w) as [r1 w1] eqn:E.
      rewrite flush_of_write in E.
      apply (cwr_spec _ _ _ cin) in E; auto; try (intros; discriminate).
      destruct E as (Hq1 & Hd1 & c & Hc & HDR1 & Hout1 & Hres1 & Hcomp1).
      injection H as Er Ew. subst r1.
      assert (Hsame : w_q w' = w_q w1 /\ w_disc w' = w_disc w1 /\ w_z w' = w_z w1 /\ w_wire w' = w_wire w1 /\
                      w_out w' = w_out w1 /\ w_fault w' = w_fault w1 /\ w_tx w' = w_tx w1 /\
                      (0 <= r -> w_error w' = w_error w1)).
      { subst w'. destruct ((r <? 0) && negb (recoverable (w_errno w1))) eqn:Eb; cbn; repeat split; auto.
        intros Hr. apply andb_true_iff in Eb. destruct Eb as [Eb _]. apply Z.ltb_lt in Eb. lia. }
      destruct Hsame as (A1 & A2 & A3 & A4 & A5 & A6 & A7 & A8).
      split; [congruence|]. split; [congruence|].
      exists c. split; [exact Hc|]. rewrite A3, A4, A5. split; [exact HDR1|]. split; [exact Hout1|].
      split.
      + intros Hf. rewrite A6 in Hf. destruct (Hres1 Hf eq_refl) as [X|[X Y]]; [left; exact X | right; split; auto].
      + intros Ht Hdd Hf. rewrite A6 in Hf. destruct (Hcomp1 Ht Hdd Hf) as (T1 & T2 & T3 & _).
        destruct (T3 eq_refl) as [T4 T5].
        split; [congruence|]. split; [rewrite A8; [exact T2 | lia]|]. split; assumption.
  Qed.

  Lemma send_elems_spec es : forall (w : world),
    OInvQ w es -> w_fault (send_elems es w) = NoFault ->
    w_disc (send_elems es w) = w_disc w /\ OInv (send_elems es w) /\
    (w_tx w = [] -> w_disc w = false ->
       w_q (send_elems es w) = [] /\ w_tx (send_elems es w) = [] /\ w_error (send_elems es w) = w_error w).
  Proof.
    induction es as [|e rest IH]; intros w (cin & HDR & Hout & Hsub) Hf; cbn [CompressionModel.send_elems] in *.
    - split; [reflexivity|]. split; [exists cin; cbn; auto|]. intros; cbn; auto.
    - destruct (top_write e w) as [ret w1] eqn:E.
      pose proof (top_write_light e w) as [F1 M1]. rewrite E in F1, M1. cbn [snd] in F1, M1.
      apply (top_write_spec _ _ cin) in E; auto.
      destruct E as (Hq1 & Hd1 & c & Hc & HDR1 & Hout1 & Hres1 & Hcomp1).
      assert (Hsub1 : w_sub w1 = w_sub w) by (destruct F1 as (_ & _ & _ & _ & _ & X); exact X).
      cbn [concat] in Hsub.
      destruct (ret =? Z.of_nat (length e)) eqn:Efull.
      + apply Z.eqb_eq in Efull.
        pose proof (send_elems_light rest w1) as [_ M2].
        assert (Hf1 : w_fault w1 = NoFault).
        { destruct (w_fault w1) eqn:X; auto; exfalso; apply (proj1 M2); congruence. }
        assert (Hce : c = length e).
        { destruct (Hres1 Hf1) as [[X _]|[X _]]; lia. }
        assert (I1 : OInvQ w1 rest).
        { exists (cin ++ e). subst c. rewrite firstn_all in HDR1. split; [exact HDR1|]. split; [exact Hout1|].
          rewrite Hsub1, Hsub, app_assoc. reflexivity. }
        destruct (IH w1 I1 Hf) as (D2 & I2 & C2).
        split; [congruence|]. split; [exact I2|].
        intros Ht Hdd. destruct (Hcomp1 Ht Hdd Hf1) as (T1 & T2 & _).
        rewrite Hd1 in C2. destruct (C2 T1 Hdd) as (Q1 & Q2 & Q3). repeat split; congruence.
      + apply Z.eqb_neq in Efull.
        destruct ((0 <? ret) && (ret <? Z.of_nat (length e))) eqn:Epart.
        * apply andb_true_iff in Epart. destruct Epart as [P1 P2]. apply Z.ltb_lt in P1, P2.
          cbn in Hf. cbn. split; [exact Hd1|].
          destruct (Hres1 Hf) as [[X _]|[X _]]; [lia|].
          split.
          -- exists (cin ++ firstn c e). cbn. split; [exact HDR1|]. split; [exact Hout1|].
             rewrite Hsub1, Hsub. subst ret. rewrite Nat2Z.id.
             rewrite <- (firstn_skipn c e) at 1. rewrite <- !app_assoc. reflexivity.
          -- intros Ht Hdd. destruct (Hcomp1 Ht Hdd Hf) as (_ & _ & T3 & T4). lia.
        * cbn in Hf. cbn. split; [exact Hd1|].
          assert (Hc0 : c = O).
          { destruct (Hres1 Hf) as [[_ X]|[X Y]]; [exact X|].
            apply andb_false_iff in Epart. destruct Epart as [P|P]; [apply Z.ltb_ge in P | apply Z.ltb_ge in P]; lia. }
          subst c. cbn [firstn] in HDR1. rewrite app_nil_r in HDR1.
          split.
          -- exists cin. cbn. split; [exact HDR1|]. split; [exact Hout1|]. rewrite Hsub1. exact Hsub.
          -- intros Ht Hdd. destruct (Hcomp1 Ht Hdd Hf) as (_ & _ & T3 & T4). lia.
  Qed.

  Lemma OInv_frame (w w' : world) :
    w_z w' = w_z w -> w_wire w' = w_wire w -> w_out w' = w_out w -> w_sub w' = w_sub w -> w_q w' = w_q w ->
    OInv w -> OInv w'.
  Proof. intros A B C D E (cin & H1 & H2 & H3). exists cin. rewrite A, B, C, D, E. auto. Qed.

  Lemma send_phase_spec (w : world) :
    OInv w -> w_fault (send_phase w) = NoFault ->
    OInv (send_phase w) /\
    (w_tx w = [] -> w_disc w = false ->
       w_q (send_phase w) = [] /\ w_out (send_phase w) = [] /\ w_tx (send_phase w) = [] /\
       dec (w_wire (send_phase w)) = w_sub (send_phase w) /\ fp (w_wire (send_phase w)) /\
       (w_error w = 0 -> w_disc (send_phase w) = false /\ w_error (send_phase w) = 0)).
  Proof.
    intros I Hf. unfold send_phase in *.
    destruct (w_disc w) eqn:Ed; [split; [exact I | intros; discriminate]|].
    set (w1 := send_elems (w_q w) w) in *.
    unfold compression_flush in *.
    set (fl := flush_of_code (if w_dont_reset w1 then flush_code_dont_reset else flush_code_reset)) in *.
    pose proof (cwr_light [] fl w1) as [F2 M2].
    destruct (compression_write_raw [] fl w1) as [r w2] eqn:E. cbn [snd] in F2, M2.
    assert (Hfin : w_fault w2 = NoFault).
    { destruct (w_error w2 =? 0); [exact Hf|].
      unfold conn_disconnect in Hf. destruct (w_disc (set_error ECONNABORTED w2)); cbn in Hf; exact Hf. }
    assert (Hf1 : w_fault w1 = NoFault).
    { destruct (w_fault w1) eqn:X; auto; exfalso; apply (proj1 M2); congruence. }
    destruct (send_elems_spec (w_q w) w I Hf1) as (D1 & (cin & HDR1 & Hout1 & Hsub1) & C1).
    fold w1 in D1, HDR1, Hout1, Hsub1, C1.
    assert (Hisf : is_flush fl = true) by (subst fl; apply flush_of_flush).
    apply (cwr_spec _ _ _ cin) in E; auto; try (intros; congruence).
    destruct E as (Hq2 & Hd2 & c & Hc & HDR2 & Hout2 & _ & Hcomp2).
    cbn in Hc. assert (c = O) by lia. subst c. cbn [firstn] in HDR2. rewrite app_nil_r in HDR2.
    assert (Hsub2 : w_sub w2 = w_sub w1) by (destruct F2 as (_ & _ & _ & _ & _ & X); exact X).
    assert (I2 : OInv w2).
    { exists cin. split; [exact HDR2|]. split; [exact Hout2|]. rewrite Hq2, Hsub2. exact Hsub1. }
    set (w3 := if w_error w2 =? 0 then w2 else conn_disconnect (set_error ECONNABORTED w2)) in *.
    assert (Hsame : w_z w3 = w_z w2 /\ w_wire w3 = w_wire w2 /\ w_out w3 = w_out w2 /\ w_sub w3 = w_sub w2 /\
                    w_q w3 = w_q w2 /\ w_tx w3 = w_tx w2).
    { subst w3. destruct (w_error w2 =? 0); [repeat split|].
      unfold conn_disconnect. destruct (w_disc (set_error ECONNABORTED w2)); cbn; repeat split. }
    destruct Hsame as (S1 & S2 & S3 & S4 & S5 & S6).
    split; [eapply OInv_frame; eauto|].
    intros Ht _. destruct (C1 Ht Ed) as (Q1 & T1 & E1).
    rewrite D1 in Hcomp2. destruct (Hcomp2 T1 Ed Hfin) as (T2 & E2 & _ & Hfl2).
    destruct (Hfl2 Hisf) as (Hdec & Hemp & Hfp).
    rewrite S5, S3, S6, S2, S4. split; [congruence|]. split; [exact Hemp|]. split; [exact T2|].
    split; [rewrite Hdec, Hsub2, Hsub1, Q1; cbn; rewrite app_nil_r; reflexivity|].
    split; [exact Hfp|].
    intros He0. assert (He2 : w_error w2 = 0) by congruence.
    subst w3. rewrite He2. cbn. split; congruence.
  Qed.

  (* ------------------------------------------------------------------ the read side: light lemmas *)
  Definition rlight (w w' : world) : Prop := rside_frame w w' /\ mono w w'.
  Lemma rlight_refl (w : world) : rlight w w. Proof. split; [apply rside_refl | apply mono_refl]. Qed.
  Lemma rlight_trans (a b c : world) : rlight a b -> rlight b c -> rlight a c.
  Proof. intros [A B] [C D]. split; [eapply rside_trans | eapply mono_trans]; eauto. Qed.
  Lemma rlight_raise f (w : world) : rlight w (raise f w).
  Proof. split; [|apply raise_mono]. unfold raise, rside_frame. destruct (w_fault w); cbn; repeat split. Qed.
  Lemma rlight_disc (w : world) : rlight w (conn_disconnect w).
  Proof. split; [|apply disc_mono]. unfold conn_disconnect, rside_frame. destruct (w_disc w); cbn; repeat split. Qed.
  Ltac rl := split; [unfold rside_frame | unfold mono]; cbn; tauto.

  Lemma sock_read_light n (w : world) : rlight w (snd (sock_read n w)).
  Proof.
    unfold sock_read. destruct (w_disc w); [cbn; rl|].
    destruct (w_rx w) as [|[bs| |] rest]; cbn; try rl.
  Qed.

  Lemma conn_decompress_light fresh len (w : world) : rlight w (snd (conn_decompress fresh len w)).
  Proof.
    unfold conn_decompress.
    destruct (inflate_step _ _ _) as [[[i' k] outp] st].
    destruct (_ || _); [cbn; apply rlight_raise|].
    destruct st; cbn [snd]; try destruct (is_nil _); try rl.
    eapply rlight_trans; [|apply rlight_disc]. rl.
  Qed.

  Lemma read_loop_light fuel : forall len (w : world), rlight w (snd (read_loop fuel len w)).
  Proof.
    induction fuel as [|f IH]; intros len w; cbn [CompressionModel.read_loop].
    - cbn. apply rlight_raise.
    - pose proof (sock_read_light bufsz w) as L1.
      destruct (sock_read bufsz w) as [[n bs] w1]. cbn [snd] in L1.
      destruct (n <=? 0); [exact L1|].
      pose proof (conn_decompress_light bs len w1) as L2.
      destruct (conn_decompress bs len w1) as [[ret outp] w2]. cbn [snd] in L2.
      destruct (_ && _); cbn [snd]; eapply rlight_trans; eauto. eapply rlight_trans; eauto.
  Qed.

  Lemma compression_read_light len (w : world) : rlight w (snd (compression_read len w)).
  Proof.
    unfold compression_read. destruct (w_in w); [apply conn_decompress_light | apply read_loop_light].
  Qed.

  Lemma read_phase_light (w : world) : rlight w (read_phase w).
  Proof.
    unfold read_phase. destruct (w_disc w); [apply rlight_refl|].
    destruct (_ || _); [|apply rlight_refl].
    pose proof (compression_read_light msgsz w) as L.
    destruct (compression_read msgsz w) as [[ret bs] w1]. cbn [snd] in L.
    destruct (0 <? ret); [eapply rlight_trans; [exact L|]; rl|].
    destruct (negb _); [eapply rlight_trans; [exact L|]; eapply rlight_trans; [|apply rlight_disc]; rl|].
    destruct (ret =? 0); [|exact L].
    eapply rlight_trans; [exact L|]; eapply rlight_trans; [|apply rlight_disc]; rl.
  Qed.

  (* ------------------------------------------------------------------ whole runs: the write side *)
  Lemma run_once_mono (w : world) : mono w (run_once w).
  Proof.
    unfold run_once. eapply mono_trans; [apply send_phase_light|].
    eapply mono_trans; [apply read_phase_light|]. unfold mono; cbn; tauto.
  Qed.
  Lemma step_mono (w : world) o : mono w (step w o).
  Proof.
    destruct o; cbn; try (unfold mono; cbn; tauto); [|apply run_once_mono].
    destruct (w_disc w); unfold mono; cbn; tauto.
  Qed.
  Lemma run_mono ops : forall (w : world), mono w (run w ops).
  Proof.
    induction ops as [|o ops IH]; intros w; cbn; [apply mono_refl|].
    eapply mono_trans; [apply step_mono | apply IH].
  Qed.
  Lemma mono_nofault (w w' : world) : mono w w' -> w_fault w' = NoFault -> w_fault w = NoFault.
  Proof. intros [M _] H. destruct (w_fault w) eqn:E; auto; exfalso; apply M; congruence. Qed.

  Lemma run_once_OInv (w : world) : OInv w -> w_fault (run_once w) = NoFault -> OInv (run_once w).
  Proof.
    intros I Hf. unfold run_once in *. cbn in Hf.
    pose proof (read_phase_light (send_phase w)) as [F M].
    assert (Hf1 : w_fault (send_phase w) = NoFault) by (eapply mono_nofault; eauto).
    destruct (send_phase_spec w I Hf1) as [I1 _].
    destruct F as (A1 & A2 & A3 & A4 & A5 & A6 & A7).
    eapply OInv_frame; [| | | | |exact I1]; cbn; assumption.
  Qed.

  Lemma step_OInv (w : world) o : OInv w -> w_fault (step w o) = NoFault -> OInv (step w o).
  Proof.
    intros I Hf. destruct o; cbn in *.
    - destruct (w_disc w); [exact I|]. destruct I as (cin & H1 & H2 & H3). exists cin. cbn.
      split; [exact H1|]. split; [exact H2|]. rewrite H3, concat_app. cbn. rewrite app_nil_r, app_assoc. reflexivity.
    - eapply OInv_frame; [| | | | |exact I]; reflexivity.
    - eapply OInv_frame; [| | | | |exact I]; reflexivity.
    - apply run_once_OInv; assumption.
  Qed.

  Lemma run_OInv ops : forall (w : world), OInv w -> w_fault (run w ops) = NoFault -> OInv (run w ops).
  Proof.
    induction ops as [|o ops IH]; intros w I Hf; cbn in *; [exact I|].
    apply IH; [|exact Hf]. apply step_OInv; [exact I|].
    eapply mono_nofault; [apply run_mono | exact Hf].
  Qed.

  Lemma init_OInv dr e0 : OInv (init_world z0 i0 dr e0).
  Proof. exists []. cbn. split; [constructor|]. split; [lia | reflexivity]. Qed.

  (* while the connection is up, the ghost w_sub is everything the user program has submitted *)
  Lemma run_once_sub (w : world) : w_sub (run_once w) = w_sub w.
  Proof.
    unfold run_once. cbn.
    pose proof (read_phase_light (send_phase w)) as [(_ & _ & _ & _ & _ & _ & A) _].
    pose proof (send_phase_light w) as [(_ & _ & _ & _ & _ & B) _]. congruence.
  Qed.
  Lemma sub_all ops : forall (w : world),
    w_disc (run w ops) = false -> w_sub (run w ops) = w_sub w ++ enq_stream ops.
  Proof.
    induction ops as [|o ops IH]; intros w Hd; cbn [run fold_left] in *.
    - unfold enq_stream. cbn. now rewrite app_nil_r.
    - change (fold_left _ ops (step w o)) with (run (step w o) ops) in *.
      assert (Hd1 : w_disc (step w o) = false).
      { destruct (w_disc (step w o)) eqn:E; auto. pose proof (run_mono ops (step w o)) as [_ M]. rewrite (M E) in Hd. discriminate. }
      assert (Hd0 : w_disc w = false).
      { destruct (w_disc w) eqn:E; auto. pose proof (step_mono w o) as [_ M]. rewrite (M E) in Hd1. discriminate. }
      rewrite (IH _ Hd). unfold enq_stream. cbn [map concat].
      destruct o; cbn [step]; rewrite ?Hd0; [cbn; rewrite ?app_assoc; reflexivity | reflexivity | reflexivity |].
      rewrite run_once_sub. reflexivity.
  Qed.

  (* safety: whatever the transport accepted inflates to a prefix of the plain stream *)
  Lemma OInv_prefix (w : world) : OInv w -> prefix (dec (w_wire w)) (w_sub w).
  Proof.
    intros (cin & H1 & _ & H3).
    eapply prefix_trans; [apply (zc_dec_mono _ _ _ _ _ _ _ _ _ HC (w_wire w) (w_out w))|].
    eapply prefix_trans; [eapply (zc_d_sound _ _ _ _ _ _ _ _ _ HC); exact H1|].
    rewrite H3. apply prefix_app.
  Qed.

  Lemma transparent_out_safe ops dr e0 :
    let w := run (init_world z0 i0 dr e0) ops in
    w_fault w = NoFault -> prefix (dec (w_wire w)) (w_sub w).
  Proof. intros w Hf. apply OInv_prefix. apply run_OInv; [apply init_OInv | exact Hf]. Qed.

  (* completeness: an iteration in which the transport refuses nothing delivers everything submitted so far *)
  Lemma transparent_out_complete ops dr e0 :
    let w := run (init_world z0 i0 dr e0) ops in
    let w' := run_once w in
    w_fault w' = NoFault -> w_disc w = false -> w_tx w = [] ->
    dec (w_wire w') = w_sub w' /\ w_sub w' = w_sub w /\ w_q w' = [] /\ w_out w' = [] /\ fp (w_wire w').
  Proof.
    intros w w' Hf Hd Ht. subst w'. unfold run_once in *. cbn in Hf. cbn.
    pose proof (read_phase_light (send_phase w)) as [F M].
    assert (Hf1 : w_fault (send_phase w) = NoFault) by (eapply mono_nofault; eauto).
    assert (I : OInv w).
    { apply run_OInv; [apply init_OInv|]. eapply mono_nofault; [apply send_phase_light | exact Hf1]. }
    destruct (send_phase_spec w I Hf1) as [_ C]. destruct (C Ht Hd) as (Q & O & T & D & P & _).
    destruct F as (A1 & A2 & A3 & A4 & A5 & A6 & A7).
    pose proof (send_phase_light w) as [(_ & _ & _ & _ & _ & S) _].
    rewrite A5, A7, A3, A2. repeat split; congruence.
  Qed.

  (* ------------------------------------------------------------------ the read side *)
  Definition resumable (i : ist) (rest : list Z) : Prop :=
    forall room' i'' k' outp' st', (0 < room')%nat -> inflate_step i rest room' = (i'', k', outp', st') -> outp' <> [].
  Definition pend_ok (w : world) : Prop :=
    match w_in w with Some rest => rest <> [] /\ resumable (w_i w) rest | None => True end.
  (* zs: everything the peer has sent so far; fed: what has been handed to the parser *)
  Definition IInvP (w : world) (zs fed : list Z) : Prop :=
    exists zin, IRr (w_i w) zin fed /\ zs = zin ++ undecoded (w_in w) (w_rx w) /\ pend_ok w.
  Definition IInv (w : world) (zs : list Z) : Prop := IInvP w zs (w_fed w).

  Lemma rx_stream_app a b : rx_stream (a ++ b) = rx_stream a ++ rx_stream b.
  Proof. induction a as [|[bs| |] a IH]; cbn; auto. rewrite IH, app_assoc. reflexivity. Qed.

  Lemma sock_read_spec n (w : world) r bs w1 :
    (0 < n)%nat -> sock_read n w = (r, bs, w1) ->
    w_i w1 = w_i w /\ w_in w1 = w_in w /\ w_fed w1 = w_fed w /\ w_disc w1 = w_disc w /\ w_fault w1 = w_fault w /\
    w_error w1 = w_error w /\
    ((0 < r /\ r = Z.of_nat (length bs) /\ bs <> [] /\ (length bs <= n)%nat /\
      rx_stream (w_rx w) = bs ++ rx_stream (w_rx w1) /\ (only_data (w_rx w) -> only_data (w_rx w1))) \/
     (r <= 0 /\ bs = [] /\ rx_stream (w_rx w1) = rx_stream (w_rx w) /\
      (w_disc w = false -> only_data (w_rx w) -> w_rx w = [] /\ r = -1 /\ w_errno w1 = EAGAIN /\ w_rx w1 = []))).
  Proof.
    intros Hn H. unfold sock_read in H.
    destruct (w_disc w) eqn:Ed.
    { injection H as <- <- <-. cbn. repeat split; auto. right. intuition (auto; try lia; try congruence). }
    destruct (w_rx w) as [|[cs| |] rest] eqn:Erx.
    - injection H as <- <- <-. cbn. rewrite ?Erx. repeat split; auto. right. cbn. intuition (auto; try lia; try congruence).
    - injection H as <- <- <-. cbn [w_i w_in w_fed w_disc w_fault w_error w_rx set_rx].
      repeat split; auto.
      destruct cs as [|c cs'].
      + right. rewrite firstn_nil, skipn_nil. cbn.
        split; [lia|]. split; [reflexivity|]. split; [reflexivity|].
        intros _ Ho. inversion Ho; subst. congruence.
      + left. assert (Hne : firstn n (c :: cs') <> []) by (destruct n; [lia | cbn; congruence]).
        assert (Hl : (length (firstn n (c :: cs')) <= n)%nat) by (rewrite firstn_length; lia).
        split; [destruct (firstn n (c :: cs')); cbn; [congruence | lia]|].
        split; [reflexivity|]. split; [exact Hne|]. split; [exact Hl|].
        destruct (is_nil (skipn n (c :: cs'))) eqn:En.
        * apply is_nil_true in En. split.
          -- cbn [rx_stream]. rewrite <- (firstn_skipn n (c :: cs')) at 1. rewrite En, app_nil_r. reflexivity.
          -- intros Ho. inversion Ho; assumption.
        * apply is_nil_false in En. split.
          -- cbn [rx_stream]. rewrite <- (firstn_skipn n (c :: cs')) at 1. rewrite app_assoc. reflexivity.
          -- intros Ho. inversion Ho; subst. constructor; assumption.
    - injection H as <- <- <-. cbn. repeat split; auto. right.
      split; [lia|]. split; [reflexivity|]. split; [reflexivity|].
      intros _ Ho. inversion Ho; subst. contradiction.
    - injection H as <- <- <-. cbn. repeat split; auto. right.
      split; [lia|]. split; [reflexivity|]. split; [reflexivity|].
      intros _ Ho. inversion Ho; subst. contradiction.
  Qed.

  Definition pend_list (w : world) : list Z := match w_in w with Some r => r | None => [] end.

  Lemma conn_decompress_spec fresh len (w : world) zin ret outp w' :
    (0 < len)%nat -> IRr (w_i w) zin (w_fed w) ->
    let inp := match w_in w with Some r => r | None => fresh end in
    inp <> [] -> wf (zin ++ inp) ->
    conn_decompress fresh len w = (ret, outp, w') ->
    w_rx w' = w_rx w /\ w_fed w' = w_fed w /\ w_disc w' = w_disc w /\ w_fault w' = w_fault w /\
    w_errno w' = w_errno w /\ w_error w' = w_error w /\
    ret = Z.of_nat (length outp) /\ (length outp <= len)%nat /\
    (exists zin', IRr (w_i w') zin' (w_fed w ++ outp) /\ zin' ++ pend_list w' = zin ++ inp) /\
    pend_ok w' /\
    (outp <> [] \/ (length (pend_list w') < length inp)%nat) /\
    (w_in w' = None \/ length outp = len) /\
    (forall r, w_in w = Some r -> resumable (w_i w) r -> outp <> []) /\
    (length (pend_list w') <= length inp)%nat.
  Proof.
    intros Hlen HIR inp Hne Hwf H. unfold conn_decompress in H. fold inp in H.
    destruct (inflate_step (w_i w) inp len) as [[[i' k] outp0] st] eqn:Eis.
    destruct (zc_i_bounds _ _ _ _ _ _ _ _ _ HC _ _ _ _ _ _ _ _ _ HIR Hlen Eis) as [Hk Ho].
    destruct (zc_i_ok _ _ _ _ _ _ _ _ _ HC _ _ _ _ _ _ _ _ _ HIR Hlen Hne Hwf Eis) as (Hst & Hprog & Hstop & _).
    subst st.
    assert (Eoob : Nat.ltb len (length outp0) || Nat.ltb (length inp) k = false).
    { apply orb_false_iff; split; apply Nat.ltb_ge; lia. }
    rewrite Eoob in H.
    pose proof (IR_step _ inflate_step i0 _ _ _ _ _ _ _ _ _ HIR Hlen Eis) as HIR2.
    set (rest := skipn k inp) in *.
    assert (Hrl : length rest = (length inp - k)%nat) by (subst rest; apply skipn_length).
    injection H as Er Eo Ew. subst ret outp0.
    assert (Hres : forall r, w_in w = Some r -> resumable (w_i w) r -> outp <> []).
    { intros r Hr Hres. subst inp. rewrite Hr in Eis. eapply Hres; eauto. }
    destruct (is_nil rest) eqn:En.
    - apply is_nil_true in En. subst w'. unfold pend_ok, pend_list. cbn.
      repeat split; auto.
      + exists (zin ++ firstn k inp). split; [exact HIR2|].
        rewrite app_nil_r. f_equal. rewrite <- (firstn_skipn k inp) at 2. fold rest. rewrite En, app_nil_r. reflexivity.
      + destruct Hprog as [Hp|Hp]; [right; destruct inp; cbn in *; [congruence | lia] | left; exact Hp].
      + lia.
    - apply is_nil_false in En. subst w'. unfold pend_ok, pend_list. cbn.
      assert (Hkl : (k < length inp)%nat).
      { destruct (Nat.lt_ge_cases k (length inp)); auto. exfalso. apply En. subst rest. apply skipn_all2. lia. }
      repeat split; auto.
      + exists (zin ++ firstn k inp). split; [exact HIR2|].
        rewrite <- app_assoc. f_equal. apply firstn_skipn.
      + intros room' i'' k' outp' st' Hr' E'.
        eapply (zc_i_resume _ _ _ _ _ _ _ _ _ HC _ _ _ _ _ _ _ _ HIR Hlen Hwf Eis Hkl); eauto.
      + destruct Hprog as [Hp|Hp]; [right; lia | left; exact Hp].
      + right. destruct Hstop as [X|X]; [lia | exact X].
      + lia.
  Qed.

  Lemma rx_weight_stream l : rx_weight l = length (rx_stream l).
  Proof. induction l as [|[bs| |] l IH]; cbn; auto. rewrite app_length, IH. reflexivity. Qed.

  Lemma read_loop_spec fuel : forall len (w : world) zs ret outp w',
    (0 < len)%nat -> w_in w = None -> IInv w zs -> wf zs -> (rx_weight (w_rx w) < fuel)%nat ->
    read_loop fuel len w = (ret, outp, w') -> w_fault w' = NoFault ->
    IInvP w' zs (w_fed w ++ outp) /\ w_fed w' = w_fed w /\ (length outp <= len)%nat /\
    (w_disc w = false -> only_data (w_rx w) -> only_data (w_rx w')) /\
    (length (undecoded (w_in w') (w_rx w')) <= length (undecoded (w_in w) (w_rx w)))%nat /\
    ((0 < ret /\ outp <> [] /\ w_disc w' = w_disc w /\ w_error w' = w_error w) \/
     (ret <= 0 /\ outp = [] /\
      (w_disc w = false -> only_data (w_rx w) ->
         ret = -1 /\ w_errno w' = EAGAIN /\ w_rx w' = [] /\ w_in w' = None /\ w_disc w' = false /\ w_error w' = w_error w))) /\
    (w_disc w = false -> only_data (w_rx w) -> w_rx w <> [] ->
       outp <> [] \/ (length (undecoded (w_in w') (w_rx w')) < length (undecoded (w_in w) (w_rx w)))%nat).
  Proof.
    induction fuel as [|f IH]; intros len w zs ret outp w' Hlen Hin (zin & HIR & Hzs & Hpo) Hwf Hfuel H Hf; [lia|].
    cbn [CompressionModel.read_loop] in H.
    destruct (sock_read bufsz w) as [[n bs] w1] eqn:Esr.
    apply sock_read_spec in Esr; [|exact Hbuf].
    destruct Esr as (Si & Sin & Sfed & Sdisc & Sfault & Serr & Scase).
    unfold undecoded in *. rewrite Hin in *. cbn [app] in *.
    destruct (n <=? 0) eqn:En.
    - apply Z.leb_le in En. injection H as <- <- <-.
      destruct Scase as [(Hp & _)|(_ & Hbs & Hstream & Hdry)]; [lia|]. subst bs.
      rewrite app_nil_r, Sin, Sfed. cbn [app].
      split; [exists zin; unfold undecoded, pend_ok; rewrite Si, Sin, Hstream; cbn; repeat split; auto|].
      split; [reflexivity|]. split; [cbn; lia|].
      split; [intros Hd Ho; destruct (Hdry Hd Ho) as (_ & _ & _ & X); rewrite X; constructor|].
      split; [rewrite Hstream; lia|].
      split.
      + right. split; [exact En|]. split; [reflexivity|].
        intros Hd Ho. destruct (Hdry Hd Ho) as (X1 & X2 & X3 & X4). repeat split; congruence.
      + intros Hd Ho Hne. destruct (Hdry Hd Ho) as (X1 & _). contradiction.
    - apply Z.leb_gt in En.
      destruct Scase as [(Hp & Hn & Hbs & Hbl & Hstream & Hod)|(Hp & _)]; [|lia].
      destruct (conn_decompress bs len w1) as [[ret1 outp1] w2] eqn:Ecd.
      pose proof (conn_decompress_light bs len w1) as [_ Mcd]. rewrite Ecd in Mcd. cbn [snd] in Mcd.
      assert (HIR1 : IRr (w_i w1) zin (w_fed w1)) by (rewrite Si, Sfed; exact HIR).
      assert (Hwf1 : wf (zin ++ bs)).
      { apply (zc_wf_prefix _ _ _ _ _ _ _ _ _ HC _ (rx_stream (w_rx w1))). rewrite <- app_assoc, <- Hstream, <- Hzs. exact Hwf. }
      apply (conn_decompress_spec _ _ _ zin) in Ecd; auto; rewrite ?Sin, ?Hin; auto.
      destruct Ecd as (Drx & Dfed & Ddisc & Dfault & Derrno & Derr & Dret & Dlen & (zin' & HIR2 & Hdecomp) & Dpo & Dprog & Dstop & _ & Dple).
      rewrite Sin in Hdecomp, Dprog, Dple.
      assert (Hzs2 : zs = zin' ++ pend_list w2 ++ rx_stream (w_rx w2)).
      { rewrite app_assoc, Hdecomp, Drx, <- app_assoc, <- Hstream. exact Hzs. }
      destruct ((ret1 =? 0) && negb (w_disc w2) && is_none (w_in w2)) eqn:Eloop.
      + (* nothing decoded yet: read on *)
        apply andb_true_iff in Eloop. destruct Eloop as [Eloop E3]. apply andb_true_iff in Eloop. destruct Eloop as [E1 E2].
        apply Z.eqb_eq in E1. apply negb_true_iff in E2.
        assert (Hin2 : w_in w2 = None) by (destruct (w_in w2); [discriminate | reflexivity]).
        assert (outp1 = []) by (destruct outp1; [reflexivity | cbn in Dret; lia]). subst outp1.
        rewrite app_nil_r in HIR2. unfold pend_list in Hzs2, Dprog. rewrite Hin2 in Hzs2, Dprog. cbn [app] in Hzs2.
        assert (I2 : IInv w2 zs).
        { exists zin'. rewrite Dfed. split; [exact HIR2|]. split; [|exact Dpo].
          unfold undecoded. rewrite Hin2. exact Hzs2. }
        assert (Hfu : (rx_weight (w_rx w2) < f)%nat).
        { rewrite rx_weight_stream in *. rewrite Drx.
          rewrite Hstream, app_length in Hfuel. destruct bs; [congruence | cbn in Hfuel; lia]. }
        destruct (IH len w2 zs ret outp w' Hlen Hin2 I2 Hwf Hfu H Hf) as (J1 & J2 & J3 & J4 & J5 & J6 & J7).
        unfold undecoded in J5, J7. rewrite Hin2, Drx in J5, J7. cbn [app] in J5, J7.
        rewrite Dfed, Sfed in J1, J2.
        split; [exact J1|]. split; [exact J2|]. split; [exact J3|].
        split; [intros Hd Ho; apply J4; [congruence | rewrite Drx; auto]|].
        split; [eapply Nat.le_trans; [exact J5|]; rewrite Hstream, app_length; lia|].
        split.
        * destruct J6 as [(A & B & C & D)|(A & B & C)]; [left; repeat split; auto; congruence|].
          right. split; [exact A|]. split; [exact B|]. intros Hd Ho.
          destruct C as (C1 & C2 & C3 & C4 & C5 & C6); [congruence | rewrite Drx; auto|].
          repeat split; auto; congruence.
        * intros Hd Ho Hne. right. eapply Nat.le_lt_trans; [exact J5|]. rewrite Hstream, app_length.
          destruct bs; [congruence | cbn; lia].
      + injection H as <- <- <-.
        assert (Hund : (length (pend_list w2 ++ rx_stream (w_rx w2)) <= length (rx_stream (w_rx w)))%nat).
        { rewrite Hstream, !app_length, Drx. lia. }
        assert (Hpl : pend_list w2 = match w_in w2 with Some r => r | None => [] end) by reflexivity.
        rewrite <- Hpl.
        split; [exists zin'; rewrite Sfed in HIR2; split; [exact HIR2|]; split; [|exact Dpo];
                unfold undecoded; rewrite <- Hpl; exact Hzs2|].
        split; [congruence|]. split; [exact Dlen|].
        split; [intros Hd Ho; rewrite Drx; auto|].
        split; [exact Hund|].
        split.
        * destruct outp1 as [|o1 outp1'].
          -- right. cbn in Dret. split; [lia|]. split; [reflexivity|].
             intros Hd _. exfalso. subst ret1.
             rewrite Z.eqb_refl in Eloop. cbn [andb] in Eloop.
             rewrite Ddisc, Sdisc, Hd in Eloop. cbn in Eloop.
             destruct Dstop as [X|X]; [rewrite X in Eloop; discriminate | cbn in X; lia].
          -- left. cbn in Dret. split; [lia|]. split; [congruence|]. split; congruence.
        * intros Hd Ho Hne. destruct Dprog as [X|X]; [left; exact X | right].
          rewrite Hstream, !app_length, Drx. lia.
  Qed.

  Lemma IInv_fed_le (w : world) zs fed : IInvP w zs fed -> prefix fed (dec zs).
  Proof.
    intros (zin & HIR & Hzs & _).
    eapply prefix_trans; [eapply (zc_i_sound _ _ _ _ _ _ _ _ _ HC); exact HIR|].
    rewrite Hzs. apply (zc_dec_mono _ _ _ _ _ _ _ _ _ HC).
  Qed.

  Lemma compression_read_spec len (w : world) zs ret outp w' :
    (0 < len)%nat -> IInv w zs -> wf zs ->
    compression_read len w = (ret, outp, w') -> w_fault w' = NoFault ->
    IInvP w' zs (w_fed w ++ outp) /\ w_fed w' = w_fed w /\
    (w_disc w = false -> only_data (w_rx w) -> only_data (w_rx w')) /\
    (length (undecoded (w_in w') (w_rx w')) <= length (undecoded (w_in w) (w_rx w)))%nat /\
    ((0 < ret /\ outp <> [] /\ w_disc w' = w_disc w /\ w_error w' = w_error w) \/
     (ret <= 0 /\ outp = [] /\
      (w_disc w = false -> only_data (w_rx w) ->
         ret = -1 /\ w_errno w' = EAGAIN /\ w_rx w' = [] /\ w_in w' = None /\ w_disc w' = false /\ w_error w' = w_error w))) /\
    (w_disc w = false -> only_data (w_rx w) -> (w_rx w <> [] \/ w_in w <> None) ->
       outp <> [] \/ (length (undecoded (w_in w') (w_rx w')) < length (undecoded (w_in w) (w_rx w)))%nat).
  Proof.
    intros Hlen I Hwf H Hf. unfold compression_read in H.
    destruct (w_in w) as [rest|] eqn:Ein.
    - destruct I as (zin & HIR & Hzs & Hpo). unfold pend_ok in Hpo. rewrite Ein in Hpo. destruct Hpo as [Hne Hres].
      unfold undecoded in Hzs. rewrite Ein in Hzs.
      assert (Hwf1 : wf (zin ++ rest)).
      { apply (zc_wf_prefix _ _ _ _ _ _ _ _ _ HC _ (rx_stream (w_rx w))). rewrite <- app_assoc, <- Hzs. exact Hwf. }
      apply (conn_decompress_spec _ _ _ zin) in H; auto; rewrite ?Ein; auto.
      destruct H as (Drx & Dfed & Ddisc & Dfault & Derrno & Derr & Dret & Dlen & (zin' & HIR2 & Hdecomp) & Dpo & Dprog & Dstop & Dres & Dple).
      rewrite Ein in Hdecomp, Dple.
      specialize (Dres rest Ein Hres).
      assert (Hund : (length (undecoded (w_in w') (w_rx w')) <= length (undecoded (Some rest) (w_rx w)))%nat).
      { unfold undecoded. fold (pend_list w'). rewrite !app_length, Drx. lia. }
      split; [exists zin'; split; [exact HIR2|]; split; [|exact Dpo];
              unfold undecoded; fold (pend_list w'); rewrite app_assoc, Hdecomp, Drx, <- app_assoc; exact Hzs|].
      split; [exact Dfed|].
      split; [intros; rewrite Drx; auto|].
      split; [exact Hund|].
      split; [left; split; [destruct outp; [congruence | cbn in Dret; lia]|]; split; [exact Dres|]; split; assumption|].
      intros; left; exact Dres.
    - assert (Hfu : (rx_weight (w_rx w) < S (rx_weight (w_rx w)))%nat) by lia.
      destruct (read_loop_spec _ _ _ zs _ _ _ Hlen Ein I Hwf Hfu H Hf) as (J1 & J2 & J3 & J4 & J5 & J6 & J7).
      rewrite Ein in J5, J7.
      split; [exact J1|]. split; [exact J2|]. split; [exact J4|]. split; [exact J5|]. split; [exact J6|].
      intros Hd Ho [X|X]; [apply J7; auto | congruence].
  Qed.

  Definition quiescent (w : world) : Prop := w_rx w = [] /\ w_in w = None.
  Definition mu (w : world) (zs : list Z) : nat :=
    (length (undecoded (w_in w) (w_rx w)) + (length (dec zs) - length (w_fed w)))%nat.

  Lemma read_phase_spec (w : world) zs :
    IInv w zs -> wf zs -> w_fault (read_phase w) = NoFault ->
    IInv (read_phase w) zs /\
    (w_disc w = false -> only_data (w_rx w) ->
       w_disc (read_phase w) = false /\ w_error (read_phase w) = w_error w /\ only_data (w_rx (read_phase w)) /\
       (quiescent w -> quiescent (read_phase w)) /\
       (~ quiescent w -> (mu (read_phase w) zs < mu w zs)%nat)).
  Proof.
    intros I Hwf Hf. unfold read_phase in *.
    destruct (w_disc w) eqn:Ed; [split; [exact I | intros; discriminate]|].
    destruct (negb (is_nil (w_rx w)) || compression_pending w) eqn:Eact.
    - destruct (compression_read msgsz w) as [[ret bs] w1] eqn:Ecr.
      pose proof (compression_read_light msgsz w) as [_ Mcr]. rewrite Ecr in Mcr. cbn [snd] in Mcr.
      assert (Hact : w_rx w <> [] \/ w_in w <> None).
      { apply orb_true_iff in Eact. destruct Eact as [X|X].
        - left. apply negb_true_iff, is_nil_false in X. exact X.
        - right. unfold compression_pending in X. destruct (w_in w); [congruence | discriminate]. }
      assert (Hf1 : w_fault w1 = NoFault).
      { destruct (0 <? ret); [exact Hf|]. destruct (negb (recoverable (w_errno w1)));
          [|destruct (ret =? 0)]; try exact Hf;
          unfold conn_disconnect in Hf; cbn in Hf; destruct (w_disc w1); cbn in Hf; exact Hf. }
      destruct (compression_read_spec _ _ zs _ _ _ Hmsg I Hwf Ecr Hf1) as (J1 & J2 & J3 & J5 & J6 & J7).
      pose proof (IInv_fed_le _ _ _ J1) as Hple. apply prefix_length in Hple.
      pose proof (IInv_fed_le _ _ _ I) as Hple0. apply prefix_length in Hple0.
      destruct J6 as [(A & B & C & D)|(A & B & C)].
      + assert (E : 0 <? ret = true) by (apply Z.ltb_lt; exact A). rewrite E.
        set (w2 := log (EvP bs) (set_fed (w_fed w1 ++ bs) w1)).
        assert (P : w_disc w2 = w_disc w1 /\ w_error w2 = w_error w1 /\ w_rx w2 = w_rx w1 /\ w_in w2 = w_in w1 /\
                    w_fed w2 = w_fed w1 ++ bs /\ w_i w2 = w_i w1) by (subst w2; cbn; repeat split).
        destruct P as (P1 & P2 & P3 & P4 & P5 & P6).
        split.
        * destruct J1 as (zin & K1 & K2 & K3). exists zin. unfold pend_ok in *. rewrite P3, P4, P5, P6, J2. repeat split; auto.
        * intros _ Ho. split; [congruence|]. split; [congruence|]. split; [rewrite P3; apply J3; auto|].
          split.
          -- intros [Q1 Q2]. destruct Hact; contradiction.
          -- intros _. unfold mu. rewrite P3, P4, P5, J2, app_length. rewrite app_length in Hple.
             assert (0 < length bs)%nat by (destruct bs; [congruence | cbn; lia]). lia.
      + assert (E : 0 <? ret = false) by (apply Z.ltb_ge; exact A). rewrite E. subst bs.
        rewrite app_nil_r in J1.
        assert (I1 : IInv w1 zs) by (unfold IInv; rewrite J2; exact J1).
        split.
        * destruct (negb (recoverable (w_errno w1))); [|destruct (ret =? 0)]; try exact I1;
            destruct I1 as (zin & K1 & K2 & K3); exists zin; unfold conn_disconnect; cbn; destruct (w_disc w1); cbn;
            repeat split; auto.
        * intros _ Ho. destruct (C Ed Ho) as (C1 & C2 & C3 & C4 & C5 & C6).
          rewrite C2. cbn. subst ret. cbn.
          split; [exact C5|]. split; [exact C6|]. split; [rewrite C3; constructor|].
          split; [intros _; split; assumption|].
          intros _. unfold mu. rewrite J2.
          destruct (J7 Ed Ho Hact) as [X|X]; [congruence | lia].
    - split; [exact I|]. intros _ Ho. split; [exact Ed|]. split; [reflexivity|]. split; [exact Ho|].
      split; [auto|]. intros Hnq. exfalso. apply Hnq.
      apply orb_false_iff in Eact. destruct Eact as [X Y].
      apply negb_false_iff, is_nil_true in X. unfold compression_pending in Y. apply negb_false_iff in Y.
      split; [exact X|]. destruct (w_in w); [discriminate | reflexivity].
  Qed.

  (* ------------------------------------------------------------------ whole runs: the read side *)
  Lemma ops_zs_app ops : forall zs, ops_zs ops zs = zs ++ ops_zs ops [].
  Proof.
    induction ops as [|o ops IH]; intros zs; cbn; [now rewrite app_nil_r|].
    destruct o; try apply IH. rewrite IH. symmetry. rewrite IH. cbn. rewrite app_assoc. reflexivity.
  Qed.

  Lemma IInv_frame (w w' : world) zs :
    w_i w' = w_i w -> w_in w' = w_in w -> w_rx w' = w_rx w -> w_fed w' = w_fed w -> IInv w zs -> IInv w' zs.
  Proof.
    intros A B C D (zin & H1 & H2 & H3). exists zin. unfold pend_ok in *. rewrite A, B, C, D. auto.
  Qed.

  Lemma send_phase_IInv (w : world) zs : IInv w zs -> IInv (send_phase w) zs.
  Proof.
    intros I. pose proof (send_phase_light w) as [(A & B & C & D & _) _]. eapply IInv_frame; eauto.
  Qed.

  Lemma run_once_IInv (w : world) zs :
    IInv w zs -> wf zs -> w_fault (run_once w) = NoFault -> IInv (run_once w) zs.
  Proof.
    intros I Hwf Hf. unfold run_once in *. cbn in Hf.
    destruct (read_phase_spec (send_phase w) zs (send_phase_IInv w zs I) Hwf Hf) as [I2 _].
    eapply IInv_frame; [| | | |exact I2]; reflexivity.
  Qed.

  Lemma step_IInv (w : world) o zs :
    IInv w zs -> wf (ops_zs [o] zs) -> w_fault (step w o) = NoFault -> IInv (step w o) (ops_zs [o] zs).
  Proof.
    intros I Hwf Hf. destruct o; cbn in *.
    - destruct (w_disc w); [exact I|]. eapply IInv_frame; [| | | |exact I]; reflexivity.
    - eapply IInv_frame; [| | | |exact I]; reflexivity.
    - destruct I as (zin & H1 & H2 & H3). exists zin. unfold pend_ok in *. cbn.
      split; [exact H1|]. split; [|exact H3].
      unfold undecoded in *. rewrite rx_stream_app, H2, <- !app_assoc. f_equal. f_equal. f_equal.
      destruct r; cbn; rewrite ?app_nil_r; reflexivity.
    - apply run_once_IInv; assumption.
  Qed.

  Lemma run_IInv ops : forall (w : world) zs,
    IInv w zs -> wf (ops_zs ops zs) -> w_fault (run w ops) = NoFault -> IInv (run w ops) (ops_zs ops zs).
  Proof.
    induction ops as [|o ops IH]; intros w zs I Hwf Hf; cbn in *; [exact I|].
    apply IH; [|exact Hwf|exact Hf].
    apply (step_IInv w o zs I).
    - change (fold_left _ ops _) with (ops_zs ops (ops_zs [o] zs)) in Hwf.
      rewrite ops_zs_app in Hwf. eapply (zc_wf_prefix _ _ _ _ _ _ _ _ _ HC); exact Hwf.
    - eapply mono_nofault; [apply run_mono | exact Hf].
  Qed.

  Lemma init_IInv dr e0 : IInv (init_world z0 i0 dr e0) [].
  Proof. exists []. unfold pend_ok. cbn. split; [constructor|]. split; [reflexivity | exact I]. Qed.

  Lemma transparent_in_safe ops dr e0 :
    let w := run (init_world z0 i0 dr e0) ops in
    wf (ops_zs ops []) -> w_fault w = NoFault -> prefix (w_fed w) (dec (ops_zs ops [])).
  Proof.
    intros w Hwf Hf. apply (IInv_fed_le w). apply run_IInv; [apply init_IInv | exact Hwf | exact Hf].
  Qed.

  Lemma mu0_quiescent (w : world) zs :
    IInv w zs -> only_data (w_rx w) -> length (undecoded (w_in w) (w_rx w)) = O -> quiescent w.
  Proof.
    intros (zin & _ & _ & Hpo) Ho Hl. unfold undecoded, pend_ok, quiescent in *.
    rewrite app_length in Hl.
    split.
    - destruct (w_rx w) as [|r rest]; [reflexivity|]. inversion Ho; subst.
      destruct r; try contradiction. cbn in Hl. rewrite app_length in Hl. destruct bs; [congruence | cbn in Hl; lia].
    - destruct (w_in w) as [r|]; [|reflexivity]. destruct Hpo as [Hne _]. destruct r; [congruence | cbn in Hl; lia].
  Qed.

  Lemma drain n : forall (w : world) zs,
    IInv w zs -> OInv w -> wf zs -> only_data (w_rx w) -> w_disc w = false -> w_error w = 0 -> w_tx w = [] ->
    w_fault (run w (repeat ORun n)) = NoFault ->
    IInv (run w (repeat ORun n)) zs /\ w_disc (run w (repeat ORun n)) = false /\
    (quiescent w \/ (mu w zs <= n)%nat -> quiescent (run w (repeat ORun n))).
  Proof.
    induction n as [|n IH]; intros w zs I O Hwf Ho Hd He Ht Hf; cbn [repeat run fold_left] in *.
    - split; [exact I|]. split; [exact Hd|]. intros [Q|Q]; [exact Q|].
      eapply mu0_quiescent; eauto. unfold mu in Q. lia.
    - change (fold_left _ (repeat ORun n) (step w ORun)) with (run (run_once w) (repeat ORun n)) in *.
      assert (Hf1 : w_fault (run_once w) = NoFault) by (eapply mono_nofault; [apply run_mono | exact Hf]).
      assert (Hfs : w_fault (send_phase w) = NoFault).
      { unfold run_once in Hf1. cbn in Hf1. eapply mono_nofault; [apply read_phase_light | exact Hf1]. }
      destruct (send_phase_spec w O Hfs) as [Os Cs]. destruct (Cs Ht Hd) as (_ & _ & Ts & _ & _ & Es).
      destruct (Es He) as [Ds Ees].
      pose proof (send_phase_light w) as [(A1 & A2 & A3 & A4 & _) _].
      assert (Hos : only_data (w_rx (send_phase w))) by (rewrite A3; exact Ho).
      assert (Hfr : w_fault (read_phase (send_phase w)) = NoFault) by (unfold run_once in Hf1; cbn in Hf1; exact Hf1).
      destruct (read_phase_spec (send_phase w) zs (send_phase_IInv w zs I) Hwf Hfr) as [Ir Cr].
      destruct (Cr Ds Hos) as (Dr & Er & Hor & Qr & Mr).
      pose proof (read_phase_light (send_phase w)) as [(B1 & B2 & B3 & B4 & B5 & B6 & B7) _].
      assert (I1 : IInv (run_once w) zs) by (apply run_once_IInv; assumption).
      assert (O1 : OInv (run_once w)) by (apply run_once_OInv; assumption).
      assert (P : w_rx (run_once w) = w_rx (read_phase (send_phase w)) /\ w_disc (run_once w) = w_disc (read_phase (send_phase w)) /\
                  w_error (run_once w) = w_error (read_phase (send_phase w)) /\ w_tx (run_once w) = w_tx (read_phase (send_phase w)) /\
                  w_in (run_once w) = w_in (read_phase (send_phase w)) /\ w_fed (run_once w) = w_fed (read_phase (send_phase w)))
        by (unfold run_once; cbn; repeat split).
      destruct P as (P1 & P2 & P3 & P4 & P5 & P6).
      destruct (IH (run_once w) zs I1 O1 Hwf) as (J1 & J2 & J3); try congruence.
      split; [exact J1|]. split; [exact J2|].
      intros HQ. apply J3.
      assert (Hqs : quiescent w -> quiescent (run_once w)).
      { intros [Q1 Q2]. unfold quiescent. rewrite P1, P5. apply Qr. unfold quiescent. rewrite A2, A3. split; assumption. }
      destruct HQ as [Q|Q]; [left; apply Hqs; exact Q|].
      assert (Hmu : mu (send_phase w) zs = mu w zs) by (unfold mu; rewrite A2, A3, A4; reflexivity).
      assert (Hmu1 : mu (run_once w) zs = mu (read_phase (send_phase w)) zs) by (unfold mu; rewrite P1, P5, P6; reflexivity).
      destruct (w_rx (send_phase w)) as [|r0 rr] eqn:Erx; [destruct (w_in (send_phase w)) eqn:Ein|].
      + right. rewrite Hmu1. assert (~ quiescent (send_phase w)) by (intros [_ X]; congruence).
        specialize (Mr H). lia.
      + left. unfold quiescent. rewrite P1, P5. apply Qr. split; assumption.
      + right. rewrite Hmu1. assert (~ quiescent (send_phase w)) by (intros [X _]; congruence).
        specialize (Mr H). lia.
  Qed.

  Lemma transparent_in_complete ops dr e0 n :
    let w := run (init_world z0 i0 dr e0) ops in
    let zs := ops_zs ops [] in
    let w' := run w (repeat ORun n) in
    wf zs -> fp zs -> only_data (w_rx w) -> w_disc w = false -> w_error w = 0 -> w_tx w = [] ->
    (length (undecoded (w_in w) (w_rx w)) + length (dec zs) <= n)%nat ->
    w_fault w' = NoFault ->
    w_fed w' = dec zs /\ w_disc w' = false.
  Proof.
    intros w zs w' Hwf Hfp Ho Hd He Ht Hn Hf.
    assert (Hf0 : w_fault w = NoFault) by (eapply mono_nofault; [apply run_mono | exact Hf]).
    assert (I : IInv w zs) by (apply run_IInv; [apply init_IInv | exact Hwf | exact Hf0]).
    assert (O : OInv w) by (apply run_OInv; [apply init_OInv | exact Hf0]).
    destruct (drain n w zs I O Hwf Ho Hd He Ht Hf) as (J1 & J2 & J3).
    split; [|exact J2].
    assert (Q : quiescent w') by (apply J3; right; unfold mu; lia).
    destruct J1 as (zin & HIR & Hzs & _). destruct Q as [Q1 Q2].
    unfold undecoded in Hzs. fold w' in Hzs. rewrite Q1, Q2 in Hzs. cbn in Hzs. rewrite app_nil_r in Hzs. subst zin.
    eapply (zc_i_flushpoint _ _ _ _ _ _ _ _ _ HC); eauto.
  Qed.
End Staging.

(* ================================================================================================
   The stored codec satisfies the contract (so the contract is satisfiable and the theorems are not vacuous)
   ================================================================================================ *)
Ltac tsplit := repeat match goal with |- _ /\ _ => split end.

Lemma st_dec_enc b : st_dec (st_enc b) = b.
Proof. unfold st_dec, st_enc, FLUSH_MARK. destruct (b <? 256) eqn:E; [rewrite E; reflexivity|].
  apply Z.ltb_ge in E. destruct (b + 1 <? 256) eqn:E2; [apply Z.ltb_lt in E2; lia | lia]. Qed.
Lemma st_enc_not_mark b : (st_enc b =? FLUSH_MARK) = false.
Proof. unfold st_enc, FLUSH_MARK. destruct (b <? 256) eqn:E; apply Z.eqb_neq; [apply Z.ltb_lt in E | apply Z.ltb_ge in E]; lia. Qed.
Lemma stored_dec_app a b : stored_dec (a ++ b) = stored_dec a ++ stored_dec b.
Proof. unfold stored_dec. rewrite filter_app, map_app. reflexivity. Qed.
Lemma stored_dec_enc l : stored_dec (map st_enc l) = l.
Proof.
  unfold stored_dec. induction l as [|b l IH]; cbn; [reflexivity|].
  rewrite st_enc_not_mark. cbn. rewrite st_dec_enc. f_equal. exact IH.
Qed.
Lemma stored_dec_mark : stored_dec [FLUSH_MARK] = [].
Proof. reflexivity. Qed.

Lemma stored_deflate_spec dirty inp room fl z' k outp st :
  (0 < room)%nat -> stored_deflate dirty inp room fl = (z', k, outp, st) ->
  (k <= length inp)%nat /\ (length outp <= room)%nat /\ stored_dec outp = firstn k inp /\
  (z' = false -> (dirty = false /\ outp = []) \/ exists o, outp = o ++ [FLUSH_MARK]) /\
  (is_flush fl = false -> inp <> [] -> st = ZOk) /\
  (is_flush fl = true -> inp = [] -> st = ZOk \/ st = ZBufError) /\
  (is_flush fl = true -> st = ZOk -> (length outp < room)%nat ->
     k = length inp /\ exists o, outp = o ++ [FLUSH_MARK]) /\
  (is_flush fl = true -> inp = [] -> st = ZBufError -> k = O /\ outp = [] /\ dirty = false).
Proof.
  intros Hr H. unfold stored_deflate in H. destruct room as [|r']; [lia|].
  set (room := S r') in *.
  set (k0 := Nat.min (length inp) room) in *.
  assert (Hk0 : (k0 <= length inp)%nat /\ (k0 <= room)%nat) by (subst k0; lia).
  assert (Hl1 : length (map st_enc (firstn k0 inp)) = k0) by (rewrite map_length, firstn_length; lia).
  assert (Hde : stored_dec (map st_enc (firstn k0 inp)) = firstn k0 inp) by apply stored_dec_enc.
  destruct (is_flush fl) eqn:Efl; cbn [negb] in H.
  - destruct (Nat.ltb k0 (length inp)) eqn:Elt.
    + apply Nat.ltb_lt in Elt. injection H as <- <- <- <-.
      assert (k0 = room) by (subst k0; lia).
      assert (Hinp : inp <> []) by (intros ->; cbn in Elt; lia).
      repeat match goal with |- _ /\ _ => split end; intros; try discriminate; try lia; try (rewrite Hl1; lia); auto; try congruence.
      apply orb_false_iff in H0. destruct H0 as [_ X]. apply negb_false_iff, Nat.eqb_eq in X. lia.
    + apply Nat.ltb_ge in Elt. assert (Hk : k0 = length inp) by lia.
      destruct (dirty || negb (Nat.eqb k0 0)) eqn:Ed.
      * destruct (Nat.ltb k0 room) eqn:Er.
        -- apply Nat.ltb_lt in Er. injection H as <- <- <- <-.
           repeat match goal with |- _ /\ _ => split end; intros; try discriminate; try lia; auto.
           ++ rewrite app_length, Hl1. cbn. lia.
           ++ rewrite stored_dec_app, Hde, stored_dec_mark, app_nil_r. reflexivity.
           ++ right. eexists; reflexivity.
           ++ split; [lia | eexists; reflexivity].
        -- apply Nat.ltb_ge in Er. injection H as <- <- <- <-.
           repeat match goal with |- _ /\ _ => split end; intros; try discriminate; try lia; try (rewrite Hl1; lia); auto.
      * injection H as <- <- <- <-. apply orb_false_iff in Ed. destruct Ed as [Ed1 Ed2].
        repeat match goal with |- _ /\ _ => split end; intros; try discriminate; cbn; try lia; auto.
  - injection H as <- <- <- <-.
    repeat match goal with |- _ /\ _ => split end; intros; try discriminate; try lia; try (rewrite Hl1; lia); auto.
    + apply orb_false_iff in H. destruct H as [X1 X2]. apply negb_false_iff, Nat.eqb_eq in X2.
      left. split; [exact X1|]. rewrite X2. reflexivity.
    + destruct inp; [congruence | reflexivity].
Qed.

Lemma stored_DR_inv dirty cin cout :
  DR bool stored_deflate false dirty cin cout -> stored_dec cout = cin /\ (dirty = false -> stored_fp cout).
Proof.
  intros H. induction H as [|z cin cout inp room fl z' k outp st HDR IH Hr E].
  - split; [reflexivity | intros; left; reflexivity].
  - destruct IH as [IH1 IH2]. destruct (stored_deflate_spec _ _ _ _ _ _ _ _ Hr E) as (_ & _ & Hd & Hz & _).
    split; [rewrite stored_dec_app, IH1, Hd; reflexivity|].
    intros Hz'. destruct (Hz Hz') as [[X Y]|[o Y]]; subst outp.
    + rewrite app_nil_r. auto.
    + right. exists (cout ++ o). rewrite app_assoc. reflexivity.
Qed.

Lemma stored_scan_spec inp : forall room k o,
  stored_scan inp room = (k, o) ->
  (k <= length inp)%nat /\ (length o <= room)%nat /\ o = stored_dec (firstn k inp) /\
  (inp <> [] -> (0 < room)%nat -> (0 < k)%nat) /\
  ((k < length inp)%nat -> length o = room /\ exists b t, skipn k inp = b :: t /\ (b =? FLUSH_MARK) = false).
Proof.
  induction inp as [|b t IH]; intros room k o H; cbn in H.
  - injection H as <- <-. cbn. tsplit; auto; try lia; intros; try congruence; lia.
  - destruct (b =? FLUSH_MARK) eqn:Eb.
    + destruct (stored_scan t room) as [k1 o1] eqn:E. injection H as <- <-.
      destruct (IH _ _ _ E) as (A & B & C & D & F).
      cbn [length firstn skipn]. unfold stored_dec in *. cbn [filter]. rewrite Eb. cbn [negb].
      tsplit; auto; try lia. intros X. apply F. lia.
    + destruct room as [|r].
      * injection H as <- <-. cbn. tsplit; auto; try lia. intros _. split; [reflexivity|]. exists b, t. auto.
      * destruct (stored_scan t r) as [k1 o1] eqn:E. injection H as <- <-.
        destruct (IH _ _ _ E) as (A & B & C & D & F).
        cbn [length firstn skipn]. unfold stored_dec in *. cbn [filter]. rewrite Eb. cbn [negb map].
        tsplit; auto; try lia; try (f_equal; exact C).
        intros X. destruct F as [F1 F2]; [lia|]. split; [lia | exact F2].
Qed.

Lemma stored_IR_inv i zin pout : IR unit stored_inflate tt i zin pout -> pout = stored_dec zin.
Proof.
  intros H. induction H as [|i zin pout inp room i' k outp st HIR IH Hr E]; [reflexivity|].
  unfold stored_inflate in E. destruct (stored_scan inp room) as [k1 o1] eqn:Es. injection E as <- <- <- <-.
  destruct (stored_scan_spec _ _ _ _ Es) as (_ & _ & C & _).
  rewrite stored_dec_app, IH, C. reflexivity.
Qed.

Lemma stored_contract :
  zcontract bool unit stored_deflate stored_inflate false tt stored_dec stored_fp stored_wf.
Proof.
  constructor.
  - intros z cin cout inp room fl z' k outp st _ Hr E.
    destruct (stored_deflate_spec _ _ _ _ _ _ _ _ Hr E) as (A & B & _). auto.
  - intros i zin pout inp room i' k outp st _ Hr E.
    unfold stored_inflate in E. destruct (stored_scan inp room) as [k1 o1] eqn:Es. injection E as <- <- <- <-.
    destruct (stored_scan_spec _ _ _ _ Es) as (A & B & _). auto.
  - intros a b. rewrite stored_dec_app. apply prefix_app.
  - intros z cin cout H. destruct (stored_DR_inv _ _ _ H) as [-> _]. apply prefix_refl.
  - intros z cin cout inp room fl z' k outp HDR Hr Hfl E Hlt.
    destruct (stored_DR_inv _ _ _ HDR) as [Hd _].
    destruct (stored_deflate_spec _ _ _ _ _ _ _ _ Hr E) as (_ & _ & Hdo & _ & _ & _ & Hc & _).
    destruct (Hc Hfl eq_refl Hlt) as [Hk [o Ho]].
    split; [exact Hk|]. split.
    + rewrite stored_dec_app, Hd, Hdo, Hk, firstn_all. reflexivity.
    + right. exists (cout ++ o). rewrite Ho, app_assoc. reflexivity.
  - intros z cin cout room fl z' k outp HDR Hr Hfl E.
    destruct (stored_DR_inv _ _ _ HDR) as [Hd Hfp].
    destruct (stored_deflate_spec _ _ _ _ _ _ _ _ Hr E) as (_ & _ & _ & _ & _ & _ & _ & Hi).
    destruct (Hi Hfl eq_refl eq_refl) as (A & B & C). auto.
  - intros z cin cout inp room fl z' k outp st _ Hr E.
    destruct (stored_deflate_spec _ _ _ _ _ _ _ _ Hr E) as (_ & _ & _ & _ & A & B & _). auto.
  - intros i zin pout H. rewrite (stored_IR_inv _ _ _ H). apply prefix_refl.
  - intros i zin pout inp room i' k outp st HIR Hr Hne _ E.
    pose proof (stored_IR_inv _ _ _ HIR) as Hp.
    unfold stored_inflate in E. destruct (stored_scan inp room) as [k1 o1] eqn:Es. injection E as <- <- <- <-.
    destruct (stored_scan_spec _ _ _ _ Es) as (A & B & C & D & F).
    specialize (D Hne Hr).
    split; [destruct k1; [lia | reflexivity]|]. split; [left; exact D|].
    split.
    + destruct (Nat.lt_ge_cases k1 (length inp)) as [X|X]; [right; apply F; exact X | left; lia].
    + intros Hlt. assert (k1 = length inp).
      { destruct (Nat.lt_ge_cases k1 (length inp)) as [X|X]; [destruct (F X); lia | lia]. }
      subst k1. rewrite firstn_all in C. rewrite stored_dec_app, Hp, C. reflexivity.
  - intros i zin pout inp room i' k outp HIR Hr _ E Hk room' i'' k' outp' st' Hr' E'.
    unfold stored_inflate in E. destruct (stored_scan inp room) as [k1 o1] eqn:Es. injection E as <- <- <-.
    destruct (stored_scan_spec _ _ _ _ Es) as (_ & _ & _ & _ & F).
    destruct (F Hk) as (_ & b & t & Hs & Hb).
    unfold stored_inflate in E'. rewrite Hs in E'. cbn in E'. rewrite Hb in E'.
    destruct room' as [|r']; [lia|]. destruct (stored_scan t r') as [k2 o2]. injection E' as <- <- <- <-. congruence.
  - intros i zin pout H _. apply (stored_IR_inv _ _ _ H).
  - intros; exact I.
Qed.

(* ================================================================================================
   The statements of Properties_C20.v
   ================================================================================================ *)
Lemma BUFSZ_pos : (0 < BUFSZ)%nat /\ (0 < MSGSZ)%nat.
Proof.
  unfold BUFSZ, MSGSZ. destruct Gen_compression_ok as (A & B & _). rewrite A, B. split; vm_compute; lia.
Qed.

Lemma compress_transparent_out_lemma :
  forall (zst ist : Type) deflate_step inflate_step (z0 : zst) (i0 : ist) dec fp wf (bufsz msgsz loopfuel : nat),
    zcontract zst ist deflate_step inflate_step z0 i0 dec fp wf -> (0 < bufsz)%nat -> (0 < msgsz)%nat ->
    forall (ops : list op) (dont_reset : bool) (errno0 : Z),
      let w := run deflate_step inflate_step bufsz msgsz loopfuel (init_world z0 i0 dont_reset errno0) ops in
      let w' := run_once deflate_step inflate_step bufsz msgsz loopfuel w in
      (w_fault w = NoFault ->
         prefix (dec (w_wire w)) (w_sub w) /\ (w_disc w = false -> w_sub w = enq_stream ops)) /\
      (w_fault w' = NoFault -> w_disc w = false -> w_tx w = [] ->
         dec (w_wire w') = enq_stream ops /\ w_q w' = [] /\ w_out w' = [] /\ fp (w_wire w')).
Proof.
  intros zst ist ds is_ z0 i0 dec fp wf bufsz msgsz lf HC Hb Hm ops dr e0 w w'.
  assert (Hsub : w_disc w = false -> w_sub w = enq_stream ops).
  { intros Hd. subst w. rewrite (sub_all _ _ ds is_ bufsz msgsz lf Hb Hm ops _ Hd). reflexivity. }
  split.
  - intros Hf. split; [apply (transparent_out_safe _ _ ds is_ z0 i0 dec fp wf bufsz msgsz lf HC Hb Hm ops dr e0 Hf)|exact Hsub].
  - intros Hf Hd Ht.
    destruct (transparent_out_complete _ _ ds is_ z0 i0 dec fp wf bufsz msgsz lf HC Hb Hm ops dr e0 Hf Hd Ht) as (A & B & C & D & E).
    fold w in A, B, C, D, E. fold w' in A, B, C, D, E.
    rewrite A, B, (Hsub Hd). auto.
Qed.

Lemma compress_transparent_in_lemma :
  forall (zst ist : Type) deflate_step inflate_step (z0 : zst) (i0 : ist) dec fp wf (bufsz msgsz loopfuel : nat),
    zcontract zst ist deflate_step inflate_step z0 i0 dec fp wf -> (0 < bufsz)%nat -> (0 < msgsz)%nat ->
    forall (ops : list op) (dont_reset : bool) (errno0 : Z),
      let w := run deflate_step inflate_step bufsz msgsz loopfuel (init_world z0 i0 dont_reset errno0) ops in
      let zs := peer_stream ops in
      wf zs ->
      (w_fault w = NoFault -> prefix (w_fed w) (dec zs)) /\
      (forall n : nat,
         let w' := run deflate_step inflate_step bufsz msgsz loopfuel w (repeat ORun n) in
         fp zs -> only_data (w_rx w) -> w_disc w = false -> w_error w = 0 -> w_tx w = [] ->
         (length (undecoded (w_in w) (w_rx w)) + length (dec zs) <= n)%nat ->
         w_fault w' = NoFault -> w_fed w' = dec zs /\ w_disc w' = false).
Proof.
  intros zst ist ds is_ z0 i0 dec fp wf bufsz msgsz lf HC Hb Hm ops dr e0 w zs Hwf. split.
  - apply (transparent_in_safe _ _ ds is_ z0 i0 dec fp wf bufsz msgsz lf HC Hb Hm ops dr e0 Hwf).
  - intros n w' Hfp Ho Hd He Ht Hn Hf.
    apply (transparent_in_complete _ _ ds is_ z0 i0 dec fp wf bufsz msgsz lf HC Hb Hm ops dr e0 n Hwf Hfp Ho Hd He Ht Hn Hf).
Qed.

(* the contract is satisfiable, and the theorems hold of the extracted stored-codec model *)
Lemma contract_satisfiable :
  exists zst ist ds is_ (z0 : zst) (i0 : ist) dec fp wf, zcontract zst ist ds is_ z0 i0 dec fp wf.
Proof. exists bool, unit, stored_deflate, stored_inflate, false, tt, stored_dec, stored_fp, stored_wf. exact stored_contract. Qed.

Lemma stored_model_transparent : forall ops dont_reset errno0,
  let w := stored_run (stored_init dont_reset errno0) ops in
  let w' := stored_run w [ORun] in
  (w_fault w = NoFault -> prefix (stored_dec (w_wire w)) (w_sub w) /\ prefix (w_fed w) (stored_dec (peer_stream ops))) /\
  (w_fault w' = NoFault -> w_disc w = false -> w_tx w = [] -> stored_dec (w_wire w') = enq_stream ops).
Proof.
  intros ops dr e0 w w'. destruct BUFSZ_pos as [Hb Hm].
  destruct (compress_transparent_out_lemma _ _ _ _ _ _ _ _ _ BUFSZ MSGSZ LOOPFUEL stored_contract Hb Hm ops dr e0) as [A B].
  destruct (compress_transparent_in_lemma _ _ _ _ _ _ _ _ _ BUFSZ MSGSZ LOOPFUEL stored_contract Hb Hm ops dr e0 I) as [C _].
  split.
  - intros Hf. split; [apply A; exact Hf | apply C; exact Hf].
  - intros Hf Hd Ht. apply B; assumption.
Qed.

(* the premises of the completeness statements are satisfiable: a concrete run of the stored model *)
Example out_example :
  let ops := [OEnq [60; 97; 47; 62]; OTx [TK 2; TAgain]; ORun; ORun; ORun] in
  let w := stored_run (stored_init false 11) ops in
  w_fault w = NoFault /\ w_disc w = false /\ w_tx w = [] /\ stored_dec (w_wire w) = [60; 97; 47; 62].
Proof. vm_compute. repeat split; reflexivity. Qed.
Example in_example :
  let ops := [ORx (RData [60; 97]); ORx (RData [47; 62; FLUSH_MARK]); ORun; ORun; ORun] in
  let w := stored_run (stored_init false 11) ops in
  w_fault w = NoFault /\ w_disc w = false /\ stored_fp (peer_stream ops) /\ w_fed w = [60; 97; 47; 62].
Proof. vm_compute. repeat split; try reflexivity. right. exists [60; 97; 47; 62]. reflexivity. Qed.
