(* CompressionProofs (property C20): all lemmas.  The theorems of Properties_C20.v are at the end. *)
From Coq Require Import List ZArith Bool Lia.
Import ListNotations.
Require Import LV.Gen.Gen_compression LV.Model.CompressionModel LV.Spec.CompressionSpec.
Local Open Scope Z_scope.

(* ------------------------------------------------------------------ the generated constants and facts *)
Lemma Gen_compression_ok :
  COMPRESSION_BUFFER_SIZE = 4096 /\ MESSAGE_BUFFER_SIZE = 4096 /\
  flush_of_code flush_code_write = NoFlush /\
  flush_of_code flush_code_reset = FullFlush /\
  flush_of_code flush_code_dont_reset = SyncFlush /\
  flush_code_inflate = 2 /\
  forallb (fun b => b) src_facts = true.
Proof. vm_compute. repeat split; reflexivity. Qed.

(* ------------------------------------------------------------------ lists *)
Lemma prefix_refl {A} (a : list A) : prefix a a.
Proof. exists []. now rewrite app_nil_r. Qed.
Lemma prefix_trans {A} (a b c : list A) : prefix a b -> prefix b c -> prefix a c.
Proof. intros [x ->] [y ->]. exists (x ++ y). now rewrite app_assoc. Qed.
Lemma prefix_app {A} (a b : list A) : prefix a (a ++ b).
Proof. now exists b. Qed.
Lemma prefix_app_r {A} (a b c : list A) : prefix a b -> prefix a (b ++ c).
Proof. intros [x ->]. exists (x ++ c). now rewrite app_assoc. Qed.
Lemma prefix_nil {A} (a : list A) : prefix [] a.
Proof. now exists a. Qed.
Lemma prefix_length {A} (a b : list A) : prefix a b -> (length a <= length b)%nat.
Proof. intros [x ->]. rewrite app_length. lia. Qed.
Lemma prefix_same_length {A} (a b : list A) : prefix a b -> length a = length b -> a = b.
Proof.
  intros [x ->] H. rewrite app_length in H. assert (length x = O) by lia.
  destruct x; [now rewrite app_nil_r | discriminate].
Qed.

Lemma is_nil_true {A} (l : list A) : is_nil l = true <-> l = [].
Proof. destruct l; cbn; split; congruence. Qed.
Lemma is_nil_false {A} (l : list A) : is_nil l = false <-> l <> [].
Proof. destruct l; cbn; split; congruence. Qed.
Lemma firstn_skipn_app {A} n (l : list A) : firstn n l ++ skipn n l = l.
Proof. apply firstn_skipn. Qed.
Lemma skipn_skipn {A} a b (l : list A) : skipn a (skipn b l) = skipn (b + a) l.
Proof.
  revert l; induction b; intros l; cbn; [reflexivity|].
  destruct l; [now rewrite skipn_nil | apply IHb].
Qed.
Lemma firstn_add_skipn {A} a b (l : list A) : firstn a l ++ firstn b (skipn a l) = firstn (a + b) l.
Proof.
  revert l; induction a; intros l; cbn; [reflexivity|].
  destruct l; cbn; [now rewrite firstn_nil | now rewrite IHa].
Qed.
Lemma skipn_length_le {A} n (l : list A) : (length (skipn n l) <= length l)%nat.
Proof. rewrite skipn_length. lia. Qed.

(* ================================================================================================
   The staging logic over a codec that satisfies the contract
   ================================================================================================ *)
Section Staging.
  Variables zst ist : Type.
  Variable deflate_step : zst -> list Z -> nat -> flush_mode -> zst * nat * list Z * zstatus.
  Variable inflate_step : ist -> list Z -> nat -> ist * nat * list Z * zstatus.
  Variable z0 : zst.
  Variable i0 : ist.
  Variable dec : list Z -> list Z.
  Variable fp : list Z -> Prop.
  Variable wf : list Z -> Prop.
  Variables bufsz msgsz loopfuel : nat.
  Hypothesis HC : zcontract zst ist deflate_step inflate_step z0 i0 dec fp wf.
  Hypothesis Hbuf : (0 < bufsz)%nat.
  Hypothesis Hmsg : (0 < msgsz)%nat.

  Notation world := (world zst ist).
  Notation DRr := (DR zst deflate_step z0).
  Notation IRr := (IR ist inflate_step i0).
  Notation try_write := (try_write bufsz).
  Notation cw_loop := (cw_loop deflate_step bufsz).
  Notation compression_write_raw := (compression_write_raw deflate_step bufsz loopfuel).
  Notation compression_write := (compression_write deflate_step bufsz loopfuel).
  Notation compression_flush := (compression_flush deflate_step bufsz loopfuel).
  Notation top_write := (top_write deflate_step bufsz loopfuel).
  Notation send_elems := (send_elems deflate_step bufsz loopfuel).
  Notation send_phase := (send_phase deflate_step bufsz loopfuel).
  Notation conn_decompress := (conn_decompress inflate_step).
  Notation read_loop := (read_loop inflate_step bufsz).
  Notation compression_read := (compression_read inflate_step bufsz).
  Notation read_phase := (read_phase inflate_step bufsz msgsz).
  Notation run_once := (run_once deflate_step inflate_step bufsz msgsz loopfuel).
  Notation step := (step deflate_step inflate_step bufsz msgsz loopfuel).
  Notation run := (run deflate_step inflate_step bufsz msgsz loopfuel).

  (* what the write side never touches / what the read side never touches *)
  Definition wside_frame (w w' : world) : Prop :=
    w_i w' = w_i w /\ w_in w' = w_in w /\ w_rx w' = w_rx w /\ w_fed w' = w_fed w /\
    w_dont_reset w' = w_dont_reset w /\ w_sub w' = w_sub w.
  Definition rside_frame (w w' : world) : Prop :=
    w_z w' = w_z w /\ w_out w' = w_out w /\ w_q w' = w_q w /\ w_tx w' = w_tx w /\ w_wire w' = w_wire w /\
    w_dont_reset w' = w_dont_reset w /\ w_sub w' = w_sub w.
  Lemma wside_refl (w : world) : wside_frame w w. Proof. repeat split. Qed.
  Lemma wside_trans (a b c : world) : wside_frame a b -> wside_frame b c -> wside_frame a c.
  Proof. unfold wside_frame. intuition congruence. Qed.
  Lemma rside_refl (w : world) : rside_frame w w. Proof. repeat split. Qed.
  Lemma rside_trans (a b c : world) : rside_frame a b -> rside_frame b c -> rside_frame a c.
  Proof. unfold rside_frame. intuition congruence. Qed.

  (* faults and the disconnected state are sticky *)
  Definition mono (w w' : world) : Prop :=
    (w_fault w <> NoFault -> w_fault w' <> NoFault) /\ (w_disc w = true -> w_disc w' = true).
  Lemma mono_refl (w : world) : mono w w. Proof. split; auto. Qed.
  Lemma mono_trans (a b c : world) : mono a b -> mono b c -> mono a c.
  Proof. unfold mono. intuition. Qed.

  Lemma raise_fault f (w : world) : w_fault (raise f w) <> NoFault \/ f = NoFault.
  Proof. unfold raise. destruct (w_fault w) eqn:E; cbn; destruct f; auto; left; congruence. Qed.
  Lemma raise_mono f (w : world) : mono w (raise f w).
  Proof. unfold raise, mono. destruct (w_fault w) eqn:E; cbn; split; auto; congruence. Qed.
  Lemma disc_mono (w : world) : mono w (conn_disconnect w).
  Proof. unfold conn_disconnect, mono. destruct (w_disc w) eqn:E; cbn; split; auto. Qed.

  (* ------------------------------------------------------------------ the transport *)
  Lemma sock_write_spec bs (w : world) r w1 :
    sock_write bs w = (r, w1) ->
    wside_frame w w1 /\ w_z w1 = w_z w /\ w_out w1 = w_out w /\ w_q w1 = w_q w /\ w_disc w1 = w_disc w /\
    w_fault w1 = w_fault w /\ w_error w1 = w_error w /\ w_log w1 = w_log w /\
    ((r < 0 /\ w_wire w1 = w_wire w) \/
     ((bs <> [] -> 0 < r) /\ 0 <= r <= Z.of_nat (length bs) /\
      w_wire w1 = w_wire w ++ firstn (Z.to_nat r) bs /\ w_errno w1 = w_errno w)) /\
    (w_tx w = [] -> w_disc w = false -> r = Z.of_nat (length bs) /\ w_tx w1 = []).
  Proof.
    unfold sock_write. intros H.
    assert (Hlen : bs <> [] -> 0 < Z.of_nat (length bs)) by (destruct bs; cbn; [congruence | lia]).
    destruct (w_disc w) eqn:Ed.
    { inversion H; subst; cbn. repeat split; auto. left; split; [lia | reflexivity]. intros _ ?; discriminate. }
    destruct (w_tx w) as [|t rest] eqn:Et.
    { inversion H; subst; cbn. repeat split; auto. right. repeat split; auto; try lia. }
    destruct t.
    - inversion H; subst; cbn. repeat split; auto. right; repeat split; auto; lia. intros; discriminate.
    - destruct (n <=? 0) eqn:En.
      + inversion H; subst; cbn. repeat split; auto. left; split; [lia | reflexivity]. intros; discriminate.
      + inversion H; subst; cbn. repeat split; auto. right; repeat split; auto; try lia. intros; discriminate.
    - inversion H; subst; cbn. repeat split; auto. left; split; [lia | reflexivity]. intros; discriminate.
    - inversion H; subst; cbn. repeat split; auto. left; split; [lia | reflexivity]. intros; discriminate.
  Qed.
End Staging.
