(* C12 - the abstract ownership model of connection-lifetime objects: invariants and theorems. *)
Require Import LV.Common.Bytes LV.Model.StanzaModel LV.Model.StanzaHeapModel LV.Spec.OwnershipSpec.
Require Import LV.Proofs.StanzaHeapBase.
Require Import Lia Permutation.
Local Open Scope Z_scope.

(* ------------------------------------------------------------------------------------ *)
(* views of the world                                                                     *)
(* ------------------------------------------------------------------------------------ *)
Definition opt_blocks (o : option cconn) : list nat :=
  match o with Some x => c_queue x ++ handler_blocks true (c_handlers x) | None => [] end.
Definition sm_blocks (o : option (list nat)) : list nat := match o with Some q => q | None => [] end.
Definition opt_sm (o : option cconn) : list nat :=
  match o with Some x => match c_sm x with Some s => [s] | None => [] end | None => [] end.
Definition blive (bl : list (option cowner)) (b : nat) : Prop := exists o, nth_error bl b = Some (Some o).
Definition smlive (sms : list (option (list nat))) (s : nat) : Prop := exists q, nth_error sms s = Some (Some q).

Definition P_ref (conns : list (option cconn)) (uc : list nat) : Prop :=
  forall c, match nth_error conns c with
            | Some (Some x) => c_ref x = count_nat uc c /\ 1 <= c_ref x
            | _ => count_nat uc c = 0
            end.
Definition P_sm (conns : list (option cconn)) (sms : list (option (list nat))) (us : list nat) : Prop :=
  NoDup (us ++ flat_map opt_sm conns) /\ forall s, In s (us ++ flat_map opt_sm conns) <-> smlive sms s.
Definition P_blk (conns : list (option cconn)) (sms : list (option (list nat))) (bl : list (option cowner)) : Prop :=
  NoDup (flat_map opt_blocks conns ++ flat_map sm_blocks sms) /\
  forall b, In b (flat_map opt_blocks conns ++ flat_map sm_blocks sms) <-> blive bl b.

Definition CInv (w : cworld) : Prop :=
  P_ref (w_conns w) (w_user_conn w) /\ P_sm (w_conns w) (w_sms w) (w_user_sm w) /\ P_blk (w_conns w) (w_sms w) (w_blocks w).

(* ------------------------------------------------------------------------------------ *)
(* lists                                                                                  *)
(* ------------------------------------------------------------------------------------ *)
Lemma set_nth_split : forall A (l : list A) c y, nth_error l c = Some y ->
  exists l1 l2, l = l1 ++ y :: l2 /\ length l1 = c /\ forall x, set_nth c l x = l1 ++ x :: l2.
Proof.
  induction l as [|a l IH]; intros c y Hn; [destruct c; discriminate|]. destruct c as [|c]; cbn [nth_error] in Hn.
  - inversion Hn; subst. exists [], l. split; [reflexivity|]. split; [reflexivity|]. intros x. reflexivity.
  - destruct (IH c y Hn) as (l1 & l2 & E & Len & Hs). exists (a :: l1), l2. subst l. split; [reflexivity|].
    split; [cbn; lia|]. intros x. cbn [set_nth app]. rewrite Hs. reflexivity.
Qed.

Lemma flat_map_set_nth : forall A B (f : A -> list B) l c y, nth_error l c = Some y ->
  exists R, Permutation (flat_map f l) (f y ++ R) /\ forall x, Permutation (flat_map f (set_nth c l x)) (f x ++ R).
Proof.
  intros A B f l c y Hn. destruct (set_nth_split _ l c y Hn) as (l1 & l2 & E & _ & Hs). subst l.
  exists (flat_map f l1 ++ flat_map f l2). split.
  - rewrite flat_map_app. cbn [flat_map]. rewrite app_assoc. rewrite (Permutation_app_comm (flat_map f l1) (f y)).
    rewrite <- app_assoc. reflexivity.
  - intros x. rewrite Hs, flat_map_app. cbn [flat_map]. rewrite app_assoc. rewrite (Permutation_app_comm (flat_map f l1) (f x)).
    rewrite <- app_assoc. reflexivity.
Qed.

Lemma flat_map_snoc_nil : forall A B (f : A -> list B) l x, f x = [] -> flat_map f (l ++ [x]) = flat_map f l.
Proof. intros. rewrite flat_map_app. cbn [flat_map]. rewrite H, !app_nil_r. reflexivity. Qed.

Lemma nth_error_snoc : forall A (l : list A) x c,
  nth_error (l ++ [x]) c = if Nat.ltb c (length l) then nth_error l c else if Nat.eqb c (length l) then Some x else None.
Proof.
  intros A l x c. destruct (Nat.ltb_spec c (length l)) as [Hl|Hl].
  - apply nth_error_app1. exact Hl.
  - rewrite nth_error_app2 by exact Hl. destruct (Nat.eqb_spec c (length l)) as [E|E].
    + subst. rewrite Nat.sub_diag. reflexivity.
    + destruct (c - length l)%nat as [|k] eqn:Ek; [lia|]. cbn. destruct k; reflexivity.
Qed.

Lemma nth_error_none_ge : forall A (l : list A) c, nth_error l c = None -> (length l <= c)%nat.
Proof. intros. apply nth_error_None. assumption. Qed.

Lemma perm_nodup_in : forall (a b : list nat), Permutation a b -> (NoDup a <-> NoDup b) /\ forall x, In x a <-> In x b.
Proof.
  intros a b P. split.
  - split; intros ND; [apply (Permutation_NoDup P ND)|apply (Permutation_NoDup (Permutation_sym P) ND)].
  - intros x. split; intros Hx; [apply (Permutation_in x P Hx)|apply (Permutation_in x (Permutation_sym P) Hx)].
Qed.

(* ------------------------------------------------------------------------------------ *)
(* the block table                                                                        *)
(* ------------------------------------------------------------------------------------ *)
Lemma blive_lt : forall bl b, blive bl b -> (b < length bl)%nat.
Proof. intros bl b (o & E). apply nth_error_Some. congruence. Qed.

Lemma bfree_ok : forall bl b, blive bl b ->
  exists bl', bfree bl b = Ok bl' /\ length bl' = length bl /\ forall b', blive bl' b' <-> blive bl b' /\ b' <> b.
Proof.
  intros bl b (o & E). unfold bfree. rewrite E. eexists. split; [reflexivity|]. split; [apply set_nth_len|].
  intros b'. unfold blive. destruct (Nat.eq_dec b b') as [Eb|Eb].
  - subst. rewrite nth_error_set_nth_same by (apply nth_error_Some; congruence). split; [intros (o' & D); discriminate|intros (_ & N); congruence].
  - rewrite nth_error_set_nth_other by exact Eb. split; [intros D; split; [exact D|congruence]|tauto].
Qed.

Lemma bfree_all_ok : forall bs bl, NoDup bs -> (forall b, In b bs -> blive bl b) ->
  exists bl', bfree_all bl bs = Ok bl' /\ length bl' = length bl /\ forall b', blive bl' b' <-> blive bl b' /\ ~ In b' bs.
Proof.
  induction bs as [|b r IH]; intros bl ND Hl.
  - exists bl. split; [reflexivity|]. split; [reflexivity|]. intros b'. cbn [In]. tauto.
  - inversion ND as [|? ? Hn NDr]; subst. destruct (bfree_ok bl b (Hl b (or_introl eq_refl))) as (bl1 & E1 & Len1 & Hb1).
    cbn [bfree_all]. rewrite E1. cbn [bind].
    destruct (IH bl1 NDr) as (bl2 & E2 & Len2 & Hb2).
    { intros b' Hb'. apply Hb1. split; [apply Hl; right; exact Hb'|]. intros E. subst. contradiction. }
    exists bl2. split; [exact E2|]. split; [lia|]. intros b'. rewrite Hb2, Hb1. cbn [In]. split.
    + intros ((A & B) & C). split; [exact A|]. intros [E|E]; [congruence|contradiction].
    + intros (A & B). split; [split; [exact A|]|]; intros E; apply B; [left; congruence|right; exact E].
Qed.

Lemma bfree_all_app : forall a b bl, bfree_all bl (a ++ b) = (bl' <- bfree_all bl a ;; bfree_all bl' b).
Proof.
  induction a as [|x a IH]; intros b bl; [reflexivity|]. cbn [app bfree_all]. destruct (bfree bl x); cbn [bind]; try reflexivity. apply IH.
Qed.

Lemma blive_snoc : forall bl o b, blive (bl ++ [Some o]) b <-> blive bl b \/ b = length bl.
Proof.
  intros bl o b. unfold blive. rewrite nth_error_snoc. destruct (Nat.ltb_spec b (length bl)) as [Hl|Hl].
  - split; [intros D; left; exact D|intros [D|E]; [exact D|lia]].
  - destruct (Nat.eqb_spec b (length bl)) as [E|E].
    + split; [intros _; right; exact E|intros _; eexists; reflexivity].
    + split; [intros (o' & D); discriminate|intros [(o' & D)|E']; [|contradiction]].
      assert (b < length bl)%nat by (apply nth_error_Some; congruence). lia.
Qed.

Lemma blive_chown : forall bl b o, blive bl b ->
  exists bl', bchown bl b o = Ok bl' /\ forall b', blive bl' b' <-> blive bl b'.
Proof.
  intros bl b o (o0 & E). unfold bchown. rewrite E. eexists. split; [reflexivity|]. intros b'. unfold blive.
  destruct (Nat.eq_dec b b') as [Eb|Eb].
  - subst. rewrite nth_error_set_nth_same by (apply nth_error_Some; congruence). split; intros _; eexists; [exact E|reflexivity].
  - rewrite nth_error_set_nth_other by exact Eb. tauto.
Qed.

(* ------------------------------------------------------------------------------------ *)
(* the reference-count view                                                               *)
(* ------------------------------------------------------------------------------------ *)
Lemma P_ref_upd : forall conns uc c x x', P_ref conns uc -> nth_error conns c = Some (Some x) -> c_ref x' = c_ref x ->
  P_ref (set_nth c conns (Some x')) uc.
Proof.
  intros conns uc c x x' P Hn Er c'. destruct (Nat.eq_dec c c') as [E|E].
  - subst. rewrite nth_error_set_nth_same by (apply nth_error_Some; congruence). specialize (P c'). rewrite Hn in P. rewrite Er. exact P.
  - rewrite nth_error_set_nth_other by exact E. apply P.
Qed.

Lemma P_ref_held : forall conns uc c, P_ref conns uc -> In c uc -> exists x, nth_error conns c = Some (Some x) /\ c_ref x = count_nat uc c /\ 1 <= c_ref x.
Proof.
  intros conns uc c P Hin. apply count_nat_in in Hin. specialize (P c). destruct (nth_error conns c) as [[x|]|]; [exists x; tauto|lia|lia].
Qed.

Lemma existsb_in : forall c l, existsb (Nat.eqb c) l = true <-> In c l.
Proof.
  intros. rewrite existsb_exists. split; [intros (x & Hx & E); apply Nat.eqb_eq in E; subst; exact Hx|intros Hx; exists c; split; [exact Hx|apply Nat.eqb_refl]].
Qed.
