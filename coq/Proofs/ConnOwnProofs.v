(* C12 - the abstract ownership model of connection-lifetime objects: invariants and theorems. *)
Require Import LV.Common.Bytes LV.Model.StanzaModel LV.Model.StanzaHeapModel LV.Spec.OwnershipSpec.
Require Import LV.Proofs.StanzaHeapBase.
Require Import Lia Permutation.
Local Open Scope Z_scope.

(* ------------------------------------------------------------------------------------ *)
(* views of the world                                                                     *)
(* ------------------------------------------------------------------------------------ *)
Definition opt_blocks (o : option cconn) : list nat :=
  match o with Some x => c_queue x ++ handler_blocks true (c_handlers x) | None => [] end.
Definition sm_blocks (o : option (list nat)) : list nat := match o with Some q => q | None => [] end.
Definition opt_sm (o : option cconn) : list nat :=
  match o with Some x => match c_sm x with Some s => [s] | None => [] end | None => [] end.
Definition blive (bl : list (option cowner)) (b : nat) : Prop := exists o, nth_error bl b = Some (Some o).
Definition smlive (sms : list (option (list nat))) (s : nat) : Prop := exists q, nth_error sms s = Some (Some q).

Definition P_ref (conns : list (option cconn)) (uc : list nat) : Prop :=
  forall c, match nth_error conns c with
            | Some (Some x) => c_ref x = count_nat uc c /\ 1 <= c_ref x
            | _ => count_nat uc c = 0
            end.
Definition P_sm (conns : list (option cconn)) (sms : list (option (list nat))) (us : list nat) : Prop :=
  NoDup (us ++ flat_map opt_sm conns) /\ forall s, In s (us ++ flat_map opt_sm conns) <-> smlive sms s.
Definition P_blk (conns : list (option cconn)) (sms : list (option (list nat))) (bl : list (option cowner)) : Prop :=
  NoDup (flat_map opt_blocks conns ++ flat_map sm_blocks sms) /\
  forall b, In b (flat_map opt_blocks conns ++ flat_map sm_blocks sms) <-> blive bl b.

Definition CInv (w : cworld) : Prop :=
  P_ref (w_conns w) (w_user_conn w) /\ P_sm (w_conns w) (w_sms w) (w_user_sm w) /\ P_blk (w_conns w) (w_sms w) (w_blocks w).

(* ------------------------------------------------------------------------------------ *)
(* lists                                                                                  *)
(* ------------------------------------------------------------------------------------ *)
Lemma set_nth_split : forall A (l : list A) c y, nth_error l c = Some y ->
  exists l1 l2, l = l1 ++ y :: l2 /\ length l1 = c /\ forall x, set_nth c l x = l1 ++ x :: l2.
Proof.
  induction l as [|a l IH]; intros c y Hn; [destruct c; discriminate|]. destruct c as [|c]; cbn [nth_error] in Hn.
  - inversion Hn; subst. exists [], l. split; [reflexivity|]. split; [reflexivity|]. intros x. reflexivity.
  - destruct (IH c y Hn) as (l1 & l2 & E & Len & Hs). exists (a :: l1), l2. subst l. split; [reflexivity|].
    split; [cbn; lia|]. intros x. cbn [set_nth app]. rewrite Hs. reflexivity.
Qed.

Lemma flat_map_set_nth : forall A B (f : A -> list B) l c y, nth_error l c = Some y ->
  exists R, Permutation (flat_map f l) (f y ++ R) /\ forall x, Permutation (flat_map f (set_nth c l x)) (f x ++ R).
Proof.
  intros A B f l c y Hn. destruct (set_nth_split _ l c y Hn) as (l1 & l2 & E & _ & Hs). subst l.
  exists (flat_map f l1 ++ flat_map f l2). split.
  - rewrite flat_map_app. cbn [flat_map]. rewrite app_assoc. rewrite (Permutation_app_comm (flat_map f l1) (f y)).
    rewrite <- app_assoc. reflexivity.
  - intros x. rewrite Hs, flat_map_app. cbn [flat_map]. rewrite app_assoc. rewrite (Permutation_app_comm (flat_map f l1) (f x)).
    rewrite <- app_assoc. reflexivity.
Qed.

Lemma flat_map_snoc_nil : forall A B (f : A -> list B) l x, f x = [] -> flat_map f (l ++ [x]) = flat_map f l.
Proof. intros. rewrite flat_map_app. cbn [flat_map]. rewrite H, !app_nil_r. reflexivity. Qed.

Lemma nth_error_snoc : forall A (l : list A) x c,
  nth_error (l ++ [x]) c = if Nat.ltb c (length l) then nth_error l c else if Nat.eqb c (length l) then Some x else None.
Proof.
  intros A l x c. destruct (Nat.ltb_spec c (length l)) as [Hl|Hl].
  - apply nth_error_app1. exact Hl.
  - rewrite nth_error_app2 by exact Hl. destruct (Nat.eqb_spec c (length l)) as [E|E].
    + subst. rewrite Nat.sub_diag. reflexivity.
    + destruct (c - length l)%nat as [|k] eqn:Ek; [lia|]. cbn. destruct k; reflexivity.
Qed.

Lemma nth_error_none_ge : forall A (l : list A) c, nth_error l c = None -> (length l <= c)%nat.
Proof. intros. apply nth_error_None. assumption. Qed.

Lemma perm_nodup_in : forall (a b : list nat), Permutation a b -> (NoDup a <-> NoDup b) /\ forall x, In x a <-> In x b.
Proof.
  intros a b P. split.
  - split; intros ND; [apply (Permutation_NoDup P ND)|apply (Permutation_NoDup (Permutation_sym P) ND)].
  - intros x. split; intros Hx; [apply (Permutation_in x P Hx)|apply (Permutation_in x (Permutation_sym P) Hx)].
Qed.

(* ------------------------------------------------------------------------------------ *)
(* the block table                                                                        *)
(* ------------------------------------------------------------------------------------ *)
Lemma blive_lt : forall bl b, blive bl b -> (b < length bl)%nat.
Proof. intros bl b (o & E). apply nth_error_Some. congruence. Qed.

Lemma bfree_ok : forall bl b, blive bl b ->
  exists bl', bfree bl b = Ok bl' /\ length bl' = length bl /\ forall b', blive bl' b' <-> blive bl b' /\ b' <> b.
Proof.
  intros bl b (o & E). unfold bfree. rewrite E. eexists. split; [reflexivity|]. split; [apply set_nth_len|].
  intros b'. unfold blive. destruct (Nat.eq_dec b b') as [Eb|Eb].
  - subst. rewrite nth_error_set_nth_same by (apply nth_error_Some; congruence). split; [intros (o' & D); discriminate|intros (_ & N); congruence].
  - rewrite nth_error_set_nth_other by exact Eb. split; [intros D; split; [exact D|congruence]|tauto].
Qed.

Lemma bfree_all_ok : forall bs bl, NoDup bs -> (forall b, In b bs -> blive bl b) ->
  exists bl', bfree_all bl bs = Ok bl' /\ length bl' = length bl /\ forall b', blive bl' b' <-> blive bl b' /\ ~ In b' bs.
Proof.
  induction bs as [|b r IH]; intros bl ND Hl.
  - exists bl. split; [reflexivity|]. split; [reflexivity|]. intros b'. cbn [In]. tauto.
  - inversion ND as [|? ? Hn NDr]; subst. destruct (bfree_ok bl b (Hl b (or_introl eq_refl))) as (bl1 & E1 & Len1 & Hb1).
    cbn [bfree_all]. rewrite E1. cbn [bind].
    destruct (IH bl1 NDr) as (bl2 & E2 & Len2 & Hb2).
    { intros b' Hb'. apply Hb1. split; [apply Hl; right; exact Hb'|]. intros E. subst. contradiction. }
    exists bl2. split; [exact E2|]. split; [lia|]. intros b'. rewrite Hb2, Hb1. cbn [In]. split.
    + intros ((A & B) & C). split; [exact A|]. intros [E|E]; [congruence|contradiction].
    + intros (A & B). split; [split; [exact A|]|]; intros E; apply B; [left; congruence|right; exact E].
Qed.

Lemma bfree_all_app : forall a b bl, bfree_all bl (a ++ b) = (bl' <- bfree_all bl a ;; bfree_all bl' b).
Proof.
  induction a as [|x a IH]; intros b bl; [reflexivity|]. cbn [app bfree_all]. destruct (bfree bl x); cbn [bind]; try reflexivity. apply IH.
Qed.

Lemma blive_snoc : forall bl o b, blive (bl ++ [Some o]) b <-> blive bl b \/ b = length bl.
Proof.
  intros bl o b. unfold blive. rewrite nth_error_snoc. destruct (Nat.ltb_spec b (length bl)) as [Hl|Hl].
  - split; [intros D; left; exact D|intros [D|E]; [exact D|lia]].
  - destruct (Nat.eqb_spec b (length bl)) as [E|E].
    + split; [intros _; right; exact E|intros _; eexists; reflexivity].
    + split; [intros (o' & D); discriminate|intros [(o' & D)|E']; [|contradiction]].
      assert (b < length bl)%nat by (apply nth_error_Some; congruence). lia.
Qed.

Lemma blive_chown : forall bl b o, blive bl b ->
  exists bl', bchown bl b o = Ok bl' /\ forall b', blive bl' b' <-> blive bl b'.
Proof.
  intros bl b o (o0 & E). unfold bchown. rewrite E. eexists. split; [reflexivity|]. intros b'. unfold blive.
  destruct (Nat.eq_dec b b') as [Eb|Eb].
  - subst. rewrite nth_error_set_nth_same by (apply nth_error_Some; congruence). split; intros _; eexists; [exact E|reflexivity].
  - rewrite nth_error_set_nth_other by exact Eb. tauto.
Qed.

(* ------------------------------------------------------------------------------------ *)
(* the reference-count view                                                               *)
(* ------------------------------------------------------------------------------------ *)
Lemma P_ref_upd : forall conns uc c x x', P_ref conns uc -> nth_error conns c = Some (Some x) -> c_ref x' = c_ref x ->
  P_ref (set_nth c conns (Some x')) uc.
Proof.
  intros conns uc c x x' P Hn Er c'. destruct (Nat.eq_dec c c') as [E|E].
  - subst. rewrite nth_error_set_nth_same by (apply nth_error_Some; congruence). specialize (P c'). rewrite Hn in P. rewrite Er. exact P.
  - rewrite nth_error_set_nth_other by exact E. apply P.
Qed.

Lemma P_ref_held : forall conns uc c, P_ref conns uc -> In c uc -> exists x, nth_error conns c = Some (Some x) /\ c_ref x = count_nat uc c /\ 1 <= c_ref x.
Proof.
  intros conns uc c P Hin. apply count_nat_in in Hin. specialize (P c). destruct (nth_error conns c) as [[x|]|]; [exists x; tauto|lia|lia].
Qed.

Lemma existsb_in : forall c l, existsb (Nat.eqb c) l = true <-> In c l.
Proof.
  intros. rewrite existsb_exists. split; [intros (x & Hx & E); apply Nat.eqb_eq in E; subst; exact Hx|intros Hx; exists c; split; [exact Hx|apply Nat.eqb_refl]].
Qed.

Lemma flat_map_upd_same : forall A B (f : A -> list B) l c y x, nth_error l c = Some y -> f x = f y ->
  flat_map f (set_nth c l x) = flat_map f l.
Proof.
  intros A B f l c y x Hn E. destruct (set_nth_split _ l c y Hn) as (l1 & l2 & El & _ & Hs). subst l.
  rewrite Hs, !flat_map_app. cbn [flat_map]. rewrite E. reflexivity.
Qed.

Lemma P_sm_transfer : forall conns sms us conns' sms' us', P_sm conns sms us ->
  Permutation (us' ++ flat_map opt_sm conns') (us ++ flat_map opt_sm conns) ->
  (forall s, smlive sms' s <-> smlive sms s) -> P_sm conns' sms' us'.
Proof.
  intros conns sms us conns' sms' us' (ND & Hin) P Hl. destruct (perm_nodup_in _ _ P) as (A & B). split; [apply A, ND|].
  intros s. rewrite B, Hin, Hl. tauto.
Qed.

Lemma P_blk_transfer : forall conns sms bl conns' sms' bl', P_blk conns sms bl ->
  Permutation (flat_map opt_blocks conns' ++ flat_map sm_blocks sms') (flat_map opt_blocks conns ++ flat_map sm_blocks sms) ->
  (forall b, blive bl' b <-> blive bl b) -> P_blk conns' sms' bl'.
Proof.
  intros conns sms bl conns' sms' bl' (ND & Hin) P Hl. destruct (perm_nodup_in _ _ P) as (A & B). split; [apply A, ND|].
  intros b. rewrite B, Hin, Hl. tauto.
Qed.

Lemma w_conn_some : forall w c x, nth_error (w_conns w) c = Some (Some x) -> w_conn w c = Some x.
Proof. intros w c x E. unfold w_conn. rewrite E. reflexivity. Qed.

Definition cok (o : cout) : Prop := o <> CUAF /\ o <> CDoubleFree.

(* permutations of concatenations, by counting *)
Ltac perm_count :=
  apply (proj2 (Permutation_count_occ Nat.eq_dec _ _)); intro;
  repeat (progress (repeat rewrite count_occ_app; cbn [count_occ]));
  repeat (match goal with |- context [Nat.eq_dec ?a ?b] => destruct (Nat.eq_dec a b) end;
          repeat (progress (repeat rewrite count_occ_app; cbn [count_occ]))); lia.

(* conn_disconnect + _conn_reset *)
Lemma conn_reset_inv : forall w c x, CInv w -> nth_error (w_conns w) c = Some (Some x) ->
  exists w', conn_reset true w c x = Ok w' /\ CInv w' /\
    w_conns w' = set_nth c (w_conns w) (Some (mkC (c_ref x) false [] [] (c_sm x))) /\ w_sms w' = w_sms w /\
    w_user_conn w' = w_user_conn w /\ w_user_sm w' = w_user_sm w.
Proof.
  intros w c x (Pr & Ps & (NDb & Hb)) Hn. unfold conn_reset.
  destruct (flat_map_set_nth _ _ opt_blocks (w_conns w) c (Some x) Hn) as (R & PR & PR').
  assert (Pall : Permutation (flat_map opt_blocks (w_conns w) ++ flat_map sm_blocks (w_sms w))
                             (opt_blocks (Some x) ++ (R ++ flat_map sm_blocks (w_sms w)))).
  { rewrite PR. perm_count. }
  destruct (perm_nodup_in _ _ Pall) as (A & B).
  pose proof (proj1 A NDb) as ND'. apply nodup_app in ND'. destruct ND' as (NDx & NDrest & Dis).
  destruct (bfree_all_ok (opt_blocks (Some x)) (w_blocks w) NDx) as (bl' & E & Len & Hl).
  { intros b Hbx. apply Hb, B, in_or_app. left. exact Hbx. }
  cbn [opt_blocks] in E. rewrite bfree_all_app in E.
  destruct (bfree_all (w_blocks w) (c_queue x)) as [bl1| | |] eqn:E1; cbn [bind] in E; try discriminate.
  cbn [bind]. rewrite E. cbn [bind]. eexists. split; [reflexivity|]. unfold set_conn, CInv. cbn [w_conns w_sms w_user_conn w_user_sm w_blocks].
  split; [|repeat split; reflexivity]. split; [|split].
  - eapply P_ref_upd; [exact Pr|exact Hn|reflexivity].
  - eapply P_sm_transfer; [exact Ps| |intros; reflexivity]. erewrite flat_map_upd_same; [reflexivity|exact Hn|reflexivity].
  - assert (PR0 : Permutation (flat_map opt_blocks (set_nth c (w_conns w) (Some (mkC (c_ref x) false [] [] (c_sm x)))) ++ flat_map sm_blocks (w_sms w))
                              (R ++ flat_map sm_blocks (w_sms w))).
    { rewrite (PR' (Some (mkC (c_ref x) false [] [] (c_sm x)))). reflexivity. }
    destruct (perm_nodup_in _ _ PR0) as (A0 & B0). split; [apply A0, NDrest|].
    intros b. rewrite B0, Hl, <- Hb, B. split.
    + intros Hr. split; [apply in_or_app; right; exact Hr|]. intros Hx. apply (Dis b Hx Hr).
    + intros (Hall & Hn'). apply in_app_or in Hall. destruct Hall as [Hx|Hr]; [contradiction|exact Hr].
Qed.

(* xmpp_free_sm_state of an SM state that nobody else references *)
Lemma sm_free_inv : forall conns sms bl uc us s,
  P_blk conns sms bl -> smlive sms s ->
  exists bl', sm_free (mkW bl conns sms uc us) s = Ok (mkW bl' conns (set_nth s sms None) uc us) /\
              P_blk conns (set_nth s sms None) bl' /\
              (forall s', smlive (set_nth s sms None) s' <-> smlive sms s' /\ s' <> s).
Proof.
  intros conns sms bl uc us s (NDb & Hb) (q & Hq). unfold sm_free. cbn [w_sms w_blocks w_conns w_user_conn w_user_sm]. rewrite Hq.
  destruct (flat_map_set_nth _ _ sm_blocks sms s (Some q) Hq) as (R & PR & PR').
  assert (Pall : Permutation (flat_map opt_blocks conns ++ flat_map sm_blocks sms) (q ++ (flat_map opt_blocks conns ++ R))).
  { rewrite PR. cbn [sm_blocks]. perm_count. }
  destruct (perm_nodup_in _ _ Pall) as (A & B).
  pose proof (proj1 A NDb) as ND'. apply nodup_app in ND'. destruct ND' as (NDq & NDrest & Dis).
  destruct (bfree_all_ok q bl NDq) as (bl' & E & Len & Hl).
  { intros b Hbq. apply Hb, B, in_or_app. left. exact Hbq. }
  rewrite E. cbn [bind]. exists bl'. split; [reflexivity|]. split.
  - assert (PR0 : Permutation (flat_map opt_blocks conns ++ flat_map sm_blocks (set_nth s sms None)) (flat_map opt_blocks conns ++ R)).
    { rewrite (PR' None). reflexivity. }
    destruct (perm_nodup_in _ _ PR0) as (A0 & B0). split; [apply A0, NDrest|].
    intros b. rewrite B0, Hl, <- Hb, B. split.
    + intros Hr. split; [apply in_or_app; right; exact Hr|]. intros Hx. apply (Dis b Hx Hr).
    + intros (Hall & Hn'). apply in_app_or in Hall. destruct Hall as [Hx|Hr]; [contradiction|exact Hr].
  - intros s'. unfold smlive. destruct (Nat.eq_dec s s') as [Es|Es].
    + subst. rewrite nth_error_set_nth_same by (apply nth_error_Some; congruence). split; [intros (q' & D); discriminate|intros (_ & N); congruence].
    + rewrite nth_error_set_nth_other by exact Es. split; [intros D; split; [exact D|congruence]|tauto].
Qed.

(* ------------------------------------------------------------------------------------ *)
(* every call preserves the invariants                                                    *)
(* ------------------------------------------------------------------------------------ *)
Lemma count_cons_other : forall l c c', c' <> c -> count_nat (c :: l) c' = count_nat l c'.
Proof. intros. rewrite count_nat_cons. destruct (Nat.eqb_spec c' c); [congruence|lia]. Qed.

Lemma count_cons_same : forall l c, count_nat (c :: l) c = 1 + count_nat l c.
Proof. intros. rewrite count_nat_cons, Nat.eqb_refl. reflexivity. Qed.

Lemma perm_remove1 : forall l c, In c l -> Permutation l (c :: remove1 c l).
Proof.
  induction l as [|y l IH]; intros c Hin; [destruct Hin|]. cbn [remove1]. destruct (Nat.eqb_spec c y) as [E|E].
  - subst. reflexivity.
  - destruct Hin as [Hin|Hin]; [congruence|]. rewrite (IH c Hin) at 1. apply perm_swap.
Qed.

Lemma cstep_inv : forall w o, CInv w ->
  exists w' out, cstep true w o = (Some w', out) /\ CInv w' /\ cok out.
Proof.
  intros w o I. pose proof I as (Pr & Ps & Pb).
  assert (Hheld : forall c, existsb (Nat.eqb c) (w_user_conn w) = true ->
            exists x, nth_error (w_conns w) c = Some (Some x) /\ w_conn w c = Some x /\ c_ref x = count_nat (w_user_conn w) c /\ 1 <= c_ref x).
  { intros c Hc. apply existsb_in in Hc. destruct (P_ref_held _ _ c Pr Hc) as (x & E & A & B). exists x. split; [exact E|]. split; [apply w_conn_some; exact E|tauto]. }
  assert (Hsame : exists out, (Some w, out) = (Some w, out) /\ CInv w) by (exists COk; tauto).
  destruct o; cbn [cstep].
  - (* new *)
    eexists; eexists. split; [reflexivity|]. split; [|split; discriminate]. unfold CInv. cbn [w_conns w_sms w_user_conn w_user_sm w_blocks].
    split; [|split].
    + intros c. rewrite nth_error_snoc. destruct (Nat.ltb_spec c (length (w_conns w))) as [Hl|Hl].
      * rewrite count_cons_other by lia. apply Pr.
      * pose proof (Pr c) as Pc. rewrite (proj2 (nth_error_None _ _) Hl) in Pc.
        destruct (Nat.eqb_spec c (length (w_conns w))) as [E|E].
        -- subst c. rewrite count_cons_same, Pc. cbn [c_ref]. lia.
        -- rewrite count_cons_other by exact E. exact Pc.
    + unfold P_sm. rewrite flat_map_snoc_nil by reflexivity. exact Ps.
    + unfold P_blk. rewrite flat_map_snoc_nil by reflexivity. exact Pb.
  - (* clone *)
    destruct (existsb (Nat.eqb c) (w_user_conn w)) eqn:Hc; [|exists w, CBad; split; [reflexivity|split; [exact I|split; discriminate]]].
    destruct (Hheld c Hc) as (x & En & Ew & Er & E1). rewrite Ew.
    eexists; eexists. split; [reflexivity|]. split; [|split; discriminate]. unfold CInv. cbn [w_conns w_sms w_user_conn w_user_sm w_blocks].
    split; [|split].
    + intros c'. destruct (Nat.eq_dec c c') as [E|E].
      * subst c'. rewrite nth_error_set_nth_same by (apply nth_error_Some; congruence). cbn [c_ref]. rewrite count_cons_same. lia.
      * rewrite nth_error_set_nth_other by exact E. rewrite count_cons_other by congruence. apply Pr.
    + unfold P_sm; erewrite flat_map_upd_same; [exact Ps|exact En|reflexivity].
    + unfold P_blk; erewrite flat_map_upd_same; [exact Pb|exact En|reflexivity].
  - (* release *)
    destruct (existsb (Nat.eqb c) (w_user_conn w)) eqn:Hc; [|exists w, CBad; split; [reflexivity|split; [exact I|split; discriminate]]].
    destruct (Hheld c Hc) as (x & En & Ew & Er & E1). rewrite Ew. apply existsb_in in Hc.
    destruct (1 <? c_ref x) eqn:Eref.
    + apply Z.ltb_lt in Eref. eexists; eexists. split; [reflexivity|]. split; [|split; discriminate].
      unfold CInv. cbn [w_conns w_sms w_user_conn w_user_sm w_blocks]. split; [|split].
      * intros c'. rewrite count_nat_remove1 by exact Hc. destruct (Nat.eq_dec c c') as [E|E].
        -- subst c'. rewrite nth_error_set_nth_same by (apply nth_error_Some; congruence). cbn [c_ref]. rewrite Nat.eqb_refl. lia.
        -- rewrite nth_error_set_nth_other by exact E. destruct (Nat.eqb_spec c' c); [congruence|]. rewrite Z.sub_0_r. apply Pr.
      * unfold P_sm; erewrite flat_map_upd_same; [exact Ps|exact En|reflexivity].
      * unfold P_blk; erewrite flat_map_upd_same; [exact Pb|exact En|reflexivity].
    + apply Z.ltb_ge in Eref.
      destruct (conn_reset_inv w c x I En) as (w1 & E1r & I1 & Ec1 & Es1 & Eu1 & Eus1). rewrite E1r. cbn [bind].
      set (x1 := mkC (c_ref x) false [] [] (c_sm x)) in *.
      assert (En1 : nth_error (w_conns w1) c = Some (Some x1)).
      { rewrite Ec1. apply nth_error_set_nth_same. apply nth_error_Some. congruence. }
      destruct I1 as (Pr1 & Ps1 & Pb1).
      (* free the SM state, if the connection still owns one *)
      assert (Hsm : exists w2, (match c_sm x with Some s => sm_free w1 s | None => Ok w1 end) = Ok w2 /\
                    w_conns w2 = w_conns w1 /\ w_user_conn w2 = w_user_conn w1 /\ w_user_sm w2 = w_user_sm w1 /\
                    P_blk (w_conns w1) (w_sms w2) (w_blocks w2) /\
                    (forall s', smlive (w_sms w2) s' <-> smlive (w_sms w1) s' /\ Some s' <> c_sm x)).
      { destruct (c_sm x) as [s|] eqn:Esm.
        - assert (Hl : smlive (w_sms w1) s).
          { apply (proj2 Ps1). apply in_or_app. right. apply in_flat_map. exists (Some x1). split; [eapply nth_error_In; exact En1|].
            unfold x1. cbn [opt_sm c_sm]. rewrite ?Esm. left. reflexivity. }
          destruct w1 as [bl1 cn1 sm1 uc1 us1]. cbn [w_conns w_sms w_user_conn w_user_sm w_blocks] in *.
          destruct (sm_free_inv cn1 sm1 bl1 uc1 us1 s Pb1 Hl) as (bl' & Ef & Pb' & Hl'). rewrite Ef.
          eexists. split; [reflexivity|]. cbn [w_conns w_sms w_user_conn w_user_sm w_blocks]. repeat (split; [reflexivity|]).
          split; [exact Pb'|]. intros s'. rewrite Hl'. split; intros (A & B); (split; [exact A|congruence]).
        - exists w1. split; [reflexivity|]. repeat (split; [reflexivity|]). split; [exact Pb1|]. intros s'. split; [intros A; split; [exact A|discriminate]|tauto]. }
      destruct Hsm as (w2 & E2 & Ec2 & Eu2 & Eus2 & Pb2 & Hl2). rewrite E2. cbn [bind].
      assert (Ew2 : w_conn w2 c = Some x1) by (apply w_conn_some; rewrite Ec2; exact En1). rewrite Ew2.
      eexists; eexists. split; [reflexivity|]. split; [|split; discriminate].
      unfold CInv. cbn [w_conns w_sms w_user_conn w_user_sm w_blocks]. rewrite Ec2, Eus2.
      split; [|split].
      * intros c'. rewrite count_nat_remove1 by exact Hc. destruct (Nat.eq_dec c c') as [E|E].
        -- subst c'. rewrite nth_error_set_nth_same by (apply nth_error_Some; congruence). rewrite Nat.eqb_refl. lia.
        -- rewrite nth_error_set_nth_other by exact E. destruct (Nat.eqb_spec c' c); [congruence|]. rewrite Z.sub_0_r.
           pose proof (Pr1 c') as P1. rewrite Eu1 in P1. exact P1.
      * destruct (flat_map_set_nth _ _ opt_sm (w_conns w1) c (Some x1) En1) as (R & PR & PR').
        destruct Ps1 as (ND1 & Hin1). rewrite Eus1 in *.
        assert (Pall : Permutation (w_user_sm w ++ flat_map opt_sm (w_conns w1)) (opt_sm (Some x1) ++ (w_user_sm w ++ R))).
        { rewrite PR. perm_count. }
        destruct (perm_nodup_in _ _ Pall) as (A & B). pose proof (proj1 A ND1) as ND'. apply nodup_app in ND'. destruct ND' as (_ & NDr & Dis).
        assert (P0 : Permutation (w_user_sm w ++ flat_map opt_sm (set_nth c (w_conns w1) None)) (w_user_sm w ++ R)).
        { rewrite (PR' None). reflexivity. }
        destruct (perm_nodup_in _ _ P0) as (A0 & B0). split; [apply A0, NDr|].
        intros s'. rewrite B0, Hl2, <- Hin1, B. unfold x1 in *. cbn [opt_sm c_sm] in *. split.
        -- intros Hr. split; [apply in_or_app; right; exact Hr|]. intros Es. rewrite <- Es in Dis. apply (Dis s'); [left; reflexivity|exact Hr].
        -- intros (Hall & Hne). apply in_app_or in Hall. destruct Hall as [Hx|Hr]; [|exact Hr].
           destruct (c_sm x) as [s|]; [|destruct Hx]. destruct Hx as [Hx|[]]. congruence.
      * destruct (flat_map_set_nth _ _ opt_blocks (w_conns w1) c (Some x1) En1) as (R & PR & PR').
        eapply P_blk_transfer; [exact Pb2| |intros; reflexivity].
        rewrite (PR' None), PR. unfold x1. cbn [opt_blocks c_queue c_handlers handler_blocks flat_map app]. perm_count.
  - (* connect *)
    destruct (existsb (Nat.eqb c) (w_user_conn w)) eqn:Hc; [|exists w, CBad; split; [reflexivity|split; [exact I|split; discriminate]]].
    destruct (Hheld c Hc) as (x & En & Ew & Er & E1). rewrite Ew.
    destruct (c_connected x); [exists w, CRefused; split; [reflexivity|split; [exact I|split; discriminate]]|].
    destruct (c_sm x) as [s|] eqn:Esm.
    + eexists; eexists. split; [reflexivity|]. split; [|split; discriminate]. unfold set_conn, CInv. cbn [w_conns w_sms w_user_conn w_user_sm w_blocks].
      split; [eapply P_ref_upd; [exact Pr|exact En|reflexivity]|]. split.
      * unfold P_sm; erewrite flat_map_upd_same; [exact Ps|exact En|]. cbn [opt_sm c_sm]. rewrite Esm. reflexivity.
      * unfold P_blk; erewrite flat_map_upd_same; [exact Pb|exact En|reflexivity].
    + eexists; eexists. split; [reflexivity|]. split; [|split; discriminate]. unfold CInv. cbn [w_conns w_sms w_user_conn w_user_sm w_blocks].
      split; [eapply P_ref_upd; [exact Pr|exact En|reflexivity]|]. split.
      * destruct (flat_map_set_nth _ _ opt_sm (w_conns w) c (Some x) En) as (R & PR & PR'). destruct Ps as (ND & Hin).
        set (s := length (w_sms w)).
        assert (Hns : ~ In s (w_user_sm w ++ flat_map opt_sm (w_conns w))).
        { intros Hs. apply Hin in Hs. destruct Hs as (q & Hq). assert (s < length (w_sms w))%nat by (apply nth_error_Some; congruence). unfold s in *. lia. }
        assert (P0 : Permutation (w_user_sm w ++ flat_map opt_sm (set_nth c (w_conns w) (Some (mkC (c_ref x) true (c_queue x) (c_handlers x) (Some s)))))
                                 (s :: (w_user_sm w ++ flat_map opt_sm (w_conns w)))).
        { rewrite (PR' _), PR. cbn [opt_sm c_sm]. rewrite Esm. perm_count. }
        destruct (perm_nodup_in _ _ P0) as (A0 & B0). split; [apply A0; constructor; assumption|].
        intros s'. rewrite B0. cbn [In]. rewrite Hin. unfold smlive. rewrite nth_error_snoc. fold s.
        destruct (Nat.ltb_spec s' s) as [Hl|Hl].
        -- split; [intros [E|D]; [lia|exact D]|intros D; right; exact D].
        -- destruct (Nat.eqb_spec s' s) as [E|E].
           ++ split; [intros _; eexists; reflexivity|intros _; left; congruence].
           ++ split; [intros [E'|(q & D)]; [congruence|]|intros (q & D); discriminate].
              assert (s' < length (w_sms w))%nat by (apply nth_error_Some; congruence). unfold s in *. lia.
      * unfold P_blk. rewrite flat_map_snoc_nil by reflexivity. erewrite flat_map_upd_same; [exact Pb|exact En|reflexivity].
  - (* send *)
    destruct (existsb (Nat.eqb c) (w_user_conn w)) eqn:Hc; [|exists w, CBad; split; [reflexivity|split; [exact I|split; discriminate]]].
    destruct (Hheld c Hc) as (x & En & Ew & Er & E1). rewrite Ew.
    destruct (c_connected x); [|exists w, CRefused; split; [reflexivity|split; [exact I|split; discriminate]]].
    unfold balloc. eexists; eexists. split; [reflexivity|]. split; [|split; discriminate].
    unfold set_conn, CInv. cbn [w_conns w_sms w_user_conn w_user_sm w_blocks].
    split; [eapply P_ref_upd; [exact Pr|exact En|reflexivity]|]. split.
    + unfold P_sm; erewrite flat_map_upd_same; [exact Ps|exact En|reflexivity].
    + destruct (flat_map_set_nth _ _ opt_blocks (w_conns w) c (Some x) En) as (R & PR & PR'). destruct Pb as (ND & Hin).
      set (b := length (w_blocks w)).
      assert (Hnb : ~ In b (flat_map opt_blocks (w_conns w) ++ flat_map sm_blocks (w_sms w))).
      { intros Hb. apply Hin, blive_lt in Hb. unfold b in Hb. lia. }
      assert (P0 : Permutation (flat_map opt_blocks (set_nth c (w_conns w) (Some (mkC (c_ref x) true (c_queue x ++ [b]) (c_handlers x) (c_sm x)))) ++ flat_map sm_blocks (w_sms w))
                               (b :: (flat_map opt_blocks (w_conns w) ++ flat_map sm_blocks (w_sms w)))).
      { rewrite (PR' _), PR. cbn [opt_blocks c_queue c_handlers]. perm_count. }
      destruct (perm_nodup_in _ _ P0) as (A0 & B0). split; [apply A0; constructor; assumption|].
      intros b'. rewrite B0, blive_snoc. cbn [In]. rewrite Hin. fold b. split; intros [A|B]; auto.
  - (* written *)
    destruct (existsb (Nat.eqb c) (w_user_conn w)) eqn:Hc; [|exists w, CBad; split; [reflexivity|split; [exact I|split; discriminate]]].
    destruct (Hheld c Hc) as (x & En & Ew & Er & E1). rewrite Ew.
    destruct (c_connected x) eqn:Econ; [|exists w, CRefused; split; [reflexivity|split; [exact I|split; discriminate]]].
    destruct (c_queue x) as [|b q] eqn:Eq; [exists w, CRefused; split; [reflexivity|split; [exact I|split; discriminate]]|].
    destruct (c_sm x) as [s|] eqn:Esm; [|exists w, CRefused; split; [reflexivity|split; [exact I|split; discriminate]]].
    assert (Hl : smlive (w_sms w) s).
    { apply (proj2 Ps). apply in_or_app. right. apply in_flat_map. exists (Some x). split; [eapply nth_error_In; exact En|].
      cbn [opt_sm]. rewrite Esm. left. reflexivity. }
    destruct Hl as (smq & Hq). rewrite Hq.
    assert (Hbl : blive (w_blocks w) b).
    { apply (proj2 Pb). apply in_or_app. left. apply in_flat_map. exists (Some x). split; [eapply nth_error_In; exact En|].
      cbn [opt_blocks]. rewrite Eq. left. reflexivity. }
    destruct (blive_chown (w_blocks w) b (OwSm s) Hbl) as (bl' & Ech & Hlb). rewrite Ech. cbn [bind].
    eexists; eexists. split; [reflexivity|]. split; [|split; discriminate].
    unfold CInv. cbn [w_conns w_sms w_user_conn w_user_sm w_blocks].
    split; [eapply P_ref_upd; [exact Pr|exact En|reflexivity]|]. split.
    + eapply P_sm_transfer; [exact Ps| |].
      * erewrite flat_map_upd_same; [reflexivity|exact En|]. cbn [opt_sm c_sm]. rewrite Esm. reflexivity.
      * intros s'. unfold smlive. destruct (Nat.eq_dec s s') as [E|E].
        -- subst. rewrite nth_error_set_nth_same by (apply nth_error_Some; congruence). split; intros _; eexists; [exact Hq|reflexivity].
        -- rewrite nth_error_set_nth_other by exact E. tauto.
    + destruct (flat_map_set_nth _ _ opt_blocks (w_conns w) c (Some x) En) as (R & PR & PR').
      destruct (flat_map_set_nth _ _ sm_blocks (w_sms w) s (Some smq) Hq) as (R2 & PR2 & PR2').
      eapply P_blk_transfer; [exact Pb| |exact Hlb].
      rewrite (PR' _), (PR2' _), PR, PR2. cbn [opt_blocks sm_blocks c_queue c_handlers]. rewrite Eq. perm_count.
  - (* ack *)
    destruct (existsb (Nat.eqb c) (w_user_conn w)) eqn:Hc; [|exists w, CBad; split; [reflexivity|split; [exact I|split; discriminate]]].
    destruct (Hheld c Hc) as (x & En & Ew & Er & E1). rewrite Ew.
    destruct (c_connected x) eqn:Econ; [|exists w, CRefused; split; [reflexivity|split; [exact I|split; discriminate]]].
    destruct (c_sm x) as [s|] eqn:Esm; [|exists w, CRefused; split; [reflexivity|split; [exact I|split; discriminate]]].
    assert (Hl : smlive (w_sms w) s).
    { apply (proj2 Ps). apply in_or_app. right. apply in_flat_map. exists (Some x). split; [eapply nth_error_In; exact En|].
      cbn [opt_sm]. rewrite Esm. left. reflexivity. }
    destruct Hl as (smq & Hq). rewrite Hq.
    destruct smq as [|b smq]; [exists w, CRefused; split; [reflexivity|split; [exact I|split; discriminate]]|].
    destruct (flat_map_set_nth _ _ sm_blocks (w_sms w) s (Some (b :: smq)) Hq) as (R2 & PR2 & PR2').
    destruct Pb as (ND & Hin).
    assert (Pall : Permutation (flat_map opt_blocks (w_conns w) ++ flat_map sm_blocks (w_sms w)) (b :: (flat_map opt_blocks (w_conns w) ++ smq ++ R2))).
    { rewrite PR2. cbn [sm_blocks]. perm_count. }
    destruct (perm_nodup_in _ _ Pall) as (A & B). pose proof (proj1 A ND) as ND'. inversion ND' as [|? ? Hnb NDr]; subst.
    assert (Hbl : blive (w_blocks w) b) by (apply Hin, B; left; reflexivity).
    destruct (bfree_ok (w_blocks w) b Hbl) as (bl' & Ef & _ & Hlb). rewrite Ef. cbn [bind].
    eexists; eexists. split; [reflexivity|]. split; [|split; discriminate].
    unfold CInv. cbn [w_conns w_sms w_user_conn w_user_sm w_blocks]. split; [exact Pr|]. split.
    + eapply P_sm_transfer; [exact Ps|reflexivity|]. intros s'. unfold smlive. destruct (Nat.eq_dec s s') as [E|E].
      * subst. rewrite nth_error_set_nth_same by (apply nth_error_Some; congruence). split; intros _; eexists; [exact Hq|reflexivity].
      * rewrite nth_error_set_nth_other by exact E. tauto.
    + assert (P0 : Permutation (flat_map opt_blocks (w_conns w) ++ flat_map sm_blocks (set_nth s (w_sms w) (Some smq)))
                               (flat_map opt_blocks (w_conns w) ++ smq ++ R2)).
      { rewrite (PR2' _). reflexivity. }
      destruct (perm_nodup_in _ _ P0) as (A0 & B0). split; [apply A0, NDr|].
      intros b'. rewrite B0, Hlb, <- Hin, B. cbn [In]. split.
      * intros Hr. split; [right; exact Hr|]. intros E. subst. contradiction.
      * intros ([E|Hr] & Hne); [congruence|exact Hr].
  - (* add handler *)
    destruct (existsb (Nat.eqb c) (w_user_conn w)) eqn:Hc; [|exists w, CBad; split; [reflexivity|split; [exact I|split; discriminate]]].
    destruct (Hheld c Hc) as (x & En & Ew & Er & E1). rewrite Ew.
    destruct (c_connected x); [|exists w, CRefused; split; [reflexivity|split; [exact I|split; discriminate]]].
    destruct (flat_map_set_nth _ _ opt_blocks (w_conns w) c (Some x) En) as (R & PR & PR'). destruct Pb as (ND & Hin).
    set (b := length (w_blocks w)).
    assert (Hnb : forall k, ~ In (b + k)%nat (flat_map opt_blocks (w_conns w) ++ flat_map sm_blocks (w_sms w))).
    { intros k Hb. apply Hin, blive_lt in Hb. unfold b in Hb. lia. }
    unfold balloc. cbn [w_conns w_sms w_user_conn w_user_sm w_blocks]. destruct ud.
    + cbn [w_conns w_sms w_user_conn w_user_sm w_blocks]. eexists; eexists. split; [reflexivity|]. split; [|split; discriminate].
      unfold set_conn, CInv. cbn [w_conns w_sms w_user_conn w_user_sm w_blocks].
      split; [eapply P_ref_upd; [exact Pr|exact En|reflexivity]|]. split.
      * unfold P_sm; erewrite flat_map_upd_same; [exact Ps|exact En|reflexivity].
      * rewrite app_length. cbn [length]. fold b.
        assert (P0 : Permutation (flat_map opt_blocks (set_nth c (w_conns w) (Some (mkC (c_ref x) true (c_queue x) (c_handlers x ++ [(b, Some (b + 1)%nat)]) (c_sm x)))) ++ flat_map sm_blocks (w_sms w))
                                 (b :: (b + 1)%nat :: (flat_map opt_blocks (w_conns w) ++ flat_map sm_blocks (w_sms w)))).
        { rewrite (PR' _), PR. cbn [opt_blocks c_queue c_handlers]. unfold handler_blocks. rewrite flat_map_app. cbn [flat_map fst snd app]. perm_count. }
        destruct (perm_nodup_in _ _ P0) as (A0 & B0). split.
        -- apply A0. constructor; [|constructor; [|exact ND]].
           ++ intros [E|Hb]; [lia|]. apply (Hnb O). rewrite Nat.add_0_r. exact Hb.
           ++ apply Hnb.
        -- intros b'. rewrite B0. replace (w_blocks w ++ [Some (OwConn c)] ++ [Some (OwConn c)]) with ((w_blocks w ++ [Some (OwConn c)]) ++ [Some (OwConn c)]) by (rewrite <- app_assoc; reflexivity).
           rewrite blive_snoc, blive_snoc, app_length. cbn [In length]. fold b. rewrite Hin. split; [intros [A|[A|A]]; [left; right; lia|right; lia|left; left; exact A]|].
           intros [[A|A]|A]; [right; right; exact A|left; lia|right; left; lia].
    + eexists; eexists. split; [reflexivity|]. split; [|split; discriminate].
      unfold set_conn, CInv. cbn [w_conns w_sms w_user_conn w_user_sm w_blocks].
      split; [eapply P_ref_upd; [exact Pr|exact En|reflexivity]|]. split.
      * unfold P_sm; erewrite flat_map_upd_same; [exact Ps|exact En|reflexivity].
      * fold b.
        assert (P0 : Permutation (flat_map opt_blocks (set_nth c (w_conns w) (Some (mkC (c_ref x) true (c_queue x) (c_handlers x ++ [(b, None)]) (c_sm x)))) ++ flat_map sm_blocks (w_sms w))
                                 (b :: (flat_map opt_blocks (w_conns w) ++ flat_map sm_blocks (w_sms w)))).
        { rewrite (PR' _), PR. cbn [opt_blocks c_queue c_handlers]. unfold handler_blocks. rewrite flat_map_app. cbn [flat_map fst snd app]. perm_count. }
        destruct (perm_nodup_in _ _ P0) as (A0 & B0). split.
        -- apply A0. constructor; [|exact ND]. intros Hb. apply (Hnb O). rewrite Nat.add_0_r. exact Hb.
        -- intros b'. rewrite B0, blive_snoc. cbn [In]. rewrite Hin. fold b. split; intros [A|B]; auto.
  - (* handler done *)
    destruct (existsb (Nat.eqb c) (w_user_conn w)) eqn:Hc; [|exists w, CBad; split; [reflexivity|split; [exact I|split; discriminate]]].
    destruct (Hheld c Hc) as (x & En & Ew & Er & E1). rewrite Ew.
    destruct (c_connected x) eqn:Econ; [|exists w, CRefused; split; [reflexivity|split; [exact I|split; discriminate]]].
    destruct (c_handlers x) as [|[it u] hs] eqn:Eh; [exists w, CRefused; split; [reflexivity|split; [exact I|split; discriminate]]|].
    destruct (flat_map_set_nth _ _ opt_blocks (w_conns w) c (Some x) En) as (R & PR & PR'). destruct Pb as (ND & Hin).
    set (fb := it :: match u with Some u => [u] | None => [] end).
    assert (Pall : Permutation (flat_map opt_blocks (w_conns w) ++ flat_map sm_blocks (w_sms w))
                               (fb ++ ((c_queue x ++ handler_blocks true hs) ++ R ++ flat_map sm_blocks (w_sms w)))).
    { rewrite PR. cbn [opt_blocks]. rewrite Eh. unfold handler_blocks at 1. cbn [flat_map fst snd]. fold (handler_blocks true hs). fold fb. perm_count. }
    destruct (perm_nodup_in _ _ Pall) as (A & B). pose proof (proj1 A ND) as ND'. apply nodup_app in ND'. destruct ND' as (NDf & NDr & Dis).
    destruct (bfree_all_ok fb (w_blocks w) NDf) as (bl' & Ef & _ & Hlb).
    { intros b Hb. apply Hin, B, in_or_app. left. exact Hb. }
    fold fb. rewrite Ef. cbn [bind].
    eexists; eexists. split; [reflexivity|]. split; [|split; discriminate].
    unfold set_conn, CInv. cbn [w_conns w_sms w_user_conn w_user_sm w_blocks].
    split; [eapply P_ref_upd; [exact Pr|exact En|reflexivity]|]. split.
    + unfold P_sm; erewrite flat_map_upd_same; [exact Ps|exact En|reflexivity].
    + assert (P0 : Permutation (flat_map opt_blocks (set_nth c (w_conns w) (Some (mkC (c_ref x) true (c_queue x) hs (c_sm x)))) ++ flat_map sm_blocks (w_sms w))
                               ((c_queue x ++ handler_blocks true hs) ++ R ++ flat_map sm_blocks (w_sms w))).
      { rewrite (PR' _). cbn [opt_blocks c_queue c_handlers]. perm_count. }
      destruct (perm_nodup_in _ _ P0) as (A0 & B0). split; [apply A0, NDr|].
      intros b'. rewrite B0, Hlb, <- Hin, B. split.
      * intros Hr. split; [apply in_or_app; right; exact Hr|]. intros Hx. apply (Dis b' Hx Hr).
      * intros (Hall & Hne). apply in_app_or in Hall. destruct Hall as [Hx|Hr]; [contradiction|exact Hr].
  - (* disconnect *)
    destruct (existsb (Nat.eqb c) (w_user_conn w)) eqn:Hc; [|exists w, CBad; split; [reflexivity|split; [exact I|split; discriminate]]].
    destruct (Hheld c Hc) as (x & En & Ew & Er & E1). rewrite Ew.
    destruct (c_connected x); [|exists w, CRefused; split; [reflexivity|split; [exact I|split; discriminate]]].
    destruct (conn_reset_inv w c x I En) as (w1 & E1r & I1 & _). rewrite E1r.
    eexists; eexists. split; [reflexivity|]. split; [exact I1|split; discriminate].
  - (* get_sm_state *)
    destruct (existsb (Nat.eqb c) (w_user_conn w)) eqn:Hc; [|exists w, CBad; split; [reflexivity|split; [exact I|split; discriminate]]].
    destruct (Hheld c Hc) as (x & En & Ew & Er & E1). rewrite Ew.
    destruct (c_connected x); [exists w, CRefused; split; [reflexivity|split; [exact I|split; discriminate]]|].
    destruct (c_sm x) as [s|] eqn:Esm; [|exists w, CRefused; split; [reflexivity|split; [exact I|split; discriminate]]].
    eexists; eexists. split; [reflexivity|]. split; [|split; discriminate].
    unfold CInv. cbn [w_conns w_sms w_user_conn w_user_sm w_blocks].
    split; [eapply P_ref_upd; [exact Pr|exact En|reflexivity]|]. split.
    + destruct (flat_map_set_nth _ _ opt_sm (w_conns w) c (Some x) En) as (R & PR & PR').
      eapply P_sm_transfer; [exact Ps| |intros; reflexivity].
      rewrite (PR' _), PR. cbn [opt_sm c_sm]. rewrite Esm. perm_count.
    + unfold P_blk; erewrite flat_map_upd_same; [exact Pb|exact En|reflexivity].
  - (* set_sm_state *)
    destruct (existsb (Nat.eqb c) (w_user_conn w)) eqn:Hc; cbn [andb]; [|exists w, CBad; split; [reflexivity|split; [exact I|split; discriminate]]].
    destruct (existsb (Nat.eqb s) (w_user_sm w)) eqn:Hs; [|exists w, CBad; split; [reflexivity|split; [exact I|split; discriminate]]].
    destruct (Hheld c Hc) as (x & En & Ew & Er & E1). rewrite Ew. apply existsb_in in Hs.
    destruct (c_connected x); [exists w, CRefused; split; [reflexivity|split; [exact I|split; discriminate]]|].
    destruct (c_sm x) as [s0|] eqn:Esm; [exists w, CRefused; split; [reflexivity|split; [exact I|split; discriminate]]|].
    eexists; eexists. split; [reflexivity|]. split; [|split; discriminate].
    unfold CInv. cbn [w_conns w_sms w_user_conn w_user_sm w_blocks].
    split; [eapply P_ref_upd; [exact Pr|exact En|reflexivity]|]. split.
    + destruct (flat_map_set_nth _ _ opt_sm (w_conns w) c (Some x) En) as (R & PR & PR').
      eapply P_sm_transfer; [exact Ps| |intros; reflexivity].
      rewrite (PR' _), PR. cbn [opt_sm c_sm]. rewrite Esm. rewrite (perm_remove1 _ _ Hs) at 2. perm_count.
    + unfold P_blk; erewrite flat_map_upd_same; [exact Pb|exact En|reflexivity].
  - (* free_sm_state *)
    destruct (existsb (Nat.eqb s) (w_user_sm w)) eqn:Hs; [|exists w, CBad; split; [reflexivity|split; [exact I|split; discriminate]]].
    apply existsb_in in Hs.
    assert (Hl : smlive (w_sms w) s) by (apply (proj2 Ps), in_or_app; left; exact Hs).
    destruct w as [bl cn sm uc us]. cbn [w_conns w_sms w_user_conn w_user_sm w_blocks] in *.
    destruct (sm_free_inv cn sm bl uc us s Pb Hl) as (bl' & Ef & Pb' & Hl'). rewrite Ef. cbn [bind].
    eexists; eexists. split; [reflexivity|]. split; [|split; discriminate].
    unfold CInv. cbn [w_conns w_sms w_user_conn w_user_sm w_blocks]. split; [exact Pr|]. split; [|exact Pb'].
    destruct Ps as (ND & Hin).
    assert (Pall : Permutation (us ++ flat_map opt_sm cn) (s :: (remove1 s us ++ flat_map opt_sm cn))).
    { rewrite (perm_remove1 _ _ Hs) at 1. perm_count. }
    destruct (perm_nodup_in _ _ Pall) as (A & B). pose proof (proj1 A ND) as ND'. inversion ND' as [|? ? Hns NDr]; subst.
    split; [exact NDr|]. intros s'. rewrite Hl', <- Hin, B. cbn [In]. split.
    + intros Hr. split; [right; exact Hr|]. intros E. subst. contradiction.
    + intros ([E|Hr] & Hne); [congruence|exact Hr].
Qed.

(* ------------------------------------------------------------------------------------ *)
(* programs and theorems                                                                  *)
(* ------------------------------------------------------------------------------------ *)
Lemma cinv_init : CInv cinit.
Proof.
  unfold CInv, cinit. cbn [w_conns w_sms w_user_conn w_user_sm w_blocks]. split; [|split].
  - intros c. destruct c; reflexivity.
  - split; [constructor|]. intros s. split; [intros []|intros (q & D); destruct s; discriminate].
  - split; [constructor|]. intros b. split; [intros []|intros (o & D); destruct b; discriminate].
Qed.

Lemma crun_inv : forall prog w, CInv w ->
  exists outs w', crun_from true w prog = (outs, Some w') /\ CInv w' /\ Forall cok outs.
Proof.
  induction prog as [|o r IH]; intros w I.
  - exists [], w. split; [reflexivity|]. split; [exact I|constructor].
  - destruct (cstep_inv w o I) as (w1 & out & E & I1 & Ok1). destruct (IH w1 I1) as (outs & w' & Er & I' & Fo).
    exists (out :: outs), w'. cbn [crun_from]. rewrite E, Er. split; [reflexivity|]. split; [exact I'|constructor; assumption].
Qed.

Lemma nodup_count_le : forall l s, NoDup l -> count_nat l s <= 1.
Proof.
  induction l as [|a l IH]; intros s ND; [rewrite count_nat_nil; lia|]. inversion ND as [|? ? Hn ND']; subst.
  rewrite count_nat_cons. destruct (Nat.eqb_spec s a) as [E|E]; [|specialize (IH s ND'); lia].
  subst. rewrite (count_nat_notin l a Hn). lia.
Qed.

Lemma sm_owners_count : forall w s,
  sm_owners w s = count_nat (w_user_sm w ++ flat_map opt_sm (w_conns w)) s.
Proof.
  intros w s. unfold sm_owners. rewrite count_nat_app. f_equal.
  induction (w_conns w) as [|o l IH]; [reflexivity|]. cbn [filter flat_map]. rewrite count_nat_app, <- IH.
  destruct o as [x|]; [|rewrite count_nat_nil; lia]. cbn [opt_sm]. destruct (c_sm x) as [s'|]; [|rewrite count_nat_nil; lia].
  rewrite count_nat_cons, count_nat_nil. destruct (Nat.eqb s s'); unfold zlen; cbn [length]; lia.
Qed.

Lemma cinv_sm_single_owner : forall w, CInv w -> sm_single_owner w.
Proof.
  intros w (_ & (ND & Hin) & _) s Hs. rewrite sm_owners_count.
  destruct (nth_error (w_sms w) s) as [[q|]|] eqn:E.
  - left. split; [exists q; exact E|]. assert (In s (w_user_sm w ++ flat_map opt_sm (w_conns w))) by (apply Hin; exists q; exact E).
    apply count_nat_in in H. pose proof (nodup_count_le _ s ND). lia.
  - right. split; [reflexivity|]. apply count_nat_notin. intros Hi. apply Hin in Hi. destruct Hi as (q & D). congruence.
  - apply nth_error_None in E. lia.
Qed.

Lemma sm_state_single_owner_proof : forall prog,
  Forall (fun o => o <> CUAF /\ o <> CDoubleFree) (fst (crun true prog)) /\
  exists w, snd (crun true prog) = Some w /\ sm_single_owner w.
Proof.
  intros prog. destruct (crun_inv prog cinit cinv_init) as (outs & w & E & I & Fo). unfold crun. rewrite E. cbn [fst snd].
  split; [exact Fo|]. exists w. split; [reflexivity|apply cinv_sm_single_owner; exact I].
Qed.

Lemma all_none_filter : forall A (l : list (option A)), (forall i a, nth_error l i <> Some (Some a)) ->
  filter (fun c => match c with Some _ => true | None => false end) l = [].
Proof.
  induction l as [|o l IH]; intros Hn; [reflexivity|]. cbn [filter]. destruct o as [a|].
  - exfalso. apply (Hn O a). reflexivity.
  - apply IH. intros i a. apply (Hn (S i) a).
Qed.

Lemma flat_map_all_nil : forall A B (f : A -> list B) l, (forall x, In x l -> f x = []) -> flat_map f l = [].
Proof.
  induction l as [|x l IH]; intros Hn; [reflexivity|]. cbn [flat_map]. rewrite (Hn x (or_introl eq_refl)). apply IH.
  intros y Hy. apply Hn. right. exact Hy.
Qed.

Lemma cinv_all_freed : forall w, CInv w -> w_user_conn w = [] -> w_user_sm w = [] -> clive w = 0.
Proof.
  intros w (Pr & (NDs & Hs) & (NDb & Hb)) Euc Eus. rewrite Euc in Pr. rewrite Eus in Hs, NDs.
  assert (Hc : forall i x, nth_error (w_conns w) i <> Some (Some x)).
  { intros i x E. specialize (Pr i). rewrite E in Pr. rewrite count_nat_nil in Pr. lia. }
  assert (Hcn : forall o, In o (w_conns w) -> o = None).
  { intros o Ho. destruct o as [x|]; [|reflexivity]. apply In_nth_error in Ho. destruct Ho as (i & E). exfalso. apply (Hc i x E). }
  assert (Esm : flat_map opt_sm (w_conns w) = []).
  { apply flat_map_all_nil. intros o Ho. rewrite (Hcn o Ho). reflexivity. }
  assert (Hsm : forall i q, nth_error (w_sms w) i <> Some (Some q)).
  { intros i q E. assert (In i ([] ++ flat_map opt_sm (w_conns w))) by (apply Hs; exists q; exact E). rewrite Esm in H. destruct H. }
  assert (Ebc : flat_map opt_blocks (w_conns w) = []).
  { apply flat_map_all_nil. intros o Ho. rewrite (Hcn o Ho). reflexivity. }
  assert (Ebs : flat_map sm_blocks (w_sms w) = []).
  { apply flat_map_all_nil. intros o Ho. destruct o as [q|]; [|reflexivity]. apply In_nth_error in Ho. destruct Ho as (i & E). exfalso. apply (Hsm i q E). }
  assert (Hbl : forall i o, nth_error (w_blocks w) i <> Some (Some o)).
  { intros i o E. assert (In i (flat_map opt_blocks (w_conns w) ++ flat_map sm_blocks (w_sms w))) by (apply Hb; exists o; exact E).
    rewrite Ebc, Ebs in H. destruct H. }
  unfold clive. rewrite (all_none_filter _ _ Hc), (all_none_filter _ _ Hsm), (all_none_filter _ _ Hbl). reflexivity.
Qed.

Lemma conn_refcount_proof : forall prog w,
  snd (crun true prog) = Some w ->
  conn_ref_spec w /\
  (forall c, In c (w_user_conn w) ->
     exists w', fst (cstep true w (CRelease c)) = Some w' /\
       (count_nat (w_user_conn w) c = 1 -> snd (cstep true w (CRelease c)) = CReleased true /\ nth_error (w_conns w') c = Some None) /\
       (1 < count_nat (w_user_conn w) c -> snd (cstep true w (CRelease c)) = CReleased false /\ w_blocks w' = w_blocks w /\
                                         exists x, nth_error (w_conns w') c = Some (Some x))) /\
  (w_user_conn w = [] -> w_user_sm w = [] -> clive w = 0).
Proof.
  intros prog w Hr. destruct (crun_inv prog cinit cinv_init) as (outs & w0 & E & I & _). unfold crun in Hr. rewrite E in Hr.
  cbn [snd] in Hr. inversion Hr; subst w0. pose proof I as (Pr & _). split; [|split; [|apply cinv_all_freed; exact I]].
  - intros c Hc. specialize (Pr c). destruct (nth_error (w_conns w) c) as [[x|]|]; exact Pr.
  - intros c Hc. destruct (P_ref_held _ _ c Pr Hc) as (x & En & Er & E1).
    destruct (cstep_inv w (CRelease c) I) as (w' & out & Es & _ & _).
    exists w'. rewrite Es. cbn [fst snd]. split; [reflexivity|].
    cbn [cstep] in Es. rewrite (proj2 (existsb_in c (w_user_conn w)) Hc), (w_conn_some w c x En) in Es.
    split; intros Hcnt.
    + assert (Eref : (1 <? c_ref x) = false) by (apply Z.ltb_ge; lia). rewrite Eref in Es.
      destruct (conn_reset true w c x) as [w1| | |]; cbn [bind] in Es; try discriminate.
      destruct (match c_sm x with Some s => sm_free w1 s | None => Ok w1 end) as [w2| | |]; cbn [bind] in Es; try discriminate.
      destruct (w_conn w2 c) as [x2|] eqn:Ew2; try discriminate. inversion Es; subst. split; [reflexivity|].
      cbn [w_conns]. apply nth_error_set_nth_same. apply nth_error_Some. unfold w_conn in Ew2.
      destruct (nth_error (w_conns w2) c); [discriminate|discriminate].
    + assert (Eref : (1 <? c_ref x) = true) by (apply Z.ltb_lt; lia). rewrite Eref in Es. inversion Es; subst.
      split; [reflexivity|]. split; [reflexivity|]. cbn [w_conns]. eexists. apply nth_error_set_nth_same. apply nth_error_Some. congruence.
Qed.

Lemma unfixed_conn_reset_leaks_proof :
  exists prog w, snd (crun false prog) = Some w /\ w_user_conn w = [] /\ w_user_sm w = [] /\ 0 < clive w.
Proof.
  exists [CNew; CConnect 0; CAddHandler 0 true; CDisconnect 0; CRelease 0]. eexists. vm_compute. repeat split; reflexivity.
Qed.

(* the hand-over of an SM state between two connection objects, everything released at the end *)
Definition example_handover : list cop :=
  [CNew; CConnect 0; CSend 0; CWritten 0; CSend 0; CAddHandler 0 true; CDisconnect 0; CGetSm 0;
   CNew; CSetSm 1 0; CClone 1; CRelease 0; CConnect 1; CAck 1; CRelease 1; CRelease 1].
Example example_handover_ok :
  exists w, snd (crun true example_handover) = Some w /\ w_user_conn w = [] /\ w_user_sm w = [] /\ clive w = 0 /\
            ~ In CBad (fst (crun true example_handover)).
Proof. vm_compute. eexists. repeat split; try reflexivity. intuition discriminate. Qed.
