(* C11 - proofs: the heap model of handler.c (Model/HandlerModel.v) refines the registry semantics of
   Spec/HandlerSpec.v, and the registry semantics has the properties C11 asks for. *)
From Coq Require Import List ZArith Bool Arith Lia.
Import ListNotations.
Require Import LV.Model.HandlerModel LV.Spec.HandlerSpec.
Local Open Scope Z_scope.

(* ------------------------------------------------------------------ basics *)
Lemma str_eqb_eq : forall a b, str_eqb a b = true <-> a = b.
Proof.
  induction a as [|x a IH]; destruct b as [|y b]; simpl; split; intro H; try congruence; try discriminate.
  - apply andb_true_iff in H. destruct H as [H1 H2]. apply Z.eqb_eq in H1. apply IH in H2. congruence.
  - inversion H; subst. apply andb_true_iff. split; [apply Z.eqb_refl | apply IH; reflexivity].
Qed.

Lemma str_eqb_refl : forall a, str_eqb a a = true.
Proof. intro a. apply str_eqb_eq. reflexivity. Qed.

Lemma str_eqb_neq : forall a b, a <> b -> str_eqb a b = false.
Proof. intros a b H. destruct (str_eqb a b) eqn:E; auto. apply str_eqb_eq in E. contradiction. Qed.

Lemma str_eq_dec : forall a b : str, {a = b} + {a <> b}.
Proof. apply list_eq_dec. apply Z.eq_dec. Qed.

Lemma kind_eq_dec : forall a b : kind, {a = b} + {a <> b}.
Proof. decide equality. apply str_eq_dec. Qed.

Lemma upd_same : forall A (h : nat -> A) p v, upd h p v p = v.
Proof. intros. unfold upd. rewrite Nat.eqb_refl. reflexivity. Qed.

Lemma upd_other : forall A (h : nat -> A) p v q, q <> p -> upd h p v q = h q.
Proof. intros. unfold upd. destruct (Nat.eqb q p) eqn:E; auto. apply Nat.eqb_eq in E. contradiction. Qed.

Lemma id_get_set_same : forall A id (v : option A) m, id_get id (id_set id v m) = v.
Proof.
  induction m as [|[k w] m IH]; simpl.
  - rewrite str_eqb_refl. reflexivity.
  - destruct (str_eqb k id) eqn:E; simpl; rewrite E; auto.
Qed.

Lemma id_get_set_other : forall A id id' (v : option A) m, id' <> id -> id_get id' (id_set id v m) = id_get id' m.
Proof.
  induction m as [|[k w] m IH]; simpl; intro H.
  - rewrite str_eqb_neq; auto.
  - destruct (str_eqb k id) eqn:E; simpl.
    + apply str_eqb_eq in E. subst k. rewrite str_eqb_neq; auto.
    + destruct (str_eqb k id'); auto.
Qed.

(* heads of the heap state *)
Lemma get_set_head_same : forall k v st, get_head k (set_head k v st) = v.
Proof. destruct k; simpl; auto. intros. apply id_get_set_same. Qed.

Lemma get_set_head_other : forall k k' v st, k' <> k -> get_head k' (set_head k v st) = get_head k' st.
Proof.
  destruct k, k'; simpl; auto; try congruence. intros. apply id_get_set_other. congruence.
Qed.

Lemma rget_rset_same : forall k l R, rget k (rset k l R) = l.
Proof. destruct k; simpl; auto. intros. rewrite id_get_set_same. reflexivity. Qed.

Lemma rget_rset_other : forall k k' l R, k' <> k -> rget k' (rset k l R) = rget k' R.
Proof.
  destruct k, k'; simpl; auto; try congruence. intros. rewrite id_get_set_other; auto. congruence.
Qed.

(* ------------------------------------------------------------------ outcomes *)
Definition okres {A} (r : res A) (P : A -> Prop) : Prop := r = Fuel \/ exists a, r = Ok a /\ P a.

Lemma okres_ok : forall A (a : A) (P : A -> Prop), P a -> okres (Ok a) P.
Proof. intros. right. eauto. Qed.

Lemma okres_bind : forall A B (r : res A) (f : A -> res B) (P : A -> Prop) (Q : B -> Prop),
  okres r P -> (forall a, P a -> okres (f a) Q) -> okres (bind r f) Q.
Proof.
  intros A B r f P Q [H | [a [H Ha]]] HF; subst; simpl.
  - left. reflexivity.
  - apply HF. exact Ha.
Qed.

Lemma okres_weaken : forall A (r : res A) (P Q : A -> Prop), okres r P -> (forall a, P a -> Q a) -> okres r Q.
Proof. intros A r P Q [H | [a [H Ha]]] HPQ; [left; auto | right; eauto]. Qed.

(* ------------------------------------------------------------------ abstraction *)
Definition item_of (r : hrec) (nx : option nat) : item :=
  mkItem (r_cb r) (r_ud r) (r_user r) (r_enabled r) (r_flt r) nx.

Definition hd_or (l : list hrec) (nx : option nat) : option nat :=
  match l with [] => nx | r :: _ => Some (hid r) end.

Fixpoint seg (h : nat -> option item) (l : list hrec) (nx : option nat) : Prop :=
  match l with
  | [] => True
  | r :: l' => h (hid r) = Some (item_of r (hd_or l' nx)) /\ seg h l' nx
  end.

Definition env (st : state) := (neg st, connected st, clock st, sendq st, log st).
Definition renv (R : reg) := (g_neg R, g_conn R, g_clock R, g_sendq R, g_log R).

Record Abs (st : state) (R : reg) : Prop := mkAbs {
  abs_head : forall k, get_head k st = hd_or (rget k R) None;
  abs_seg : forall k, seg (heap st) (rget k R) None;
  abs_next : nextp st = g_next R;
  abs_env : env st = renv R }.

Record WF (R : reg) : Prop := mkWF {
  wf_nodup : forall k, NoDup (hids (rget k R));
  wf_lt : forall k r, In r (rget k R) -> (hid r < g_next R)%nat;
  wf_disj : forall k1 k2 r1 r2, In r1 (rget k1 R) -> In r2 (rget k2 R) -> hid r1 = hid r2 -> k1 = k2 }.

Lemma hd_or_app : forall l1 l2 nx, hd_or (l1 ++ l2) nx = hd_or l1 (hd_or l2 nx).
Proof. destruct l1; reflexivity. Qed.

Lemma seg_app : forall h l1 l2 nx, seg h (l1 ++ l2) nx <-> seg h l1 (hd_or l2 nx) /\ seg h l2 nx.
Proof.
  induction l1 as [|r l1 IH]; simpl; intros.
  - tauto.
  - rewrite hd_or_app. rewrite IH. tauto.
Qed.

Lemma seg_frame : forall h h' l nx,
  (forall r, In r l -> h' (hid r) = h (hid r)) -> seg h l nx -> seg h' l nx.
Proof.
  induction l as [|r l IH]; simpl; intros nx H S; auto.
  destruct S as [S1 S2]. split.
  - rewrite H; auto.
  - apply IH; auto.
Qed.

Lemma env_set_head : forall k v st, env (set_head k v st) = env st.
Proof. destruct k; reflexivity. Qed.
Lemma heap_set_head : forall k v st, heap (set_head k v st) = heap st.
Proof. destruct k; reflexivity. Qed.
Lemma nextp_set_head : forall k v st, nextp (set_head k v st) = nextp st.
Proof. destruct k; reflexivity. Qed.
Lemma renv_rset : forall k l R, renv (rset k l R) = renv R.
Proof. destruct k; reflexivity. Qed.
Lemma g_next_rset : forall k l R, g_next (rset k l R) = g_next R.
Proof. destruct k; reflexivity. Qed.
Lemma get_head_set_heap : forall k st h n, get_head k (set_heap st h n) = get_head k st.
Proof. destruct k; reflexivity. Qed.
Lemma rget_rset_next : forall k R n, rget k (rset_next R n) = rget k R.
Proof. destruct k; reflexivity. Qed.

Lemma in_hids : forall r l, In r l -> In (hid r) (hids l).
Proof. intros. unfold hids. apply in_map. auto. Qed.

(* changing one list (and possibly allocating) keeps the abstraction of all the others *)
Lemma abs_change : forall st R k st' R',
  Abs st R -> WF R ->
  get_head k st' = hd_or (rget k R') None ->
  seg (heap st') (rget k R') None ->
  (forall k', k' <> k -> get_head k' st' = get_head k' st /\ rget k' R' = rget k' R) ->
  (forall p, ~ In p (hids (rget k R)) -> (p < nextp st)%nat -> heap st' p = heap st p) ->
  nextp st' = g_next R' -> env st' = renv R' ->
  Abs st' R'.
Proof.
  intros st R k st' R' A W Hh Hs Ho Hf Hn He.
  constructor; auto.
  - intro k'. destruct (kind_eq_dec k' k) as [->|N]; auto.
    destruct (Ho k' N) as [E1 E2]. rewrite E1, E2. apply (abs_head _ _ A).
  - intro k'. destruct (kind_eq_dec k' k) as [->|N]; auto.
    destruct (Ho k' N) as [E1 E2]. rewrite E2.
    apply seg_frame with (h := heap st); [|apply (abs_seg _ _ A)].
    intros r Hr. apply Hf.
    + intro Hin. unfold hids in Hin. apply in_map_iff in Hin. destruct Hin as [r2 [E Hr2]].
      apply N. eapply (wf_disj _ W); eauto.
    + rewrite (abs_next _ _ A). eapply (wf_lt _ W); eauto.
Qed.

Lemma abs_rd : forall st R k pre r suf,
  Abs st R -> rget k R = pre ++ r :: suf -> rd st (hid r) = Ok (item_of r (hd_or suf None)).
Proof.
  intros st R k pre r suf A E. pose proof (abs_seg _ _ A k) as S. rewrite E in S.
  apply seg_app in S. destruct S as [_ [S _]]. unfold rd. rewrite S. reflexivity.
Qed.

(* ------------------------------------------------------------------ list facts *)
Lemma nodup_mid : forall (pre : list hrec) r suf,
  NoDup (hids (pre ++ r :: suf)) ->
  (forall q, In q pre -> hid q <> hid r) /\ (forall q, In q suf -> hid q <> hid r) /\
  NoDup (hids (pre ++ suf)).
Proof.
  intros pre r suf H. unfold hids in *. rewrite map_app in H. simpl in H.
  pose proof (NoDup_remove_1 _ _ _ H) as H1. pose proof (NoDup_remove_2 _ _ _ H) as H2.
  rewrite <- map_app in H1. repeat split; auto.
  - intros q Hq E. apply H2. apply in_or_app. left. rewrite <- E. apply in_map. auto.
  - intros q Hq E. apply H2. apply in_or_app. right. rewrite <- E. apply in_map. auto.
Qed.

Lemma hd_or_mid : forall pre r r' suf nx, hid r' = hid r -> hd_or (pre ++ r' :: suf) nx = hd_or (pre ++ r :: suf) nx.
Proof. destruct pre; simpl; intros; congruence. Qed.

Lemma hids_mid : forall pre r r' suf, hid r' = hid r -> hids (pre ++ r' :: suf) = hids (pre ++ r :: suf).
Proof. intros. unfold hids. rewrite !map_app. simpl. congruence. Qed.

Lemma wr_ok : forall st p it0 it, heap st p = Some it0 ->
  wr st p it = Ok (set_heap st (upd (heap st) p (Some it)) (nextp st)).
Proof. intros. unfold wr. rewrite H. reflexivity. Qed.

Lemma free_ok : forall st p it0, heap st p = Some it0 ->
  free st p = Ok (set_heap st (upd (heap st) p None) (nextp st)).
Proof. intros. unfold free. rewrite H. reflexivity. Qed.

(* ------------------------------------------------------------------ single-step refinements *)
(* rewriting the content of one cell (same registration number, same successor) *)
Lemma abs_update : forall st R k pre r r' suf,
  Abs st R -> WF R -> rget k R = pre ++ r :: suf -> hid r' = hid r ->
  Abs (set_heap st (upd (heap st) (hid r) (Some (item_of r' (hd_or suf None)))) (nextp st))
      (rset k (pre ++ r' :: suf) R).
Proof.
  intros st R k pre r r' suf A W E Hh.
  pose proof (wf_nodup _ W k) as ND. rewrite E in ND. destruct (nodup_mid _ _ _ ND) as [N1 [N2 _]].
  pose proof (abs_seg _ _ A k) as S. rewrite E in S. apply seg_app in S. destruct S as [S1 [S2 S3]].
  apply abs_change with (st := st) (R := R) (k := k); auto.
  - rewrite get_head_set_heap, rget_rset_same. rewrite (abs_head _ _ A k), E. symmetry. apply hd_or_mid. auto.
  - rewrite rget_rset_same. simpl. apply seg_app. simpl. rewrite Hh. repeat split.
    + apply seg_frame with (h := heap st); auto. intros q Hq. apply upd_other. apply N1; auto.
    + rewrite upd_same. reflexivity.
    + apply seg_frame with (h := heap st); auto. intros q Hq. apply upd_other. apply N2; auto.
  - intros k' N. split; [apply get_head_set_heap | apply rget_rset_other; auto].
  - intros p Hp _. simpl. apply upd_other. intro; subst p. apply Hp. rewrite E. apply in_hids. apply in_or_app. right. left. reflexivity.
  - simpl. rewrite g_next_rset. apply (abs_next _ _ A).
  - rewrite renv_rset. apply (abs_env _ _ A).
Qed.

(* unlinking the first element: the head moves *)
Lemma abs_unlink_head : forall st R k r suf,
  Abs st R -> WF R -> rget k R = r :: suf ->
  Abs (set_head k (hd_or suf None) st) (rset k suf R).
Proof.
  intros st R k r suf A W E.
  pose proof (abs_seg _ _ A k) as S. rewrite E in S. destruct S as [S1 S2].
  apply abs_change with (st := st) (R := R) (k := k); auto.
  - rewrite get_set_head_same, rget_rset_same. reflexivity.
  - rewrite rget_rset_same, heap_set_head. exact S2.
  - intros k' N. split; [apply get_set_head_other; auto | apply rget_rset_other; auto].
  - intros. rewrite heap_set_head. reflexivity.
  - rewrite nextp_set_head, g_next_rset. apply (abs_next _ _ A).
  - rewrite env_set_head, renv_rset. apply (abs_env _ _ A).
Qed.

(* unlinking an inner element: the predecessor's next field moves *)
Lemma abs_unlink_mid : forall st R k pre p r suf,
  Abs st R -> WF R -> rget k R = (pre ++ [p]) ++ r :: suf ->
  Abs (set_heap st (upd (heap st) (hid p) (Some (item_of p (hd_or suf None)))) (nextp st))
      (rset k ((pre ++ [p]) ++ suf) R).
Proof.
  intros st R k pre p r suf A W E.
  pose proof (wf_nodup _ W k) as ND. rewrite E in ND. destruct (nodup_mid _ _ _ ND) as [_ [_ ND2]].
  rewrite <- app_assoc in ND2. simpl in ND2. destruct (nodup_mid _ _ _ ND2) as [N1 [N2 _]].
  pose proof (abs_seg _ _ A k) as S. rewrite E in S. apply seg_app in S. destruct S as [S1 [S2 S3]].
  apply seg_app in S1. destruct S1 as [S0 [S1 _]].
  apply abs_change with (st := st) (R := R) (k := k); auto.
  - rewrite get_head_set_heap, rget_rset_same. rewrite (abs_head _ _ A k), E.
    rewrite <- !app_assoc. simpl. rewrite !hd_or_app. reflexivity.
  - rewrite rget_rset_same. simpl. rewrite <- app_assoc. simpl. apply seg_app. simpl. repeat split.
    + apply seg_frame with (h := heap st); auto. intros q Hq. apply upd_other. apply N1; auto.
    + rewrite upd_same. reflexivity.
    + apply seg_frame with (h := heap st); auto. intros q Hq. apply upd_other. apply N2; auto.
  - intros k' N. split; [apply get_head_set_heap | apply rget_rset_other; auto].
  - intros q Hq _. simpl. apply upd_other. intro; subst q. apply Hq. rewrite E. apply in_hids.
    apply in_or_app. left. apply in_or_app. right. left. reflexivity.
  - simpl. rewrite g_next_rset. apply (abs_next _ _ A).
  - rewrite renv_rset. apply (abs_env _ _ A).
Qed.

(* freeing a cell no list refers to *)
Lemma abs_free : forall st R x,
  Abs st R -> (forall k, ~ In x (hids (rget k R))) ->
  Abs (set_heap st (upd (heap st) x None) (nextp st)) R.
Proof.
  intros st R x A Hx. constructor.
  - intro k. rewrite get_head_set_heap. apply (abs_head _ _ A).
  - intro k. simpl. apply seg_frame with (h := heap st); [|apply (abs_seg _ _ A)].
    intros r Hr. apply upd_other. intro E. apply (Hx k). rewrite <- E. apply in_hids. auto.
  - simpl. apply (abs_next _ _ A).
  - apply (abs_env _ _ A).
Qed.

(* ------------------------------------------------------------------ well-formedness of registries *)
Lemma in_hids_inv : forall x l, In x (hids l) -> exists r, In r l /\ hid r = x.
Proof. intros x l H. unfold hids in H. apply in_map_iff in H. destruct H as [r [E H]]. eauto. Qed.

Lemma wf_rset : forall R k l',
  WF R -> NoDup (hids l') -> (forall r', In r' l' -> In (hid r') (hids (rget k R))) -> WF (rset k l' R).
Proof.
  intros R k l' W ND Hsub. constructor.
  - intro k'. destruct (kind_eq_dec k' k) as [->|N].
    + rewrite rget_rset_same. auto.
    + rewrite rget_rset_other; auto. apply (wf_nodup _ W).
  - intros k' r Hr. rewrite g_next_rset. destruct (kind_eq_dec k' k) as [->|N].
    + rewrite rget_rset_same in Hr. apply Hsub in Hr. apply in_hids_inv in Hr. destruct Hr as [r0 [H0 E]].
      rewrite <- E. eapply (wf_lt _ W); eauto.
    + rewrite rget_rset_other in Hr; auto. eapply (wf_lt _ W); eauto.
  - intros k1 k2 r1 r2 H1 H2 E.
    assert (X : forall k' r, In r (rget k' (rset k l' R)) -> exists r0, In r0 (rget k' R) /\ hid r0 = hid r).
    { intros k' r Hr. destruct (kind_eq_dec k' k) as [->|N].
      - rewrite rget_rset_same in Hr. apply Hsub in Hr. apply in_hids_inv in Hr. exact Hr.
      - rewrite rget_rset_other in Hr; eauto. }
    destruct (X _ _ H1) as [a [Ha Ea]]. destruct (X _ _ H2) as [b [Hb Eb]].
    eapply (wf_disj _ W); eauto. congruence.
Qed.

Lemma nodup_hids_filter : forall (p : hrec -> bool) l, NoDup (hids l) -> NoDup (hids (filter p l)).
Proof.
  induction l as [|r l IH]; simpl; intro H; auto.
  inversion H; subst. destruct (p r); simpl; auto. constructor; auto.
  intro Hin. apply H2. apply in_hids_inv in Hin. destruct Hin as [q [Hq E]]. apply filter_In in Hq.
  rewrite <- E. apply in_hids. tauto.
Qed.

Lemma wf_filter : forall R k p, WF R -> WF (rset k (filter p (rget k R)) R).
Proof.
  intros. apply wf_rset; auto.
  - apply nodup_hids_filter. apply (wf_nodup _ H).
  - intros r Hr. apply filter_In in Hr. apply in_hids. tauto.
Qed.

Lemma hids_map_same : forall (f : hrec -> hrec) l, (forall r, hid (f r) = hid r) -> hids (map f l) = hids l.
Proof. intros. unfold hids. rewrite map_map. apply map_ext. auto. Qed.

Lemma wf_map : forall R k f, (forall r, hid (f r) = hid r) -> WF R -> WF (rset k (map f (rget k R)) R).
Proof.
  intros R k f Hf W. apply wf_rset; auto.
  - rewrite hids_map_same; auto. apply (wf_nodup _ W).
  - intros r Hr. apply in_map_iff in Hr. destruct Hr as [q [E Hq]]. subst r. rewrite Hf. apply in_hids. auto.
Qed.

Lemma wf_rset_next : forall R n, WF R -> (g_next R <= n)%nat -> WF (rset_next R n).
Proof.
  intros R n W Hn. constructor.
  - intro k. rewrite rget_rset_next. apply (wf_nodup _ W).
  - intros k r Hr. rewrite rget_rset_next in Hr. simpl. pose proof (wf_lt _ W _ _ Hr). lia.
  - intros k1 k2 r1 r2. rewrite !rget_rset_next. apply (wf_disj _ W).
Qed.

Lemma nodup_snoc : forall (l : list nat) x, NoDup l -> ~ In x l -> NoDup (l ++ [x]).
Proof.
  induction l as [|a l IH]; simpl; intros x H N.
  - constructor; auto.
  - inversion H; subst. constructor.
    + intro Hin. apply in_app_or in Hin. destruct Hin as [Hin|[E|[]]]; auto.
    + apply IH; auto.
Qed.

(* a new registration gets the next number *)
Lemma wf_add_new : forall R k (at_head : bool) rn,
  WF R -> hid rn = g_next R ->
  WF (rset k (if at_head then rn :: rget k R else rget k R ++ [rn]) (rset_next R (S (g_next R)))).
Proof.
  intros R k at_head rn W Hh.
  assert (Hfresh : forall k' r, In r (rget k' R) -> hid r <> hid rn).
  { intros k' r Hr E. pose proof (wf_lt _ W _ _ Hr). lia. }
  set (R1 := rset_next R (S (g_next R))).
  assert (L : forall k', rget k' R1 = rget k' R) by (intro; apply rget_rset_next).
  constructor.
  - intro k'. destruct (kind_eq_dec k' k) as [->|N].
    + rewrite rget_rset_same. pose proof (wf_nodup _ W k) as ND.
      assert (Hn : ~ In (hid rn) (hids (rget k R))).
      { intro Hin. apply in_hids_inv in Hin. destruct Hin as [q [Hq E]]. eapply Hfresh; eauto. }
      destruct at_head; unfold hids in *.
      * simpl. constructor; auto.
      * rewrite map_app. simpl. apply nodup_snoc; auto.
    + rewrite rget_rset_other; auto. rewrite L. apply (wf_nodup _ W).
  - intros k' r Hr. rewrite g_next_rset. simpl. destruct (kind_eq_dec k' k) as [->|N].
    + rewrite rget_rset_same in Hr.
      assert (Hc : r = rn \/ In r (rget k R)).
      { destruct at_head; [destruct Hr; auto | apply in_app_or in Hr; destruct Hr as [|[|[]]]; auto]. }
      destruct Hc as [->|Hc]; [lia | pose proof (wf_lt _ W _ _ Hc); lia].
    + rewrite rget_rset_other in Hr; auto. rewrite L in Hr. pose proof (wf_lt _ W _ _ Hr). lia.
  - intros k1 k2 r1 r2 H1 H2 E.
    assert (X : forall k' r, In r (rget k' (rset k (if at_head then rn :: rget k R else rget k R ++ [rn]) R1)) ->
                (k' = k /\ r = rn) \/ In r (rget k' R)).
    { intros k' r Hr. destruct (kind_eq_dec k' k) as [->|N].
      - rewrite rget_rset_same in Hr.
        destruct at_head; [destruct Hr; auto | apply in_app_or in Hr; destruct Hr as [|[|[]]]; auto].
      - rewrite rget_rset_other in Hr; auto. }
    destruct (X _ _ H1) as [[-> ->]|A1]; destruct (X _ _ H2) as [[-> ->]|A2]; auto.
    + exfalso. eapply Hfresh; eauto.
    + exfalso. eapply Hfresh; eauto.
    + eapply (wf_disj _ W); eauto.
Qed.

(* ------------------------------------------------------------------ walks *)
Lemma find_dup_ok : forall cb ud l fuel st,
  seg (heap st) l None ->
  okres (find_dup fuel st (hd_or l None) cb ud) (fun b => b = has_key cb ud l).
Proof.
  induction l as [|r l IH]; intros fuel st S; destruct fuel; simpl; try (left; reflexivity).
  - apply okres_ok. reflexivity.
  - destruct S as [S1 S2]. unfold rd. rewrite S1. simpl.
    destruct ((r_cb r =? cb) && (r_ud r =? ud)); simpl.
    + apply okres_ok. reflexivity.
    + apply IH. exact S2.
Qed.

Lemma find_tail_ok : forall l r fuel st,
  seg (heap st) (r :: l) None ->
  okres (find_tail fuel st (hid r)) (fun t => exists pre t', r :: l = pre ++ [t'] /\ hid t' = t).
Proof.
  induction l as [|r2 l IH]; intros r fuel st S; destruct fuel; simpl; try (left; reflexivity).
  - destruct S as [S1 _]. unfold rd. rewrite S1. simpl. apply okres_ok. exists [], r. auto.
  - destruct S as [S1 S2]. unfold rd. rewrite S1. simpl.
    eapply okres_weaken. { apply IH. exact S2. }
    intros t [pre [t' [E Ht]]]. exists (r :: pre), t'. simpl. rewrite E. auto.
Qed.

Lemma has_key_false_notin : forall cb ud l, has_key cb ud l = false ->
  forall r, In r l -> ~ (r_cb r = cb /\ r_ud r = ud).
Proof.
  intros cb ud l H r Hr [E1 E2]. unfold has_key in H.
  assert (existsb (fun r => (r_cb r =? cb) && (r_ud r =? ud)) l = true).
  { apply existsb_exists. exists r. split; auto. subst. rewrite !Z.eqb_refl. reflexivity. }
  congruence.
Qed.

Lemma add_tail_ok : forall fuel k cb ud user flt st R,
  Abs st R -> WF R ->
  okres (add_tail fuel k cb ud user flt st) (fun st' => Abs st' (r_add false k cb ud user flt R)).
Proof.
  intros fuel k cb ud user flt st R A W. unfold add_tail. eapply okres_bind.
  { rewrite (abs_head _ _ A k). apply find_dup_ok. apply (abs_seg _ _ A). }
  intros b ->. unfold r_add. destruct (has_key cb ud (rget k R)) eqn:HK.
  { apply okres_ok. exact A. }
  unfold alloc. rewrite get_head_set_heap. rewrite (abs_head _ _ A k).
  set (rn := mkRec (g_next R) cb ud user false flt).
  change (mkItem cb ud user false flt None) with (item_of rn None).
  pose proof (abs_next _ _ A) as HN.
  assert (Hlt : forall k' r, In r (rget k' R) -> hid r <> nextp st).
  { intros k' r Hr. pose proof (wf_lt _ W _ _ Hr). lia. }
  destruct (rget k R) as [|r0 l0] eqn:EL; simpl hd_or.
  - (* empty list: the new item becomes the head *)
    apply okres_ok. apply abs_change with (st := st) (R := R) (k := k); auto.
    + rewrite get_set_head_same, rget_rset_same. simpl. congruence.
    + rewrite rget_rset_same, heap_set_head. simpl. split; auto. rewrite HN. apply upd_same.
    + intros k' N. split.
      * rewrite get_set_head_other; auto.
      * rewrite rget_rset_other; auto.
    + intros p _ Hp. rewrite heap_set_head. simpl. apply upd_other. lia.
    + rewrite nextp_set_head, g_next_rset. simpl. congruence.
    + rewrite env_set_head, renv_rset. apply (abs_env _ _ A).
  - (* walk to the tail and link *)
    set (st1 := set_heap st (upd (heap st) (nextp st) (Some (item_of rn None))) (S (nextp st))).
    assert (S1 : seg (heap st1) (r0 :: l0) None).
    { apply seg_frame with (h := heap st).
      - intros q Hq. simpl. apply upd_other. apply (Hlt k). rewrite EL. exact Hq.
      - rewrite <- EL. apply (abs_seg _ _ A). }
    eapply okres_bind. { apply find_tail_ok. exact S1. }
    intros t [pre [t' [E Ht]]]. subst t.
    pose proof S1 as S1'. rewrite E in S1'. apply seg_app in S1'. destruct S1' as [Sp [St _]].
    change (hd_or [] None) with (@None nat) in St.
    unfold rd. rewrite St. simpl bind.
    erewrite wr_ok by exact St. apply okres_ok.
    change (it_next (item_of t' None) (Some (nextp st))) with (item_of t' (Some (nextp st))).
    pose proof (wf_nodup _ W k) as ND. rewrite EL, E in ND.
    assert (Npre : forall q, In q pre -> hid q <> hid t').
    { replace (pre ++ [t']) with (pre ++ t' :: []) in ND by reflexivity. apply (nodup_mid _ _ _ ND). }
    assert (Hin : forall q, In q (pre ++ [t']) -> hid q <> nextp st).
    { intros q Hq. apply (Hlt k). rewrite EL, E. exact Hq. }
    apply abs_change with (st := st) (R := R) (k := k); auto.
    + rewrite get_head_set_heap. unfold st1. rewrite get_head_set_heap, rget_rset_same.
      rewrite (abs_head _ _ A k), EL, E. rewrite !hd_or_app. reflexivity.
    + rewrite rget_rset_same, E. rewrite <- app_assoc. apply seg_app. simpl. repeat split.
      * apply seg_frame with (h := heap st1); auto. intros q Hq. apply upd_other. apply Npre; auto.
      * rewrite upd_same. rewrite HN. reflexivity.
      * rewrite upd_other.
        -- unfold st1. simpl. rewrite HN. apply upd_same.
        -- rewrite <- HN. intro X. symmetry in X. revert X. apply Hin. apply in_or_app. right. left. reflexivity.
    + intros k' N. split.
      * rewrite get_head_set_heap. unfold st1. rewrite get_head_set_heap. reflexivity.
      * rewrite rget_rset_other; auto.
    + intros p Hp Hlt'. simpl. rewrite upd_other.
      * apply upd_other. lia.
      * intro; subst p. apply Hp. rewrite EL, E. apply in_hids. apply in_or_app. right. left. reflexivity.
    + simpl. rewrite g_next_rset. simpl. congruence.
    + rewrite renv_rset. apply (abs_env _ _ A).
Qed.

Lemma add_head_ok : forall fuel k cb ud user flt st R,
  Abs st R -> WF R ->
  okres (add_head fuel k cb ud user flt st) (fun st' => Abs st' (r_add true k cb ud user flt R)).
Proof.
  intros fuel k cb ud user flt st R A W. unfold add_head. eapply okres_bind.
  { rewrite (abs_head _ _ A k). apply find_dup_ok. apply (abs_seg _ _ A). }
  intros b ->. unfold r_add. destruct (has_key cb ud (rget k R)) eqn:HK.
  { apply okres_ok. exact A. }
  unfold alloc. rewrite (abs_head _ _ A k).
  set (rn := mkRec (g_next R) cb ud user false flt).
  change (mkItem cb ud user false flt (hd_or (rget k R) None)) with (item_of rn (hd_or (rget k R) None)).
  pose proof (abs_next _ _ A) as HN.
  apply okres_ok. apply abs_change with (st := st) (R := R) (k := k); auto.
  - rewrite get_set_head_same, rget_rset_same. simpl. congruence.
  - rewrite rget_rset_same, heap_set_head. simpl. split.
    + rewrite HN. apply upd_same.
    + try rewrite rget_rset_next. apply seg_frame with (h := heap st); [|apply (abs_seg _ _ A)].
      intros q Hq. apply upd_other. pose proof (wf_lt _ W _ _ Hq). lia.
  - intros k' N. split.
    + rewrite get_set_head_other; auto.
    + rewrite rget_rset_other; auto.
  - intros p _ Hp. rewrite heap_set_head. simpl. apply upd_other. lia.
  - rewrite nextp_set_head, g_next_rset. simpl. congruence.
  - rewrite env_set_head, renv_rset. apply (abs_env _ _ A).
Qed.

Lemma id_set_set : forall A id (v w : option A) m, id_set id v (id_set id w m) = id_set id v m.
Proof.
  induction m as [|[k x] m IH]; simpl.
  - rewrite str_eqb_refl. reflexivity.
  - destruct (str_eqb k id) eqn:E; simpl; rewrite E; auto. rewrite IH. reflexivity.
Qed.

Lemma rset_rset : forall k l l1 R, rset k l (rset k l1 R) = rset k l R.
Proof. destruct k; simpl; auto. intros. rewrite id_set_set. reflexivity. Qed.

Lemma abs_rset_id : forall st R k l, Abs st R -> rget k R = l -> Abs st (rset k l R).
Proof.
  intros st R k l A E.
  assert (X : forall k', rget k' (rset k l R) = rget k' R).
  { intro k'. destruct (kind_eq_dec k' k) as [->|N]; [rewrite rget_rset_same; auto | apply rget_rset_other; auto]. }
  constructor.
  - intro k'. rewrite X. apply (abs_head _ _ A).
  - intro k'. rewrite X. apply (abs_seg _ _ A).
  - rewrite g_next_rset. apply (abs_next _ _ A).
  - rewrite renv_rset. apply (abs_env _ _ A).
Qed.

Lemma wf_rset_id : forall R k l, WF R -> rget k R = l -> WF (rset k l R).
Proof.
  intros R k l W E. apply wf_rset; auto.
  - rewrite <- E. apply (wf_nodup _ W).
  - intros r Hr. rewrite E. apply in_hids. auto.
Qed.

Lemma wf_update : forall R k pre r r' suf,
  WF R -> rget k R = pre ++ r :: suf -> hid r' = hid r -> WF (rset k (pre ++ r' :: suf) R).
Proof.
  intros R k pre r r' suf W E H. apply wf_rset; auto.
  - rewrite (hids_mid _ _ _ _ H). rewrite <- E. apply (wf_nodup _ W).
  - intros q Hq. rewrite E. rewrite <- (hids_mid _ _ _ _ H). apply in_hids. auto.
Qed.

Lemma wf_unlink : forall R k pre r suf,
  WF R -> rget k R = pre ++ r :: suf -> WF (rset k (pre ++ suf) R).
Proof.
  intros R k pre r suf W E. pose proof (wf_nodup _ W k) as ND. rewrite E in ND.
  apply wf_rset; auto.
  - apply (nodup_mid _ _ _ ND).
  - intros q Hq. rewrite E. apply in_hids. apply in_app_or in Hq. apply in_or_app. simpl. tauto.
Qed.

Lemma notin_after_unlink : forall R k pre r suf,
  WF R -> rget k R = pre ++ r :: suf ->
  forall k', ~ In (hid r) (hids (rget k' (rset k (pre ++ suf) R))).
Proof.
  intros R k pre r suf W E k' Hin. pose proof (wf_nodup _ W k) as ND. rewrite E in ND.
  destruct (nodup_mid _ _ _ ND) as [N1 [N2 _]].
  apply in_hids_inv in Hin. destruct Hin as [q [Hq Eq]].
  destruct (kind_eq_dec k' k) as [->|N].
  - rewrite rget_rset_same in Hq. apply in_app_or in Hq. destruct Hq as [Hq|Hq]; [eapply N1 | eapply N2]; eauto.
  - rewrite rget_rset_other in Hq; auto. apply N.
    eapply (wf_disj _ W); [exact Hq | | exact Eq]. rewrite E. apply in_or_app. right. left. reflexivity.
Qed.

(* enable_all *)
Lemma enable_all_ok : forall suf fuel st R pre k,
  Abs st R -> WF R -> rget k R = pre ++ suf ->
  okres (enable_all fuel st (hd_or suf None))
        (fun st' => Abs st' (rset k (pre ++ map (fun r => rec_enabled r true) suf) R)).
Proof.
  induction suf as [|r suf IH]; intros fuel st R pre k A W E; destruct fuel; simpl; try (left; reflexivity).
  - apply okres_ok. apply abs_rset_id; auto.
  - rewrite (abs_rd _ _ _ _ _ _ A E). simpl bind.
    pose proof (abs_seg _ _ A k) as S. rewrite E in S. apply seg_app in S. destruct S as [_ [S _]].
    erewrite wr_ok by exact S. simpl bind.
    change (it_enabled (item_of r (hd_or suf None)) true) with (item_of (rec_enabled r true) (hd_or suf None)).
    pose proof (abs_update _ _ _ _ _ (rec_enabled r true) _ A W E eq_refl) as A1.
    pose proof (wf_update _ _ _ _ (rec_enabled r true) _ W E eq_refl) as W1.
    set (R1 := rset k (pre ++ rec_enabled r true :: suf) R) in *.
    assert (E1 : rget k R1 = (pre ++ [rec_enabled r true]) ++ suf).
    { unfold R1. rewrite rget_rset_same, <- app_assoc. reflexivity. }
    eapply okres_weaken. { apply (IH fuel _ R1 _ k A1 W1 E1). }
    intros st' A'. unfold R1 in A'. rewrite rset_rset, <- app_assoc in A'. exact A'.
Qed.

Lemma stamp_item_of : forall k r nx now, stamp k (item_of r nx) now = item_of (rec_stamp k now r) nx.
Proof. intros. unfold stamp, rec_stamp. simpl. destruct k; auto; destruct (r_flt r); auto. Qed.

Lemma hid_rec_stamp : forall k now r, hid (rec_stamp k now r) = hid r.
Proof. intros. unfold rec_stamp. destruct k; auto; destruct (r_flt r); auto. Qed.

Lemma reset_timed_ok : forall suf fuel u st R pre,
  Abs st R -> WF R -> rget KTimed R = pre ++ suf ->
  okres (reset_timed fuel u st (hd_or suf None))
        (fun st' => Abs st' (rset KTimed (pre ++ map (fun r => if (u && r_user r) || negb u then rec_stamp KTimed (g_clock R) r else r) suf) R)).
Proof.
  induction suf as [|r suf IH]; intros fuel u st R pre A W E; destruct fuel; cbn [reset_timed hd_or map]; try (left; reflexivity).
  - apply okres_ok. apply abs_rset_id; auto.
  - rewrite (abs_rd _ _ _ _ _ _ A E). cbn [bind].
    pose proof (abs_seg _ _ A KTimed) as S. rewrite E in S. apply seg_app in S. destruct S as [_ [S _]].
    assert (HC : clock st = g_clock R) by (pose proof (abs_env _ _ A) as X; unfold env, renv in X; congruence).
    change (i_user (item_of r (hd_or suf None))) with (r_user r).
    destruct ((u && r_user r) || negb u) eqn:C.
    + erewrite wr_ok by exact S. cbn [bind]. rewrite stamp_item_of, HC.
      set (r' := rec_stamp KTimed (g_clock R) r).
      assert (Hh : hid r' = hid r) by apply hid_rec_stamp.
      pose proof (abs_update _ _ _ _ _ r' _ A W E Hh) as A1.
      pose proof (wf_update _ _ _ _ r' _ W E Hh) as W1.
      set (R1 := rset KTimed (pre ++ r' :: suf) R) in *.
      assert (E1 : rget KTimed R1 = (pre ++ [r']) ++ suf).
      { unfold R1. rewrite rget_rset_same, <- app_assoc. reflexivity. }
      eapply okres_weaken. { apply (IH fuel u _ R1 _ A1 W1 E1). }
      intros st' A'. unfold R1 in A'. rewrite rset_rset, <- app_assoc in A'.
      replace (g_clock (rset KTimed (pre ++ r' :: suf) R)) with (g_clock R) in A' by reflexivity. exact A'.
    + cbn [bind].
      assert (E1 : rget KTimed R = (pre ++ [r]) ++ suf) by (rewrite <- app_assoc; exact E).
      eapply okres_weaken. { apply (IH fuel u _ R _ A W E1). }
      intros st' A'. rewrite <- app_assoc in A'. exact A'.
Qed.

(* where a walk stands: at the list head, or behind the last element already passed *)
Definition prev_ok (prev : option nat) (done : list hrec) : Prop :=
  (done = [] /\ prev = None) \/ (exists pre p, done = pre ++ [p] /\ prev = Some (hid p)).

Lemma prev_ok_snoc : forall done r, prev_ok (Some (hid r)) (done ++ [r]).
Proof. intros. right. eauto. Qed.

(* unlink (head or inner) as the model performs it *)
Lemma unlink_ok : forall st R k prev done r suf,
  Abs st R -> WF R -> rget k R = done ++ r :: suf -> prev_ok prev done ->
  okres (match prev with
         | None => Ok (set_head k (hd_or suf None) st)
         | Some p => pit <- rd st p ;; wr st p (it_next pit (hd_or suf None))
         end)
        (fun st' => Abs st' (rset k (done ++ suf) R) /\ heap st' (hid r) = heap st (hid r)).
Proof.
  intros st R k prev done r suf A W E [[-> ->] | [pre [p [-> ->]]]].
  - apply okres_ok. split.
    + simpl in *. eapply abs_unlink_head; eauto.
    + rewrite heap_set_head. reflexivity.
  - assert (E' : rget k R = pre ++ p :: r :: suf) by (rewrite E, <- app_assoc; reflexivity).
    rewrite (abs_rd _ _ _ _ _ _ A E'). simpl bind.
    pose proof (abs_seg _ _ A k) as S. rewrite E' in S. apply seg_app in S. destruct S as [_ [S _]].
    erewrite wr_ok by exact S. apply okres_ok.
    change (it_next (item_of p (hd_or (r :: suf) None)) (hd_or suf None)) with (item_of p (hd_or suf None)).
    split.
    + eapply abs_unlink_mid; eauto.
    + simpl. apply upd_other.
      pose proof (wf_nodup _ W k) as ND. rewrite E' in ND. destruct (nodup_mid _ _ _ ND) as [_ [N2 _]].
      intro X. apply (N2 r); [left; reflexivity | auto].
Qed.

Lemma delete_by_ok : forall sel selr, (forall r nx, sel (item_of r nx) = selr r) ->
  forall todo fuel st R done k prev,
  Abs st R -> WF R -> rget k R = done ++ todo -> prev_ok prev done ->
  okres (delete_by fuel k sel st prev (hd_or todo None))
        (fun st' => Abs st' (rset k (done ++ filter (fun r => negb (selr r)) todo) R)).
Proof.
  intros sel selr Hsel.
  induction todo as [|r todo IH]; intros fuel st R done k prev A W E P; destruct fuel;
    cbn [delete_by hd_or filter]; try (left; reflexivity).
  - apply okres_ok. apply abs_rset_id; auto.
  - rewrite (abs_rd _ _ _ _ _ _ A E). cbn [bind]. rewrite Hsel.
    change (i_next (item_of r (hd_or todo None))) with (hd_or todo None).
    destruct (selr r) eqn:C; cbn [negb].
    + eapply okres_bind. { eapply unlink_ok; eauto. }
      intros st1 [A1 H1].
      pose proof (abs_seg _ _ A k) as S. rewrite E in S. apply seg_app in S. destruct S as [_ [S _]].
      rewrite <- H1 in S. erewrite free_ok by exact S. cbn [bind].
      pose proof (wf_unlink _ _ _ _ _ W E) as W1.
      pose proof (abs_free _ _ (hid r) A1 (notin_after_unlink _ _ _ _ _ W E)) as A2.
      set (R1 := rset k (done ++ todo) R) in *.
      assert (E1 : rget k R1 = done ++ todo) by (unfold R1; apply rget_rset_same).
      eapply okres_weaken. { apply (IH fuel _ R1 done k prev A2 W1 E1 P). }
      intros st' A'. unfold R1 in A'. rewrite rset_rset in A'. exact A'.
    + assert (E1 : rget k R = (done ++ [r]) ++ todo) by (rewrite <- app_assoc; exact E).
      eapply okres_weaken. { apply (IH fuel st R (done ++ [r]) k (Some (hid r)) A W E1 (prev_ok_snoc _ _)). }
      intros st' A'. rewrite <- app_assoc in A'. exact A'.
Qed.

Lemma item_remove_ok : forall pre2 fuel st R done k loc r suf,
  Abs st R -> WF R -> rget k R = done ++ pre2 ++ r :: suf -> prev_ok loc done ->
  okres (item_remove fuel k st loc (hid r))
        (fun st' => Abs st' (rset k (done ++ pre2 ++ suf) R) /\ heap st' (hid r) = heap st (hid r)).
Proof.
  induction pre2 as [|q pre2 IH]; intros fuel st R done k loc r suf A W E P; destruct fuel;
    cbn [item_remove]; try (left; reflexivity).
  - (* found *)
    assert (C : (match loc with
                 | None => Ok (get_head k st)
                 | Some p => pit <- rd st p ;; Ok (i_next pit)
                 end) = Ok (Some (hid r))).
    { destruct P as [[-> ->] | [pre [p [-> ->]]]].
      - rewrite (abs_head _ _ A k), E. reflexivity.
      - assert (E' : rget k R = pre ++ p :: r :: suf) by (rewrite E, <- app_assoc; reflexivity).
        rewrite (abs_rd _ _ _ _ _ _ A E'). reflexivity. }
    rewrite C. cbn [bind]. rewrite Nat.eqb_refl.
    simpl app in E. rewrite (abs_rd _ _ _ _ _ _ A E). cbn [bind].
    change (i_next (item_of r (hd_or suf None))) with (hd_or suf None).
    simpl app. eapply unlink_ok; eauto.
  - assert (C : (match loc with
                 | None => Ok (get_head k st)
                 | Some p => pit <- rd st p ;; Ok (i_next pit)
                 end) = Ok (Some (hid q))).
    { destruct P as [[-> ->] | [pre [p [-> ->]]]].
      - rewrite (abs_head _ _ A k), E. reflexivity.
      - assert (E' : rget k R = pre ++ p :: (q :: pre2) ++ r :: suf) by (rewrite E, <- app_assoc; reflexivity).
        rewrite (abs_rd _ _ _ _ _ _ A E'). reflexivity. }
    rewrite C. cbn [bind].
    assert (NE : Nat.eqb (hid q) (hid r) = false).
    { apply Nat.eqb_neq. pose proof (wf_nodup _ W k) as ND. rewrite E in ND.
      rewrite app_assoc in ND. destruct (nodup_mid _ _ _ ND) as [N1 _].
      apply N1. apply in_or_app. right. left. reflexivity. }
    rewrite NE.
    assert (E1 : rget k R = (done ++ [q]) ++ pre2 ++ r :: suf) by (rewrite <- app_assoc; exact E).
    eapply okres_weaken. { apply (IH fuel st R (done ++ [q]) k (Some (hid q)) r suf A W E1 (prev_ok_snoc _ _)). }
    intros st' [A' H']. rewrite <- app_assoc in A'. split; auto.
Qed.

(* ------------------------------------------------------------------ actions *)
Lemma abs_same_lists : forall st R st' R',
  Abs st R -> (forall k, get_head k st' = get_head k st) -> heap st' = heap st -> nextp st' = nextp st ->
  (forall k, rget k R' = rget k R) -> g_next R' = g_next R -> env st' = renv R' -> Abs st' R'.
Proof.
  intros st R st' R' A Hh Hp Hn Hl Hg He. constructor; auto.
  - intro k. rewrite Hh, Hl. apply (abs_head _ _ A).
  - intro k. rewrite Hp, Hl. apply (abs_seg _ _ A).
  - rewrite Hn, Hg. apply (abs_next _ _ A).
Qed.

Lemma wf_same_lists : forall R R', WF R -> (forall k, rget k R' = rget k R) -> g_next R' = g_next R -> WF R'.
Proof.
  intros R R' W Hl Hg. constructor.
  - intro k. rewrite Hl. apply (wf_nodup _ W).
  - intros k r. rewrite Hl, Hg. apply (wf_lt _ W).
  - intros k1 k2 r1 r2. rewrite !Hl. apply (wf_disj _ W).
Qed.

Lemma env_eqs : forall st R, Abs st R ->
  neg st = g_neg R /\ connected st = g_conn R /\ clock st = g_clock R /\ sendq st = g_sendq R /\ log st = g_log R.
Proof. intros st R A. pose proof (abs_env _ _ A) as X. unfold env, renv in X. inversion X. auto. Qed.

Lemma do_action_ok : forall fuel a st R,
  Abs st R -> WF R -> okres (do_action fuel a st) (fun st' => Abs st' (r_action a R)).
Proof.
  intros fuel a st R A W. destruct (env_eqs _ _ A) as [E1 [E2 [E3 [E4 E5]]]].
  destruct a; cbn [do_action r_action].
  - apply add_tail_ok; auto.
  - apply add_tail_ok; auto.
  - rewrite E3. apply add_head_ok; auto.
  - rewrite E3. apply add_head_ok; auto.
  - rewrite (abs_head _ _ A k).
    eapply okres_weaken.
    { apply (delete_by_ok (fun it => i_cb it =? cb) (fun r => r_cb r =? cb)) with (R := R) (done := []); auto.
      left. auto. }
    intros st' A'. exact A'.
  - apply okres_ok. rewrite E2. destruct (g_conn R) eqn:EC; auto.
    eapply abs_same_lists; eauto; try (intro k; destruct k; reflexivity).
    unfold env, renv. simpl. congruence.
  - apply okres_ok. eapply abs_same_lists; eauto; try (intro k; destruct k; reflexivity).
    unfold env, renv. simpl. congruence.
Qed.

Lemma wf_r_add : forall at_head k cb ud user flt R, WF R -> WF (r_add at_head k cb ud user flt R).
Proof.
  intros. unfold r_add. destruct (has_key cb ud (rget k R)); auto.
  pose proof (wf_add_new R k at_head (mkRec (g_next R) cb ud user false flt) H eq_refl) as X. exact X.
Qed.

Lemma wf_action : forall a R, WF R -> WF (r_action a R).
Proof.
  intros a R W. destruct a; cbn [r_action]; try (apply wf_r_add; auto).
  - apply wf_filter. auto.
  - destruct (g_conn R); auto. eapply wf_same_lists; eauto; try (intro k; destruct k; reflexivity).
  - eapply wf_same_lists; eauto; try (intro k; destruct k; reflexivity).
Qed.

Lemma wf_actions : forall acts R, WF R -> WF (r_actions acts R).
Proof. induction acts; simpl; auto. intros. apply IHacts. apply wf_action. auto. Qed.

Lemma do_actions_ok : forall fuel acts st R,
  Abs st R -> WF R -> okres (do_actions fuel acts st) (fun st' => Abs st' (r_actions acts R)).
Proof.
  induction acts as [|a acts IH]; intros st R A W; cbn [do_actions r_actions].
  - apply okres_ok. auto.
  - eapply okres_bind. { apply do_action_ok; eauto. }
    intros st1 A1. apply IH; auto. apply wf_action. auto.
Qed.

(* ------------------------------------------------------------------ snapshots and evolving lists *)
Definition present (l : list hrec) (h : nat) : bool := existsb (fun r => Nat.eqb (hid r) h) l.
Definition vis (k : kind) (r : hrec) : bool := match k with KGlobal => true | _ => r_enabled r end.

Lemma present_in : forall l h, present l h = true <-> In h (hids l).
Proof.
  intros. unfold present. rewrite existsb_exists. split.
  - intros [r [Hr E]]. apply Nat.eqb_eq in E. subst. apply in_hids. auto.
  - intro H. apply in_hids_inv in H. destruct H as [r [Hr E]]. exists r. split; auto. apply Nat.eqb_eq. auto.
Qed.

Lemma present_app : forall l1 l2 h, present (l1 ++ l2) h = present l1 h || present l2 h.
Proof. intros. unfold present. apply existsb_app. Qed.

Lemma present_filter_false : forall p l h, present l h = false -> present (filter p l) h = false.
Proof.
  intros p l h H. destruct (present (filter p l) h) eqn:E; auto.
  apply present_in in E. apply in_hids_inv in E. destruct E as [r [Hr Er]]. apply filter_In in Hr.
  assert (present l h = true) by (apply present_in; rewrite <- Er; apply in_hids; tauto). congruence.
Qed.

Lemma present_filter_unique : forall p l s, NoDup (hids l) -> In s l -> present (filter p l) (hid s) = p s.
Proof.
  intros p l s ND Hs. destruct (p s) eqn:E.
  - apply present_in. apply in_hids. apply filter_In. auto.
  - destruct (present (filter p l) (hid s)) eqn:P; auto.
    apply present_in in P. apply in_hids_inv in P. destruct P as [q [Hq Eq]]. apply filter_In in Hq. destruct Hq as [Hq Pq].
    assert (q = s).
    { clear -ND Hq Hs Eq. induction l as [|a l IH]; simpl in *; [contradiction|].
      inversion ND; subst. destruct Hq as [->|Hq]; destruct Hs as [->|Hs]; auto.
      - exfalso. apply H1. rewrite Eq. apply in_hids. auto.
      - exfalso. apply H1. rewrite <- Eq. apply in_hids. auto. }
    subst q. congruence.
Qed.

Lemma hids_cons_inv : forall S h t, hids S = h :: t -> exists s S', S = s :: S' /\ hid s = h /\ hids S' = t.
Proof. intros [|s S'] h t H; simpl in H; [discriminate|]. inversion H. eauto. Qed.

(* filtering the list filters the part of the snapshot still to be served *)
Lemma J_filter : forall p l, NoDup (hids l) -> forall rest S,
  incl S l -> hids S = filter (present l) rest -> hids (filter p S) = filter (present (filter p l)) rest.
Proof.
  intros p l ND. induction rest as [|h rest IH]; intros S Hin E; simpl in *.
  - destruct S; [reflexivity | discriminate].
  - destruct (present l h) eqn:P.
    + apply hids_cons_inv in E. destruct E as [s [S' [-> [Hs E']]]]. subst h.
      assert (Hsl : In s l) by (apply Hin; left; reflexivity).
      rewrite (present_filter_unique p l s ND Hsl). simpl.
      assert (Hin' : incl S' l) by (intros q Hq; apply Hin; right; auto).
      destruct (p s); simpl; rewrite (IH S' Hin' E'); reflexivity.
    + rewrite (present_filter_false p l h P). apply IH; auto.
Qed.

Lemma filter_comm : forall A (p q : A -> bool) l, filter p (filter q l) = filter q (filter p l).
Proof.
  induction l as [|a l IH]; simpl; auto.
  destruct (q a) eqn:Q; destruct (p a) eqn:P; simpl; rewrite ?Q, ?P, IH; reflexivity.
Qed.

Lemma filter_ext_in' : forall A (p q : A -> bool) l, (forall a, In a l -> p a = q a) -> filter p l = filter q l.
Proof.
  induction l as [|a l IH]; simpl; intro H; auto.
  rewrite (H a) by auto. rewrite IH; auto.
Qed.

(* the loop invariant carried across the actions of a callback: [r] (the item being served) is still on
   list [k], and what follows it, restricted to visible items, is the part of the snapshot [rest] that is
   still registered *)
Definition J (k : kind) (r : hrec) (rest : list nat) (R : reg) : Prop :=
  exists pre suf, rget k R = pre ++ r :: suf /\
                  hids (filter (vis k) suf) = filter (present (rget k R)) rest.

Definition below (n : nat) (rest : list nat) : Prop := forall h, In h rest -> (h < n)%nat.

Lemma J_add : forall k r rest at_head ka cb ud user flt R,
  WF R -> below (g_next R) rest -> (at_head = false -> ka <> KGlobal) ->
  J k r rest R -> J k r rest (r_add at_head ka cb ud user flt R).
Proof.
  intros k r rest at_head ka cb ud user flt R W B Hk [pre [suf [E Q]]].
  unfold r_add. destruct (has_key cb ud (rget ka R)); [exists pre, suf; auto|].
  set (rn := mkRec (g_next R) cb ud user false flt).
  destruct (kind_eq_dec k ka) as [->|N].
  - assert (P : forall l2, filter (present l2) rest = filter (fun h => present l2 h || Nat.eqb (hid rn) h) rest).
    { intro l2. apply filter_ext_in'. intros h Hh. replace (Nat.eqb (hid rn) h) with false; [rewrite orb_false_r; auto|].
      symmetry. apply Nat.eqb_neq. simpl. pose proof (B h Hh). lia. }
    destruct at_head.
    + exists (rn :: pre), suf. rewrite rget_rset_same. split; [rewrite E; reflexivity|].
      rewrite Q, E. rewrite (P (pre ++ r :: suf)). apply filter_ext_in'. intros h _. simpl. rewrite orb_comm. reflexivity.
    + exists pre, (suf ++ [rn]). rewrite rget_rset_same. split; [rewrite E, <- app_assoc; reflexivity|].
      rewrite filter_app. simpl.
      assert (V : vis ka rn = false) by (destruct ka; auto; exfalso; apply Hk; auto).
      rewrite V, app_nil_r, Q, E. rewrite (P (pre ++ r :: suf)). apply filter_ext_in'. intros h _.
      rewrite (present_app (pre ++ r :: suf) [rn]). f_equal. unfold present. simpl. symmetry. apply orb_false_r.
  - exists pre, suf. rewrite rget_rset_other, rget_rset_next; auto.
Qed.

Lemma filter_mid : forall (p : hrec -> bool) pre r suf, p r = true ->
  filter p (pre ++ r :: suf) = filter p pre ++ r :: filter p suf.
Proof. intros. rewrite filter_app. simpl. rewrite H. reflexivity. Qed.

Lemma J_del : forall k r rest kd cb R,
  WF R -> (kd = k -> r_cb r <> cb) -> J k r rest R -> J k r rest (r_del kd cb R).
Proof.
  intros k r rest kd cb R W Hne [pre [suf [E Q]]]. unfold r_del.
  destruct (kind_eq_dec k kd) as [->|N].
  - set (p := fun q => negb (r_cb q =? cb)).
    assert (Pr : p r = true).
    { unfold p. apply negb_true_iff. apply Z.eqb_neq. apply Hne. reflexivity. }
    exists (filter p pre), (filter p suf). rewrite rget_rset_same. split.
    + rewrite E. apply filter_mid. auto.
    + rewrite filter_comm. apply J_filter; auto.
      * apply (wf_nodup _ W).
      * intros q Hq. apply filter_In in Hq. rewrite E. apply in_or_app. right. right. tauto.
  - exists pre, suf. rewrite rget_rset_other; auto.
Qed.

Lemma g_next_r_add : forall at_head k cb ud user flt R, (g_next R <= g_next (r_add at_head k cb ud user flt R))%nat.
Proof. intros. unfold r_add. destruct (has_key cb ud (rget k R)); auto. rewrite g_next_rset. simpl. lia. Qed.

Lemma g_next_action : forall a R, (g_next R <= g_next (r_action a R))%nat.
Proof.
  intros a R. destruct a; cbn [r_action]; try apply g_next_r_add.
  - unfold r_del. rewrite g_next_rset. lia.
  - destruct (g_conn R); simpl; lia.
  - simpl. lia.
Qed.

Lemma J_action : forall k r rest a R,
  WF R -> below (g_next R) rest -> del_cb a <> Some (r_cb r) -> J k r rest R -> J k r rest (r_action a R).
Proof.
  intros k r rest a R W B Hd Hj. destruct a; cbn [r_action].
  - apply J_add; auto. congruence.
  - apply J_add; auto. congruence.
  - apply J_add; auto. congruence.
  - apply J_add; auto. congruence.
  - apply J_del; auto. intros _ E. apply Hd. simpl. congruence.
  - destruct (g_conn R); auto.
  - exact Hj.
Qed.

Lemma J_actions : forall k r rest acts R,
  WF R -> below (g_next R) rest -> (forall a, In a acts -> del_cb a <> Some (r_cb r)) ->
  J k r rest R -> J k r rest (r_actions acts R).
Proof.
  induction acts as [|a acts IH]; intros R W B Hd Hj; cbn [r_actions]; auto.
  apply IH.
  - apply wf_action; auto.
  - intros h Hh. pose proof (B h Hh). pose proof (g_next_action a R). lia.
  - intros b Hb. apply Hd. right. auto.
  - apply J_action; auto. apply Hd. left. reflexivity.
Qed.

(* ------------------------------------------------------------------ the dispatch loop *)
Lemma str_eqb_sym : forall a b, str_eqb a b = str_eqb b a.
Proof.
  intros a b. destruct (str_eqb a b) eqn:E.
  - apply str_eqb_eq in E. subst. symmetry. apply str_eqb_refl.
  - symmetry. apply str_eqb_neq. intro X. subst. rewrite str_eqb_refl in E. discriminate.
Qed.

Lemma opt_match_eq : forall flt v, opt_match flt v = match flt with None => true | Some _ => ostr_eqb v flt end.
Proof. intros [f|] [x|]; reflexivity. Qed.

Lemma child_by_ns_eq : forall ch f, child_by_ns ch f = existsb (fun c => ostr_eqb c (Some f)) ch.
Proof.
  induction ch as [|[c|] ch IH]; intro f; simpl; auto.
  rewrite (str_eqb_sym f c). destruct (str_eqb c f); simpl; auto.
Qed.

Lemma fmatch_eq : forall k r nx sz now, fmatch k (item_of r nx) sz now = s_match k r sz now.
Proof.
  intros. unfold fmatch, s_match. simpl. destruct k; auto. destruct (r_flt r); auto.
  unfold s_match_stanza. rewrite !opt_match_eq. f_equal. f_equal.
  unfold ns_match. destruct ns as [f|]; auto. rewrite child_by_ns_eq. reflexivity.
Qed.

Lemma gate_eq : forall k st R r nx, neg st = g_neg R -> vis k r = true ->
  gate k st (item_of r nx) = s_gate k R r.
Proof.
  intros k st R r nx E V. unfold gate, s_gate. destruct k; simpl in *; rewrite ?V, ?E, ?andb_true_r; reflexivity.
Qed.

Lemma gate_invisible : forall k st r nx, vis k r = false -> gate k st (item_of r nx) = false.
Proof. intros k st r nx V. unfold gate. destruct k; simpl in *; try discriminate; rewrite V; apply andb_false_r. Qed.

Lemma find_rec_mid : forall pre r suf, NoDup (hids (pre ++ r :: suf)) -> find_rec (hid r) (pre ++ r :: suf) = Some r.
Proof.
  intros pre r suf ND. destruct (nodup_mid _ _ _ ND) as [N1 _]. unfold find_rec.
  induction pre as [|q pre IH]; simpl.
  - rewrite Nat.eqb_refl. reflexivity.
  - replace (Nat.eqb (hid q) (hid r)) with false.
    + apply IH.
      * simpl in ND. inversion ND; auto.
      * intros a Ha. apply N1. right. auto.
    + symmetry. apply Nat.eqb_neq. apply N1. left. reflexivity.
Qed.

Lemma find_rec_absent : forall l x, present l x = false -> find_rec x l = None.
Proof.
  unfold present, find_rec. induction l as [|q l IH]; simpl; intros x H; auto.
  apply orb_false_iff in H. destruct H as [H1 H2]. rewrite H1. auto.
Qed.

Lemma spec_loop_skip : forall sc k sz a rest R,
  (forall h, In h a -> present (rget k R) h = false) ->
  spec_loop sc k sz (a ++ rest) R = spec_loop sc k sz rest R.
Proof.
  induction a as [|h a IH]; intros rest R H; simpl; auto.
  rewrite (find_rec_absent _ _ (H h (or_introl eq_refl))). apply IH. intros. apply H. right. auto.
Qed.

Lemma filter_cons_split : forall (p : nat -> bool) rest x T, filter p rest = x :: T ->
  exists a rest', rest = a ++ x :: rest' /\ (forall h, In h a -> p h = false) /\ p x = true /\ filter p rest' = T.
Proof.
  induction rest as [|h rest IH]; simpl; intros x T H; [discriminate|].
  destruct (p h) eqn:P.
  - inversion H; subst. exists [], rest. repeat split; auto. intros h [].
  - destruct (IH _ _ H) as [a [rest' [E [Ha [Px ET]]]]]. exists (h :: a), rest'. subst. repeat split; auto.
    intros q [->|Hq]; auto.
Qed.

Lemma map_update_mid : forall (f : hrec -> hrec) pre r suf, NoDup (hids (pre ++ r :: suf)) ->
  map (fun q => if Nat.eqb (hid q) (hid r) then f q else q) (pre ++ r :: suf) = pre ++ f r :: suf.
Proof.
  intros f pre r suf ND. destruct (nodup_mid _ _ _ ND) as [N1 [N2 _]].
  assert (X : forall l, (forall q, In q l -> hid q <> hid r) ->
              map (fun q => if Nat.eqb (hid q) (hid r) then f q else q) l = l).
  { induction l as [|q l IH]; simpl; intro H; auto.
    replace (Nat.eqb (hid q) (hid r)) with false by (symmetry; apply Nat.eqb_neq; apply H; left; auto).
    rewrite IH; [reflexivity|]. intros. apply H. right. auto. }
  rewrite map_app. simpl. rewrite Nat.eqb_refl. rewrite (X pre N1), (X suf N2). reflexivity.
Qed.

Lemma filter_remove_mid : forall pre r suf, NoDup (hids (pre ++ r :: suf)) ->
  filter (fun q => negb (Nat.eqb (hid q) (hid r))) (pre ++ r :: suf) = pre ++ suf.
Proof.
  intros pre r suf ND. destruct (nodup_mid _ _ _ ND) as [N1 [N2 _]].
  assert (X : forall l, (forall q, In q l -> hid q <> hid r) ->
              filter (fun q => negb (Nat.eqb (hid q) (hid r))) l = l).
  { induction l as [|q l IH]; simpl; intro H; auto.
    replace (Nat.eqb (hid q) (hid r)) with false by (symmetry; apply Nat.eqb_neq; apply H; left; auto).
    simpl. rewrite IH; [reflexivity|]. intros. apply H. right. auto. }
  rewrite filter_app. simpl. rewrite Nat.eqb_refl. simpl. rewrite (X pre N1), (X suf N2). reflexivity.
Qed.

Lemma present_hids : forall l1 l2 h, hids l1 = hids l2 -> present l1 h = present l2 h.
Proof.
  intros l1 l2 h E. destruct (present l1 h) eqn:P1; destruct (present l2 h) eqn:P2; auto.
  - apply present_in in P1. rewrite E in P1. apply present_in in P1. congruence.
  - apply present_in in P2. rewrite <- E in P2. apply present_in in P2. congruence.
Qed.

Lemma g_next_actions : forall acts R, (g_next R <= g_next (r_actions acts R))%nat.
Proof.
  induction acts as [|a acts IH]; intro R; simpl; auto.
  pose proof (g_next_action a R). pose proof (IH (r_action a R)). lia.
Qed.

Lemma cb_rec_stamp : forall k now r, r_cb (rec_stamp k now r) = r_cb r.
Proof. intros. unfold rec_stamp. destruct k; auto; destruct (r_flt r); auto. Qed.

Lemma spec_loop_absent : forall sc k sz rest R,
  filter (present (rget k R)) rest = [] -> spec_loop sc k sz rest R = R.
Proof.
  intros. rewrite <- (app_nil_r rest). rewrite spec_loop_skip; auto.
  intros h Hh. destruct (present (rget k R) h) eqn:P; auto.
  assert (In h (filter (present (rget k R)) rest)) by (apply filter_In; auto). rewrite H in H0. contradiction.
Qed.

Lemma nodup_app_r : forall (a b : list nat), NoDup (a ++ b) -> NoDup b.
Proof. induction a; simpl; intros b H; auto. inversion H; auto. Qed.

Lemma g_fields_rset : forall k l R,
  g_log (rset k l R) = g_log R /\ g_clock (rset k l R) = g_clock R /\ g_neg (rset k l R) = g_neg R /\
  g_conn (rset k l R) = g_conn R /\ g_sendq (rset k l R) = g_sendq R.
Proof. destruct k; simpl; auto. Qed.

Lemma fire_loop_ok : forall sc k sz, others_only sc ->
  forall fuel st R pre suf rest,
  Abs st R -> WF R -> rget k R = pre ++ suf -> NoDup rest -> below (g_next R) rest ->
  hids (filter (vis k) suf) = filter (present (rget k R)) rest ->
  okres (fire_loop sc fuel k sz st (hd_or suf None)) (fun st' => Abs st' (spec_loop sc k sz rest R)).
Proof.
  intros sc k sz OO. induction fuel as [|f IH]; intros st R pre suf rest A W E ND B Q.
  { left. reflexivity. }
  destruct (env_eqs _ _ A) as [E1 [E2 [E3 [E4 E5]]]].
  destruct suf as [|r suf]; cbn [fire_loop hd_or].
  { apply okres_ok. simpl in Q. rewrite spec_loop_absent; auto. }
  rewrite (abs_rd _ _ _ _ _ _ A E). cbn [bind].
  change (i_next (item_of r (hd_or suf None))) with (hd_or suf None).
  assert (E' : rget k R = (pre ++ [r]) ++ suf) by (rewrite <- app_assoc; exact E).
  destruct (vis k r) eqn:V.
  2:{ (* a handler added during this dispatch: not enabled, passed over *)
      rewrite gate_invisible by exact V. cbn [negb].
      apply (IH st R (pre ++ [r]) suf rest A W E' ND B). simpl in Q. rewrite V in Q. exact Q. }
  cbn [filter] in Q. rewrite V in Q. simpl hids in Q. symmetry in Q.
  destruct (filter_cons_split _ _ _ _ Q) as [a [rest' [-> [Ha [Px QT]]]]].
  rewrite spec_loop_skip by exact Ha.
  assert (ND' : NoDup rest' /\ ~ In (hid r) rest').
  { apply NoDup_remove in ND. destruct ND as [N1 N2]. split.
    - apply nodup_app_r in N1. exact N1.
    - intro X. apply N2. apply in_or_app. right. exact X. }
  destruct ND' as [ND' NX].
  assert (B' : below (g_next R) rest').
  { intros h Hh. apply B. apply in_or_app. right. right. exact Hh. }
  pose proof (wf_nodup _ W k) as NDk. rewrite E in NDk.
  cbn [spec_loop]. rewrite E, (find_rec_mid _ _ _ NDk).
  rewrite (gate_eq k st R r _ E1 V), fmatch_eq, E3.
  destruct (s_gate k R r) eqn:G; cbn [negb andb].
  2:{ apply (IH st R (pre ++ [r]) suf rest' A W E' ND' B'). symmetry. exact QT. }
  destruct (s_match k r sz (g_clock R)) eqn:M; cbn [negb].
  2:{ apply (IH st R (pre ++ [r]) suf rest' A W E' ND' B'). symmetry. exact QT. }
  (* the handler fires *)
  pose proof (abs_seg _ _ A k) as S. rewrite E in S. apply seg_app in S. destruct S as [_ [S _]].
  erewrite wr_ok by exact S. cbn [bind]. rewrite stamp_item_of.
  set (r1 := rec_stamp k (g_clock R) r).
  assert (Hh1 : hid r1 = hid r) by apply hid_rec_stamp.
  pose proof (abs_update _ _ _ _ _ r1 _ A W E Hh1) as A1.
  pose proof (wf_update _ _ _ _ r1 _ W E Hh1) as W1.
  unfold r_update. rewrite E. rewrite (map_update_mid (rec_stamp k (g_clock R)) _ _ _ NDk). fold r1.
  set (st1 := set_heap st (upd (heap st) (hid r) (Some (item_of r1 (hd_or suf None)))) (nextp st)) in *.
  set (R1 := rset k (pre ++ r1 :: suf) R) in *.
  change (i_cb (item_of r (hd_or suf None))) with (r_cb r).
  change (i_ud (item_of r (hd_or suf None))) with (r_ud r).
  change (i_user (item_of r (hd_or suf None))) with (r_user r).
  destruct (g_fields_rset k (pre ++ r1 :: suf) R) as [F1 [F2 [F3 [F4 F5]]]]. fold R1 in F1, F2, F3, F4, F5.
  assert (L1 : log st1 = g_log R1) by (rewrite F1; exact E5).
  assert (C1 : clock st1 = g_clock R1) by (rewrite F2; exact E3).
  rewrite L1, C1.
  destruct (sc (g_log R1) (r_cb r) (r_ud r)) as [acts ret] eqn:SC.
  set (ev := EvCall (hid r) (r_cb r) (r_ud r) (r_user r) k (g_clock R1) ret).
  set (st2 := set_log st1 (ev :: g_log R1)).
  set (R2 := rset_log R1 (ev :: g_log R1)).
  assert (LL : forall kk, rget kk R2 = rget kk R1) by (intro kk; destruct kk; reflexivity).
  assert (A2 : Abs st2 R2).
  { apply abs_same_lists with (st := st1) (R := R1); auto; try (intro kk; destruct kk; reflexivity).
    destruct (env_eqs _ _ A1) as [X1 [X2 [X3 [X4 X5]]]]. unfold env, renv. simpl. congruence. }
  assert (W2 : WF R2) by (eapply wf_same_lists; eauto).
  assert (EK1 : rget k R1 = pre ++ r1 :: suf) by (unfold R1; apply rget_rset_same).
  assert (J2 : J k r1 rest' R2).
  { exists pre, suf. split.
    - rewrite LL. exact EK1.
    - rewrite <- QT. apply filter_ext_in'. intros h _. apply present_hids.
      rewrite LL, EK1, E. apply hids_mid. symmetry. exact Hh1. }
  assert (OOa : forall a0, In a0 acts -> del_cb a0 <> Some (r_cb r1)).
  { intros a0 Ha0. unfold r1. rewrite cb_rec_stamp. apply (OO (g_log R1) (r_cb r) (r_ud r)). rewrite SC. exact Ha0. }
  assert (GN : g_next R2 = g_next R) by (unfold R2, R1; simpl; apply g_next_rset).
  assert (B2 : below (g_next R2) rest') by (rewrite GN; exact B').
  destruct (J_actions k r1 rest' acts R2 W2 B2 OOa J2) as [pre3 [suf3 [EK3 Q3]]].
  eapply okres_bind. { apply (do_actions_ok f acts st2 R2 A2 W2). }
  intros st3 A3.
  set (R3 := r_actions acts R2) in *.
  assert (W3 : WF R3) by (apply wf_actions; auto).
  assert (B3 : below (g_next R3) rest').
  { intros h Hh. pose proof (B2 h Hh). pose proof (g_next_actions acts R2). fold R3 in H0. lia. }
  rewrite <- Hh1. rewrite (abs_rd _ _ _ _ _ _ A3 EK3). cbn [bind].
  change (i_next (item_of r1 (hd_or suf3 None))) with (hd_or suf3 None).
  destruct ret.
  - (* returned true: kept *)
    cbn [bind]. apply (IH st3 R3 (pre3 ++ [r1]) suf3 rest' A3 W3); auto.
    rewrite <- app_assoc. exact EK3.
  - (* returned false: unlinked from the current head and freed *)
    eapply (okres_bind _ _ _ _ (fun st4 => Abs st4 (rset k (pre3 ++ suf3) R3))).
    { eapply okres_bind.
      { apply (item_remove_ok pre3 f st3 R3 [] k None r1 suf3 A3 W3 EK3). left. auto. }
      intros st' [A' H'].
      pose proof (abs_seg _ _ A3 k) as S3. rewrite EK3 in S3. apply seg_app in S3. destruct S3 as [_ [S3 _]].
      rewrite <- H' in S3. erewrite free_ok by exact S3. apply okres_ok.
      apply (abs_free _ _ (hid r1) A' (notin_after_unlink _ _ _ _ _ W3 EK3)). }
    intros st4 A4.
    pose proof (wf_nodup _ W3 k) as ND3. rewrite EK3 in ND3.
    unfold r_remove. rewrite EK3, (filter_remove_mid _ _ _ ND3).
    apply (IH st4 (rset k (pre3 ++ suf3) R3) pre3 suf3 rest' A4); auto.
    + eapply wf_unlink; eauto.
    + apply rget_rset_same.
    + rewrite g_next_rset. exact B3.
    + rewrite rget_rset_same. rewrite Q3, EK3. apply filter_ext_in'. intros h Hh.
      rewrite !present_app. f_equal. unfold present. simpl.
      replace (Nat.eqb (hid r1) h) with false; auto.
      symmetry. apply Nat.eqb_neq. rewrite Hh1. intro X. subst h. contradiction.
Qed.

(* ------------------------------------------------------------------ registry-level invariants of a pass *)
Lemma wf_rset_log : forall R l, WF R -> WF (rset_log R l).
Proof. intros. eapply wf_same_lists; eauto; try (intro k; destruct k; reflexivity). Qed.

Lemma wf_r_update : forall k x f R, (forall r, hid (f r) = hid r) -> WF R -> WF (r_update k x f R).
Proof.
  intros. unfold r_update. apply wf_map; auto. intro r. destruct (Nat.eqb (hid r) x); auto.
Qed.

Lemma wf_r_remove : forall k x R, WF R -> WF (r_remove k x R).
Proof. intros. unfold r_remove. apply wf_filter. auto. Qed.

Lemma wf_spec_loop : forall sc k sz rest R, WF R -> WF (spec_loop sc k sz rest R).
Proof.
  induction rest as [|x rest IH]; intros R W; cbn [spec_loop]; auto.
  destruct (find_rec x (rget k R)) as [r|]; auto.
  destruct (s_gate k R r && s_match k r sz (g_clock R)); auto.
  destruct (sc _ (r_cb r) (r_ud r)) as [acts ret]. apply IH.
  assert (W3 : WF (r_actions acts (rset_log (r_update k x (rec_stamp k (g_clock R)) R)
             (EvCall x (r_cb r) (r_ud r) (r_user r) k (g_clock (r_update k x (rec_stamp k (g_clock R)) R)) ret
              :: g_log (r_update k x (rec_stamp k (g_clock R)) R))))).
  { apply wf_actions. apply wf_rset_log. apply wf_r_update; auto. intro. apply hid_rec_stamp. }
  destruct ret; auto. apply wf_r_remove. auto.
Qed.

Lemma g_next_spec_loop : forall sc k sz rest R, (g_next R <= g_next (spec_loop sc k sz rest R))%nat.
Proof.
  induction rest as [|x rest IH]; intro R; cbn [spec_loop]; auto.
  destruct (find_rec x (rget k R)) as [r|]; auto.
  destruct (s_gate k R r && s_match k r sz (g_clock R)); auto.
  destruct (sc _ (r_cb r) (r_ud r)) as [acts ret].
  match goal with |- (_ <= g_next (spec_loop _ _ _ _ ?X))%nat => pose proof (IH X) as H; assert (g_next R <= g_next X)%nat end.
  { destruct ret.
    - eapply Nat.le_trans; [|apply g_next_actions]. simpl. unfold r_update. rewrite g_next_rset. lia.
    - unfold r_remove. rewrite g_next_rset. eapply Nat.le_trans; [|apply g_next_actions]. simpl.
      unfold r_update. rewrite g_next_rset. lia. }
  lia.
Qed.

(* the whole-list version of the invariant, for a list that is not being walked (the stanza handlers
   while the id pass runs) *)
Definition Qall (k : kind) (rest : list nat) (R : reg) : Prop :=
  hids (filter (vis k) (rget k R)) = filter (present (rget k R)) rest.

Lemma Q_add : forall k rest at_head ka cb ud user flt R,
  k <> KGlobal -> WF R -> below (g_next R) rest ->
  Qall k rest R -> Qall k rest (r_add at_head ka cb ud user flt R).
Proof.
  intros k rest at_head ka cb ud user flt R Hk W B Q. unfold Qall in *.
  unfold r_add. destruct (has_key cb ud (rget ka R)); auto.
  set (rn := mkRec (g_next R) cb ud user false flt).
  destruct (kind_eq_dec k ka) as [->|N].
  - assert (V : vis ka rn = false) by (destruct ka; auto; exfalso; apply Hk; auto).
    assert (P : forall l2, filter (present l2) rest = filter (fun h => present l2 h || Nat.eqb (hid rn) h) rest).
    { intro l2. apply filter_ext_in'. intros h Hh. replace (Nat.eqb (hid rn) h) with false; [rewrite orb_false_r; auto|].
      symmetry. apply Nat.eqb_neq. simpl. pose proof (B h Hh). lia. }
    rewrite rget_rset_same. destruct at_head.
    + simpl filter at 1. rewrite V, Q. rewrite (P (rget ka R)). apply filter_ext_in'. intros h _. simpl. rewrite orb_comm. reflexivity.
    + rewrite filter_app. simpl. rewrite V, app_nil_r, Q. rewrite (P (rget ka R)). apply filter_ext_in'. intros h _.
      rewrite (present_app (rget ka R) [rn]). f_equal. unfold present. simpl. symmetry. apply orb_false_r.
  - rewrite rget_rset_other, rget_rset_next; auto.
Qed.

Lemma Q_del : forall k rest kd cb R, WF R -> Qall k rest R -> Qall k rest (r_del kd cb R).
Proof.
  intros k rest kd cb R W Q. unfold Qall in *. unfold r_del.
  destruct (kind_eq_dec k kd) as [->|N].
  - rewrite rget_rset_same. rewrite filter_comm. apply J_filter; auto.
    + apply (wf_nodup _ W).
    + intros q Hq. apply filter_In in Hq. tauto.
  - rewrite rget_rset_other; auto.
Qed.

Lemma Q_action : forall k rest a R, k <> KGlobal -> WF R -> below (g_next R) rest ->
  Qall k rest R -> Qall k rest (r_action a R).
Proof.
  intros k rest a R Hk W B Q. destruct a; cbn [r_action]; try (apply Q_add; auto).
  - apply Q_del; auto.
  - destruct (g_conn R); auto.
  - exact Q.
Qed.

Lemma Q_actions : forall k rest acts R, k <> KGlobal -> WF R -> below (g_next R) rest ->
  Qall k rest R -> Qall k rest (r_actions acts R).
Proof.
  induction acts as [|a acts IH]; intros R Hk W B Q; cbn [r_actions]; auto.
  apply IH; auto.
  - apply wf_action; auto.
  - intros h Hh. pose proof (B h Hh). pose proof (g_next_action a R). lia.
  - apply Q_action; auto.
Qed.

Lemma Q_same : forall k rest R R', rget k R' = rget k R -> Qall k rest R -> Qall k rest R'.
Proof. intros. unfold Qall in *. rewrite H. auto. Qed.

Lemma Q_spec_loop : forall sc k k' sz snap, k' <> k -> k' <> KGlobal ->
  forall rest R, WF R -> below (g_next R) snap -> Qall k' snap R -> Qall k' snap (spec_loop sc k sz rest R).
Proof.
  intros sc k k' sz snap N Hk. induction rest as [|x rest IH]; intros R W B Q; cbn [spec_loop]; auto.
  destruct (find_rec x (rget k R)) as [r|]; auto.
  destruct (s_gate k R r && s_match k r sz (g_clock R)); auto.
  destruct (sc _ (r_cb r) (r_ud r)) as [acts ret].
  set (R1 := r_update k x (rec_stamp k (g_clock R)) R).
  set (R2 := rset_log R1 (EvCall x (r_cb r) (r_ud r) (r_user r) k (g_clock R1) ret :: g_log R1)).
  assert (W2 : WF R2).
  { apply wf_rset_log. apply wf_r_update; auto. intro. apply hid_rec_stamp. }
  assert (G2 : g_next R2 = g_next R) by (unfold R2, R1, r_update; simpl; apply g_next_rset).
  assert (Q2 : Qall k' snap R2).
  { eapply Q_same; [|exact Q]. unfold R2, R1, r_update.
    transitivity (rget k' (rset k (map (fun r0 => if Nat.eqb (hid r0) x then rec_stamp k (g_clock R) r0 else r0) (rget k R)) R)).
    - destruct k'; reflexivity.
    - apply rget_rset_other; auto. }
  assert (B2 : below (g_next R2) snap) by (rewrite G2; auto).
  pose proof (Q_actions k' snap acts R2 Hk W2 B2 Q2) as Q3.
  pose proof (wf_actions acts R2 W2) as W3.
  assert (B3 : below (g_next (r_actions acts R2)) snap).
  { intros h Hh. pose proof (B2 h Hh). pose proof (g_next_actions acts R2). lia. }
  destruct ret.
  - apply IH; auto.
  - apply IH.
    + apply wf_r_remove; auto.
    + unfold r_remove. rewrite g_next_rset. auto.
    + eapply Q_same; [|exact Q3]. unfold r_remove. apply rget_rset_other; auto.
Qed.

(* ------------------------------------------------------------------ whole dispatches *)
Lemma filter_all : forall A (p : A -> bool) l, (forall a, In a l -> p a = true) -> filter p l = l.
Proof.
  induction l as [|a l IH]; simpl; intro H; auto. rewrite (H a) by auto. rewrite IH; auto.
Qed.

Lemma present_self : forall l, filter (present l) (hids l) = hids l.
Proof. intro l. apply filter_all. intros h Hh. apply present_in. exact Hh. Qed.

Lemma vis_enabled_all : forall k l, filter (vis k) (map (fun r => rec_enabled r true) l) = map (fun r => rec_enabled r true) l.
Proof.
  intros. apply filter_all. intros a Ha. apply in_map_iff in Ha. destruct Ha as [r [<- _]]. destruct k; reflexivity.
Qed.

Lemma wf_r_enable : forall k R, WF R -> WF (r_enable k R).
Proof. intros. unfold r_enable. apply wf_map; auto. Qed.

Lemma enable_ok : forall fuel k st R, Abs st R -> WF R ->
  okres (enable_all fuel st (get_head k st)) (fun st' => Abs st' (r_enable k R)).
Proof.
  intros. rewrite (abs_head _ _ H k).
  apply (enable_all_ok (rget k R) fuel st R [] k H H0 eq_refl).
Qed.

(* a pass over the whole list [k] whose visible items are exactly the snapshot *)
Lemma pass_ok : forall sc k sz fuel st R, others_only sc -> Abs st R -> WF R ->
  filter (vis k) (rget k R) = rget k R ->
  okres (fire_loop sc fuel k sz st (get_head k st))
        (fun st' => Abs st' (spec_loop sc k sz (hids (rget k R)) R)).
Proof.
  intros sc k sz fuel st R OO A W V. rewrite (abs_head _ _ A k).
  apply (fire_loop_ok sc k sz OO fuel st R [] (rget k R)); auto.
  - apply (wf_nodup _ W).
  - intros h Hh. apply in_hids_inv in Hh. destruct Hh as [r [Hr <-]]. eapply (wf_lt _ W); eauto.
  - rewrite V. symmetry. apply present_self.
Qed.

Lemma rget_r_enable_same : forall k R, rget k (r_enable k R) = map (fun r => rec_enabled r true) (rget k R).
Proof. intros. unfold r_enable. apply rget_rset_same. Qed.

Lemma rget_r_enable_other : forall k k' R, k' <> k -> rget k' (r_enable k R) = rget k' R.
Proof. intros. unfold r_enable. apply rget_rset_other. auto. Qed.

Theorem fire_stanza_ok : forall sc fuel sz st R, others_only sc -> Abs st R -> WF R ->
  okres (fire_stanza sc fuel sz st) (fun st' => Abs st' (spec_fire_stanza sc sz R)).
Proof.
  intros sc fuel sz st R OO A W. unfold fire_stanza, spec_fire_stanza.
  eapply okres_bind. { apply (enable_ok fuel KStanza st R A W). }
  intros st1 A1. cbv beta in A1. set (R1 := r_enable KStanza R) in *.
  assert (W1 : WF R1) by (apply wf_r_enable; auto).
  assert (V1 : filter (vis KStanza) (rget KStanza R1) = rget KStanza R1).
  { unfold R1. rewrite rget_r_enable_same. apply vis_enabled_all. }
  destruct (st_id sz) as [id|].
  - eapply okres_bind.
    { eapply okres_bind. { apply (enable_ok fuel (KId id) st1 R1 A1 W1). }
      intros st1' A1'. cbv beta in A1'. apply (pass_ok sc (KId id) sz fuel st1' _ OO A1').
      - apply wf_r_enable; auto.
      - rewrite rget_r_enable_same. apply vis_enabled_all. }
    intros st2 A2. cbv beta in A2.
    set (R1' := r_enable (KId id) R1) in *.
    set (R2 := spec_loop sc (KId id) sz (hids (rget (KId id) R1')) R1') in *.
    assert (W1' : WF R1') by (apply wf_r_enable; auto).
    assert (W2 : WF R2) by (apply wf_spec_loop; auto).
    assert (B1 : below (g_next R1') (hids (rget KStanza R1))).
    { intros h Hh. apply in_hids_inv in Hh. destruct Hh as [r [Hr <-]].
      unfold R1', r_enable. rewrite g_next_rset. eapply (wf_lt _ W1); eauto. }
    assert (Q1 : Qall KStanza (hids (rget KStanza R1)) R1').
    { unfold Qall. unfold R1'. rewrite rget_r_enable_other by congruence. rewrite V1. symmetry. apply present_self. }
    assert (Q2 : Qall KStanza (hids (rget KStanza R1)) R2).
    { apply Q_spec_loop; auto; congruence. }
    change (h_stanza st2) with (get_head KStanza st2). rewrite (abs_head _ _ A2 KStanza).
    apply (fire_loop_ok sc KStanza sz OO fuel st2 R2 [] (rget KStanza R2)); auto.
    + apply (wf_nodup _ W1).
    + intros h Hh. pose proof (B1 h Hh). pose proof (g_next_spec_loop sc (KId id) sz (hids (rget (KId id) R1')) R1').
      fold R2 in H0. lia.
  - cbn [bind]. change (h_stanza st1) with (get_head KStanza st1). apply (pass_ok sc KStanza sz fuel st1 R1 OO A1 W1 V1).
Qed.

Lemma wf_spec_fire_stanza : forall sc sz R, WF R -> WF (spec_fire_stanza sc sz R).
Proof.
  intros. unfold spec_fire_stanza. apply wf_spec_loop. destruct (st_id sz).
  - apply wf_spec_loop. apply wf_r_enable. apply wf_r_enable. auto.
  - apply wf_r_enable. auto.
Qed.

Theorem fire_timed_ok : forall sc fuel st R, others_only sc -> Abs st R -> WF R ->
  okres (fire_timed sc fuel st) (fun st' => Abs st' (spec_fire_timed sc R)).
Proof.
  intros sc fuel st R OO A W. unfold fire_timed, spec_fire_timed.
  destruct (env_eqs _ _ A) as [_ [E2 _]]. rewrite E2.
  eapply okres_bind with (P := fun st1 => Abs st1 (if g_conn R then spec_loop sc KTimed no_stanza (hids (rget KTimed (r_enable KTimed R))) (r_enable KTimed R) else R)).
  - destruct (g_conn R).
    + eapply okres_bind. { apply (enable_ok fuel KTimed st R A W). }
      intros st' A'. cbv beta in A'. change (h_timed st') with (get_head KTimed st'). apply (pass_ok sc KTimed no_stanza fuel st' _ OO A').
      * apply wf_r_enable; auto.
      * rewrite rget_r_enable_same. apply vis_enabled_all.
    + apply okres_ok. exact A.
  - intros st1 A1. cbv beta in A1. change (h_global st1) with (get_head KGlobal st1). apply (pass_ok sc KGlobal no_stanza fuel st1 _ OO A1).
    + destruct (g_conn R); auto. apply wf_spec_loop. apply wf_r_enable. auto.
    + apply filter_all. intros. reflexivity.
Qed.

Lemma wf_spec_fire_timed : forall sc R, WF R -> WF (spec_fire_timed sc R).
Proof.
  intros. unfold spec_fire_timed. apply wf_spec_loop. destruct (g_conn R); auto.
  apply wf_spec_loop. apply wf_r_enable. auto.
Qed.

Lemma wf_r_reset : forall u R, WF R -> WF (r_reset u R).
Proof.
  intros. unfold r_reset. apply wf_map; auto. intro r. destruct ((u && r_user r) || negb u); auto. apply hid_rec_stamp.
Qed.

Lemma reset_ok : forall fuel u st R, Abs st R -> WF R ->
  okres (reset_timed fuel u st (h_timed st)) (fun st' => Abs st' (r_reset u R)).
Proof.
  intros. change (h_timed st) with (get_head KTimed st). rewrite (abs_head _ _ H KTimed).
  apply (reset_timed_ok (rget KTimed R) fuel u st R [] H H0 eq_refl).
Qed.

Lemma abs_flush : forall st R, Abs st R -> Abs (flush st) (r_flush R).
Proof.
  intros st R A. destruct (env_eqs _ _ A) as [E1 [E2 [E3 [E4 E5]]]].
  unfold flush, r_flush. rewrite E2. destruct (g_conn R) eqn:EC; auto.
  eapply abs_same_lists; eauto; try (intro k; destruct k; reflexivity).
  unfold env, renv. simpl. congruence.
Qed.

Lemma wf_r_flush : forall R, WF R -> WF (r_flush R).
Proof.
  intros. unfold r_flush. destruct (g_conn R); auto. eapply wf_same_lists; eauto; try (intro k; destruct k; reflexivity).
Qed.

Definition no_sysdel (o : op) : Prop := o <> OSysDel.

Lemma wf_spec_op : forall sc o R, no_sysdel o -> WF R -> WF (spec_op sc o R).
Proof.
  intros sc o R NS W. destruct o; cbn [spec_op].
  - apply wf_action; auto.
  - apply wf_spec_fire_stanza; auto.
  - apply wf_spec_fire_timed; auto.
  - unfold spec_run_once. destruct events; repeat apply wf_spec_fire_timed; apply wf_r_flush; auto.
  - eapply wf_same_lists; eauto; try (intro k; destruct k; reflexivity).
  - eapply wf_same_lists; eauto; try (intro k; destruct k; reflexivity).
  - eapply wf_same_lists; eauto; try (intro k; destruct k; reflexivity).
  - apply wf_r_reset; auto.
  - exfalso. apply NS. reflexivity.
  - eapply wf_same_lists with (R := r_reset false R); try (intro k; destruct k; reflexivity); try reflexivity. apply wf_r_reset; auto.
Qed.

Theorem run_op_ok : forall sc fuel o st R, others_only sc -> no_sysdel o -> Abs st R -> WF R ->
  okres (run_op sc fuel o st) (fun st' => Abs st' (spec_op sc o R)).
Proof.
  intros sc fuel o st R OO NS A W. destruct (env_eqs _ _ A) as [E1 [E2 [E3 [E4 E5]]]].
  destruct o; cbn [run_op spec_op].
  - apply do_action_ok; auto.
  - apply fire_stanza_ok; auto.
  - apply fire_timed_ok; auto.
  - unfold run_once, spec_run_once.
    eapply okres_bind. { apply fire_timed_ok; auto. apply abs_flush; eauto. apply wf_r_flush; auto. }
    intros st1 A1. destruct events.
    + apply fire_timed_ok; auto. apply wf_spec_fire_timed. apply wf_r_flush. auto.
    + apply okres_ok. auto.
  - apply okres_ok. eapply abs_same_lists; eauto; try (intro k; destruct k; reflexivity). unfold env, renv. simpl. congruence.
  - apply okres_ok. eapply abs_same_lists; eauto; try (intro k; destruct k; reflexivity). unfold env, renv. simpl. congruence.
  - apply okres_ok. eapply abs_same_lists; eauto; try (intro k; destruct k; reflexivity). unfold env, renv. simpl. congruence.
  - apply reset_ok; auto.
  - exfalso. apply NS. reflexivity.
  - eapply okres_bind. { apply reset_ok; eauto. }
    intros st1 A1. cbv beta in A1. apply okres_ok. destruct (env_eqs _ _ A1) as [X1 [X2 [X3 [X4 X5]]]].
    apply abs_same_lists with (st := st1) (R := r_reset false R); auto; try (intro k; destruct k; reflexivity).
    unfold env, renv, set_neg, rset_neg. cbn [neg connected clock sendq log g_neg g_conn g_clock g_sendq g_log]. congruence.
Qed.

Theorem run_ops_ok : forall sc fuel ops st R, others_only sc -> Forall no_sysdel ops -> Abs st R -> WF R ->
  okres (run_ops sc fuel ops st) (fun st' => Abs st' (spec_run sc ops R) /\ WF (spec_run sc ops R)).
Proof.
  induction ops as [|o ops IH]; intros st R OO NS A W; cbn [run_ops spec_run].
  - apply okres_ok. auto.
  - inversion NS; subst. eapply okres_bind. { apply run_op_ok; eauto. }
    intros st1 A1. apply IH; auto. apply wf_spec_op; auto.
Qed.

Lemma abs_init : Abs init_state init_reg.
Proof. constructor; auto; intro k; destruct k; simpl; auto. Qed.

Lemma wf_init : WF init_reg.
Proof.
  constructor.
  - intro k; destruct k; simpl; constructor.
  - intros k r H. destruct k; simpl in H; contradiction.
  - intros k1 k2 r1 r2 H. destruct k1; simpl in H; contradiction.
Qed.

(* ================================================================== properties of the reference semantics *)
Definition stable (R R' : reg) : Prop :=
  g_log R' = g_log R /\ g_neg R' = g_neg R /\ g_clock R' = g_clock R /\ g_conn R' = g_conn R.

Lemma stable_refl : forall R, stable R R.
Proof. intro. repeat split. Qed.

Lemma stable_trans : forall A B C, stable A B -> stable B C -> stable A C.
Proof. unfold stable. intros A B C (a1&a2&a3&a4) (b1&b2&b3&b4). repeat split; congruence. Qed.

Lemma stable_rset : forall k l R, stable R (rset k l R).
Proof. intros. destruct (g_fields_rset k l R) as (a&b&c&d&e). repeat split; auto. Qed.

Definition noclk (acts : list action) : Prop := forall a, In a acts -> forall d, a <> AClk d.

Lemma instant_noclk : forall sc lg cb ud acts ret, instant sc -> sc lg cb ud = (acts, ret) -> noclk acts.
Proof. intros sc lg cb ud acts ret I E a Ha. apply (I lg cb ud). rewrite E. exact Ha. Qed.

(* actions never touch the log, the negotiation flag or the connection state; they move the clock only
   through AClk (a callback that takes time) *)
Definition stable3 (R R' : reg) : Prop :=
  g_log R' = g_log R /\ g_neg R' = g_neg R /\ g_conn R' = g_conn R.

Lemma stable_action : forall a R, (forall d, a <> AClk d) -> stable R (r_action a R).
Proof.
  intros a R NC. destruct a; cbn [r_action]; try (unfold r_add; destruct (has_key cb ud _); [apply stable_refl|];
    eapply stable_trans; [|apply stable_rset]; repeat split).
  - unfold r_del. apply stable_rset.
  - destruct (g_conn R); repeat split.
  - exfalso. apply (NC d). reflexivity.
Qed.

Lemma stable_actions : forall acts R, noclk acts -> stable R (r_actions acts R).
Proof.
  induction acts as [|a acts IH]; intros R NC; cbn [r_actions]; [apply stable_refl|].
  eapply stable_trans; [apply stable_action | apply IH].
  - apply NC. left. reflexivity.
  - intros b Hb. apply NC. right. exact Hb.
Qed.

Lemma stable3_action : forall a R, stable3 R (r_action a R).
Proof.
  intros a R.
  assert (X : (forall d, a <> AClk d) -> stable3 R (r_action a R)).
  { intro NC. destruct (stable_action a R NC) as (x&y&_&z). repeat split; auto. }
  destruct a; try (apply X; intros; discriminate). repeat split.
Qed.

Lemma stable3_actions : forall acts R, stable3 R (r_actions acts R).
Proof.
  induction acts as [|a acts IH]; intro R; cbn [r_actions]; [repeat split|].
  destruct (stable3_action a R) as (x&y&z). destruct (IH (r_action a R)) as (x'&y'&z').
  repeat split; congruence.
Qed.

(* every event of the log after a pass was there before, or is the call of a registration of the snapshot
   that, at its turn, was still registered, passed the gate and matched *)
Lemma spec_loop_log_inv : forall sc k sz (P : event -> Prop) neg0 snap0,
  (forall x Rm r ret, In x snap0 -> find_rec x (rget k Rm) = Some r -> s_gate k Rm r = true ->
      s_match k r sz (g_clock Rm) = true -> g_neg Rm = neg0 ->
      P (EvCall x (r_cb r) (r_ud r) (r_user r) k (g_clock Rm) ret)) ->
  forall snap R, incl snap snap0 -> g_neg R = neg0 ->
  (forall e, In e (g_log R) -> P e) ->
  forall e, In e (g_log (spec_loop sc k sz snap R)) -> P e.
Proof.
  intros sc k sz P neg0 snap0 HP. induction snap as [|x snap IH]; intros R HI HN HL; cbn [spec_loop]; auto.
  assert (HI' : incl snap snap0) by (intros y Hy; apply HI; right; auto).
  destruct (find_rec x (rget k R)) as [r|] eqn:F; [|apply IH; auto].
  destruct (s_gate k R r && s_match k r sz (g_clock R)) eqn:GM; [|apply IH; auto].
  apply andb_true_iff in GM. destruct GM as [G M].
  destruct (sc _ (r_cb r) (r_ud r)) as [acts ret].
  set (R1 := r_update k x (rec_stamp k (g_clock R)) R).
  assert (S1 : stable R R1) by (unfold R1, r_update; apply stable_rset).
  destruct S1 as (s1&s2&s3&s4).
  set (R2 := rset_log R1 (EvCall x (r_cb r) (r_ud r) (r_user r) k (g_clock R1) ret :: g_log R1)).
  pose proof (stable3_actions acts R2) as (t1&t2&t4).
  assert (L3 : forall e, In e (g_log (r_actions acts R2)) -> P e).
  { intros e He. rewrite t1 in He. unfold R2 in He. simpl in He. destruct He as [<-|He].
    - rewrite s3. apply (HP x R r ret); auto. apply HI. left. reflexivity.
    - rewrite s1 in He. auto. }
  destruct ret.
  - apply IH; auto. rewrite t2. unfold R2. simpl. congruence.
  - pose proof (stable_rset k (filter (fun r0 => negb (Nat.eqb (hid r0) x)) (rget k (r_actions acts R2))) (r_actions acts R2)) as (u1&u2&u3&u4).
    apply IH; unfold r_remove; auto.
    + rewrite u2, t2. unfold R2. simpl. congruence.
    + intros e He. rewrite u1 in He. auto.
Qed.

(* the negotiation flag and the connection state do not change during a pass; the clock does not either when
   the callbacks take no time *)
Lemma stable_spec_loop : forall sc k sz snap R,
  g_neg (spec_loop sc k sz snap R) = g_neg R /\ g_conn (spec_loop sc k sz snap R) = g_conn R /\
  (instant sc -> g_clock (spec_loop sc k sz snap R) = g_clock R).
Proof.
  induction snap as [|x snap IH]; intro R; cbn [spec_loop]; auto.
  destruct (find_rec x (rget k R)) as [r|]; auto.
  destruct (s_gate k R r && s_match k r sz (g_clock R)); auto.
  destruct (sc _ (r_cb r) (r_ud r)) as [acts ret] eqn:SC.
  match goal with |- context [spec_loop sc k sz snap ?X] => destruct (IH X) as (i1&i3&i2); rewrite i1, i3;
    assert (SX : g_neg X = g_neg R /\ g_conn X = g_conn R /\ (instant sc -> g_clock X = g_clock R)) end.
  { set (R1 := r_update k x (rec_stamp k (g_clock R)) R) in *.
    pose proof (stable_rset k (map (fun r0 => if Nat.eqb (hid r0) x then rec_stamp k (g_clock R) r0 else r0) (rget k R)) R) as (s1&s2&s3&s4).
    fold (r_update k x (rec_stamp k (g_clock R)) R) in s1, s2, s3, s4. fold R1 in s1, s2, s3, s4.
    set (R2 := rset_log R1 (EvCall x (r_cb r) (r_ud r) (r_user r) k (g_clock R1) ret :: g_log R1)) in *.
    pose proof (stable3_actions acts R2) as (t1&t2&t4).
    assert (T3 : instant sc -> g_clock (r_actions acts R2) = g_clock R).
    { intro I. destruct (stable_actions acts R2 (instant_noclk _ _ _ _ _ _ I SC)) as (_&_&t3&_). rewrite t3. unfold R2. simpl. auto. }
    destruct ret.
    - rewrite t2, t4. unfold R2. simpl. auto.
    - unfold r_remove.
      pose proof (stable_rset k (filter (fun r0 => negb (Nat.eqb (hid r0) x)) (rget k (r_actions acts R2))) (r_actions acts R2)) as (u1&u2&u3&u4).
      rewrite u2, u3, u4, t2, t4. unfold R2. simpl. auto. }
  destruct SX as (x1&x2&x3). repeat split; auto. intro I. rewrite (i2 I). auto.
Qed.

(* how one action changes one list *)
Lemma action_list_cases : forall a R k,
  rget k (r_action a R) = rget k R \/
  (exists rn, hid rn = g_next R /\ r_enabled rn = false /\
              (rget k (r_action a R) = rn :: rget k R \/ rget k (r_action a R) = rget k R ++ [rn])) \/
  (exists p, rget k (r_action a R) = filter p (rget k R)).
Proof.
  intros a R k.
  assert (ADD : forall at_head ka cb ud user flt,
    rget k (r_add at_head ka cb ud user flt R) = rget k R \/
    (exists rn, hid rn = g_next R /\ r_enabled rn = false /\
       (rget k (r_add at_head ka cb ud user flt R) = rn :: rget k R \/
        rget k (r_add at_head ka cb ud user flt R) = rget k R ++ [rn]))).
  { intros. unfold r_add. destruct (has_key cb ud (rget ka R)); auto.
    destruct (kind_eq_dec k ka) as [->|N].
    - right. exists (mkRec (g_next R) cb ud user false flt). rewrite rget_rset_same. destruct at_head; auto.
    - left. rewrite rget_rset_other, rget_rset_next; auto. }
  destruct a; cbn [r_action]; try (destruct (ADD false KStanza cb ud user (FStanza ns name type)); tauto);
    try (destruct (ADD false (KId id) cb ud user (FId id)); tauto);
    try (destruct (ADD true KTimed cb ud user (FTimed period (g_clock R))); tauto);
    try (destruct (ADD true KGlobal cb ud true (FTimed period (g_clock R))); tauto).
  - unfold r_del. destruct (kind_eq_dec k k0) as [->|N].
    + right. right. eexists. rewrite rget_rset_same. reflexivity.
    + left. apply rget_rset_other. auto.
  - left. destruct (g_conn R); auto; destruct k; reflexivity.
  - left. destruct k; reflexivity.
Qed.

Lemma present_cons : forall r l x, present (r :: l) x = Nat.eqb (hid r) x || present l x.
Proof. reflexivity. Qed.

(* a registration that is gone stays gone: numbers are never reused *)
Lemma absent_action : forall a R k x, (x < g_next R)%nat ->
  present (rget k R) x = false -> present (rget k (r_action a R)) x = false.
Proof.
  intros a R k x Hx P. destruct (action_list_cases a R k) as [E | [[rn [Hh [_ [E|E]]]] | [p E]]]; rewrite E; auto.
  - rewrite present_cons, P. replace (Nat.eqb (hid rn) x) with false; auto. symmetry. apply Nat.eqb_neq. lia.
  - rewrite present_app, P. unfold present. simpl. replace (Nat.eqb (hid rn) x) with false; auto. symmetry. apply Nat.eqb_neq. lia.
  - apply present_filter_false. auto.
Qed.

Lemma absent_actions : forall acts R k x, (x < g_next R)%nat ->
  present (rget k R) x = false -> present (rget k (r_actions acts R)) x = false.
Proof.
  induction acts as [|a acts IH]; intros R k x Hx P; cbn [r_actions]; auto.
  apply IH.
  - pose proof (g_next_action a R). lia.
  - apply absent_action; auto.
Qed.

Lemma present_map_same : forall (f : hrec -> hrec) l x, (forall r, hid (f r) = hid r) -> present (map f l) x = present l x.
Proof. intros. apply present_hids. apply hids_map_same. auto. Qed.

Lemma rget_update_cases : forall k k' x f R, (forall r, hid (f r) = hid r) ->
  forall y, present (rget k' (r_update k x f R)) y = present (rget k' R) y.
Proof.
  intros k k' x f R Hf y. unfold r_update. destruct (kind_eq_dec k' k) as [->|N].
  - rewrite rget_rset_same. apply present_map_same. intro r. destruct (Nat.eqb (hid r) x); auto.
  - rewrite rget_rset_other; auto.
Qed.

Lemma absent_spec_loop : forall sc k sz k' x snap R, (x < g_next R)%nat ->
  present (rget k' R) x = false -> present (rget k' (spec_loop sc k sz snap R)) x = false.
Proof.
  intros sc k sz k' x. induction snap as [|y snap IH]; intros R Hx P; cbn [spec_loop]; auto.
  destruct (find_rec y (rget k R)) as [r|]; auto.
  destruct (s_gate k R r && s_match k r sz (g_clock R)); auto.
  destruct (sc _ (r_cb r) (r_ud r)) as [acts ret].
  set (R1 := r_update k y (rec_stamp k (g_clock R)) R).
  set (R2 := rset_log R1 (EvCall y (r_cb r) (r_ud r) (r_user r) k (g_clock R1) ret :: g_log R1)).
  assert (P2 : present (rget k' R2) x = false).
  { replace (rget k' R2) with (rget k' R1) by (destruct k'; reflexivity).
    unfold R1. rewrite rget_update_cases; auto. intro. apply hid_rec_stamp. }
  assert (G2 : g_next R2 = g_next R) by (unfold R2, R1, r_update; simpl; apply g_next_rset).
  assert (P3 : present (rget k' (r_actions acts R2)) x = false) by (apply absent_actions; auto; lia).
  assert (G3 : (x < g_next (r_actions acts R2))%nat) by (pose proof (g_next_actions acts R2); lia).
  destruct ret.
  - apply IH; auto.
  - apply IH.
    + unfold r_remove. rewrite g_next_rset. auto.
    + unfold r_remove. destruct (kind_eq_dec k' k) as [->|N].
      * rewrite rget_rset_same. apply present_filter_false. auto.
      * rewrite rget_rset_other; auto.
Qed.

(* the log only grows *)
Lemma log_mono_spec_loop : forall sc k sz snap R e, In e (g_log R) -> In e (g_log (spec_loop sc k sz snap R)).
Proof.
  intros sc k sz. induction snap as [|y snap IH]; intros R e He; cbn [spec_loop]; auto.
  destruct (find_rec y (rget k R)) as [r|]; auto.
  destruct (s_gate k R r && s_match k r sz (g_clock R)); auto.
  destruct (sc _ (r_cb r) (r_ud r)) as [acts ret].
  set (R1 := r_update k y (rec_stamp k (g_clock R)) R).
  set (R2 := rset_log R1 (EvCall y (r_cb r) (r_ud r) (r_user r) k (g_clock R1) ret :: g_log R1)).
  assert (H2 : In e (g_log (r_actions acts R2))).
  { destruct (stable3_actions acts R2) as (t1&_). rewrite t1. unfold R2. simpl. right.
    unfold R1, r_update. destruct (g_fields_rset k (map (fun r0 => if Nat.eqb (hid r0) y then rec_stamp k (g_clock R) r0 else r0) (rget k R)) R) as (a&_).
    rewrite a. exact He. }
  destruct ret; apply IH; auto.
  unfold r_remove. destruct (g_fields_rset k (filter (fun r0 => negb (Nat.eqb (hid r0) y)) (rget k (r_actions acts R2))) (r_actions acts R2)) as (a&_).
  rewrite a. exact H2.
Qed.

(* ------------------------------------------------------------------ order of the invocations *)
Inductive subseq {A : Type} : list A -> list A -> Prop :=
| ss_nil : forall l, subseq [] l
| ss_skip : forall a l1 l2, subseq l1 l2 -> subseq l1 (a :: l2)
| ss_take : forall a l1 l2, subseq l1 l2 -> subseq (a :: l1) (a :: l2).

Lemma subseq_in : forall A (l1 l2 : list A) x, subseq l1 l2 -> In x l1 -> In x l2.
Proof. induction 1; simpl; intros; try contradiction; intuition. Qed.

Lemma subseq_nodup : forall A (l1 l2 : list A), subseq l1 l2 -> NoDup l2 -> NoDup l1.
Proof.
  induction 1; intro ND.
  - constructor.
  - inversion ND; auto.
  - inversion ND; subst. constructor; auto. intro X. apply H2. eapply subseq_in; eauto.
Qed.

Lemma calls_of_app : forall l1 l2, calls_of (l1 ++ l2) = calls_of l1 ++ calls_of l2.
Proof. intros. unfold calls_of. apply flat_map_app. Qed.

Definition is_call_kind (k : kind) (e : event) : Prop :=
  exists x cb ud u t ret, e = EvCall x cb ud u k t ret.

(* the pass appends to the log the calls of a subsequence of the snapshot, in snapshot order *)
Lemma spec_loop_trace : forall sc k sz snap R,
  exists evs, g_log (spec_loop sc k sz snap R) = evs ++ g_log R /\
              subseq (calls_of (rev evs)) snap /\ Forall (is_call_kind k) evs.
Proof.
  intros sc k sz. induction snap as [|y snap IH]; intro R; cbn [spec_loop].
  { exists []. repeat split; constructor. }
  assert (SKIP : exists evs, g_log (spec_loop sc k sz snap R) = evs ++ g_log R /\
              subseq (calls_of (rev evs)) (y :: snap) /\ Forall (is_call_kind k) evs).
  { destruct (IH R) as [evs [E [S F]]]. exists evs. repeat split; auto. constructor. auto. }
  destruct (find_rec y (rget k R)) as [r|]; auto.
  destruct (s_gate k R r && s_match k r sz (g_clock R)); auto.
  destruct (sc _ (r_cb r) (r_ud r)) as [acts ret].
  set (R1 := r_update k y (rec_stamp k (g_clock R)) R).
  set (ev := EvCall y (r_cb r) (r_ud r) (r_user r) k (g_clock R1) ret).
  set (R2 := rset_log R1 (ev :: g_log R1)).
  assert (S1 : stable R R1) by (unfold R1, r_update; apply stable_rset). destruct S1 as (s1&s2&s3&s4).
  pose proof (stable3_actions acts R2) as (t1&t2&t4).
  set (R4 := if ret then r_actions acts R2 else r_remove k y (r_actions acts R2)).
  assert (L4 : g_log R4 = ev :: g_log R).
  { unfold R4. destruct ret.
    - rewrite t1. unfold R2. simpl. rewrite s1. auto.
    - unfold r_remove.
      destruct (g_fields_rset k (filter (fun r0 => negb (Nat.eqb (hid r0) y)) (rget k (r_actions acts R2))) (r_actions acts R2)) as (a&_).
      rewrite a, t1. unfold R2. simpl. rewrite s1. auto. }
  destruct (IH R4) as [evs [E [S F]]]. fold R4.
  exists (evs ++ [ev]). repeat split.
  - rewrite E, L4, <- app_assoc. reflexivity.
  - rewrite rev_app_distr. simpl. apply ss_take. exact S.
  - apply Forall_app. split; auto.
    constructor; [|constructor]. unfold ev. red. eauto 10.
Qed.

(* ------------------------------------------------------------------ a due handler is served *)
Lemma find_rec_some_in : forall x l r, find_rec x l = Some r -> In r l /\ hid r = x.
Proof. intros x l r H. apply find_some in H. destruct H as [H E]. apply Nat.eqb_eq in E. auto. Qed.

Lemma find_rec_unique : forall l r, NoDup (hids l) -> In r l -> find_rec (hid r) l = Some r.
Proof.
  intros l r ND Hr. apply in_split in Hr. destruct Hr as [pre [suf ->]]. apply find_rec_mid. auto.
Qed.

Lemma present_find : forall l x, present l x = true -> exists r, find_rec x l = Some r.
Proof.
  unfold present, find_rec. induction l as [|q l IH]; simpl; intros x H; [discriminate|].
  destruct (Nat.eqb (hid q) x); eauto.
Qed.

Lemma find_present : forall l x r, find_rec x l = Some r -> present l x = true.
Proof. intros. apply find_rec_some_in in H. destruct H as [H <-]. apply present_in. apply in_hids. auto. Qed.

Lemma find_back_action : forall a R k x r', WF R -> (x < g_next R)%nat ->
  find_rec x (rget k (r_action a R)) = Some r' -> find_rec x (rget k R) = Some r'.
Proof.
  intros a R k x r' W Hx F.
  destruct (action_list_cases a R k) as [E | [[rn [Hh [_ [E|E]]]] | [p E]]]; rewrite E in F; auto.
  - unfold find_rec in *. simpl in F. replace (Nat.eqb (hid rn) x) with false in F; auto. symmetry. apply Nat.eqb_neq. lia.
  - apply find_rec_some_in in F. destruct F as [F <-]. apply in_app_or in F. destruct F as [F|[<-|[]]].
    + apply find_rec_unique; auto. apply (wf_nodup _ W).
    + exfalso. lia.
  - apply find_rec_some_in in F. destruct F as [F <-]. apply filter_In in F. destruct F as [F _].
    apply find_rec_unique; auto. apply (wf_nodup _ W).
Qed.

Lemma find_back_actions : forall acts R k x r', WF R -> (x < g_next R)%nat ->
  find_rec x (rget k (r_actions acts R)) = Some r' -> find_rec x (rget k R) = Some r'.
Proof.
  induction acts as [|a acts IH]; intros R k x r' W Hx F; cbn [r_actions] in F; auto.
  apply (find_back_action a); auto. apply IH; auto.
  - apply wf_action; auto.
  - pose proof (g_next_action a R). lia.
Qed.

Lemma find_map_other : forall (f : hrec -> hrec) y l x, (forall r, hid (f r) = hid r) -> x <> y ->
  find_rec x (map (fun q => if Nat.eqb (hid q) y then f q else q) l) = find_rec x l.
Proof.
  intros f y l x Hf N. unfold find_rec. induction l as [|q l IH]; simpl; auto.
  destruct (Nat.eqb (hid q) y) eqn:E.
  - apply Nat.eqb_eq in E. rewrite Hf.
    replace (Nat.eqb (hid q) x) with false by (symmetry; apply Nat.eqb_neq; congruence). exact IH.
  - destruct (Nat.eqb (hid q) x); auto.
Qed.

Lemma s_gate_neg : forall k R R' r, g_neg R' = g_neg R -> s_gate k R' r = s_gate k R r.
Proof. intros. unfold s_gate. rewrite H. reflexivity. Qed.

(* a registration of the snapshot that is registered, passes the gate and matches when the pass starts
   is called in this pass, unless an earlier handler of the pass deleted it *)
Lemma spec_loop_complete : forall sc k sz snap R x r,
  instant sc -> WF R -> NoDup snap -> below (g_next R) snap -> In x snap ->
  find_rec x (rget k R) = Some r -> s_gate k R r = true -> s_match k r sz (g_clock R) = true ->
  (exists ret, In (EvCall x (r_cb r) (r_ud r) (r_user r) k (g_clock R) ret) (g_log (spec_loop sc k sz snap R))) \/
  present (rget k (spec_loop sc k sz snap R)) x = false.
Proof.
  intros sc k sz. induction snap as [|y snap IH]; intros R x r I W ND B Hx F G M; [contradiction|].
  assert (ND' : NoDup snap) by (inversion ND; auto).
  assert (B' : below (g_next R) snap) by (intros h Hh; apply B; right; auto).
  destruct (Nat.eq_dec y x) as [->|N].
  - (* its turn *)
    cbn [spec_loop]. rewrite F, G, M. cbn [andb].
    destruct (sc _ (r_cb r) (r_ud r)) as [acts ret]. left. exists ret.
    apply log_mono_spec_loop.
    set (R1 := r_update k x (rec_stamp k (g_clock R)) R).
    assert (S1 : stable R R1) by (unfold R1, r_update; apply stable_rset). destruct S1 as (s1&s2&s3&s4).
    set (R2 := rset_log R1 (EvCall x (r_cb r) (r_ud r) (r_user r) k (g_clock R1) ret :: g_log R1)).
    pose proof (stable3_actions acts R2) as (t1&_).
    assert (H3 : In (EvCall x (r_cb r) (r_ud r) (r_user r) k (g_clock R) ret) (g_log (r_actions acts R2))).
    { rewrite t1. unfold R2. simpl. left. rewrite s3. reflexivity. }
    destruct ret; auto.
    unfold r_remove.
    destruct (g_fields_rset k (filter (fun r0 => negb (Nat.eqb (hid r0) x)) (rget k (r_actions acts R2))) (r_actions acts R2)) as (a&_).
    rewrite a. exact H3.
  - assert (Hx' : In x snap) by (destruct Hx; [contradiction | auto]).
    cbn [spec_loop].
    destruct (find_rec y (rget k R)) as [ry|] eqn:Fy; [|apply IH; auto].
    destruct (s_gate k R ry && s_match k ry sz (g_clock R)); [|apply IH; auto].
    destruct (sc _ (r_cb ry) (r_ud ry)) as [acts ret] eqn:SC.
    set (R1 := r_update k y (rec_stamp k (g_clock R)) R).
    set (R2 := rset_log R1 (EvCall y (r_cb ry) (r_ud ry) (r_user ry) k (g_clock R1) ret :: g_log R1)).
    assert (S1 : stable R R1) by (unfold R1, r_update; apply stable_rset). destruct S1 as (s1&s2&s3&s4).
    assert (W2 : WF R2).
    { apply wf_rset_log. apply wf_r_update; auto. intro. apply hid_rec_stamp. }
    assert (G2 : g_next R2 = g_next R) by (unfold R2, R1, r_update; simpl; apply g_next_rset).
    assert (F2 : forall r', find_rec x (rget k R2) = Some r' -> find_rec x (rget k R) = Some r').
    { intros r' Hr'. replace (rget k R2) with (rget k R1) in Hr' by (destruct k; reflexivity).
      unfold R1, r_update in Hr'. rewrite rget_rset_same in Hr'. rewrite find_map_other in Hr'; auto.
      intro. apply hid_rec_stamp. }
    pose proof (stable_actions acts R2 (instant_noclk _ _ _ _ _ _ I SC)) as (t1&t2&t3&t4).
    set (R3 := r_actions acts R2) in *.
    assert (W3 : WF R3) by (apply wf_actions; auto).
    assert (G3 : (g_next R <= g_next R3)%nat) by (pose proof (g_next_actions acts R2); fold R3 in H; lia).
    assert (Hxlt : (x < g_next R)%nat) by (apply B; right; auto).
    set (R4 := if ret then R3 else r_remove k y R3).
    assert (W4 : WF R4) by (unfold R4; destruct ret; auto; apply wf_r_remove; auto).
    assert (G4 : (g_next R <= g_next R4)%nat).
    { unfold R4. destruct ret; auto. unfold r_remove. rewrite g_next_rset. auto. }
    assert (ST4 : g_neg R4 = g_neg R /\ g_clock R4 = g_clock R).
    { unfold R4. destruct ret.
      - rewrite t2, t3. unfold R2. simpl. auto.
      - unfold r_remove.
        destruct (g_fields_rset k (filter (fun r0 => negb (Nat.eqb (hid r0) y)) (rget k R3)) R3) as (_&b&c&_).
        rewrite b, c, t2, t3. unfold R2. simpl. auto. }
    destruct ST4 as [N4 C4].
    assert (F4 : forall r', find_rec x (rget k R4) = Some r' -> find_rec x (rget k R) = Some r').
    { intros r' Hr'. apply F2. apply (find_back_actions acts R2); auto; [lia|].
      unfold R4 in Hr'. destruct ret; auto.
      unfold r_remove in Hr'. rewrite rget_rset_same in Hr'.
      apply find_rec_some_in in Hr'. destruct Hr' as [Hr' <-]. apply filter_In in Hr'. destruct Hr' as [Hr' _].
      apply find_rec_unique; auto. apply (wf_nodup _ W3). }
    fold R4.
    destruct (present (rget k R4) x) eqn:P4.
    + destruct (present_find _ _ P4) as [r4 F4'].
      pose proof (F4 _ F4') as Fr. rewrite F in Fr. inversion Fr; subst r4.
      rewrite <- C4.
      apply IH; auto.
      * intros h Hh. pose proof (B' h Hh). lia.
      * rewrite (s_gate_neg k R R4 r N4). exact G.
      * rewrite C4. exact M.
    + right. apply absent_spec_loop; auto. lia.
Qed.

(* ================================================================== statements used by Properties_C11.v *)
Lemma okres_Ok : forall A (r : res A) (P : A -> Prop) a, okres r P -> r = Ok a -> P a.
Proof. intros A r P a [H|[b [H Hb]]] E; subst; [discriminate|]. inversion E; subst. auto. Qed.

Lemma okres_safe : forall A (r : res A) (P : A -> Prop), okres r P -> r <> UAF /\ r <> DoubleFree.
Proof. intros A r P [H|[b [H Hb]]]; subst; split; discriminate. Qed.

Theorem fire_exact_lemma : forall sc fuel sz st st' R,
  others_only sc -> Abs st R -> WF R -> fire_stanza sc fuel sz st = Ok st' ->
  Abs st' (spec_fire_stanza sc sz R) /\ WF (spec_fire_stanza sc sz R) /\
  log st' = g_log (spec_fire_stanza sc sz R).
Proof.
  intros sc fuel sz st st' R OO A W E.
  pose proof (okres_Ok _ _ _ _ (fire_stanza_ok sc fuel sz st R OO A W) E) as A'. cbv beta in A'.
  split; [exact A'|split].
  - apply wf_spec_fire_stanza; auto.
  - apply (env_eqs _ _ A').
Qed.

Theorem fire_timed_exact_lemma : forall sc fuel st st' R,
  others_only sc -> Abs st R -> WF R -> fire_timed sc fuel st = Ok st' ->
  Abs st' (spec_fire_timed sc R) /\ WF (spec_fire_timed sc R) /\ log st' = g_log (spec_fire_timed sc R).
Proof.
  intros sc fuel st st' R OO A W E.
  pose proof (okres_Ok _ _ _ _ (fire_timed_ok sc fuel st R OO A W) E) as A'. cbv beta in A'.
  split; [exact A'|split].
  - apply wf_spec_fire_timed; auto.
  - apply (env_eqs _ _ A').
Qed.

Theorem run_ops_exact_lemma : forall sc fuel ops st',
  others_only sc -> Forall no_sysdel ops -> run_ops sc fuel ops init_state = Ok st' ->
  Abs st' (spec_run sc ops init_reg) /\ WF (spec_run sc ops init_reg) /\ log st' = g_log (spec_run sc ops init_reg).
Proof.
  intros sc fuel ops st' OO NS E.
  pose proof (okres_Ok _ _ _ _ (run_ops_ok sc fuel ops init_state init_reg OO NS abs_init wf_init) E) as [A' W'].
  split; [exact A'|split; [exact W'|]]. apply (env_eqs _ _ A').
Qed.

Theorem no_uaf_lemma : forall sc fuel sz st R,
  others_only sc -> Abs st R -> WF R ->
  fire_stanza sc fuel sz st <> UAF /\ fire_stanza sc fuel sz st <> DoubleFree /\
  fire_timed sc fuel st <> UAF /\ fire_timed sc fuel st <> DoubleFree.
Proof.
  intros sc fuel sz st R OO A W.
  destruct (okres_safe _ _ _ (fire_stanza_ok sc fuel sz st R OO A W)).
  destruct (okres_safe _ _ _ (fire_timed_ok sc fuel st R OO A W)). auto.
Qed.

Theorem run_ops_no_uaf_lemma : forall sc fuel ops,
  others_only sc -> Forall no_sysdel ops ->
  run_ops sc fuel ops init_state <> UAF /\ run_ops sc fuel ops init_state <> DoubleFree.
Proof.
  intros sc fuel ops OO NS.
  apply (okres_safe _ _ _ (run_ops_ok sc fuel ops init_state init_reg OO NS abs_init wf_init)).
Qed.

(* --- order --- *)
Lemma hids_r_enable : forall k k' R, hids (rget k' (r_enable k R)) = hids (rget k' R).
Proof.
  intros. destruct (kind_eq_dec k' k) as [->|N].
  - rewrite rget_r_enable_same. apply hids_map_same. auto.
  - rewrite rget_r_enable_other; auto.
Qed.

Lemma g_log_r_enable : forall k R, g_log (r_enable k R) = g_log R.
Proof. intros. unfold r_enable. apply (g_fields_rset k _ R). Qed.

Lemma g_clock_r_enable : forall k R, g_clock (r_enable k R) = g_clock R.
Proof. intros. unfold r_enable. apply (g_fields_rset k _ R). Qed.

Lemma g_neg_r_enable : forall k R, g_neg (r_enable k R) = g_neg R.
Proof. intros. unfold r_enable. apply (g_fields_rset k _ R). Qed.

Definition id_snapshot (sz : stanza) (R : reg) : list nat :=
  match st_id sz with Some id => hids (rget (KId id) R) | None => [] end.

Theorem fire_order_lemma : forall sc sz R, WF R ->
  exists evs_id evs_st,
    g_log (spec_fire_stanza sc sz R) = evs_st ++ evs_id ++ g_log R /\
    subseq (calls_of (rev evs_id)) (id_snapshot sz R) /\
    subseq (calls_of (rev evs_st)) (hids (rget KStanza R)) /\
    NoDup (calls_of (rev evs_id)) /\ NoDup (calls_of (rev evs_st)) /\
    (forall e, In e evs_st -> is_call_kind KStanza e) /\
    (forall e, In e evs_id -> exists id, st_id sz = Some id /\ is_call_kind (KId id) e).
Proof.
  intros sc sz R W. unfold spec_fire_stanza, id_snapshot.
  set (R1 := r_enable KStanza R).
  assert (HS : hids (rget KStanza R1) = hids (rget KStanza R)) by apply hids_r_enable.
  rewrite HS.
  destruct (st_id sz) as [id|].
  - set (R1' := r_enable (KId id) R1).
    assert (HI : hids (rget (KId id) R1') = hids (rget (KId id) R)).
    { unfold R1', R1. rewrite !hids_r_enable. reflexivity. }
    rewrite HI.
    destruct (spec_loop_trace sc (KId id) sz (hids (rget (KId id) R)) R1') as [e1 [L1 [S1 F1]]].
    set (R2 := spec_loop sc (KId id) sz (hids (rget (KId id) R)) R1') in *.
    destruct (spec_loop_trace sc KStanza sz (hids (rget KStanza R)) R2) as [e2 [L2 [S2 F2]]].
    exists e1, e2.
    split; [rewrite L2, L1; unfold R1', R1; rewrite !g_log_r_enable; reflexivity|].
    split; [exact S1|]. split; [exact S2|].
    split; [eapply subseq_nodup; eauto; apply (wf_nodup _ W)|].
    split; [eapply subseq_nodup; eauto; apply (wf_nodup _ W)|].
    split.
    + intros e He. rewrite Forall_forall in F2. auto.
    + intros e He. exists id. split; auto. rewrite Forall_forall in F1. auto.
  - destruct (spec_loop_trace sc KStanza sz (hids (rget KStanza R)) R1) as [e2 [L2 [S2 F2]]].
    exists [], e2. cbn [app rev calls_of flat_map].
    unfold R1 in L2 at 2. rewrite g_log_r_enable in L2.
    split; [exact L2|]. split; [constructor|]. split; [exact S2|]. split; [constructor|].
    split; [eapply subseq_nodup; eauto; apply (wf_nodup _ W)|].
    split.
    + intros e He. rewrite Forall_forall in F2. auto.
    + intros e [].
Qed.

(* --- soundness of every invocation of a stanza dispatch --- *)
(* [Rm] is the registry at the moment the handler is reached; the event carries the time of that moment *)
Definition stanza_call_ok (sz : stanza) (R : reg) (e : event) : Prop :=
  In e (g_log R) \/
  exists x k Rm r ret,
    e = EvCall x (r_cb r) (r_ud r) (r_user r) k (g_clock Rm) ret /\
    ((k = KStanza /\ In x (hids (rget KStanza R))) \/
     (exists id, st_id sz = Some id /\ k = KId id /\ In x (hids (rget (KId id) R)))) /\
    find_rec x (rget k Rm) = Some r /\ s_gate k Rm r = true /\ s_match k r sz (g_clock Rm) = true /\
    g_neg Rm = g_neg R.

Theorem fire_sound_lemma : forall sc sz R e,
  In e (g_log (spec_fire_stanza sc sz R)) -> stanza_call_ok sz R e.
Proof.
  intros sc sz R e. unfold spec_fire_stanza.
  set (R1 := r_enable KStanza R).
  assert (HS : hids (rget KStanza R1) = hids (rget KStanza R)) by apply hids_r_enable.
  assert (N1 : g_neg R1 = g_neg R) by apply g_neg_r_enable.
  assert (L1 : g_log R1 = g_log R) by apply g_log_r_enable.
  assert (OUTER : forall R2, g_neg R2 = g_neg R ->
            (forall e, In e (g_log R2) -> stanza_call_ok sz R e) ->
            In e (g_log (spec_loop sc KStanza sz (hids (rget KStanza R1)) R2)) -> stanza_call_ok sz R e).
  { intros R2 N2 H2.
    apply (spec_loop_log_inv sc KStanza sz (stanza_call_ok sz R) (g_neg R) (hids (rget KStanza R1))); auto.
    - intros x Rm r ret Hx F G M HN. right. exists x, KStanza, Rm, r, ret. repeat split; auto.
      left. split; auto. rewrite <- HS. exact Hx.
    - intros y Hy. exact Hy. }
  destruct (st_id sz) as [id|] eqn:EID.
  - set (R1' := r_enable (KId id) R1).
    assert (HI : hids (rget (KId id) R1') = hids (rget (KId id) R)) by (unfold R1', R1; rewrite !hids_r_enable; reflexivity).
    assert (N1' : g_neg R1' = g_neg R) by (unfold R1'; rewrite g_neg_r_enable; auto).
    assert (L1' : g_log R1' = g_log R) by (unfold R1'; rewrite g_log_r_enable; auto).
    destruct (stable_spec_loop sc (KId id) sz (hids (rget (KId id) R1')) R1') as (a&_).
    apply OUTER; try congruence.
    intros e0. apply (spec_loop_log_inv sc (KId id) sz (stanza_call_ok sz R) (g_neg R) (hids (rget (KId id) R1'))); auto.
    + intros x Rm r ret Hx F G M HN. right. exists x, (KId id), Rm, r, ret. repeat split; auto.
      right. exists id. repeat split; auto. rewrite <- HI. exact Hx.
    + intros y Hy. exact Hy.
    + intros e1 H1. left. rewrite <- L1'. exact H1.
  - apply OUTER; auto. intros e1 H1. left. rewrite <- L1. exact H1.
Qed.

(* --- soundness of every invocation of a timed pass --- *)
(* the handler is reached at time t = g_clock Rm (callbacks served before it in the pass may have taken time);
   at that time a full period has elapsed since its stamp, and [spec_loop] stamps it with that same t *)
Definition timed_call_ok (R : reg) (e : event) : Prop :=
  In e (g_log R) \/
  exists x k Rm r ret period last,
    e = EvCall x (r_cb r) (r_ud r) (r_user r) k (g_clock Rm) ret /\
    ((k = KTimed /\ g_conn R = true) \/ k = KGlobal) /\
    find_rec x (rget k Rm) = Some r /\ r_flt r = FTimed period last /\ period <= elapsed last (g_clock Rm) /\
    s_gate k Rm r = true /\ g_neg Rm = g_neg R.

Lemma s_match_timed : forall k r sz now, (k = KTimed \/ k = KGlobal) -> s_match k r sz now = true ->
  exists period last, r_flt r = FTimed period last /\ period <= elapsed last now.
Proof.
  intros k r sz now [->| ->] M; unfold s_match in M; destruct (r_flt r); try discriminate;
    apply Z.leb_le in M; eauto.
Qed.

Theorem timed_sound_lemma : forall sc R e,
  In e (g_log (spec_fire_timed sc R)) -> timed_call_ok R e.
Proof.
  intros sc R e. unfold spec_fire_timed.
  set (R1 := if g_conn R then spec_loop sc KTimed no_stanza (hids (rget KTimed (r_enable KTimed R))) (r_enable KTimed R) else R).
  assert (H1 : g_neg R1 = g_neg R /\ forall e, In e (g_log R1) -> timed_call_ok R e).
  { unfold R1. destruct (g_conn R) eqn:EC.
    - destruct (stable_spec_loop sc KTimed no_stanza (hids (rget KTimed (r_enable KTimed R))) (r_enable KTimed R)) as (a&_).
      rewrite a, g_neg_r_enable. split; auto.
      intros e0. apply (spec_loop_log_inv sc KTimed no_stanza (timed_call_ok R) (g_neg R) (hids (rget KTimed (r_enable KTimed R)))).
      + intros x Rm r ret Hx F G M HN.
        destruct (s_match_timed KTimed r no_stanza (g_clock Rm) (or_introl eq_refl) M) as [p [l [Fl Hd]]].
        right. exists x, KTimed, Rm, r, ret, p, l. repeat split; auto.
      + intros y Hy. exact Hy.
      + apply g_neg_r_enable.
      + intros e1 He1. left. rewrite g_log_r_enable in He1. exact He1.
    - split; auto. intros e1 He1. left. exact He1. }
  destruct H1 as [N1 L1].
  apply (spec_loop_log_inv sc KGlobal no_stanza (timed_call_ok R) (g_neg R) (hids (rget KGlobal R1))); auto.
  - intros x Rm r ret Hx F G M HN.
    destruct (s_match_timed KGlobal r no_stanza (g_clock Rm) (or_intror eq_refl) M) as [p [l [Fl Hd]]].
    right. exists x, KGlobal, Rm, r, ret, p, l. repeat split; auto.
  - intros y Hy. exact Hy.
Qed.

Lemma elapsed_nowrap : forall last now, 0 <= last <= now -> now < two64 -> elapsed last now = now - last.
Proof. intros. unfold elapsed. apply Z.mod_small. unfold two64 in *. lia. Qed.

(* --- a registration that is gone is never called again --- *)
Definition is_call_of (x : nat) (e : event) : Prop := exists cb ud u k t ret, e = EvCall x cb ud u k t ret.
Definition absent (R : reg) (x : nat) : Prop := forall k, present (rget k R) x = false.

Lemma no_call_absent_loop : forall sc k sz x snap R, (x < g_next R)%nat -> present (rget k R) x = false ->
  forall e, In e (g_log (spec_loop sc k sz snap R)) -> is_call_of x e -> In e (g_log R).
Proof.
  intros sc k sz x. induction snap as [|y snap IH]; intros R Hx P e He Hc; cbn [spec_loop] in He; auto.
  destruct (find_rec y (rget k R)) as [r|] eqn:F; [|eapply IH; eauto].
  destruct (s_gate k R r && s_match k r sz (g_clock R)); [|eapply IH; eauto].
  destruct (sc _ (r_cb r) (r_ud r)) as [acts ret].
  assert (NE : y <> x). { intro; subst y. apply find_present in F. congruence. }
  set (R1 := r_update k y (rec_stamp k (g_clock R)) R) in *.
  set (ev := EvCall y (r_cb r) (r_ud r) (r_user r) k (g_clock R1) ret) in *.
  set (R2 := rset_log R1 (ev :: g_log R1)) in *.
  assert (S1 : stable R R1) by (unfold R1, r_update; apply stable_rset). destruct S1 as (s1&s2&s3&s4).
  pose proof (stable3_actions acts R2) as (t1&t2&t4).
  assert (P2 : present (rget k R2) x = false).
  { replace (rget k R2) with (rget k R1) by (destruct k; reflexivity).
    unfold R1. rewrite rget_update_cases; auto. intro. apply hid_rec_stamp. }
  assert (G2 : g_next R2 = g_next R) by (unfold R2, R1, r_update; simpl; apply g_next_rset).
  assert (P3 : present (rget k (r_actions acts R2)) x = false) by (apply absent_actions; auto; lia).
  assert (G3 : (x < g_next (r_actions acts R2))%nat) by (pose proof (g_next_actions acts R2); lia).
  assert (FIN : In e (ev :: g_log R) -> In e (g_log R)).
  { intros [<-|H]; auto. destruct Hc as (cb&ud&u&k0&t&ret0&Hc). unfold ev in Hc. inversion Hc. contradiction. }
  apply FIN. destruct ret.
  - replace (ev :: g_log R) with (g_log (r_actions acts R2)) by (rewrite t1; unfold R2; simpl; rewrite s1; reflexivity).
    eapply IH; eauto.
  - set (R4 := r_remove k y (r_actions acts R2)) in *.
    assert (L4 : g_log R4 = ev :: g_log R).
    { unfold R4, r_remove.
      destruct (g_fields_rset k (filter (fun r0 => negb (Nat.eqb (hid r0) y)) (rget k (r_actions acts R2))) (r_actions acts R2)) as (a&_).
      rewrite a, t1. unfold R2. simpl. rewrite s1. reflexivity. }
    rewrite <- L4. eapply IH; eauto.
    + unfold R4, r_remove. rewrite g_next_rset. auto.
    + unfold R4, r_remove. rewrite rget_rset_same. apply present_filter_false. auto.
Qed.

Lemma absent_r_enable : forall k R x, absent R x -> absent (r_enable k R) x.
Proof.
  intros k R x H k'. destruct (kind_eq_dec k' k) as [->|N].
  - rewrite rget_r_enable_same. rewrite present_map_same; auto.
  - rewrite rget_r_enable_other; auto.
Qed.

Lemma g_next_r_enable : forall k R, g_next (r_enable k R) = g_next R.
Proof. intros. unfold r_enable. apply g_next_rset. Qed.

Lemma absent_pass : forall sc k sz snap R x, (x < g_next R)%nat -> absent R x ->
  absent (spec_loop sc k sz snap R) x /\ (x < g_next (spec_loop sc k sz snap R))%nat /\
  (forall e, In e (g_log (spec_loop sc k sz snap R)) -> is_call_of x e -> In e (g_log R)).
Proof.
  intros. repeat split.
  - intro k'. apply absent_spec_loop; auto.
  - pose proof (g_next_spec_loop sc k sz snap R). lia.
  - apply no_call_absent_loop; auto.
Qed.

Lemma absent_fire_stanza : forall sc sz R x, (x < g_next R)%nat -> absent R x ->
  absent (spec_fire_stanza sc sz R) x /\ (x < g_next (spec_fire_stanza sc sz R))%nat /\
  (forall e, In e (g_log (spec_fire_stanza sc sz R)) -> is_call_of x e -> In e (g_log R)).
Proof.
  intros sc sz R x Hx Ab. unfold spec_fire_stanza.
  set (R1 := r_enable KStanza R).
  assert (A1 : absent R1 x) by (apply absent_r_enable; auto).
  assert (G1 : (x < g_next R1)%nat) by (unfold R1; rewrite g_next_r_enable; auto).
  assert (L1 : g_log R1 = g_log R) by apply g_log_r_enable.
  destruct (st_id sz) as [id|].
  - set (R1' := r_enable (KId id) R1).
    assert (A1' : absent R1' x) by (apply absent_r_enable; auto).
    assert (G1' : (x < g_next R1')%nat) by (unfold R1'; rewrite g_next_r_enable; auto).
    destruct (absent_pass sc (KId id) sz (hids (rget (KId id) R1')) R1' x G1' A1') as (a2&g2&l2).
    destruct (absent_pass sc KStanza sz (hids (rget KStanza R1)) _ x g2 a2) as (a3&g3&l3).
    split; [exact a3 | split; [exact g3 |]].
    intros e He Hc. rewrite <- L1. unfold R1' in l2. rewrite g_log_r_enable in l2. auto.
  - destruct (absent_pass sc KStanza sz (hids (rget KStanza R1)) R1 x G1 A1) as (a3&g3&l3).
    split; [exact a3 | split; [exact g3 |]]. intros e He Hc. rewrite <- L1. auto.
Qed.

Lemma absent_fire_timed : forall sc R x, (x < g_next R)%nat -> absent R x ->
  absent (spec_fire_timed sc R) x /\ (x < g_next (spec_fire_timed sc R))%nat /\
  (forall e, In e (g_log (spec_fire_timed sc R)) -> is_call_of x e -> In e (g_log R)).
Proof.
  intros sc R x Hx Ab. unfold spec_fire_timed.
  set (R1 := if g_conn R then spec_loop sc KTimed no_stanza (hids (rget KTimed (r_enable KTimed R))) (r_enable KTimed R) else R).
  assert (H1 : absent R1 x /\ (x < g_next R1)%nat /\ (forall e, In e (g_log R1) -> is_call_of x e -> In e (g_log R))).
  { unfold R1. destruct (g_conn R); auto.
    assert (A0 : absent (r_enable KTimed R) x) by (apply absent_r_enable; auto).
    assert (G0 : (x < g_next (r_enable KTimed R))%nat) by (rewrite g_next_r_enable; auto).
    destruct (absent_pass sc KTimed no_stanza (hids (rget KTimed (r_enable KTimed R))) _ x G0 A0) as (a&g&l).
    split; [exact a | split; [exact g |]]. intros e He Hc. rewrite <- (g_log_r_enable KTimed R). auto. }
  destruct H1 as (a1&g1&l1).
  destruct (absent_pass sc KGlobal no_stanza (hids (rget KGlobal R1)) R1 x g1 a1) as (a2&g2&l2).
  repeat split; auto.
Qed.

Lemma absent_same_lists : forall R R' x, (forall k, rget k R' = rget k R) -> absent R x -> absent R' x.
Proof. intros R R' x H A k. rewrite H. apply A. Qed.

Lemma absent_reset : forall u R x, absent R x ->
  absent (r_reset u R) x /\ g_next (r_reset u R) = g_next R /\ g_log (r_reset u R) = g_log R.
Proof.
  intros u R x Ab. unfold r_reset. split; [|split].
  - intro k. destruct (kind_eq_dec k KTimed) as [->|N].
    + rewrite rget_rset_same. rewrite present_map_same; auto.
      intro r. destruct ((u && r_user r) || negb u); auto. apply hid_rec_stamp.
    + rewrite rget_rset_other; auto.
  - apply g_next_rset.
  - apply (g_fields_rset KTimed _ R).
Qed.

Lemma absent_op : forall sc o R x, no_sysdel o -> (x < g_next R)%nat -> absent R x ->
  absent (spec_op sc o R) x /\ (x < g_next (spec_op sc o R))%nat /\
  (forall e, In e (g_log (spec_op sc o R)) -> is_call_of x e -> In e (g_log R)).
Proof.
  intros sc o R x NS Hx Ab. destruct o; cbn [spec_op].
  - repeat split.
    + intro k. apply absent_action; auto.
    + pose proof (g_next_action a R). lia.
    + intros e He _. destruct (stable3_action a R) as (l&_). rewrite l in He. exact He.
  - apply absent_fire_stanza; auto.
  - apply absent_fire_timed; auto.
  - unfold spec_run_once.
    assert (F : absent (r_flush R) x /\ (x < g_next (r_flush R))%nat /\
                forall e, In e (g_log (r_flush R)) -> is_call_of x e -> In e (g_log R)).
    { unfold r_flush. destruct (g_conn R); [|repeat split; auto].
      split; [|split; [exact Hx|]].
      - eapply absent_same_lists; [|exact Ab]. intro k; destruct k; reflexivity.
      - intros e He Hc. simpl in He. apply in_app_or in He. destruct He as [He|He]; auto.
        apply in_rev in He. apply in_map_iff in He. destruct He as [d [<- _]].
        destruct Hc as (cb&ud&u&k&t&ret&Hc). discriminate. }
    destruct F as (a0&g0&l0).
    destruct (absent_fire_timed sc (r_flush R) x g0 a0) as (a1&g1&l1).
    destruct events; [|repeat split; auto].
    destruct (absent_fire_timed sc _ x g1 a1) as (a2&g2&l2). repeat split; auto.
  - split; [|split; [exact Hx | auto]]. eapply absent_same_lists; [|exact Ab]. intro k; destruct k; reflexivity.
  - split; [|split; [exact Hx | auto]]. eapply absent_same_lists; [|exact Ab]. intro k; destruct k; reflexivity.
  - split; [|split; [exact Hx | auto]]. eapply absent_same_lists; [|exact Ab]. intro k; destruct k; reflexivity.
  - destruct (absent_reset user_only R x Ab) as (a&g&l). split; [exact a | split; [rewrite g; exact Hx |]].
    intros e He _. rewrite l in He. exact He.
  - exfalso. apply NS. reflexivity.
  - destruct (absent_reset false R x Ab) as (a&g&l). split; [|split].
    + eapply absent_same_lists; [|exact a]. intro k; destruct k; reflexivity.
    + change (g_next (rset_neg (r_reset false R) true)) with (g_next (r_reset false R)). rewrite g. exact Hx.
    + intros e He _. change (g_log (rset_neg (r_reset false R) true)) with (g_log (r_reset false R)) in He.
      rewrite l in He. exact He.
Qed.

Theorem never_again_lemma : forall sc ops R x, Forall no_sysdel ops -> (x < g_next R)%nat -> absent R x ->
  absent (spec_run sc ops R) x /\
  (forall e, In e (g_log (spec_run sc ops R)) -> is_call_of x e -> In e (g_log R)).
Proof.
  intros sc. induction ops as [|o ops IH]; intros R x NS Hx Ab; cbn [spec_run]; auto.
  inversion NS; subst.
  destruct (absent_op sc o R x H1 Hx Ab) as (a1&g1&l1).
  destruct (IH (spec_op sc o R) x H2 g1 a1) as (a2&l2). split; auto.
Qed.

(* --- records of another list are not touched by a pass, except that they may be deleted --- *)
Lemma find_back_spec_loop : forall sc k k' sz x r', k' <> k ->
  forall snap R, WF R -> (x < g_next R)%nat ->
  find_rec x (rget k' (spec_loop sc k sz snap R)) = Some r' -> find_rec x (rget k' R) = Some r'.
Proof.
  intros sc k k' sz x r' N. induction snap as [|y snap IH]; intros R W Hx F; cbn [spec_loop] in F; auto.
  destruct (find_rec y (rget k R)) as [r|]; auto.
  destruct (s_gate k R r && s_match k r sz (g_clock R)); auto.
  destruct (sc _ (r_cb r) (r_ud r)) as [acts ret].
  set (R1 := r_update k y (rec_stamp k (g_clock R)) R) in *.
  set (R2 := rset_log R1 (EvCall y (r_cb r) (r_ud r) (r_user r) k (g_clock R1) ret :: g_log R1)) in *.
  assert (W2 : WF R2).
  { apply wf_rset_log. apply wf_r_update; auto. intro. apply hid_rec_stamp. }
  assert (G2 : g_next R2 = g_next R) by (unfold R2, R1, r_update; simpl; apply g_next_rset).
  assert (E2 : rget k' R2 = rget k' R).
  { replace (rget k' R2) with (rget k' R1) by (destruct k'; reflexivity).
    unfold R1, r_update. apply rget_rset_other; auto. }
  rewrite <- E2. apply (find_back_actions acts R2); auto; [lia|].
  pose proof (wf_actions acts R2 W2) as W3.
  pose proof (g_next_actions acts R2) as G3.
  destruct ret.
  - apply IH in F; auto. lia.
  - apply IH in F.
    + unfold r_remove in F. rewrite rget_rset_other in F; auto.
    + apply wf_r_remove; auto.
    + unfold r_remove. rewrite g_next_rset. lia.
Qed.

Lemma find_rec_map : forall (f : hrec -> hrec) x l, (forall r, hid (f r) = hid r) ->
  find_rec x (map f l) = option_map f (find_rec x l).
Proof.
  intros f x l Hf. unfold find_rec. induction l as [|q l IH]; simpl; auto.
  rewrite Hf. destruct (Nat.eqb (hid q) x); auto.
Qed.

Lemma find_r_enable_same : forall k R x r, find_rec x (rget k R) = Some r ->
  find_rec x (rget k (r_enable k R)) = Some (rec_enabled r true).
Proof. intros. rewrite rget_r_enable_same, find_rec_map; auto. rewrite H. reflexivity. Qed.

Lemma s_match_enabled : forall k r sz now, s_match k (rec_enabled r true) sz now = s_match k r sz now.
Proof. reflexivity. Qed.

Lemma find_lt : forall R k x r, WF R -> find_rec x (rget k R) = Some r -> (x < g_next R)%nat.
Proof. intros R k x r W F. apply find_rec_some_in in F. destruct F as [F <-]. eapply (wf_lt _ W); eauto. Qed.

Lemma find_in_hids : forall l x r, find_rec x l = Some r -> In x (hids l).
Proof. intros. apply find_rec_some_in in H. destruct H as [H <-]. apply in_hids. auto. Qed.

Lemma pass_complete : forall sc k sz R x r, instant sc -> WF R ->
  find_rec x (rget k R) = Some r -> s_gate k R r = true -> s_match k r sz (g_clock R) = true ->
  (exists ret, In (EvCall x (r_cb r) (r_ud r) (r_user r) k (g_clock R) ret) (g_log (spec_loop sc k sz (hids (rget k R)) R))) \/
  present (rget k (spec_loop sc k sz (hids (rget k R)) R)) x = false.
Proof.
  intros sc k sz R x r I H. intros. apply spec_loop_complete; auto.
  - apply (wf_nodup _ H).
  - intros h Hh. apply in_hids_inv in Hh. destruct Hh as [q [Hq <-]]. eapply (wf_lt _ H); eauto.
  - eapply find_in_hids; eauto.
Qed.

(* a due timed handler of a connected connection fires in this pass (unless a handler served earlier
   in the pass deleted it) *)
Theorem timed_due_fires_lemma : forall sc R x r,
  instant sc -> WF R -> g_conn R = true -> find_rec x (rget KTimed R) = Some r ->
  s_gate KTimed R r = true -> s_match KTimed r no_stanza (g_clock R) = true ->
  (exists ret, In (EvCall x (r_cb r) (r_ud r) (r_user r) KTimed (g_clock R) ret) (g_log (spec_fire_timed sc R))) \/
  present (rget KTimed (spec_fire_timed sc R)) x = false.
Proof.
  intros sc R x r I W HC F G M. unfold spec_fire_timed. rewrite HC.
  set (R0 := r_enable KTimed R).
  assert (W0 : WF R0) by (apply wf_r_enable; auto).
  assert (F0 : find_rec x (rget KTimed R0) = Some (rec_enabled r true)) by (apply find_r_enable_same; auto).
  assert (G0 : s_gate KTimed R0 (rec_enabled r true) = true).
  { rewrite (s_gate_neg KTimed R R0 _ (g_neg_r_enable KTimed R)). exact G. }
  assert (M0 : s_match KTimed (rec_enabled r true) no_stanza (g_clock R0) = true).
  { unfold R0. rewrite g_clock_r_enable. exact M. }
  destruct (pass_complete sc KTimed no_stanza R0 x _ I W0 F0 G0 M0) as [[ret H]|H].
  - left. exists ret. apply log_mono_spec_loop. unfold R0 in H at 1. rewrite g_clock_r_enable in H. exact H.
  - right. apply absent_spec_loop; auto.
    pose proof (g_next_spec_loop sc KTimed no_stanza (hids (rget KTimed R0)) R0).
    pose proof (find_lt _ _ _ _ W F). assert (g_next R0 = g_next R) by apply g_next_r_enable. lia.
Qed.

(* a due context-wide handler fires in this pass whatever the state of the connection *)
Theorem global_due_fires_lemma : forall sc R x r,
  instant sc -> WF R -> find_rec x (rget KGlobal R) = Some r -> s_match KGlobal r no_stanza (g_clock R) = true ->
  (exists ret, In (EvCall x (r_cb r) (r_ud r) (r_user r) KGlobal (g_clock R) ret) (g_log (spec_fire_timed sc R))) \/
  present (rget KGlobal (spec_fire_timed sc R)) x = false.
Proof.
  intros sc R x r I W F M. unfold spec_fire_timed.
  set (R1 := if g_conn R then spec_loop sc KTimed no_stanza (hids (rget KTimed (r_enable KTimed R))) (r_enable KTimed R) else R).
  pose proof (find_lt _ _ _ _ W F) as Hx.
  assert (H1 : WF R1 /\ g_clock R1 = g_clock R /\ (g_next R <= g_next R1)%nat /\
               forall r', find_rec x (rget KGlobal R1) = Some r' -> r' = r).
  { unfold R1. destruct (g_conn R).
    - set (R0 := r_enable KTimed R).
      assert (W0 : WF R0) by (apply wf_r_enable; auto).
      destruct (stable_spec_loop sc KTimed no_stanza (hids (rget KTimed R0)) R0) as (_&_&c). specialize (c I).
      split; [|split; [|split]].
      + apply wf_spec_loop; auto.
      + rewrite c. apply g_clock_r_enable.
      + pose proof (g_next_spec_loop sc KTimed no_stanza (hids (rget KTimed R0)) R0).
        assert (g_next R0 = g_next R) by apply g_next_r_enable. lia.
      + intros r' Fr. apply find_back_spec_loop in Fr; auto; try congruence;
          try (unfold R0; rewrite g_next_r_enable; exact Hx).
        all: try (unfold R0 in Fr; rewrite rget_r_enable_other in Fr by congruence; congruence).
    - split; [exact W|split; [reflexivity|split; [lia|]]]. intros r' Fr. congruence. }
  destruct H1 as (W1&C1&G1&FB).
  destruct (present (rget KGlobal R1) x) eqn:P1.
  - destruct (present_find _ _ P1) as [r1 F1]. pose proof (FB _ F1). subst r1.
    rewrite <- C1. apply pass_complete; auto. rewrite C1. exact M.
  - right. apply absent_spec_loop; auto. lia.
Qed.

(* a registered stanza handler whose filter matches is called for the stanza (unless a handler called
   earlier for the same stanza deleted it) *)
Theorem stanza_match_fires_lemma : forall sc sz R x r,
  instant sc -> WF R -> find_rec x (rget KStanza R) = Some r -> s_gate KStanza R r = true ->
  s_match KStanza r sz (g_clock R) = true ->
  (exists ret, In (EvCall x (r_cb r) (r_ud r) (r_user r) KStanza (g_clock R) ret) (g_log (spec_fire_stanza sc sz R))) \/
  present (rget KStanza (spec_fire_stanza sc sz R)) x = false.
Proof.
  intros sc sz R x r I W F G M. unfold spec_fire_stanza.
  set (R1 := r_enable KStanza R).
  assert (W1 : WF R1) by (apply wf_r_enable; auto).
  assert (F1 : find_rec x (rget KStanza R1) = Some (rec_enabled r true)) by (apply find_r_enable_same; auto).
  pose proof (find_lt _ _ _ _ W F) as Hx.
  set (R2 := match st_id sz with
             | Some id => spec_loop sc (KId id) sz (hids (rget (KId id) (r_enable (KId id) R1))) (r_enable (KId id) R1)
             | None => R1 end).
  assert (H2 : WF R2 /\ g_clock R2 = g_clock R /\ g_neg R2 = g_neg R /\ (g_next R <= g_next R2)%nat /\
               forall r', find_rec x (rget KStanza R2) = Some r' -> r' = rec_enabled r true).
  { unfold R2. destruct (st_id sz) as [id|].
    - set (R1' := r_enable (KId id) R1).
      assert (W1' : WF R1') by (apply wf_r_enable; auto).
      destruct (stable_spec_loop sc (KId id) sz (hids (rget (KId id) R1')) R1') as (a&_&c). specialize (c I).
      split; [apply wf_spec_loop; auto | split; [|split; [|split]]].
      + rewrite c. unfold R1', R1. rewrite !g_clock_r_enable. reflexivity.
      + rewrite a. unfold R1', R1. rewrite !g_neg_r_enable. reflexivity.
      + pose proof (g_next_spec_loop sc (KId id) sz (hids (rget (KId id) R1')) R1').
        assert (g_next R1' = g_next R) by (unfold R1', R1; rewrite !g_next_r_enable; reflexivity). lia.
      + intros r' Fr. apply find_back_spec_loop in Fr; auto; try congruence;
          try (unfold R1', R1; rewrite !g_next_r_enable; exact Hx).
        all: try (unfold R1' in Fr; rewrite rget_r_enable_other in Fr by congruence; congruence).
    - split; [exact W1 | split; [apply g_clock_r_enable | split; [apply g_neg_r_enable | split]]].
      + unfold R1. rewrite g_next_r_enable. lia.
      + intros r' Fr. congruence. }
  destruct H2 as (W2&C2&N2&G2&FB).
  destruct (present (rget KStanza R2) x) eqn:P2.
  - destruct (present_find _ _ P2) as [r2 F2]. pose proof (FB _ F2). subst r2.
    assert (X : (exists ret, In (EvCall x (r_cb (rec_enabled r true)) (r_ud (rec_enabled r true)) (r_user (rec_enabled r true)) KStanza (g_clock R2) ret)
                      (g_log (spec_loop sc KStanza sz (hids (rget KStanza R1)) R2))) \/
                present (rget KStanza (spec_loop sc KStanza sz (hids (rget KStanza R1)) R2)) x = false).
    { apply spec_loop_complete; [exact I | exact W2 | | | | exact F2 | | ].
      - apply (wf_nodup _ W1).
      - intros h Hh. apply in_hids_inv in Hh. destruct Hh as [q [Hq <-]].
        pose proof (wf_lt _ W1 _ _ Hq). assert (g_next R1 = g_next R) by apply g_next_r_enable. lia.
      - eapply find_in_hids; eauto.
      - rewrite (s_gate_neg KStanza R R2 _ N2). exact G.
      - rewrite C2. exact M. }
    rewrite C2 in X. exact X.
  - right. apply absent_spec_loop; auto. lia.
Qed.

(* --- one (callback, userdata) pair is kept once per list --- *)
Definition key (r : hrec) : Z * Z := (r_cb r, r_ud r).
Definition KeysOK (R : reg) : Prop := forall k, NoDup (map key (rget k R)).

Lemma keys_rset : forall R k l, KeysOK R -> NoDup (map key l) -> KeysOK (rset k l R).
Proof.
  intros R k l H ND k'. destruct (kind_eq_dec k' k) as [->|N].
  - rewrite rget_rset_same. auto.
  - rewrite rget_rset_other; auto.
Qed.

Lemma keys_filter : forall (p : hrec -> bool) l, NoDup (map key l) -> NoDup (map key (filter p l)).
Proof.
  induction l as [|r l IH]; simpl; intro H; auto. inversion H; subst.
  destruct (p r); simpl; auto. constructor; auto.
  intro X. apply H2. apply in_map_iff in X. destruct X as [q [E Hq]]. apply filter_In in Hq.
  apply in_map_iff. exists q. tauto.
Qed.

Lemma keys_map : forall (f : hrec -> hrec) l, (forall r, key (f r) = key r) -> map key (map f l) = map key l.
Proof. intros. rewrite map_map. apply map_ext. auto. Qed.

Lemma keys_same_lists : forall R R', (forall k, rget k R' = rget k R) -> KeysOK R -> KeysOK R'.
Proof. intros R R' H K k. rewrite H. apply K. Qed.

Lemma has_key_false_fresh : forall cb ud l, has_key cb ud l = false -> ~ In (cb, ud) (map key l).
Proof.
  intros cb ud l H X. apply in_map_iff in X. destruct X as [r [E Hr]]. unfold key in E. inversion E.
  eapply has_key_false_notin; eauto.
Qed.

Lemma keys_r_add : forall at_head k cb ud user flt R, KeysOK R -> KeysOK (r_add at_head k cb ud user flt R).
Proof.
  intros at_head k cb ud user flt R K. unfold r_add. destruct (has_key cb ud (rget k R)) eqn:HK; auto.
  apply keys_rset.
  - eapply keys_same_lists; [|exact K]. intro k'. apply rget_rset_next.
  - pose proof (has_key_false_fresh _ _ _ HK) as NF. destruct at_head.
    + simpl. constructor; auto.
    + rewrite map_app. simpl.
      assert (X : forall (l : list (Z * Z)) a, NoDup l -> ~ In a l -> NoDup (l ++ [a])).
      { induction l as [|b l IH]; simpl; intros a0 H N; [constructor; auto; constructor|].
        inversion H; subst. constructor.
        - intro Y. apply in_app_or in Y. destruct Y as [Y|[Y|[]]]; auto.
        - apply IH; auto. }
      apply X; auto.
Qed.

Lemma keys_action : forall a R, KeysOK R -> KeysOK (r_action a R).
Proof.
  intros a R K. destruct a; cbn [r_action]; try (apply keys_r_add; auto).
  - unfold r_del. apply keys_rset; auto. apply keys_filter. apply K.
  - destruct (g_conn R); auto.
  - exact K.
Qed.

Lemma keys_actions : forall acts R, KeysOK R -> KeysOK (r_actions acts R).
Proof. induction acts; simpl; auto. intros. apply IHacts. apply keys_action. auto. Qed.

Lemma key_rec_stamp : forall k now r, key (rec_stamp k now r) = key r.
Proof. intros. unfold rec_stamp. destruct k; auto; destruct (r_flt r); auto. Qed.

Lemma keys_spec_loop : forall sc k sz snap R, KeysOK R -> KeysOK (spec_loop sc k sz snap R).
Proof.
  induction snap as [|x snap IH]; intros R K; cbn [spec_loop]; auto.
  destruct (find_rec x (rget k R)) as [r|]; auto.
  destruct (s_gate k R r && s_match k r sz (g_clock R)); auto.
  destruct (sc _ (r_cb r) (r_ud r)) as [acts ret]. apply IH.
  assert (K1 : KeysOK (r_update k x (rec_stamp k (g_clock R)) R)).
  { unfold r_update. apply keys_rset; auto. rewrite keys_map; [apply K|].
    intro q. destruct (Nat.eqb (hid q) x); auto. apply key_rec_stamp. }
  match goal with |- KeysOK (if ret then ?A else _) => assert (K3 : KeysOK A) end.
  { apply keys_actions. eapply keys_same_lists; [|exact K1]. intro k'; destruct k'; reflexivity. }
  destruct ret; auto. unfold r_remove. apply keys_rset; auto. apply keys_filter. apply K3.
Qed.

Lemma keys_r_enable : forall k R, KeysOK R -> KeysOK (r_enable k R).
Proof. intros. unfold r_enable. apply keys_rset; auto. rewrite keys_map; auto. Qed.

Lemma keys_fire_timed : forall sc R, KeysOK R -> KeysOK (spec_fire_timed sc R).
Proof.
  intros. unfold spec_fire_timed. apply keys_spec_loop. destruct (g_conn R); auto.
  apply keys_spec_loop. apply keys_r_enable. auto.
Qed.

Lemma keys_r_reset : forall u R, KeysOK R -> KeysOK (r_reset u R).
Proof.
  intros. unfold r_reset. apply keys_rset; auto. rewrite keys_map; auto.
  intro r. destruct ((u && r_user r) || negb u); auto. apply key_rec_stamp.
Qed.

Lemma keys_op : forall sc o R, no_sysdel o -> KeysOK R -> KeysOK (spec_op sc o R).
Proof.
  intros sc o R NS K. destruct o; cbn [spec_op].
  - apply keys_action; auto.
  - unfold spec_fire_stanza. apply keys_spec_loop. destruct (st_id sz).
    + apply keys_spec_loop. apply keys_r_enable. apply keys_r_enable. auto.
    + apply keys_r_enable. auto.
  - apply keys_fire_timed; auto.
  - unfold spec_run_once.
    assert (KF : KeysOK (r_flush R)).
    { unfold r_flush. destruct (g_conn R); auto. }
    destruct events; repeat apply keys_fire_timed; auto.
  - try (eapply keys_same_lists; [|exact K]; intro k; destruct k; reflexivity).
  - try (eapply keys_same_lists; [|exact K]; intro k; destruct k; reflexivity).
  - try (eapply keys_same_lists; [|exact K]; intro k; destruct k; reflexivity).
  - apply keys_r_reset; auto.
  - exfalso. apply NS. reflexivity.
  - eapply keys_same_lists with (R := r_reset false R); [|apply keys_r_reset; auto]. intro k; destruct k; reflexivity.
Qed.

Theorem duplicate_once_lemma : forall sc ops, Forall no_sysdel ops -> KeysOK (spec_run sc ops init_reg).
Proof.
  intros sc ops. assert (G : forall R, Forall no_sysdel ops -> KeysOK R -> KeysOK (spec_run sc ops R)).
  { induction ops as [|o ops IH]; intros R NS K; cbn [spec_run]; auto.
    inversion NS; subst. apply IH; auto. apply keys_op; auto. }
  intro NS. apply G; auto. intro k. destruct k; simpl; constructor.
Qed.

Theorem duplicate_ignored_lemma : forall at_head k cb ud user flt R,
  has_key cb ud (rget k R) = true -> r_add at_head k cb ud user flt R = R.
Proof. intros. unfold r_add. rewrite H. reflexivity. Qed.

(* --- deleting and returning false make a registration absent --- *)
Theorem deleted_absent_lemma : forall R k cb r, WF R -> In r (rget k R) -> r_cb r = cb ->
  present (rget k (r_del k cb R)) (hid r) = false.
Proof.
  intros R k cb r W Hr E. unfold r_del. rewrite rget_rset_same.
  rewrite (present_filter_unique _ _ r (wf_nodup _ W k) Hr). rewrite E, Z.eqb_refl. reflexivity.
Qed.

Lemma event_eq_dec : forall a b : event, {a = b} + {a <> b}.
Proof.
  decide equality; try apply Bool.bool_dec; try apply Z.eq_dec; try apply Nat.eq_dec; try apply kind_eq_dec.
  apply str_eq_dec.
Qed.

Lemma ret_false_absent_loop : forall sc k sz x cb ud u t snap R, WF R ->
  In (EvCall x cb ud u k t false) (g_log (spec_loop sc k sz snap R)) ->
  ~ In (EvCall x cb ud u k t false) (g_log R) ->
  present (rget k (spec_loop sc k sz snap R)) x = false.
Proof.
  intros sc k sz x cb ud u t. set (e := EvCall x cb ud u k t false).
  induction snap as [|y snap IH]; intros R W He Hn; cbn [spec_loop] in *; [contradiction|].
  destruct (find_rec y (rget k R)) as [r|] eqn:F; [|apply IH; auto].
  destruct (s_gate k R r && s_match k r sz (g_clock R)); [|apply IH; auto].
  destruct (sc _ (r_cb r) (r_ud r)) as [acts ret].
  set (R1 := r_update k y (rec_stamp k (g_clock R)) R) in *.
  set (ev := EvCall y (r_cb r) (r_ud r) (r_user r) k (g_clock R1) ret) in *.
  set (R2 := rset_log R1 (ev :: g_log R1)) in *.
  assert (S1 : stable R R1) by (unfold R1, r_update; apply stable_rset). destruct S1 as (s1&s2&s3&s4).
  pose proof (stable3_actions acts R2) as (t1&t2&t4).
  assert (W2 : WF R2).
  { apply wf_rset_log. apply wf_r_update; auto. intro. apply hid_rec_stamp. }
  pose proof (wf_actions acts R2 W2) as W3.
  set (R4 := if ret then r_actions acts R2 else r_remove k y (r_actions acts R2)) in *.
  assert (W4 : WF R4) by (unfold R4; destruct ret; auto; apply wf_r_remove; auto).
  assert (L4 : g_log R4 = ev :: g_log R).
  { unfold R4. destruct ret.
    - rewrite t1. unfold R2. simpl. rewrite s1. reflexivity.
    - unfold r_remove.
      destruct (g_fields_rset k (filter (fun r0 => negb (Nat.eqb (hid r0) y)) (rget k (r_actions acts R2))) (r_actions acts R2)) as (a&_).
      rewrite a, t1. unfold R2. simpl. rewrite s1. reflexivity. }
  destruct (event_eq_dec e ev) as [EQ|NE].
  - (* this is the call: it returned false, so it was unlinked right after its actions *)
    unfold e, ev in EQ. inversion EQ; subst y ret.
    assert (P4 : present (rget k R4) x = false).
    { unfold R4, r_remove. rewrite rget_rset_same.
      destruct (present (filter (fun r0 => negb (Nat.eqb (hid r0) x)) (rget k (r_actions acts R2))) x) eqn:P; auto.
      apply present_in in P. apply in_hids_inv in P. destruct P as [q [Hq Eq]]. apply filter_In in Hq.
      destruct Hq as [_ Hq]. rewrite Eq, Nat.eqb_refl in Hq. discriminate. }
    apply absent_spec_loop; auto.
    pose proof (find_lt _ _ _ _ W F). pose proof (g_next_actions acts R2).
    assert (g_next R2 = g_next R) by (unfold R2, R1, r_update; simpl; apply g_next_rset).
    unfold R4, r_remove. rewrite g_next_rset. lia.
  - apply IH; auto. rewrite L4. intros [X|X]; auto.
Qed.

(* --- the executable filter test is the documented one --- *)
Lemma ostr_eqb_eq : forall a b, ostr_eqb a b = true <-> a = b.
Proof.
  intros [a|] [b|]; simpl; split; intro H; try discriminate; try reflexivity.
  - apply str_eqb_eq in H. congruence.
  - inversion H. apply str_eqb_refl.
Qed.

Theorem match_spec_lemma : forall user ns name type sz,
  s_match_stanza user ns name type sz = true <-> stanza_filter_matches user ns name type sz.
Proof.
  intros user ns name type sz. unfold s_match_stanza, stanza_filter_matches.
  rewrite !andb_true_iff.
  assert (A : (match ns with None => true
               | Some _ => ostr_eqb (st_ns sz) ns || (user && existsb (fun c => ostr_eqb c ns) (st_children sz)) end) = true
              <-> (ns = None \/ st_ns sz = ns \/ (user = true /\ ns <> None /\ In ns (st_children sz)))).
  { destruct ns as [n|].
    - rewrite orb_true_iff, andb_true_iff, ostr_eqb_eq, existsb_exists. split.
      + intros [H|[U [c [Hc E]]]]; auto. apply ostr_eqb_eq in E. subst c. right. right. repeat split; [auto|discriminate|auto].
      + intros [H|[H|[U [_ H]]]]; [discriminate|auto|]. right. split; auto. exists (Some n). split; auto. apply ostr_eqb_eq. auto.
    - split; auto. }
  assert (B : forall flt v, (match flt with None => true | Some _ => ostr_eqb v flt end) = true <-> (flt = None \/ v = flt)).
  { intros [f|] v.
    - rewrite ostr_eqb_eq. split; auto. intros [H|H]; [discriminate|auto].
    - split; auto. }
  rewrite A, (B name), (B type). tauto.
Qed.

(* --- what last_stamp means --- *)
Theorem add_timed_stamp_lemma : forall cb ud u p R, has_key cb ud (rget KTimed R) = false ->
  rget KTimed (r_action (AAddTimed cb ud u p) R) = mkRec (g_next R) cb ud u false (FTimed p (g_clock R)) :: rget KTimed R.
Proof. intros. cbn [r_action]. unfold r_add. rewrite H. reflexivity. Qed.

Theorem reset_stamp_lemma : forall R r', In r' (rget KTimed (r_reset false R)) ->
  exists r, In r (rget KTimed R) /\ r' = rec_stamp KTimed (g_clock R) r.
Proof.
  intros R r' H. unfold r_reset in H. rewrite rget_rset_same in H. apply in_map_iff in H.
  destruct H as [r [E Hr]]. exists r. split; auto.
Qed.

(* --- corollaries in the form used by Properties_C11.v --- *)
Theorem blind_lemma : forall sc sz R e, WF R ->
  In e (g_log (spec_fire_stanza sc sz R)) -> ~ In e (g_log R) ->
  exists x cb ud u k t ret, e = EvCall x cb ud u k t ret /\
    (In x (hids (rget KStanza R)) \/ In x (id_snapshot sz R)) /\ (x < g_next R)%nat.
Proof.
  intros sc sz R e W He Hn. destruct (fire_sound_lemma sc sz R e He) as [H|H]; [contradiction|].
  destruct H as (x&k&Rm&r&ret&E&Hs&_). exists x, (r_cb r), (r_ud r), (r_user r), k, (g_clock Rm), ret.
  split; [exact E|]. split.
  - destruct Hs as [[_ Hs]|[id [Hid [_ Hs]]]]; [left; exact Hs|]. right. unfold id_snapshot. rewrite Hid. exact Hs.
  - assert (H : In x (hids (rget k R))).
    { destruct Hs as [[-> Hs]|[id [_ [-> Hs]]]]; exact Hs. }
    apply in_hids_inv in H. destruct H as [q [Hq <-]]. eapply (wf_lt _ W); eauto.
Qed.

(* [t] is the time at which the handler was reached (= g_clock Rm), which is also the stamp it gets *)
Theorem timed_never_early_lemma : forall sc R e,
  In e (g_log (spec_fire_timed sc R)) -> ~ In e (g_log R) ->
  exists x k Rm r ret period last t,
    e = EvCall x (r_cb r) (r_ud r) (r_user r) k t ret /\ t = g_clock Rm /\
    ((k = KTimed /\ g_conn R = true) \/ k = KGlobal) /\
    find_rec x (rget k Rm) = Some r /\ r_flt r = FTimed period last /\
    period <= elapsed last t /\
    (0 <= last <= t -> t < two64 -> timed_due period last t) /\
    (k = KTimed -> r_user r = true -> g_neg R = true).
Proof.
  intros sc R e He Hn. destruct (timed_sound_lemma sc R e He) as [H|H]; [contradiction|].
  destruct H as (x&k&Rm&r&ret&p&l&E&Hk&F&Fl&Hd&G&N).
  exists x, k, Rm, r, ret, p, l, (g_clock Rm). repeat split; auto.
  - intros H1 H2. unfold timed_due. rewrite (elapsed_nowrap l (g_clock Rm) H1 H2) in Hd. lia.
  - intros -> U. unfold s_gate in G. rewrite U, N in G. simpl in G. destruct (g_neg R); auto.
Qed.

(* the stamp a timed handler carries after it ran is the time at which it was reached: one step of the pass *)
Theorem timed_stamp_on_fire_lemma : forall k x R r period last,
  (k = KTimed \/ k = KGlobal) -> WF R ->
  find_rec x (rget k R) = Some r -> r_flt r = FTimed period last ->
  find_rec x (rget k (r_update k x (rec_stamp k (g_clock R)) R)) = Some (rec_flt r (FTimed period (g_clock R))).
Proof.
  intros k x R r period last Hk W F Fl.
  pose proof (find_rec_some_in _ _ _ F) as [Hin Hx]. subst x.
  apply in_split in Hin. destruct Hin as [pre [suf E]].
  pose proof (wf_nodup _ W k) as ND. rewrite E in ND.
  unfold r_update. rewrite rget_rset_same, E, (map_update_mid _ _ _ _ ND).
  assert (X : rec_stamp k (g_clock R) r = rec_flt r (FTimed period (g_clock R))).
  { unfold rec_stamp. rewrite Fl. destruct Hk as [-> | ->]; reflexivity. }
  rewrite X.
  assert (ND' : NoDup (hids (pre ++ rec_flt r (FTimed period (g_clock R)) :: suf))).
  { rewrite (hids_mid pre r (rec_flt r (FTimed period (g_clock R))) suf eq_refl). exact ND. }
  exact (find_rec_mid _ _ _ ND').
Qed.

Theorem timed_connected_lemma : forall sc R e,
  g_conn R = false -> In e (g_log (spec_fire_timed sc R)) -> ~ In e (g_log R) ->
  exists x cb ud u t ret, e = EvCall x cb ud u KGlobal t ret.
Proof.
  intros sc R e HC He Hn. destruct (timed_sound_lemma sc R e He) as [H|H]; [contradiction|].
  destruct H as (x&k&Rm&r&ret&p&l&E&[[_ Hk]|Hk]&_); [congruence|]. subst k. eauto 10.
Qed.

Theorem gated_lemma : forall sc sz R e,
  g_neg R = false -> In e (g_log (spec_fire_stanza sc sz R)) -> ~ In e (g_log R) ->
  exists x cb ud k t ret, e = EvCall x cb ud false k t ret.
Proof.
  intros sc sz R e HN He Hn. destruct (fire_sound_lemma sc sz R e He) as [H|H]; [contradiction|].
  destruct H as (x&k&Rm&r&ret&E&Hs&F&G&M&N).
  assert (U : r_user r = false).
  { destruct (r_user r) eqn:U; auto. unfold s_gate in G. rewrite U, N, HN in G.
    destruct Hs as [[-> _]|[id [_ [-> _]]]]; simpl in G; discriminate. }
  rewrite U in E. eauto 10.
Qed.

Example hypotheses_satisfiable_ex :
  Abs init_state init_reg /\ WF init_reg /\ others_only (fun _ _ _ => ([], true)) /\
  run_ops (fun _ _ _ => ([], true)) 50
    [OAct (AAddStanza 1 0 true None None None); OStanza (mkStanza (Some [105]) None None None [])] init_state
    <> Fuel.
Proof.
  split; [exact abs_init | split; [exact wf_init | split]].
  - intros lg cb ud a H. simpl in H. contradiction.
  - vm_compute. discriminate.
Qed.
