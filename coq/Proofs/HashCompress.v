(* C17: the model's compression functions (round lists and constants generated from the C source,
   boolean functions as the C macros write them) equal the specification's (FIPS 180-4 / RFC 1321
   text).  Structural proofs: bitwise identities, modular-addition reassociation, and the
   generated tables being the canonical ones (Gen_hash_ok). *)
Require Import LV.Common.Bytes LV.Common.HashWords LV.Gen.Gen_hash LV.Spec.HashSpec LV.Model.HashModel.
Require Import LV.Proofs.HashGenOk.
Require Import Lia ZifyBool.
Local Open Scope Z_scope.

(* ------------------------------------------------------------------------------------------ *)
(* bitwise identities (unconditional)                                                          *)
Ltac bits :=
  apply Z.bits_inj'; intros n Hn;
  repeat (rewrite ?Z.lxor_spec, ?Z.land_spec, ?Z.lor_spec, ?Z.ldiff_spec);
  repeat match goal with |- context [Z.testbit ?x n] => destruct (Z.testbit x n) end; reflexivity.

Lemma tCh_Ch x y z : tCh x y z = Ch x y z.
Proof. unfold tCh, Ch. bits. Qed.
Lemma tMaj_Maj x y z : tMaj x y z = Maj x y z.
Proof. unfold tMaj, Maj. bits. Qed.
Lemma sha1_f_ch w x y : Z.lxor (Z.land w (Z.lxor x y)) y = Ch w x y.
Proof. unfold Ch. bits. Qed.
Lemma sha1_f_maj w x y : Z.lor (Z.land (Z.lor w x) y) (Z.land w x) = Maj w x y.
Proof. unfold Maj. bits. Qed.
Lemma md5_f1 x y z : Z.lxor z (Z.land x (Z.lxor y z)) = md5_F x y z.
Proof. unfold md5_F. bits. Qed.
Lemma md5_f2 x y z : Z.lxor y (Z.land z (Z.lxor x y)) = md5_G x y z.
Proof. unfold md5_G. bits. Qed.

(* ------------------------------------------------------------------------------------------ *)
(* modular addition                                                                            *)
Lemma wadd32_mod a b : wadd m32 a b = (a + b) mod 2 ^ 32.
Proof. unfold wadd. change m32 with (Z.ones 32). apply Z.land_ones. lia. Qed.

Ltac wadd32_norm :=
  rewrite ?wadd32_mod; change (2 ^ 32) with 4294967296; Z.div_mod_to_equations; lia.

(* ------------------------------------------------------------------------------------------ *)
(* folds                                                                                       *)
Lemma fold_left_map {A B C} (f : A -> B -> A) (g : C -> B) l a :
  fold_left f (map g l) a = fold_left (fun a x => f a (g x)) l a.
Proof. revert a. induction l; intros; cbn [map fold_left]; auto. Qed.
Lemma fold_left_ext' {A B} (f g : A -> B -> A) l a : (forall a x, f a x = g a x) -> fold_left f l a = fold_left g l a.
Proof. intros H. revert a. induction l; intros; cbn [fold_left]; [reflexivity|]. now rewrite H, IHl. Qed.
Lemma fold_left_flat_map {A B C} (f : A -> B -> A) (g : C -> list B) l a :
  fold_left f (flat_map g l) a = fold_left (fun a x => fold_left f (g x) a) l a.
Proof. revert a. induction l; intros; cbn [flat_map fold_left]; [reflexivity|]. now rewrite fold_left_app, IHl. Qed.

(* ------------------------------------------------------------------------------------------ *)
(* SHA-256 / SHA-512                                                                           *)
Section Tom.
  Variables w m : Z.
  Variables a0 b0 c0 a1 b1 c1 g0a g0b g0c g1a g1b g1c : Z.
  Variable K : list Z.

  Lemma tom_sched_spec : forall n W,
    tom_sched w m [g0a; g0b; g0c] [g1a; g1b; g1c] [2; 7; 15; 16] n W =
    sha2_sched w m (g0a, g0b, g0c) (g1a, g1b, g1c) n W.
  Proof.
    induction n; intros W; [reflexivity|].
    cbn [tom_sched sha2_sched]. rewrite <- IHn. reflexivity.
  Qed.

  Lemma tom_rnd_spec W s t :
    tom_rnd w m [a0; b0; c0] [a1; b1; c1] s (nth t K 0) (nth t W 0) =
    sha2_step w m (a0, b0, c0) (a1, b1, c1) K W s t.
  Proof.
    unfold tom_rnd, sha2_step.
    do 8 (destruct s as [|? s]; [reflexivity|]). destruct s; [|reflexivity].
    rewrite tCh_Ch, tMaj_Maj. reflexivity.
  Qed.
End Tom.

Lemma md_fold_ext {St} B (f g : St -> list Z -> St) iv l : (forall s b, f s b = g s b) -> md_fold B f iv l = md_fold B g iv l.
Proof. intros H. unfold md_fold. now apply fold_left_ext'. Qed.

Lemma sha256_compress_eq st block : sha256_compress st block = sha256_compress_spec st block.
Proof.
  destruct Gen_sha256_ok as (_ & Hr & Hs & Hsr & HS0 & HS1 & HG0 & HG1 & _).
  unfold sha256_compress, sha256_compress_spec, sha2_compress, tom_words.
  rewrite Hr, Hs, Hsr, HS0, HS1, HG0, HG1.
  rewrite tom_sched_spec. f_equal.
  rewrite fold_left_map.
  apply fold_left_ext'. intros s t. unfold nthz. rewrite Nat2Z.id. apply tom_rnd_spec.
Qed.

Lemma sha512_index_list :
  flat_map (fun i => map (fun r : Z * Z => i + snd r) (map (fun t => (canon_perm 8 t, Z.of_nat t)) (seq 0 8))) (zrange 0 80 8)
  = map Z.of_nat (seq 0 80).
Proof. vm_compute. reflexivity. Qed.

Lemma sha512_compress_eq st block : sha512_compress st block = sha512_compress_spec st block.
Proof.
  destruct Gen_sha512_ok as (_ & HK & Hb & Hst & Hr & Hs & Hsr & HS0 & HS1 & HG0 & HG1 & _).
  unfold sha512_compress, sha512_compress_spec, sha2_compress, tom_words.
  rewrite HK, Hb, Hst, Hr, Hs, Hsr, HS0, HS1, HG0, HG1.
  rewrite tom_sched_spec. f_equal.
  set (W := sha2_sched _ _ _ _ _ _).
  transitivity (fold_left (fun s j => tom_rnd 64 m64 [28; 34; 39] [14; 18; 41] s (nthz sha512_Kspec j) (nthz W j))
                          (map Z.of_nat (seq 0 80)) st).
  - rewrite <- sha512_index_list, fold_left_flat_map.
    apply fold_left_ext'. intros s i. rewrite (fold_left_map _ (fun r : Z * Z => i + snd r)).
    apply fold_left_ext'. intros s' [p off]. reflexivity.
  - rewrite fold_left_map. apply fold_left_ext'. intros s t. unfold nthz. rewrite Nat2Z.id. apply tom_rnd_spec.
Qed.

(* ------------------------------------------------------------------------------------------ *)
(* SHA-1                                                                                       *)
Lemma sha1_sched_eq : forall n W, sha1_sched_m n W = sha1_sched n W.
Proof.
  destruct Gen_sha1_ok as (_ & _ & _ & Ho & Hr & _).
  induction n; intros W; [reflexivity|].
  cbn [sha1_sched_m sha1_sched]. rewrite Ho, Hr. rewrite IHn. do 3 f_equal.
  change (nthz [13; 8; 2] 0) with 13. change (nthz [13; 8; 2] 1) with 8. change (nthz [13; 8; 2] 2) with 2.
  change (Z.to_nat 13) with 13%nat. change (Z.to_nat 8) with 8%nat. change (Z.to_nat 2) with 2%nat.
  change (Z.to_nat 0) with 0%nat.
  replace (length W + 13 - 16)%nat with (length W - 3)%nat by lia.
  replace (length W + 8 - 16)%nat with (length W - 8)%nat by lia.
  replace (length W + 2 - 16)%nat with (length W - 14)%nat by lia.
  replace (length W + 0 - 16)%nat with (length W - 16)%nat by lia.
  reflexivity.
Qed.

Lemma sha1_round_eq W s t :
  sha1_round W s (sha1_macro_of t, canon_perm 5 t, Z.of_nat t) = sha1_step W s t.
Proof.
  destruct Gen_sha1_ok as (_ & Hm & _).
  unfold sha1_round, sha1_step. rewrite Hm. unfold nthz. rewrite Nat2Z.id.
  unfold sha1_macro_of, sha1_Kt, sha1_ft, sha1_f.
  do 5 (destruct s as [|? s]; [destruct (t <? 16)%nat, (t <? 20)%nat, (t <? 40)%nat, (t <? 60)%nat; reflexivity|]).
  destruct s; [|destruct (t <? 16)%nat, (t <? 20)%nat, (t <? 40)%nat, (t <? 60)%nat; reflexivity].
  set (Wt := nth t W 0).
  destruct (t <? 16)%nat eqn:E16, (t <? 20)%nat eqn:E20, (t <? 40)%nat eqn:E40, (t <? 60)%nat eqn:E60;
    try (exfalso; lia);
    match goal with |- context [nth ?n (map ?f ?l) ?d] =>
      let v := eval vm_compute in (nth n (map f l) d) in change (nth n (map f l) d) with v end;
    cbn -[wadd wrotl Z.lxor Z.land Z.lor Z.ldiff Ch Maj Parity];
    f_equal; rewrite ?sha1_f_ch, ?sha1_f_maj; unfold Parity; wadd32_norm.
Qed.

Lemma sha1_transform_eq st block : sha1_transform st block = sha1_compress st block.
Proof.
  destruct Gen_sha1_ok as (_ & _ & Hr & _).
  unfold sha1_transform, sha1_compress. rewrite Hr, sha1_sched_eq. f_equal.
  rewrite fold_left_map. apply fold_left_ext'. intros s t. apply sha1_round_eq.
Qed.

(* ------------------------------------------------------------------------------------------ *)
(* MD5                                                                                         *)
Lemma md5_round_eq X s i :
  md5_round X s (Z.of_nat (i / 16) + 1, canon_perm 4 i, Z.of_nat (md5_k i), nth i md5_T 0, md5_s i) = md5_step X s i.
Proof.
  unfold md5_round, md5_step, nthz. rewrite Nat2Z.id.
  do 4 (destruct s as [|? s]; [reflexivity|]). destruct s; [|reflexivity].
  f_equal. f_equal.
  assert (Hf : md5_f (Z.of_nat (i / 16) + 1) z0 z1 z2 = md5_fn i z0 z1 z2).
  { unfold md5_f, md5_fn. destruct (i / 16)%nat as [|[|[|q]]].
    - cbn [Z.of_nat Z.add Z.eqb Pos.eqb]. apply md5_f1.
    - cbn. apply md5_f2.
    - cbn. reflexivity.
    - destruct (Z.of_nat (S (S (S q))) + 1 =? 1) eqn:?; [lia|].
      destruct (Z.of_nat (S (S (S q))) + 1 =? 2) eqn:?; [lia|].
      destruct (Z.of_nat (S (S (S q))) + 1 =? 3) eqn:?; [lia|]. reflexivity. }
  rewrite Hf.
  set (f := md5_fn i z0 z1 z2). set (x := nth (md5_k i) X 0). set (T := nth i md5_T 0).
  assert (wadd m32 z (wadd m32 f (wadd m32 x T)) = wadd m32 (wadd m32 (wadd m32 z f) x) T) as -> by wadd32_norm.
  wadd32_norm.
Qed.

Lemma md5_transform_eq st block : md5_transform st block = md5_compress_spec st block.
Proof.
  destruct Gen_md5_ok as (_ & Hs & _).
  unfold md5_transform, md5_compress_spec. rewrite Hs. f_equal.
  rewrite fold_left_map. apply fold_left_ext'. intros s i. apply md5_round_eq.
Qed.
