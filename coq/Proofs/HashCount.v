(* C17: arithmetic of the split 32+32-bit bit counters of sha1.c / md5.c and of their byte-index masks. *)
Require Import LV.Common.Bytes.
Require Import Lia ZifyBool.
Local Open Scope Z_scope.

Lemma land_63 x : Z.land x 63 = x mod 64.
Proof. change 63 with (Z.ones 6). rewrite Z.land_ones by lia. reflexivity. Qed.

(* x & 504 = ((x >> 3) & 63) << 3 *)
Lemma land_504 x : Z.land x 504 = (x / 8 mod 64) * 8.
Proof.
  apply Z.bits_inj'. intros n Hn.
  rewrite Z.land_spec.
  change ((x / 8 mod 64) * 8) with ((x / 2 ^ 3 mod 2 ^ 6) * 2 ^ 3).
  rewrite <- Z.shiftl_mul_pow2, <- Z.shiftr_div_pow2, <- Z.land_ones by lia.
  destruct (Z.ltb_spec n 3).
  - rewrite Z.shiftl_spec_low by lia.
    assert (n = 0 \/ n = 1 \/ n = 2) as [->|[->| ->]] by lia; cbn; apply andb_false_r.
  - rewrite Z.shiftl_spec, Z.land_spec, Z.shiftr_spec by lia.
    replace (n - 3 + 3) with n by lia. f_equal.
    destruct (Z.ltb_spec n 9).
    + assert (n = 3 \/ n = 4 \/ n = 5 \/ n = 6 \/ n = 7 \/ n = 8) as [->|[->|[->|[->|[->| ->]]]]] by lia; reflexivity.
    + rewrite Z.ones_spec_high by lia.
      change 504 with (Z.shiftl (Z.ones 6) 3). rewrite Z.shiftl_spec, Z.ones_spec_high by lia. reflexivity.
Qed.

(* the update of count[0], count[1] (sha1.c) / bits[0], bits[1] (md5.c) adds 8*len modulo 2^64 *)
Lemma count_update c0 c1 len :
  0 <= c0 < 2 ^ 32 -> 0 <= c1 < 2 ^ 32 -> 0 <= len ->
  let lo := ((len mod 2 ^ 32) * 2 ^ 3) mod 2 ^ 32 in
  let c0' := (c0 + lo) mod 2 ^ 32 in
  let carry := if c0' <? lo then (c1 + 1) mod 2 ^ 32 else c1 in
  let c1' := (carry + (len / 2 ^ 29) mod 2 ^ 32) mod 2 ^ 32 in
  0 <= c0' < 2 ^ 32 /\ 0 <= c1' < 2 ^ 32 /\
  c1' * 2 ^ 32 + c0' = (c1 * 2 ^ 32 + c0 + 8 * len) mod 2 ^ 64 /\
  (c0' <? lo) = (c0' <? c0).
Proof.
  intros H0 H1 Hl. cbv zeta.
  change (2 ^ 32) with 4294967296 in *. change (2 ^ 3) with 8. change (2 ^ 29) with 536870912.
  change (2 ^ 64) with 18446744073709551616.
  set (lo := (len mod 4294967296 * 8) mod 4294967296).
  assert (Hlo : 0 <= lo < 4294967296) by (apply Z.mod_pos_bound; lia).
  assert (Hsplit : 8 * len = (len / 536870912) * 4294967296 + ((len mod 536870912) * 8)).
  { pose proof (Z.div_mod len 536870912 ltac:(lia)). lia. }
  assert (Hlo' : lo = (len mod 536870912) * 8).
  { unfold lo. pose proof (Z.mod_pos_bound len 536870912 ltac:(lia)).
    symmetry. apply (Z.mod_unique _ _ ((len mod 4294967296) / 536870912)); [lia|].
    pose proof (Z.div_mod (len mod 4294967296) 536870912 ltac:(lia)).
    assert ((len mod 4294967296) mod 536870912 = len mod 536870912).
    { clear. Z.div_mod_to_equations. lia. }
    lia. }
  set (hi := len / 536870912) in *.
  assert (Hhi : 0 <= hi) by (unfold hi; apply Z.div_pos; lia).
  set (c0' := (c0 + lo) mod 4294967296).
  assert (Hc0' : 0 <= c0' < 4294967296) by (apply Z.mod_pos_bound; lia).
  assert (Hcases : (c0 + lo < 4294967296 /\ c0' = c0 + lo) \/ (4294967296 <= c0 + lo /\ c0' = c0 + lo - 4294967296)).
  { destruct (Z.lt_ge_cases (c0 + lo) 4294967296).
    - left. split; [lia|]. unfold c0'. apply Z.mod_small. lia.
    - right. split; [lia|]. unfold c0'. symmetry. apply (Z.mod_unique _ _ 1); lia. }
  split; [exact Hc0'|]. split; [apply Z.mod_pos_bound; lia|].
  destruct Hcases as [[Hs Hc]|[Hs Hc]].
  - destruct (c0' <? lo) eqn:E; [lia|]. split; [|lia].
    rewrite Zplus_mod_idemp_r.
    pose proof (Z.div_mod (c1 + hi) 4294967296 ltac:(lia)).
    pose proof (Z.mod_pos_bound (c1 + hi) 4294967296 ltac:(lia)).
    apply (Z.mod_unique _ _ ((c1 + hi) / 4294967296)); lia.
  - destruct (c0' <? lo) eqn:E; [|lia]. split; [|lia].
    rewrite Zplus_mod_idemp_r, Zplus_mod_idemp_l.
    pose proof (Z.div_mod (c1 + 1 + hi) 4294967296 ltac:(lia)).
    pose proof (Z.mod_pos_bound (c1 + 1 + hi) 4294967296 ltac:(lia)).
    apply (Z.mod_unique _ _ ((c1 + 1 + hi) / 4294967296)); lia.
Qed.

(* the byte index derived from the low counter word is the byte count modulo 64 *)
Lemma count_index c0 c1 n : 0 <= c0 < 2 ^ 32 -> c1 * 2 ^ 32 + c0 = (8 * n) mod 2 ^ 64 ->
  Z.land (c0 / 2 ^ 3) 63 = n mod 64.
Proof.
  intros H0 H. rewrite land_63. change (2 ^ 3) with 8. change (2 ^ 32) with 4294967296 in *.
  change (2 ^ 64) with 18446744073709551616 in *.
  pose proof (Z.div_mod (8 * n) 18446744073709551616 ltac:(lia)).
  pose proof (Z.mod_pos_bound (8 * n) 18446744073709551616 ltac:(lia)).
  Z.div_mod_to_equations. lia.
Qed.
