(* Gen_hash_ok: the constants the translator found in the C sources are the standard ones
   (stated against the tables of Spec/HashSpec.v), by computation. *)
Require Import LV.Common.Bytes LV.Common.HashWords LV.Gen.Gen_hash LV.Spec.HashSpec.
Local Open Scope Z_scope.

(* register order of the t-th unrolled call when n registers rotate: digit j is ((j - t) mod n) + 1 *)
Definition canon_perm (n : nat) (t : nat) : Z :=
  fold_left (fun acc j => acc * 10 + (Z.of_nat ((j + n * t - t) mod n) + 1)) (seq 0 n) 0.

Definition sha1_macro_of (t : nat) : Z :=
  if (t <? 16)%nat then 0 else if (t <? 20)%nat then 1 else if (t <? 40)%nat then 2 else if (t <? 60)%nat then 3 else 4.

Definition gen_sha1_ok : Prop :=
  sha1_iv = sha1_H0 /\
  sha1_macros = map (fun t => (sha1_Kt t, 5, 30)) [0; 16; 20; 40; 60]%nat /\
  sha1_rounds = map (fun t => (sha1_macro_of t, canon_perm 5 t, Z.of_nat t)) (seq 0 80) /\
  sha1_blk_offsets = [13; 8; 2] /\ sha1_blk_rol = 1 /\
  sha1_block = 64 /\ sha1_digest_size = 20 /\
  sha1_idx_shift = 3 /\ sha1_idx_mask = 63 /\ sha1_len_shift = 3 /\ sha1_hi_shift = 29 /\
  sha1_split = 63 /\ sha1_first_fill = 64 /\ sha1_loop_look = 63 /\ sha1_loop_step = 64 /\
  sha1_pad_mask = 504 /\ sha1_pad_target = 448 /\ sha1_pad_first = 128 /\
  sha1_finalcount_sel = [4; 0; 1].

Definition gen_sha256_ok : Prop :=
  sha256_iv = sha256_H0 /\
  sha256_rounds = map (fun t => (canon_perm 8 t, Z.of_nat t, nth t sha256_Kspec 0)) (seq 0 64) /\
  sha256_sched = [2; 7; 15; 16] /\ sha256_sched_range = [16; 64] /\
  sha256_Sigma0 = [2; 13; 22] /\ sha256_Sigma1 = [6; 11; 25] /\
  sha256_Gamma0 = [7; 18; 3] /\ sha256_Gamma1 = [17; 19; 10] /\
  sha256_block = 64 /\ sha256_digest_size = 32 /\
  sha256_fast_min = 64 /\ sha256_fast_bits = 512 /\ sha256_fast_adv = 64 /\ sha256_fast_dec = 64 /\
  sha256_fill = 64 /\ sha256_full = 64 /\ sha256_full_bits = 512 /\
  sha256_done_bits_per_byte = 8 /\ sha256_pad_first = 128 /\
  sha256_done_thresh = 56 /\ sha256_done_fill = 64 /\ sha256_done_pad_to = 56 /\ sha256_len_off = 56.

Definition gen_sha512_ok : Prop :=
  sha512_iv = sha512_H0 /\ sha512_K = sha512_Kspec /\
  sha512_loop_bound = 80 /\ sha512_loop_step = 8 /\
  sha512_rounds8 = map (fun t => (canon_perm 8 t, Z.of_nat t)) (seq 0 8) /\
  sha512_sched = [2; 7; 15; 16] /\ sha512_sched_range = [16; 80] /\
  sha512_Sigma0 = [28; 34; 39] /\ sha512_Sigma1 = [14; 18; 41] /\
  sha512_Gamma0 = [1; 8; 7] /\ sha512_Gamma1 = [19; 61; 6] /\
  sha512_block = 128 /\ sha512_digest_size = 64 /\
  sha512_fast_min = 128 /\ sha512_fast_bits = 1024 /\ sha512_fast_adv = 128 /\ sha512_fast_dec = 128 /\
  sha512_fill = 128 /\ sha512_full = 128 /\ sha512_full_bits = 1024 /\
  sha512_done_bits_per_byte = 8 /\ sha512_pad_first = 128 /\
  sha512_done_thresh = 112 /\ sha512_done_fill = 128 /\ sha512_done_pad_to = 120 /\ sha512_len_off = 120.

Definition gen_md5_ok : Prop :=
  md5_iv = md5_H0 /\
  md5_steps = map (fun i => (Z.of_nat (i / 16) + 1, canon_perm 4 i, Z.of_nat (md5_k i), nth i md5_T 0, md5_s i)) (seq 0 64) /\
  md5_block = 64 /\ md5_len_shift = 3 /\ md5_hi_shift = 29 /\ md5_idx_shift = 3 /\ md5_idx_mask = 63 /\
  md5_fill = 64 /\ md5_loop = [64; 64; 64; 64] /\
  md5_fin_shift = 3 /\ md5_fin_mask = 63 /\ md5_pad_first = 128 /\ md5_fin_room = 63 /\
  md5_fin_thresh = 8 /\ md5_fin_second = 56 /\ md5_fin_keep = 8 /\ md5_len_store = [56; 0; 60; 1].

Definition gen_hmac_ok : Prop :=
  hmac_ipad = 0x36 /\ hmac_opad = 0x5c /\ hmac_blocksize_rule = [48; 64; 128] /\ hmac_pad_use = [1; 2] /\
  sha1_hex_lowercase = true.

Lemma Gen_sha1_ok : gen_sha1_ok.
Proof. unfold gen_sha1_ok. repeat match goal with |- _ /\ _ => split end; vm_compute; reflexivity. Qed.
Lemma Gen_sha256_ok : gen_sha256_ok.
Proof. unfold gen_sha256_ok. repeat match goal with |- _ /\ _ => split end; vm_compute; reflexivity. Qed.
Lemma Gen_sha512_ok : gen_sha512_ok.
Proof. unfold gen_sha512_ok. repeat match goal with |- _ /\ _ => split end; vm_compute; reflexivity. Qed.
Lemma Gen_md5_ok : gen_md5_ok.
Proof. unfold gen_md5_ok. repeat match goal with |- _ /\ _ => split end; vm_compute; reflexivity. Qed.
Lemma Gen_hmac_ok : gen_hmac_ok.
Proof. unfold gen_hmac_ok. repeat match goal with |- _ /\ _ => split end; vm_compute; reflexivity. Qed.

Lemma Gen_hash_ok : gen_sha1_ok /\ gen_sha256_ok /\ gen_sha512_ok /\ gen_md5_ok /\ gen_hmac_ok.
Proof. exact (conj Gen_sha1_ok (conj Gen_sha256_ok (conj Gen_sha512_ok (conj Gen_md5_ok Gen_hmac_ok)))). Qed.

(* the specification's SHA-2 tables are the fractional parts of the roots of the first primes
   (FIPS 180-4 4.2.2, 4.2.3, 5.3.3, 5.3.5) *)
Lemma spec_sha2_tables_from_primes :
  forallb is_prime_b first_primes = true /\
  sha256_Kspec = map (frac_root 3 32) (firstn 64 first_primes) /\
  sha256_H0 = map (frac_root 2 32) (firstn 8 first_primes) /\
  sha512_Kspec = map (frac_root 3 64) first_primes /\
  sha512_H0 = map (frac_root 2 64) (firstn 8 first_primes).
Proof. repeat match goal with |- _ /\ _ => split end; vm_compute; reflexivity. Qed.
