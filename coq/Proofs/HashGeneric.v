(* Generic lemmas for C17: buffered Merkle-Damgard absorption, checked array operations,
   byte-order helpers. *)
Require Import LV.Common.Bytes LV.Common.HashWords LV.Spec.HashSpec LV.Model.HashModel.
Require Import Lia ZifyBool.
Local Open Scope Z_scope.

(* ------------------------------------------------------------------------------------------ *)
(* lists                                                                                       *)
Lemma zlen_app {A} (a b : list A) : zlen (a ++ b) = zlen a + zlen b.
Proof. unfold zlen. rewrite app_length. lia. Qed.
Lemma zlen_nonneg {A} (a : list A) : 0 <= zlen a.
Proof. unfold zlen. lia. Qed.
Lemma zlen_repeat {A} (x : A) n : zlen (repeat x n) = Z.of_nat n.
Proof. unfold zlen. now rewrite repeat_length. Qed.
Lemma zlen_firstn {A} (l : list A) n : 0 <= n <= zlen l -> zlen (firstn (Z.to_nat n) l) = n.
Proof. unfold zlen. intros. rewrite firstn_length. lia. Qed.
Lemma zlen_skipn {A} (l : list A) n : 0 <= n <= zlen l -> zlen (skipn (Z.to_nat n) l) = zlen l - n.
Proof. unfold zlen. intros. rewrite skipn_length. lia. Qed.
Lemma zlen_cons {A} (x : A) l : zlen (x :: l) = 1 + zlen l.
Proof. unfold zlen. cbn [length]. lia. Qed.
Lemma zlen_nil {A} : zlen (@nil A) = 0.
Proof. reflexivity. Qed.

Lemma skipn_skipn' {A} (a b : nat) (l : list A) : skipn a (skipn b l) = skipn (b + a) l.
Proof.
  revert l. induction b; intros l; cbn [skipn Nat.add]; [reflexivity|].
  destruct l; [now rewrite !skipn_nil|]. apply IHb.
Qed.
Lemma firstn_app_exact {A} (a b : list A) n : n = length a -> firstn n (a ++ b) = a.
Proof. intros ->. rewrite firstn_app, Nat.sub_diag, firstn_all. cbn. now rewrite app_nil_r. Qed.
Lemma skipn_app_exact {A} (a b : list A) n : n = length a -> skipn n (a ++ b) = b.
Proof. intros ->. rewrite skipn_app, Nat.sub_diag, skipn_all. reflexivity. Qed.
Lemma firstn_app_le {A} (a b : list A) n : (n <= length a)%nat -> firstn n (a ++ b) = firstn n a.
Proof. intros. rewrite firstn_app. replace (n - length a)%nat with 0%nat by lia. cbn. now rewrite app_nil_r. Qed.
Lemma firstn_app_ge {A} (a b : list A) n : (length a <= n)%nat -> firstn n (a ++ b) = a ++ firstn (n - length a) b.
Proof. intros. rewrite firstn_app, firstn_all2 by lia. reflexivity. Qed.
Lemma skipn_app_ge {A} (a b : list A) n : (length a <= n)%nat -> skipn n (a ++ b) = skipn (n - length a) b.
Proof. intros. rewrite skipn_app, skipn_all2 by lia. reflexivity. Qed.
Lemma skipn_all_nil {A} (l : list A) n : (length l <= n)%nat -> skipn n l = [].
Proof. apply skipn_all2. Qed.
Lemma repeat_app' {A} (x : A) a b : repeat x a ++ repeat x b = repeat x (a + b).
Proof. now rewrite repeat_app. Qed.

(* ------------------------------------------------------------------------------------------ *)
(* checked array operations                                                                    *)
Lemma read_at_ok data off n : 0 <= off -> 0 <= n -> off + n <= zlen data ->
  read_at data off n = HOk (firstn (Z.to_nat n) (skipn (Z.to_nat off) data)).
Proof. intros. unfold read_at. destruct (0 <=? off) eqn:?, (0 <=? n) eqn:?, (off + n <=? zlen data) eqn:?; try lia. reflexivity. Qed.

(* writing src at the end of a known prefix *)
Lemma memcpy_at_app (a rest src : list Z) off : off = zlen a -> zlen src <= zlen rest ->
  memcpy_at (a ++ rest) off src = HOk (a ++ src ++ skipn (length src) rest).
Proof.
  intros -> Hle. unfold memcpy_at. pose proof (zlen_nonneg a). rewrite zlen_app.
  destruct (0 <=? zlen a) eqn:?, (zlen a + zlen src <=? zlen a + zlen rest) eqn:?; try lia. cbn [andb].
  replace (Z.to_nat (zlen a)) with (length a) by (unfold zlen; lia).
  rewrite firstn_app_exact by reflexivity. rewrite skipn_app_ge by lia.
  replace (length a + length src - length a)%nat with (length src) by lia. reflexivity.
Qed.
Lemma zero_fill_app (a rest : list Z) from to : from = zlen a -> to - from <= zlen rest ->
  zero_fill (a ++ rest) from to = HOk (a ++ repeat 0 (Z.to_nat (to - from)) ++ skipn (Z.to_nat (to - from)) rest).
Proof.
  intros -> Hle. unfold zero_fill. destruct (zlen a <? to) eqn:?.
  - rewrite memcpy_at_app; [|reflexivity|rewrite zlen_repeat; lia]. now rewrite repeat_length.
  - replace (Z.to_nat (to - zlen a)) with 0%nat by lia. reflexivity.
Qed.

(* ------------------------------------------------------------------------------------------ *)
(* buffered absorption                                                                         *)
Section Absorb.
  Context {St : Type}.
  Variable B : nat.
  Hypothesis Bpos : (0 < B)%nat.
  Variable compress : St -> list Z -> St.

  Fixpoint blocks (fuel : nat) (st : St) (l : list Z) : St * list Z :=
    match fuel with
    | O => (st, l)
    | S f => if (B <=? length l)%nat then blocks f (compress st (firstn B l)) (skipn B l) else (st, l)
    end.
  Definition absorb' (st : St) (l : list Z) : St * list Z := blocks (length l) st l.
  Definition absorb (s : St * list Z) (d : list Z) : St * list Z := absorb' (fst s) (snd s ++ d).

  Lemma blocks_fuel : forall f1 f2 st l, (length l <= f1)%nat -> (length l <= f2)%nat -> blocks f1 st l = blocks f2 st l.
  Proof.
    induction f1; intros f2 st l H1 H2.
    - destruct l; [|cbn in H1; lia]. destruct f2; cbn [blocks length]; [reflexivity|].
      destruct (B <=? 0)%nat eqn:?; [lia|reflexivity].
    - destruct f2.
      + destruct l; [|cbn in H2; lia]. cbn [blocks length]. destruct (B <=? 0)%nat eqn:?; [lia|reflexivity].
      + cbn [blocks]. destruct (B <=? length l)%nat eqn:E; [|reflexivity].
        apply IHf1; rewrite skipn_length; lia.
  Qed.

  Lemma absorb'_step st l : (B <= length l)%nat -> absorb' st l = absorb' (compress st (firstn B l)) (skipn B l).
  Proof.
    intros H. unfold absorb'. destruct (length l) eqn:E; [lia|]. cbn [blocks]. rewrite E.
    destruct (B <=? S n)%nat eqn:?; [|lia]. apply blocks_fuel; rewrite skipn_length; lia.
  Qed.
  Lemma absorb'_short st l : (length l < B)%nat -> absorb' st l = (st, l).
  Proof.
    intros H. unfold absorb'. destruct (length l) eqn:E; [reflexivity|]. cbn [blocks]. rewrite E.
    destruct (B <=? S n)%nat eqn:?; [lia|reflexivity].
  Qed.

  Lemma absorb'_ind (P : list Z -> Prop) :
    (forall l, (length l < B)%nat -> P l) ->
    (forall l, (B <= length l)%nat -> P (skipn B l) -> P l) -> forall l, P l.
  Proof.
    intros Hs Hl l. remember (length l) as n eqn:E. revert l E.
    induction n as [n IH] using lt_wf_ind. intros l E.
    destruct (Nat.lt_ge_cases (length l) B) as [H|H]; [now apply Hs|].
    apply Hl; [exact H|]. apply (IH (length (skipn B l))); [rewrite skipn_length; lia|reflexivity].
  Qed.

  Lemma absorb'_rem st l : (length (snd (absorb' st l)) < B)%nat /\ length (snd (absorb' st l)) = (length l mod B)%nat.
  Proof.
    revert st. induction l as [l H|l H IH] using absorb'_ind; intros st.
    - rewrite absorb'_short by exact H. cbn [snd]. rewrite Nat.mod_small by exact H. auto.
    - rewrite absorb'_step by exact H. destruct (IH (compress st (firstn B l))) as [I1 I2]. split; [exact I1|].
      rewrite I2, skipn_length.
      replace (length l) with ((length l - B) + 1 * B)%nat at 2 by lia. now rewrite Nat.mod_add by lia.
  Qed.

  Lemma absorb'_app st l m : absorb' st (l ++ m) = absorb' (fst (absorb' st l)) (snd (absorb' st l) ++ m).
  Proof.
    revert st. induction l as [l H|l H IH] using absorb'_ind; intros st.
    - rewrite (absorb'_short st l) by exact H. reflexivity.
    - rewrite (absorb'_step st l) by exact H. rewrite <- IH.
      rewrite (absorb'_step st (l ++ m)) by (rewrite app_length; lia).
      rewrite firstn_app_le by lia. rewrite skipn_app. replace (B - length l)%nat with 0%nat by lia. reflexivity.
  Qed.

  Lemma absorb_app s a b : absorb (absorb s a) b = absorb s (a ++ b).
  Proof. unfold absorb. rewrite app_assoc. now rewrite (absorb'_app (fst s) (snd s ++ a) b). Qed.

  Lemma absorb_nil s : (length (snd s) < B)%nat -> absorb s [] = s.
  Proof. intros H. unfold absorb. rewrite app_nil_r, absorb'_short by exact H. now destruct s. Qed.

  Lemma absorb_rem s d : (length (snd (absorb s d)) < B)%nat.
  Proof. apply absorb'_rem. Qed.

  Lemma absorb_chunks : forall chunks s, (length (snd s) < B)%nat -> fold_left absorb chunks s = absorb s (concat chunks).
  Proof.
    induction chunks as [|c cs IH]; intros s H; cbn [fold_left concat].
    - now rewrite absorb_nil.
    - rewrite IH by apply absorb_rem. apply absorb_app.
  Qed.

  (* absorbing one full block out of pending ++ input *)
  Lemma absorb_block st p d : (B <= length (p ++ d))%nat ->
    absorb (st, p) d = absorb (compress st (firstn B (p ++ d)), []) (skipn B (p ++ d)).
  Proof. intros H. unfold absorb. cbn [fst snd app]. now apply absorb'_step. Qed.
  Lemma absorb_small st p d : (length (p ++ d) < B)%nat -> absorb (st, p) d = (st, p ++ d).
  Proof. intros H. unfold absorb. cbn [fst snd]. now apply absorb'_short. Qed.

  (* the specification's fold over the blocks of a padded message *)
  Lemma md_blocks_absorb : forall k fuel l st, length l = (k * B)%nat -> (length l <= fuel)%nat ->
    fold_left compress (md_blocks B fuel l) st = fst (absorb' st l) /\ snd (absorb' st l) = [].
  Proof.
    induction k; intros fuel l st Hl Hf.
    - destruct l; [|cbn in Hl; lia]. rewrite absorb'_short by (cbn; lia). destruct fuel; cbn; auto.
    - assert (B <= length l)%nat by lia. destruct fuel; [lia|]. destruct l as [|x l']; [cbn in H; lia|].
      cbn [md_blocks]. remember (x :: l') as l. cbn [fold_left]. rewrite absorb'_step by exact H.
      apply IHk; rewrite skipn_length; lia.
  Qed.
  Lemma md_fold_absorb iv l k : length l = (k * B)%nat -> md_fold B compress iv l = fst (absorb (iv, []) l).
  Proof. intros H. unfold md_fold, absorb. cbn [fst snd app]. now apply (md_blocks_absorb k). Qed.
End Absorb.

(* ------------------------------------------------------------------------------------------ *)
(* results                                                                                     *)
Lemma hbind_ok {A B} (r : hres A) (f : A -> hres B) a : r = HOk a -> hbind r f = f a.
Proof. now intros ->. Qed.

(* ------------------------------------------------------------------------------------------ *)
(* byte order                                                                                  *)
Lemma store64h_be x : store64h x = be_bytes 8 x.
Proof. unfold store64h. cbn [be_bytes]. change (256 ^ Z.of_nat 0) with 1. rewrite Z.div_1_r. reflexivity. Qed.
Lemma store32h_be x : store32h x = be_bytes 4 x.
Proof. unfold store32h. cbn [be_bytes]. change (256 ^ Z.of_nat 0) with 1. rewrite Z.div_1_r. reflexivity. Qed.
Lemma put32lsb_le x : put32lsb x = le_bytes 4 x.
Proof. unfold put32lsb, le_bytes. cbn [be_bytes rev app]. change (256 ^ Z.of_nat 0) with 1. rewrite Z.div_1_r. reflexivity. Qed.

Lemma be_bytes_length n x : length (be_bytes n x) = n.
Proof. induction n; cbn [be_bytes length]; congruence. Qed.

(* the upper bytes of a wide big-endian field are zero when the value fits the lower ones *)
Lemma be_bytes_small : forall n x, 0 <= x < 256 ^ Z.of_nat n -> forall k, be_bytes (k + n) x = repeat 0 k ++ be_bytes n x.
Proof.
  intros n x Hx. induction k; [reflexivity|].
  cbn [Nat.add be_bytes repeat app]. rewrite IHk. f_equal.
  rewrite Z.div_small; [reflexivity|]. split; [lia|].
  apply Z.lt_le_trans with (256 ^ Z.of_nat n); [lia|]. apply Z.pow_le_mono_r; lia.
Qed.

(* a property of the chaining value kept by the compression function is kept by absorption *)
Lemma absorb'_inv {St} (B : nat) (Bpos : (0 < B)%nat) (compress : St -> list Z -> St) (P : St -> Prop) :
  (forall st b, P st -> P (compress st b)) -> forall l st, P st -> P (fst (absorb' B compress st l)).
Proof.
  intros Hc l. induction l as [l H|l H IH] using (absorb'_ind B Bpos); intros st Hst.
  - rewrite (absorb'_short B Bpos compress st l H). exact Hst.
  - rewrite (absorb'_step B Bpos compress st l H). apply IH. now apply Hc.
Qed.

Lemma map2_length {A B C} (f : A -> B -> C) : forall l m, length l = length m -> length (map2 f l m) = length l.
Proof. induction l; destruct m; cbn [map2 length]; intros; try lia. rewrite IHl; lia. Qed.

Lemma fold_left_inv {A B} (f : A -> B -> A) (P : A -> Prop) : (forall a x, P a -> P (f a x)) -> forall l a, P a -> P (fold_left f l a).
Proof. intros H. induction l; intros; cbn [fold_left]; auto. Qed.

Lemma flat_map_ext' {A B} (f g : A -> list B) l : (forall x, f x = g x) -> flat_map f l = flat_map g l.
Proof. intros H. induction l; cbn [flat_map]; [reflexivity|]. now rewrite H, IHl. Qed.
