(* C17: crypto_HMAC = RFC 2104 over the standard digests; the public xmpp_sha1_* API renders the
   standard SHA-1 digest in lower-case hexadecimal. *)
Require Import LV.Common.Bytes LV.Common.HashWords LV.Gen.Gen_hash LV.Spec.HashSpec LV.Model.HashModel LV.Model.HmacModel.
Require Import LV.Proofs.HashGenOk LV.Proofs.HashGeneric LV.Proofs.HashCompress LV.Proofs.HashSha1 LV.Proofs.HashSha2.
Require Import Lia ZifyBool.
Local Open Scope Z_scope.

(* ------------------------------------------------------------------------------------------ *)
(* digest lengths                                                                              *)
Lemma md_fold_inv {St} B (f : St -> list Z -> St) (P : St -> Prop) iv l :
  (forall s b, P s -> P (f s b)) -> P iv -> P (md_fold B f iv l).
Proof. intros H Hi. unfold md_fold. now apply fold_left_inv. Qed.

Lemma tom_rnd_len w m S0 S1 s k x : length s = 8%nat -> length (tom_rnd w m S0 S1 s k x) = 8%nat.
Proof.
  intros H. unfold tom_rnd. do 8 (destruct s as [|? s]; [discriminate|]). destruct s; [reflexivity|discriminate].
Qed.

Lemma sha256_compress_len st b : length st = 8%nat -> length (sha256_compress st b) = 8%nat.
Proof.
  intros H. unfold sha256_compress. rewrite map2_length; [exact H|]. symmetry. rewrite H.
  apply (fold_left_inv _ (fun s => length s = 8%nat)); [|exact H].
  intros s [[q i] k] Hs. now apply tom_rnd_len.
Qed.
Lemma sha512_compress_len st b : length st = 8%nat -> length (sha512_compress st b) = 8%nat.
Proof.
  intros H. unfold sha512_compress. rewrite map2_length; [exact H|]. symmetry. rewrite H.
  apply (fold_left_inv _ (fun s => length s = 8%nat)); [|exact H].
  intros s i Hs. apply (fold_left_inv _ (fun s => length s = 8%nat)); [|exact Hs].
  intros s' [q off] Hs'. now apply tom_rnd_len.
Qed.

Lemma sha1_spec_len m : zlen (sha1_spec m) = 20.
Proof.
  unfold sha1_spec.
  assert (H : length (md_fold 64 sha1_compress sha1_H0 (md_pad 64 8 true m)) = 5%nat).
  { apply md_fold_inv; [|reflexivity]. intros s b Hs. rewrite <- sha1_transform_eq. now apply sha1_transform_len. }
  destruct (md_fold 64 sha1_compress sha1_H0 (md_pad 64 8 true m)) as [|a [|b [|c [|d [|e [|? ?]]]]]]; try discriminate.
  reflexivity.
Qed.
Lemma sha256_spec_len m : zlen (sha256_spec m) = 32.
Proof.
  unfold sha256_spec.
  assert (H : length (md_fold 64 sha256_compress_spec sha256_H0 (md_pad 64 8 true m)) = 8%nat).
  { apply md_fold_inv; [|reflexivity]. intros s b Hs. rewrite <- sha256_compress_eq. now apply sha256_compress_len. }
  destruct (md_fold 64 sha256_compress_spec sha256_H0 (md_pad 64 8 true m)) as [|a [|b [|c [|d [|e [|f [|g [|h [|? ?]]]]]]]]]; try discriminate.
  reflexivity.
Qed.
Lemma sha512_spec_len m : zlen (sha512_spec m) = 64.
Proof.
  unfold sha512_spec.
  assert (H : length (md_fold 128 sha512_compress_spec sha512_H0 (md_pad 128 16 true m)) = 8%nat).
  { apply md_fold_inv; [|reflexivity]. intros s b Hs. rewrite <- sha512_compress_eq. now apply sha512_compress_len. }
  destruct (md_fold 128 sha512_compress_spec sha512_H0 (md_pad 128 16 true m)) as [|a [|b [|c [|d [|e [|f [|g [|h [|? ?]]]]]]]]]; try discriminate.
  reflexivity.
Qed.

(* ------------------------------------------------------------------------------------------ *)
(* lists of zeros                                                                              *)
Lemma skipn_repeat {A} (x : A) : forall n m, skipn n (repeat x m) = repeat x (m - n).
Proof. induction n; intros m; [now rewrite Nat.sub_0_r|]. destruct m; [reflexivity|]. cbn [repeat skipn Nat.sub]. apply IHn. Qed.
Lemma firstn_repeat {A} (x : A) : forall n m, (n <= m)%nat -> firstn n (repeat x m) = repeat x n.
Proof. induction n; intros m H; [reflexivity|]. destruct m; [lia|]. cbn [repeat firstn]. f_equal. apply IHn. lia. Qed.

Lemma hbind_inv {A B} (r : hres A) (f : A -> hres B) v : hbind r f = HOk v -> exists a, r = HOk a /\ f a = HOk v.
Proof. destruct r; cbn [hbind]; intros H; try discriminate. eauto. Qed.

(* ------------------------------------------------------------------------------------------ *)
Section Hmac.
  Context {C : Type}.
  Variable alg : hash_alg C.
  Variable spec : list Z -> list Z.
  Variables ds B : Z.
  Variable P : list Z -> Prop.     (* the messages the digest theorems cover *)
  Hypothesis Hds : ha_digest_size alg = ds.
  Hypothesis HB : (if ds <? 48 then 64 else 128) = B.
  Hypothesis Hrange : 0 <= ds <= B.
  Hypothesis Hhash : forall m, P m -> ha_hash alg m = HOk (spec m).
  Hypothesis Hrun : forall a b, P (a ++ b) ->
    exists c1 c2, ha_update alg (ha_init alg) a = HOk c1 /\ ha_update alg c1 b = HOk c2 /\ ha_final alg c2 = HOk (spec (a ++ b)).
  Hypothesis Hlen : forall m, zlen (spec m) = ds.

  Lemma HB128 : B = 64 \/ B = 128.
  Proof. destruct (ds <? 48); lia. Qed.

  Definition hmac_k0 (key : list Z) : list Z := if B <? zlen key then spec key else key.
  Definition hmac_k (key : list Z) : list Z := hmac_k0 key ++ repeat 0 (Z.to_nat (B - zlen (hmac_k0 key))).

  Lemma crypto_HMAC_ok key text :
    (B < zlen key -> P key) ->
    P (map (Z.lxor 0x36) (hmac_k key) ++ text) ->
    P (map (Z.lxor 0x5c) (hmac_k key) ++ spec (map (Z.lxor 0x36) (hmac_k key) ++ text)) ->
    crypto_HMAC alg key text = HOk (hmac_spec spec B key text).
  Proof.
    intros Pk Pi Po. pose proof HB128 as HBv. pose proof (zlen_nonneg key) as Hk0.
    unfold crypto_HMAC. rewrite Hds.
    change (nthz hmac_blocksize_rule 0) with 48. change (nthz hmac_blocksize_rule 1) with 64.
    change (nthz hmac_blocksize_rule 2) with 128. rewrite HB.
    change (hmac_pad_const (nthz hmac_pad_use 0)) with 0x36. change (hmac_pad_const (nthz hmac_pad_use 1)) with 0x5c.
    change HMAC_BLOCK_SIZE_MAX with 128. change (Z.to_nat 128) with 128%nat.
    (* memset(key_pad, 0, blocksize) on the zero array *)
    assert (Hz : zero_fill (repeat 0 128) 0 B = HOk (repeat 0 128)).
    { change (repeat 0 128) with ([] ++ repeat 0 128) at 1.
      rewrite zero_fill_app; [|reflexivity|rewrite zlen_repeat; lia]. cbn [app]. rewrite Z.sub_0_r.
      rewrite skipn_repeat, repeat_app'. do 2 f_equal. lia. }
    rewrite Hz. cbn [hbind].
    (* key_pad = K0 followed by zeros *)
    set (k0 := hmac_k0 key).
    assert (Hk0len : 0 <= zlen k0 <= B).
    { unfold k0, hmac_k0. destruct (B <? zlen key) eqn:E; [rewrite Hlen; lia|lia]. }
    assert (Hkp : (if zlen key <=? B then memcpy_at (repeat 0 128) 0 key
                   else hbind (ha_hash alg key) (fun d => memcpy_at (repeat 0 128) 0 d))
                  = HOk (k0 ++ repeat 0 (128 - length k0))).
    { unfold k0, hmac_k0. destruct (zlen key <=? B) eqn:E.
      - destruct (B <? zlen key) eqn:E'; [lia|].
        change (repeat 0 128) with ([] ++ repeat 0 128) at 1.
        rewrite memcpy_at_app; [|reflexivity|rewrite zlen_repeat; lia]. cbn [app]. now rewrite skipn_repeat.
      - destruct (B <? zlen key) eqn:E'; [|lia].
        rewrite Hhash by (apply Pk; lia). cbn [hbind].
        change (repeat 0 128) with ([] ++ repeat 0 128) at 1.
        rewrite memcpy_at_app; [|reflexivity|rewrite zlen_repeat, Hlen; lia]. cbn [app]. now rewrite skipn_repeat. }
    rewrite Hkp. cbn [hbind].
    rewrite read_at_ok; [|lia|lia|rewrite zlen_app, zlen_repeat; unfold zlen in *; lia]. cbn [hbind Z.to_nat skipn].
    assert (Hfirst : firstn (Z.to_nat B) (k0 ++ repeat 0 (128 - length k0)) = hmac_k key).
    { unfold hmac_k. fold k0. rewrite firstn_app_ge by (unfold zlen in *; lia). f_equal.
      rewrite firstn_repeat by (unfold zlen in *; lia). f_equal. unfold zlen in *. lia. }
    rewrite Hfirst.
    set (k := hmac_k key) in *.
    assert (Hx : forall c, map (fun b => Z.lxor b c) k = map (Z.lxor c) k).
    { intros c. apply map_ext. intros. apply Z.lxor_comm. }
    rewrite !Hx.
    destruct (Hrun (map (Z.lxor 54) k) text Pi) as (c1 & c2 & U1 & U2 & F1).
    rewrite U1. cbn [hbind]. rewrite U2. cbn [hbind]. rewrite F1. cbn [hbind].
    set (inner := spec (map (Z.lxor 54) k ++ text)) in *.
    destruct (Hrun (map (Z.lxor 92) k) inner Po) as (c3 & c4 & U3 & U4 & F2).
    rewrite U3. cbn [hbind].
    rewrite read_at_ok; [|lia|lia|unfold inner; rewrite Hlen; lia]. cbn [hbind Z.to_nat skipn].
    rewrite firstn_all2 by (pose proof (Hlen (map (Z.lxor 54) k ++ text)); fold inner in H; unfold zlen in *; lia).
    rewrite U4. cbn [hbind]. rewrite F2.
    unfold hmac_spec. reflexivity.
  Qed.
End Hmac.

(* ------------------------------------------------------------------------------------------ *)
Lemma run2_split {C} (feed : hres C -> list Z -> hres C) (upd : C -> list Z -> hres C) (fin : C -> hres (list Z)) init a b v :
  (forall r d, feed r d = hbind r (fun c => upd c d)) ->
  hbind (fold_left feed [a; b] (HOk init)) fin = HOk v ->
  exists c1 c2, upd init a = HOk c1 /\ upd c1 b = HOk c2 /\ fin c2 = HOk v.
Proof.
  intros Hf H. cbn [fold_left] in H. rewrite !Hf in H. cbn [hbind] in H.
  apply hbind_inv in H as (c2 & H2 & H3). apply hbind_inv in H2 as (c1 & H1 & H2).
  exists c1, c2. auto.
Qed.

Lemma hmac_sha1_lemma key text : hmac_sha1 key text = HOk (hmac_spec sha1_spec 64 key text).
Proof.
  unfold hmac_sha1.
  apply (crypto_HMAC_ok alg_sha1 sha1_spec 20 64 (fun _ => True)); auto; try reflexivity; try lia.
  - intros m _. apply sha1_oneshot_lemma.
  - intros a b _. apply (run2_split sha1_feed sha1_update sha1_final sha1_init a b); [reflexivity|].
    change (sha1_run [a; b] = HOk (sha1_spec (a ++ b))). rewrite sha1_any_split_lemma. cbn [concat]. now rewrite app_nil_r.
  - apply sha1_spec_len.
Qed.

Definition fits64 (m : list Z) : Prop := 8 * zlen m < 2 ^ 64.

Lemma hmac_fits spec ds B key text :
  (forall m, zlen (spec m) = ds) -> 0 <= ds <= B -> B <= 128 ->
  8 * (zlen key + zlen text + 256) < 2 ^ 64 ->
  (B < zlen key -> fits64 key) /\
  fits64 (map (Z.lxor 0x36) (hmac_k spec B key) ++ text) /\
  fits64 (map (Z.lxor 0x5c) (hmac_k spec B key) ++ spec (map (Z.lxor 0x36) (hmac_k spec B key) ++ text)).
Proof.
  intros Hlen Hds HB H. pose proof (zlen_nonneg key). pose proof (zlen_nonneg text).
  assert (Hk : zlen (hmac_k spec B key) = B).
  { unfold hmac_k, hmac_k0. destruct (B <? zlen key) eqn:E; rewrite zlen_app, zlen_repeat; [rewrite Hlen|]; lia. }
  unfold fits64. repeat split.
  - lia.
  - rewrite zlen_app. unfold zlen at 1. rewrite map_length. fold (zlen (hmac_k spec B key)). lia.
  - rewrite zlen_app, Hlen. unfold zlen at 1. rewrite map_length. fold (zlen (hmac_k spec B key)). lia.
Qed.

Lemma hmac_sha256_lemma key text : 8 * (zlen key + zlen text + 256) < 2 ^ 64 ->
  hmac_sha256 key text = HOk (hmac_spec sha256_spec 64 key text).
Proof.
  intros H. unfold hmac_sha256.
  destruct (hmac_fits sha256_spec 32 64 key text sha256_spec_len ltac:(lia) ltac:(lia) H) as (F1 & F2 & F3).
  apply (crypto_HMAC_ok alg_sha256 sha256_spec 32 64 fits64); auto; try reflexivity; try lia.
  - intros m Hm. apply sha256_oneshot_lemma, Hm.
  - intros a b Hab. apply (run2_split sha256_feed sha256_process sha256_done sha256_init a b); [reflexivity|].
    change (sha256_run [a; b] = HOk (sha256_spec (a ++ b))).
    rewrite sha256_any_split_lemma; cbn [concat]; rewrite app_nil_r; [reflexivity|exact Hab].
  - apply sha256_spec_len.
Qed.

Lemma hmac_sha512_lemma key text : 8 * (zlen key + zlen text + 256) < 2 ^ 64 ->
  hmac_sha512 key text = HOk (hmac_spec sha512_spec 128 key text).
Proof.
  intros H. unfold hmac_sha512.
  destruct (hmac_fits sha512_spec 64 128 key text sha512_spec_len ltac:(lia) ltac:(lia) H) as (F1 & F2 & F3).
  apply (crypto_HMAC_ok alg_sha512 sha512_spec 64 128 fits64); auto; try reflexivity; try lia.
  - intros m Hm. apply sha512_oneshot_lemma, Hm.
  - intros a b Hab. apply (run2_split sha512_feed sha512_process sha512_done sha512_init a b); [reflexivity|].
    change (sha512_run [a; b] = HOk (sha512_spec (a ++ b))).
    rewrite sha512_any_split_lemma; cbn [concat]; rewrite app_nil_r; [reflexivity|exact Hab].
  - apply sha512_spec_len.
Qed.

(* ------------------------------------------------------------------------------------------ *)
(* public SHA-1 API                                                                            *)
Lemma xmpp_sha1_fold : forall chunks c d,
  fold_left xmpp_sha1_feed chunks (HOk {| xs_ctx := c; xs_digest := d |}) =
  hbind (fold_left sha1_feed chunks (HOk c)) (fun c' => HOk {| xs_ctx := c'; xs_digest := d |}).
Proof.
  induction chunks as [|x xs IH]; intros c d; cbn [fold_left]; [reflexivity|].
  unfold xmpp_sha1_feed at 2, sha1_feed at 2, xmpp_sha1_update. cbn [hbind xs_ctx xs_digest].
  destruct (sha1_update c x) as [c'| | |] eqn:E; cbn [hbind].
  - apply IH.
  - clear. induction xs; cbn [fold_left]; [reflexivity|exact IHxs].
  - clear. induction xs; cbn [fold_left]; [reflexivity|exact IHxs].
  - clear. induction xs; cbn [fold_left]; [reflexivity|exact IHxs].
Qed.

Lemma sha1_api_hex_lemma chunks slen :
  xmpp_sha1_run chunks slen =
    HOk (if slen <? 41 then None else Some (hex_of_bytes false (sha1_spec (concat chunks)))).
Proof.
  unfold xmpp_sha1_run, xmpp_sha1_new. rewrite xmpp_sha1_fold.
  pose proof (sha1_any_split_lemma chunks) as H. unfold sha1_run in H.
  apply hbind_inv in H as (c & H1 & H2). rewrite H1. cbn [hbind].
  unfold xmpp_sha1_final. cbn [xs_ctx xs_digest]. rewrite H2. cbn [hbind].
  unfold xmpp_sha1_to_string, digest_to_string. cbn [xs_digest].
  change (sha1_digest_size * 2 + 1) with 41. change (negb sha1_hex_lowercase) with false.
  rewrite firstn_all2; [reflexivity|].
  pose proof (sha1_spec_len (concat chunks)). change sha1_digest_size with 20. unfold zlen in *. lia.
Qed.

Lemma xmpp_sha1_lemma data :
  xmpp_sha1 data = HOk (Some (hex_of_bytes false (sha1_spec data))) /\ xmpp_sha1_digest data = HOk (sha1_spec data).
Proof.
  unfold xmpp_sha1, xmpp_sha1_digest. rewrite sha1_oneshot_lemma. cbn [hbind]. split; [|reflexivity].
  unfold digest_to_string. change (sha1_digest_size * 2 + 1) with 41. change (negb sha1_hex_lowercase) with false.
  cbn [Z.ltb Z.compare Pos.compare Pos.compare_cont].
  rewrite firstn_all2; [reflexivity|].
  pose proof (sha1_spec_len data). change sha1_digest_size with 20. unfold zlen in *. lia.
Qed.
