(* C17: MD5 (src/md5.c) buffering, bit counting and padding: the model's MD5Init / MD5Update /
   MD5Final compute the RFC 1321 digest for every message and every partition into update calls.
   No bound on the message length is assumed: the two 32-bit counters bits[0], bits[1] wrap modulo 2^64 exactly as the
   specification's length field does. *)
Require Import LV.Common.Bytes LV.Common.HashWords LV.Gen.Gen_hash LV.Spec.HashSpec LV.Model.HashModel.
Require Import LV.Proofs.HashGenOk LV.Proofs.HashGeneric LV.Proofs.HashCount LV.Proofs.HashCompress.
Require Import Lia ZifyBool.
Local Open Scope Z_scope.

Local Notation ab := (absorb 64 md5_transform).

Lemma B64 : (0 < 64)%nat.
Proof. lia. Qed.

Lemma flat_map_ext_md5 {A B} (f g : A -> list B) l : (forall x, f x = g x) -> flat_map f l = flat_map g l.
Proof. intros H. induction l; cbn [flat_map]; [reflexivity|]. now rewrite H, IHl. Qed.

(* ------------------------------------------------------------------------------------------ *)
(* writes at the start of an array                                                             *)
Lemma memcpy_at_0 (buf src : list Z) : zlen src <= zlen buf ->
  memcpy_at buf 0 src = HOk (src ++ skipn (length src) buf).
Proof. intros H. exact (memcpy_at_app [] buf src 0 eq_refl H). Qed.

Lemma zero_fill_0 (buf : list Z) to : to <= zlen buf ->
  zero_fill buf 0 to = HOk (repeat 0 (Z.to_nat to) ++ skipn (Z.to_nat to) buf).
Proof.
  intros H. pose proof (zero_fill_app [] buf 0 to eq_refl) as E. rewrite Z.sub_0_r in E.
  exact (E H).
Qed.

(* ------------------------------------------------------------------------------------------ *)
(* the model's functions with the generated constants exposed                                  *)
Definition nb0 (c0 len : Z) : Z := (c0 + ((len mod 2 ^ 32) * 2 ^ 3) mod 2 ^ 32) mod 2 ^ 32.
Definition nb1 (c0 c1 len : Z) : Z :=
  ((if nb0 c0 len <? c0 then (c1 + 1) mod 2 ^ 32 else c1) + len / 2 ^ 29) mod 2 ^ 32.

Definition mtail (data : list Z) (b0 b1 : Z) (st inb : list Z) (pos len : Z) : hres md5_ctx :=
  do r <- md5_block_loop (S (length data)) st inb data pos len;
  let '(st', inb', pos', len') := r in
  do rest <- read_at data pos' len';
  do inb'' <- memcpy_at inb' 0 rest;
  HOk {| m_buf := st'; m_bits0 := b0; m_bits1 := b1; m_in := inb'' |}.

Lemma md5_update_unfold c data : md5_update c data =
  let len := zlen data in
  let b0 := nb0 (m_bits0 c) len in
  let b1 := nb1 (m_bits0 c) (m_bits1 c) len in
  let t := Z.land (m_bits0 c / 2 ^ 3) 63 in
  if negb (t =? 0) then
    if len <? 64 - t then
      do inb <- memcpy_at (m_in c) t data;
      HOk {| m_buf := m_buf c; m_bits0 := b0; m_bits1 := b1; m_in := inb |}
    else
      do src <- read_at data 0 (64 - t);
      do inb <- memcpy_at (m_in c) t src;
      mtail data b0 b1 (md5_transform (m_buf c) inb) inb (64 - t) (len - (64 - t))
  else mtail data b0 b1 (m_buf c) (m_in c) 0 len.
Proof. reflexivity. Qed.

Lemma md5_final_unfold c : md5_final c =
  let count := Z.land (m_bits0 c / 2 ^ 3) 63 in
  do in0 <- memcpy_at (m_in c) count [128];
  do r <- (if 63 - count <? 8 then
             do in1 <- zero_fill in0 (count + 1) (count + 1 + (63 - count));
             do in2 <- zero_fill in1 0 56;
             HOk (md5_transform (m_buf c) in1, in2)
           else
             do in1 <- zero_fill in0 (count + 1) (count + 1 + (63 - count - 8));
             HOk (m_buf c, in1));
  let '(st, in1) := r in
  do in2 <- memcpy_at in1 56 (put32lsb (m_bits0 c));
  do in3 <- memcpy_at in2 60 (put32lsb (m_bits1 c));
  HOk (flat_map put32lsb (md5_transform st in3)).
Proof. reflexivity. Qed.

(* ------------------------------------------------------------------------------------------ *)
(* the bit counters                                                                            *)
Lemma md5_count c0 c1 len n :
  0 <= c0 < 2 ^ 32 -> 0 <= c1 < 2 ^ 32 -> 0 <= len -> c1 * 2 ^ 32 + c0 = (8 * n) mod 2 ^ 64 ->
  0 <= nb0 c0 len < 2 ^ 32 /\ 0 <= nb1 c0 c1 len < 2 ^ 32 /\
  nb1 c0 c1 len * 2 ^ 32 + nb0 c0 len = (8 * (n + len)) mod 2 ^ 64.
Proof.
  intros H0 H1 Hl Hc.
  pose proof (count_update c0 c1 len H0 H1 Hl) as H. cbv zeta in H.
  destruct H as (A & B & C & D).
  unfold nb1, nb0. rewrite <- D.
  rewrite <- (Zplus_mod_idemp_r (len / 2 ^ 29)).
  split; [exact A|]. split; [exact B|].
  rewrite C, Hc, Zplus_mod_idemp_l. f_equal. lia.
Qed.

(* ------------------------------------------------------------------------------------------ *)
(* invariant, abstraction, representation                                                      *)
Definition minv (c : md5_ctx) : Prop :=
  0 <= m_bits0 c < 2 ^ 32 /\ 0 <= m_bits1 c < 2 ^ 32 /\ zlen (m_in c) = 64.
Definition mabs (c : md5_ctx) : list Z * list Z := (m_buf c, md5_pending c).
Definition mrep (c : md5_ctx) (msg : list Z) : Prop :=
  minv c /\ mabs c = ab (md5_iv, []) msg /\ m_bits1 c * 2 ^ 32 + m_bits0 c = (8 * zlen msg) mod 2 ^ 64.

Lemma nat_mod_64 (l : list Z) : Z.to_nat (zlen l mod 64) = (length l mod 64)%nat.
Proof. unfold zlen. rewrite <- (Nat2Z.id (length l mod 64)). now rewrite Nat2Z.inj_mod. Qed.

Lemma ab_rem msg st p : ab (md5_iv, []) msg = (st, p) -> length p = (length msg mod 64)%nat.
Proof.
  intros H. pose proof (absorb'_rem 64 B64 md5_transform md5_iv msg) as [_ Hr].
  unfold absorb in H. cbn [fst snd app] in H. rewrite H in Hr. exact Hr.
Qed.

Lemma mrep_idx c msg : mrep c msg ->
  Z.land (m_bits0 c / 2 ^ 3) 63 = zlen msg mod 64 /\ zlen (md5_pending c) = zlen msg mod 64.
Proof.
  intros ((H0 & H1 & Hin) & Habs & Hc).
  assert (Hi : Z.land (m_bits0 c / 2 ^ 3) 63 = zlen msg mod 64) by (apply (count_index _ (m_bits1 c)); assumption).
  split; [exact Hi|].
  unfold md5_pending. change md5_idx_shift with 3. change md5_idx_mask with 63. rewrite Hi.
  pose proof (Z.mod_pos_bound (zlen msg) 64 ltac:(lia)).
  apply zlen_firstn. lia.
Qed.

Lemma mrep_intro c msg p : minv c -> m_bits1 c * 2 ^ 32 + m_bits0 c = (8 * zlen msg) mod 2 ^ 64 ->
  ab (md5_iv, []) msg = (m_buf c, p) -> firstn (length p) (m_in c) = p -> mrep c msg.
Proof.
  intros Hinv Hc Hab Hp. split; [exact Hinv|]. split; [|exact Hc].
  unfold mabs. rewrite Hab. f_equal. unfold md5_pending.
  change md5_idx_shift with 3. change md5_idx_mask with 63.
  destruct Hinv as (H0 & H1 & Hin).
  rewrite (count_index _ (m_bits1 c) (zlen msg)) by assumption.
  rewrite nat_mod_64, <- (ab_rem msg _ _ Hab). exact Hp.
Qed.

Lemma mrep_init : mrep md5_init [].
Proof.
  apply (mrep_intro md5_init [] []).
  - unfold minv, md5_init. cbn [m_bits0 m_bits1 m_in]. rewrite zlen_repeat. change md5_block with 64. lia.
  - reflexivity.
  - apply (absorb_nil 64 B64). cbn [snd length]. lia.
  - reflexivity.
Qed.

(* ------------------------------------------------------------------------------------------ *)
(* the block loop                                                                              *)
Lemma md5_loop_ok : forall fuel st inb data pos len,
  zlen inb = 64 -> 0 <= pos -> 0 <= len -> pos + len = zlen data -> (Z.to_nat len < fuel)%nat ->
  exists st' inb' pos' len', md5_block_loop fuel st inb data pos len = HOk (st', inb', pos', len') /\
    zlen inb' = 64 /\ 0 <= pos' /\ 0 <= len' < 64 /\ pos' + len' = zlen data /\
    ab (st, []) (skipn (Z.to_nat pos) data) = ab (st', []) (skipn (Z.to_nat pos') data).
Proof.
  induction fuel; intros st inb data pos len Hin Hpos Hlen Hsum Hfuel; [lia|].
  cbn [md5_block_loop].
  change (nthz md5_loop 0) with 64. change (nthz md5_loop 1) with 64.
  change (nthz md5_loop 2) with 64. change (nthz md5_loop 3) with 64.
  destruct (64 <=? len) eqn:E.
  - rewrite read_at_ok by lia. cbn [hbind].
    set (rest := skipn (Z.to_nat pos) data).
    assert (Hrest : zlen rest = len) by (unfold rest; rewrite zlen_skipn; lia).
    set (src := firstn (Z.to_nat 64) rest).
    assert (Hsrc : zlen src = 64) by (unfold src; apply zlen_firstn; lia).
    rewrite memcpy_at_0 by lia. cbn [hbind].
    rewrite (skipn_all_nil inb) by (unfold zlen in *; lia). rewrite app_nil_r.
    destruct (IHfuel (md5_transform st src) src data (pos + 64) (len - 64))
      as (st' & inb' & pos' & len' & HL & Hin' & Hpos' & Hlen' & Hsum' & Hab); try lia.
    exists st', inb', pos', len'. split; [exact HL|]. repeat (split; [assumption|]).
    rewrite <- Hab.
    rewrite (absorb_block 64 B64 md5_transform st [] rest) by (cbn [app]; unfold zlen in *; lia).
    cbn [app]. unfold rest. rewrite skipn_skipn'.
    replace (Z.to_nat pos + 64)%nat with (Z.to_nat (pos + 64)) by lia. reflexivity.
  - exists st, inb, pos, len. split; [reflexivity|]. repeat (split; [lia|]). reflexivity.
Qed.

Lemma mtail_ok data b0 b1 st inb pos len :
  zlen inb = 64 -> 0 <= pos -> 0 <= len -> pos + len = zlen data ->
  exists c' p, mtail data b0 b1 st inb pos len = HOk c' /\ m_bits0 c' = b0 /\ m_bits1 c' = b1 /\
    zlen (m_in c') = 64 /\
    ab (st, []) (skipn (Z.to_nat pos) data) = (m_buf c', p) /\ firstn (length p) (m_in c') = p.
Proof.
  intros Hin Hpos Hlen Hsum.
  destruct (md5_loop_ok (S (length data)) st inb data pos len)
    as (st' & inb' & pos' & len' & HL & Hin' & Hpos' & Hlen' & Hsum' & Hab); try assumption.
  { unfold zlen in *. lia. }
  unfold mtail. rewrite HL. cbn [hbind]. rewrite read_at_ok by lia. cbn [hbind].
  set (rest := skipn (Z.to_nat pos') data).
  assert (Hrest : zlen rest = len') by (unfold rest; rewrite zlen_skipn; lia).
  rewrite (firstn_all2 (n := Z.to_nat len') rest) by (unfold zlen in *; lia).
  rewrite memcpy_at_0 by lia. cbn [hbind].
  eexists. exists rest. split; [reflexivity|]. cbn [m_bits0 m_bits1 m_in m_buf].
  split; [reflexivity|]. split; [reflexivity|]. split.
  { rewrite zlen_app. replace (length rest) with (Z.to_nat (zlen rest)) by (unfold zlen; lia).
    rewrite zlen_skipn; lia. }
  split.
  { rewrite Hab. fold rest. apply (absorb_small 64 B64). cbn [app]. unfold zlen in *. lia. }
  apply firstn_app_exact. reflexivity.
Qed.

(* ------------------------------------------------------------------------------------------ *)
(* MD5Update                                                                                   *)
Lemma md5_update_ok c msg d : mrep c msg -> exists c', md5_update c d = HOk c' /\ mrep c' (msg ++ d).
Proof.
  intros Hrep. pose proof (mrep_idx c msg Hrep) as (Hidx & Hpl).
  destruct Hrep as (Hinv & Habs & Hcnt). pose proof Hinv as (H0 & H1 & Hin).
  pose proof (zlen_nonneg d) as Hd.
  destruct (md5_count (m_bits0 c) (m_bits1 c) (zlen d) (zlen msg) H0 H1 Hd Hcnt) as (N0 & N1 & NC).
  pose proof (Z.mod_pos_bound (zlen msg) 64 ltac:(lia)) as Hcl.
  assert (Habs' : ab (md5_iv, []) (msg ++ d) = ab (m_buf c, md5_pending c) d).
  { rewrite <- (absorb_app 64 B64 md5_transform (md5_iv, []) msg d), <- Habs. reflexivity. }
  assert (Hsplit : m_in c = md5_pending c ++ skipn (Z.to_nat (zlen msg mod 64)) (m_in c)).
  { unfold md5_pending. change md5_idx_shift with 3. change md5_idx_mask with 63. rewrite Hidx.
    symmetry. apply firstn_skipn. }
  rewrite md5_update_unfold. cbv zeta. rewrite Hidx.
  remember (zlen msg mod 64) as cl eqn:Ecl.
  remember (nb0 (m_bits0 c) (zlen d)) as b0 eqn:Eb0.
  remember (nb1 (m_bits0 c) (m_bits1 c) (zlen d)) as b1 eqn:Eb1.
  remember (md5_pending c) as p eqn:Ep.
  remember (skipn (Z.to_nat cl) (m_in c)) as r0 eqn:Er0.
  assert (Hr0 : zlen r0 = 64 - cl) by (rewrite Er0; rewrite zlen_skipn; lia).
  rewrite <- zlen_app in NC.
  destruct (negb (cl =? 0)) eqn:Et.
  - destruct (zlen d <? 64 - cl) eqn:Es.
    + rewrite Hsplit. rewrite memcpy_at_app by lia. cbn [hbind].
      eexists. split; [reflexivity|].
      apply (mrep_intro _ _ (p ++ d)); cbn [m_buf m_bits0 m_bits1 m_in].
      * unfold minv; cbn [m_buf m_bits0 m_bits1 m_in]. split; [exact N0|]. split; [exact N1|].
        rewrite !zlen_app. replace (length d) with (Z.to_nat (zlen d)) by (unfold zlen; lia).
        rewrite zlen_skipn; lia.
      * exact NC.
      * rewrite Habs'. apply (absorb_small 64 B64). rewrite app_length. unfold zlen in *. lia.
      * rewrite app_assoc. apply firstn_app_exact. reflexivity.
    + rewrite read_at_ok by lia. cbn [hbind]. change (skipn (Z.to_nat 0) d) with d.
      set (src := firstn (Z.to_nat (64 - cl)) d).
      assert (Hsrc : zlen src = 64 - cl) by (unfold src; apply zlen_firstn; lia).
      rewrite Hsplit. rewrite memcpy_at_app by lia. cbn [hbind].
      rewrite (skipn_all_nil r0) by (unfold zlen in *; lia). rewrite app_nil_r.
      destruct (mtail_ok d b0 b1 (md5_transform (m_buf c) (p ++ src)) (p ++ src) (64 - cl) (zlen d - (64 - cl)))
        as (c' & q & HT & Hb0 & Hb1 & Hin' & Hab & Hq); try lia.
      { rewrite zlen_app. lia. }
      rewrite HT. exists c'. split; [reflexivity|]. apply (mrep_intro c' _ q).
      * unfold minv. rewrite Hb0, Hb1. auto.
      * rewrite Hb0, Hb1. exact NC.
      * rewrite Habs'. rewrite (absorb_block 64 B64 md5_transform (m_buf c) p d)
          by (rewrite app_length; unfold zlen in *; lia).
        rewrite firstn_app_ge, skipn_app_ge by (unfold zlen in *; lia).
        replace (64 - length p)%nat with (Z.to_nat (64 - cl)) by (unfold zlen in *; lia).
        exact Hab.
      * exact Hq.
  - assert (Hp0 : p = []) by (destruct p; [reflexivity|rewrite zlen_cons in Hpl; pose proof (zlen_nonneg p); lia]).
    destruct (mtail_ok d b0 b1 (m_buf c) (m_in c) 0 (zlen d))
      as (c' & q & HT & Hb0 & Hb1 & Hin' & Hab & Hq); try lia.
    rewrite HT. exists c'. split; [reflexivity|]. apply (mrep_intro c' _ q).
    + unfold minv. rewrite Hb0, Hb1. auto.
    + rewrite Hb0, Hb1. exact NC.
    + rewrite Habs', Hp0. exact Hab.
    + exact Hq.
Qed.

Lemma md5_feed_ok : forall chunks c msg, mrep c msg ->
  exists c', fold_left md5_feed chunks (HOk c) = HOk c' /\ mrep c' (msg ++ concat chunks).
Proof.
  induction chunks as [|d ds IH]; intros c msg Hrep; cbn [fold_left concat].
  - exists c. now rewrite app_nil_r.
  - destruct (md5_update_ok c msg d Hrep) as (c1 & U1 & R1).
    unfold md5_feed at 2. cbn [hbind]. rewrite U1.
    destruct (IH c1 (msg ++ d) R1) as (c' & F & R).
    exists c'. split; [exact F|]. now rewrite <- app_assoc in R.
Qed.

(* ------------------------------------------------------------------------------------------ *)
(* MD5Final                                                                                    *)
Lemma le8_split b0 b1 : 0 <= b0 < 2 ^ 32 -> 0 <= b1 < 2 ^ 32 ->
  le_bytes 8 (b1 * 2 ^ 32 + b0) = put32lsb b0 ++ put32lsb b1.
Proof.
  intros H0 H1. unfold le_bytes, put32lsb. cbn [be_bytes rev app].
  change (2 ^ 32) with 4294967296 in *. change (2 ^ 8) with 256. change (2 ^ 16) with 65536.
  change (2 ^ 24) with 16777216.
  change (256 ^ Z.of_nat 0) with 1. change (256 ^ Z.of_nat 1) with 256. change (256 ^ Z.of_nat 2) with 65536.
  change (256 ^ Z.of_nat 3) with 16777216. change (256 ^ Z.of_nat 4) with 4294967296.
  change (256 ^ Z.of_nat 5) with 1099511627776. change (256 ^ Z.of_nat 6) with 281474976710656.
  change (256 ^ Z.of_nat 7) with 72057594037927936.
  repeat (apply (f_equal2 (@cons Z))); try reflexivity; Z.div_mod_to_equations; lia.
Qed.

Lemma md5_spec_is msg :
  flat_map put32lsb (md_fold 64 md5_transform md5_iv (md_pad 64 8 false msg)) = md5_spec msg.
Proof.
  unfold md5_spec. rewrite (proj1 Gen_md5_ok).
  rewrite (md_fold_ext _ _ _ _ _ md5_transform_eq).
  apply flat_map_ext_md5. apply put32lsb_le.
Qed.

Lemma md5_final_ok c msg : mrep c msg -> md5_final c = HOk (md5_spec msg).
Proof.
  intros Hrep. pose proof (mrep_idx c msg Hrep) as (Hidx & Hpl).
  destruct Hrep as (Hinv & Habs & Hcnt). pose proof Hinv as (H0 & H1 & Hin).
  pose proof (zlen_nonneg msg) as Hn0.
  pose proof (Z.mod_pos_bound (zlen msg) 64 ltac:(lia)) as Hcl.
  assert (Hsplit : m_in c = md5_pending c ++ skipn (Z.to_nat (zlen msg mod 64)) (m_in c)).
  { unfold md5_pending. change md5_idx_shift with 3. change md5_idx_mask with 63. rewrite Hidx.
    symmetry. apply firstn_skipn. }
  (* the specification side *)
  rewrite <- md5_spec_is. unfold md_pad. cbv zeta.
  change (Z.to_nat 8) with 8%nat. change (2 ^ (8 * 8)) with (2 ^ 64).
  rewrite <- Hcnt, le8_split by assumption.
  (* the model side *)
  rewrite md5_final_unfold. cbv zeta. rewrite Hidx.
  remember (zlen msg) as n eqn:En.
  remember (n mod 64) as cl eqn:Ecl.
  remember (md5_pending c) as p eqn:Ep.
  remember (m_buf c) as st eqn:Est.
  remember (skipn (Z.to_nat cl) (m_in c)) as r0 eqn:Er0.
  assert (Hr0 : zlen r0 = 64 - cl) by (rewrite Er0; rewrite zlen_skipn; lia).
  remember (put32lsb (m_bits0 c)) as L0 eqn:EL0.
  remember (put32lsb (m_bits1 c)) as L1 eqn:EL1.
  assert (HL0 : length L0 = 4%nat) by (rewrite EL0; reflexivity).
  assert (HL1 : length L1 = 4%nat) by (rewrite EL1; reflexivity).
  assert (Hmabs : ab (md5_iv, []) msg = (st, p)) by (rewrite <- Habs, Est, Ep; reflexivity).
  assert (Hnat : Z.of_nat (length msg mod 64) = cl).
  { rewrite Ecl, En. unfold zlen. now rewrite Nat2Z.inj_mod. }
  pose proof (Nat.div_mod (length msg) 64 ltac:(lia)) as Hdm.
  rewrite Hsplit. rewrite memcpy_at_app; [|lia|rewrite zlen_cons, zlen_nil; lia]. cbn [hbind length].
  remember (skipn 1 r0) as r1 eqn:Er1.
  assert (Hr1 : zlen r1 = 63 - cl).
  { rewrite Er1. change 1%nat with (Z.to_nat 1). rewrite zlen_skipn; lia. }
  replace (p ++ [128] ++ r1) with ((p ++ [128]) ++ r1) by now rewrite <- app_assoc.
  destruct (63 - cl <? 8) eqn:Ecase.
  - (* two blocks *)
    assert (Hk : (64 - 8 - 1 - n) mod 64 = 119 - cl).
    { rewrite Ecl. symmetry. apply (Z.mod_unique _ _ (- (n / 64) - 1)); [lia|].
      pose proof (Z.div_mod n 64 ltac:(lia)). lia. }
    rewrite Hk.
    rewrite zero_fill_app; [|rewrite zlen_app, zlen_cons, zlen_nil; lia|lia]. cbn [hbind].
    replace (Z.to_nat (cl + 1 + (63 - cl) - (cl + 1))) with (Z.to_nat (63 - cl)) by lia.
    rewrite (skipn_all_nil r1) by (unfold zlen in *; lia). rewrite app_nil_r.
    remember ([128] ++ repeat 0 (Z.to_nat (63 - cl))) as t1 eqn:Et1.
    replace ((p ++ [128]) ++ repeat 0 (Z.to_nat (63 - cl))) with (p ++ t1) by (rewrite Et1; now rewrite <- app_assoc).
    assert (Ht1 : zlen (p ++ t1) = 64).
    { rewrite Et1. rewrite !zlen_app, zlen_cons, zlen_nil, zlen_repeat. lia. }
    remember (p ++ t1) as b1 eqn:Eb1.
    rewrite zero_fill_0 by lia. cbn [hbind].
    remember (skipn (Z.to_nat 56) b1) as t eqn:Et.
    assert (Ht : zlen t = 8) by (rewrite Et; rewrite zlen_skipn; lia).
    rewrite memcpy_at_app; [|rewrite zlen_repeat; lia|unfold zlen in *; lia]. cbn [hbind]. rewrite HL0.
    remember (skipn 4 t) as t' eqn:Et'.
    assert (Ht' : zlen t' = 4).
    { rewrite Et'. change 4%nat with (Z.to_nat 4). rewrite zlen_skipn; lia. }
    rewrite app_assoc.
    rewrite memcpy_at_app; [|rewrite zlen_app, zlen_repeat; unfold zlen; lia|unfold zlen in *; lia].
    cbn [hbind]. rewrite (skipn_all_nil t') by (unfold zlen in *; lia). rewrite app_nil_r.
    remember ((repeat 0 (Z.to_nat 56) ++ L0) ++ L1) as t2 eqn:Et2.
    assert (Ht2 : zlen t2 = 64).
    { rewrite Et2. rewrite !zlen_app, zlen_repeat. unfold zlen. lia. }
    assert (Htail : [128] ++ repeat 0 (Z.to_nat (119 - cl)) ++ L0 ++ L1 = t1 ++ t2).
    { rewrite Et1, Et2. rewrite <- !app_assoc. f_equal. rewrite !app_assoc. do 2 f_equal.
      rewrite repeat_app'. f_equal. lia. }
    rewrite Htail.
    rewrite (md_fold_absorb 64 B64 md5_transform md5_iv _ (length msg / 64 + 2)).
    2:{ rewrite !app_length. rewrite Eb1 in Ht1. unfold zlen in *. rewrite app_length in Ht1. lia. }
    do 2 f_equal.
    rewrite <- (absorb_app 64 B64 md5_transform (md5_iv, []) msg (t1 ++ t2)), Hmabs.
    rewrite (absorb_block 64 B64 md5_transform st p (t1 ++ t2))
      by (rewrite app_assoc, app_length, <- Eb1; unfold zlen in *; lia).
    rewrite (app_assoc p t1 t2), <- Eb1.
    rewrite firstn_app_exact, skipn_app_exact by (unfold zlen in *; lia).
    rewrite (absorb_block 64 B64 md5_transform _ [] t2) by (cbn [app]; unfold zlen in *; lia).
    cbn [app]. rewrite firstn_all2, skipn_all_nil by (unfold zlen in *; lia).
    rewrite absorb_nil by (cbn; lia). reflexivity.
  - (* one block *)
    assert (Hk : (64 - 8 - 1 - n) mod 64 = 55 - cl).
    { rewrite Ecl. symmetry. apply (Z.mod_unique _ _ (- (n / 64))); [lia|].
      pose proof (Z.div_mod n 64 ltac:(lia)). lia. }
    rewrite Hk.
    rewrite zero_fill_app; [|rewrite zlen_app, zlen_cons, zlen_nil; lia|lia]. cbn [hbind].
    replace (Z.to_nat (cl + 1 + (63 - cl - 8) - (cl + 1))) with (Z.to_nat (55 - cl)) by lia.
    remember (repeat 0 (Z.to_nat (55 - cl))) as z eqn:Ez.
    assert (Hz : zlen z = 55 - cl) by (rewrite Ez, zlen_repeat; lia).
    remember (skipn (Z.to_nat (55 - cl)) r1) as t eqn:Et.
    assert (Ht : zlen t = 8) by (rewrite Et; rewrite zlen_skipn; lia).
    replace ((p ++ [128]) ++ z ++ t) with ((p ++ [128] ++ z) ++ t) by now rewrite <- !app_assoc.
    rewrite memcpy_at_app; [|rewrite !zlen_app, zlen_cons, zlen_nil; lia|unfold zlen in *; lia].
    cbn [hbind]. rewrite HL0.
    remember (skipn 4 t) as t' eqn:Et'.
    assert (Ht' : zlen t' = 4).
    { rewrite Et'. change 4%nat with (Z.to_nat 4). rewrite zlen_skipn; lia. }
    rewrite app_assoc.
    rewrite memcpy_at_app; [|rewrite !zlen_app, zlen_cons, zlen_nil; unfold zlen in *; lia|unfold zlen in *; lia].
    cbn [hbind]. rewrite (skipn_all_nil t') by (unfold zlen in *; lia). rewrite app_nil_r.
    remember ([128] ++ z ++ L0 ++ L1) as t1 eqn:Et1.
    assert (Hb : ((p ++ [128] ++ z) ++ L0) ++ L1 = p ++ t1) by (rewrite Et1; now rewrite <- !app_assoc).
    rewrite Hb.
    assert (Ht1 : zlen (p ++ t1) = 64).
    { rewrite Et1. rewrite !zlen_app, zlen_cons, zlen_nil. unfold zlen in *. lia. }
    rewrite (md_fold_absorb 64 B64 md5_transform md5_iv _ (length msg / 64 + 1)).
    2:{ rewrite !app_length. unfold zlen in *. rewrite app_length in Ht1. lia. }
    do 2 f_equal.
    rewrite <- (absorb_app 64 B64 md5_transform (md5_iv, []) msg t1), Hmabs.
    rewrite (absorb_block 64 B64 md5_transform st p t1) by (unfold zlen in *; lia).
    rewrite firstn_all2, skipn_all_nil by (unfold zlen in *; lia).
    rewrite absorb_nil by (cbn; lia). reflexivity.
Qed.

(* ------------------------------------------------------------------------------------------ *)
(* the theorems                                                                                *)
Lemma md5_reached_rep c msg : md5_reached c msg -> mrep c msg.
Proof.
  intros (chunks & <- & Hf).
  destruct (md5_feed_ok chunks md5_init [] mrep_init) as (c' & F & R).
  rewrite Hf in F. injection F as <-. exact R.
Qed.

Lemma mrep_equiv c1 c2 msg : mrep c1 msg -> mrep c2 msg -> md5_equiv c1 c2.
Proof.
  intros ((A0 & A1 & _) & AA & AC) ((B0 & B1 & _) & BA & BC).
  unfold mabs in *. rewrite <- BA in AA. injection AA as S P.
  assert (m_bits0 c1 = m_bits0 c2 /\ m_bits1 c1 = m_bits1 c2) as [E0 E1].
  { rewrite <- BC in AC. change (2 ^ 32) with 4294967296 in *. lia. }
  unfold md5_equiv. auto.
Qed.

Lemma md5_any_split_lemma : forall chunks, md5_run chunks = HOk (md5_spec (concat chunks)).
Proof.
  intros chunks. unfold md5_run.
  destruct (md5_feed_ok chunks md5_init [] mrep_init) as (c' & F & R).
  rewrite F. cbn [hbind app] in *. now apply md5_final_ok.
Qed.

Lemma md5_oneshot_lemma : forall data, md5_oneshot data = HOk (md5_spec data).
Proof.
  intros data. unfold md5_oneshot. rewrite md5_any_split_lemma. cbn [concat]. now rewrite app_nil_r.
Qed.

Lemma md5_reached_final_lemma : forall c msg, md5_reached c msg -> md5_final c = HOk (md5_spec msg).
Proof. intros c msg H. apply md5_final_ok. now apply md5_reached_rep. Qed.

Lemma md5_update_app_lemma : forall c msg a b, md5_reached c msg ->
  exists c2 c12, md5_feed (md5_feed (HOk c) a) b = HOk c2 /\ md5_feed (HOk c) (a ++ b) = HOk c12 /\
                 md5_equiv c2 c12 /\ md5_final c2 = md5_final c12 /\
                 md5_final c12 = HOk (md5_spec (msg ++ a ++ b)).
Proof.
  intros c msg a b Hr. pose proof (md5_reached_rep c msg Hr) as R.
  destruct (md5_feed_ok [a; b] c msg R) as (c2 & F2 & R2).
  destruct (md5_feed_ok [a ++ b] c msg R) as (c12 & F12 & R12).
  cbn [fold_left concat] in *. rewrite app_nil_r in *.
  exists c2, c12. split; [exact F2|]. split; [exact F12|].
  split; [exact (mrep_equiv _ _ _ R2 R12)|].
  rewrite (md5_final_ok _ _ R2), (md5_final_ok _ _ R12). auto.
Qed.

Print Assumptions md5_update_app_lemma.
Print Assumptions md5_reached_final_lemma.
Print Assumptions md5_oneshot_lemma.
Print Assumptions md5_any_split_lemma.
