(* C17 proofs: entry point re-exporting the parts.
     HashGenOk      generated constants = standard tables (Gen_hash_ok)
     HashGeneric    buffered Merkle-Damgard absorption, checked array operations
     HashCount      32+32-bit bit counters and byte-index masks
     HashCompress   model compression functions = specification compression functions
     HashTomProofs  buffering/padding of sha256.c / sha512.c (generic in the block size)
     HashSha2       SHA-256 / SHA-512 theorems
     HashSha1       SHA-1 theorems
     HashMd5        MD5 theorems
     HashHmac       crypto_HMAC = RFC 2104; xmpp_sha1_* API *)
Require Export LV.Proofs.HashGenOk LV.Proofs.HashGeneric LV.Proofs.HashCount LV.Proofs.HashCompress
               LV.Proofs.HashTomProofs LV.Proofs.HashSha2 LV.Proofs.HashSha1 LV.Proofs.HashMd5 LV.Proofs.HashHmac.
