(* C17 proofs: entry point re-exporting the parts.
     HashGenOk      generated constants = standard tables
     HashGeneric    buffered Merkle-Damgard absorption, checked array operations
     HashCount      32+32-bit bit counters and byte-index masks
     HashCompress   model compression functions = specification compression functions
     HashTomProofs  buffering/padding of sha256.c / sha512.c (generic in the block size)
     HashSha2       SHA-256 / SHA-512 theorems *)
Require Export LV.Proofs.HashGenOk LV.Proofs.HashGeneric LV.Proofs.HashCount LV.Proofs.HashCompress
               LV.Proofs.HashTomProofs LV.Proofs.HashSha2.
