(* C17 proofs (work in progress: re-exports the parts). *)
Require Export LV.Proofs.HashGenOk.
