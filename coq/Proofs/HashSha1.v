(* C17: SHA-1 (sha1.c): count[2] bit counter with carry, the (j+len) > 63 split, Final through
   Update calls.  No length hypothesis: the counter wraps modulo 2^64 exactly as the padding's
   length field does. *)
Require Import LV.Common.Bytes LV.Common.HashWords LV.Gen.Gen_hash LV.Spec.HashSpec LV.Model.HashModel.
Require Import LV.Proofs.HashGenOk LV.Proofs.HashGeneric LV.Proofs.HashCount LV.Proofs.HashCompress.
Require Import Lia ZifyBool.
Local Open Scope Z_scope.

Local Notation B := 64%nat.
Local Notation absorb1 := (absorb B sha1_transform).

Lemma B64pos : (0 < B)%nat.
Proof. lia. Qed.

Definition sinv (c : sha1_ctx) : Prop :=
  0 <= s1_count0 c < 2 ^ 32 /\ 0 <= s1_count1 c < 2 ^ 32 /\ zlen (s1_buffer c) = 64.
Definition sabs (c : sha1_ctx) : list Z * list Z := (s1_state c, sha1_pending c).
Definition srep (c : sha1_ctx) (msg : list Z) : Prop :=
  sinv c /\ sabs c = absorb1 (sha1_iv, []) msg /\
  s1_count1 c * 2 ^ 32 + s1_count0 c = (8 * zlen msg) mod 2 ^ 64.

Lemma srep_init : srep sha1_init [].
Proof.
  unfold srep, sinv, sabs, sha1_pending, sha1_init. cbn [s1_state s1_count0 s1_count1 s1_buffer].
  split; [|split; reflexivity]. split; [lia|]. split; [lia|]. reflexivity.
Qed.

(* the pending bytes are the first (byte count mod 64) bytes of the buffer *)
Lemma srep_index c msg : srep c msg ->
  Z.land (s1_count0 c / 2 ^ sha1_idx_shift) sha1_idx_mask = zlen msg mod 64 /\
  zlen (sha1_pending c) = zlen msg mod 64.
Proof.
  intros ((H0 & H1 & Hb) & Habs & Hcnt).
  assert (Hj : Z.land (s1_count0 c / 2 ^ sha1_idx_shift) sha1_idx_mask = zlen msg mod 64)
    by (apply (count_index _ (s1_count1 c)); assumption).
  split; [exact Hj|].
  assert (Hp : sha1_pending c = snd (sabs c)) by reflexivity.
  rewrite Hp, Habs. unfold absorb. cbn [fst snd app]. unfold zlen.
  rewrite (proj2 (absorb'_rem B B64pos sha1_transform sha1_iv msg)). rewrite Nat2Z.inj_mod. reflexivity.
Qed.

(* for (; i + 63 < len; i += 64) SHA1_Transform(state, data + i) *)
Lemma sha1_block_loop_ok : forall fuel st data i len,
  len = zlen data -> 0 <= i <= len -> (Z.to_nat (len - i) < fuel)%nat ->
  exists st' i', sha1_block_loop fuel st data i len = HOk (st', i') /\ i <= i' <= len /\ len - i' < 64 /\
    absorb1 (st, []) (skipn (Z.to_nat i) data) = absorb1 (st', []) (skipn (Z.to_nat i') data).
Proof.
  induction fuel; intros st data i len Hlen Hi Hfuel; [lia|].
  cbn [sha1_block_loop]. change sha1_loop_look with 63. change sha1_loop_step with 64. change sha1_block with 64.
  destruct (i + 63 <? len) eqn:E.
  - rewrite read_at_ok by lia. cbn [hbind].
    set (rest := skipn (Z.to_nat i) data).
    assert (Hrest : zlen rest = len - i) by (unfold rest; rewrite zlen_skipn; lia).
    destruct (IHfuel (sha1_transform st (firstn (Z.to_nat 64) rest)) data (i + 64) len) as (st' & i' & H1 & H2 & H3 & H4);
      try lia.
    exists st', i'. split; [exact H1|]. split; [lia|]. split; [exact H3|].
    rewrite <- H4.
    rewrite (absorb_block B B64pos sha1_transform st [] rest) by (cbn [app]; unfold zlen in Hrest; lia).
    cbn [app]. unfold rest. rewrite skipn_skipn'. do 2 f_equal. lia.
  - exists st, i. split; [reflexivity|]. split; [lia|]. split; [lia|reflexivity].
Qed.

Lemma sha1_update_ok c msg d : srep c msg -> exists c', sha1_update c d = HOk c' /\ srep c' (msg ++ d).
Proof.
  intros Hrep. destruct (srep_index c msg Hrep) as (Hj & Hpl).
  destruct Hrep as (Hinv & Habs & Hcnt). destruct Hinv as (H0 & H1 & Hb).
  pose proof (zlen_nonneg d) as Hd0. pose proof (zlen_nonneg msg) as Hm0.
  set (n := zlen msg) in *. set (len := zlen d) in *.
  pose proof (Z.mod_pos_bound n 64 ltac:(lia)) as Hjr.
  destruct (count_update (s1_count0 c) (s1_count1 c) len H0 H1 Hd0) as (Hc0 & Hc1 & Hsum & _).
  cbv zeta in Hc0, Hc1, Hsum.
  unfold sha1_update. fold len. rewrite Hj.
  change sha1_len_shift with 3. change sha1_hi_shift with 29. change sha1_split with 63. change sha1_first_fill with 64.
  set (lo := (len mod 2 ^ 32 * 2 ^ 3) mod 2 ^ 32) in *.
  set (c0 := (s1_count0 c + lo) mod 2 ^ 32) in *.
  set (c1 := ((if c0 <? lo then (s1_count1 c + 1) mod 2 ^ 32 else s1_count1 c) + (len / 2 ^ 29) mod 2 ^ 32) mod 2 ^ 32) in *.
  set (j := n mod 64) in *.
  set (p := sha1_pending c) in *.
  assert (Hpdef : p = firstn (Z.to_nat j) (s1_buffer c)).
  { unfold p, sha1_pending. now rewrite Hj. }
  assert (Hsabs : sabs c = (s1_state c, p)) by reflexivity.
  (* the new counter value *)
  assert (Hcnt' : c1 * 2 ^ 32 + c0 = (8 * zlen (msg ++ d)) mod 2 ^ 64).
  { rewrite Hsum, Hcnt, zlen_app. fold n len. rewrite Zplus_mod_idemp_l. f_equal. lia. }
  (* what the new context must represent *)
  assert (Hgoal : forall st' buf', zlen buf' = 64 ->
            (forall j', firstn (Z.to_nat j') buf' = snd (absorb1 (s1_state c, p) d) \/ j' <> zlen (snd (absorb1 (s1_state c, p) d))) ->
            st' = fst (absorb1 (s1_state c, p) d) ->
            srep {| s1_state := st'; s1_count0 := c0; s1_count1 := c1; s1_buffer := buf' |} (msg ++ d)).
  { intros st' buf' Hbl Hpre Hst.
    assert (Hnew : absorb1 (sha1_iv, []) (msg ++ d) = absorb1 (s1_state c, p) d).
    { rewrite <- (absorb_app B B64pos). now rewrite <- Habs, Hsabs. }
    unfold srep. split; [unfold sinv; cbn [s1_count0 s1_count1 s1_buffer]; auto|]. split; [|exact Hcnt'].
    unfold sabs, sha1_pending. cbn [s1_state s1_count0 s1_buffer].
    change sha1_idx_shift with 3. change sha1_idx_mask with 63.
    rewrite (count_index c0 c1 (zlen (msg ++ d)) Hc0 Hcnt').
    rewrite Hnew. rewrite (surjective_pairing (absorb1 (s1_state c, p) d)). rewrite <- Hst. f_equal.
    destruct (Hpre (zlen (msg ++ d) mod 64)) as [Hok|Hbad]; [exact Hok|exfalso; apply Hbad].
    rewrite <- Hnew. unfold absorb. cbn [fst snd app]. unfold zlen.
    rewrite (proj2 (absorb'_rem B B64pos sha1_transform sha1_iv (msg ++ d))). now rewrite Nat2Z.inj_mod. }
  rewrite <- (firstn_skipn (Z.to_nat j) (s1_buffer c)), <- Hpdef.
  set (r0 := skipn (Z.to_nat j) (s1_buffer c)).
  assert (Hr0 : zlen r0 = 64 - j) by (unfold r0; rewrite zlen_skipn; lia).
  assert (Hp : zlen p = j) by exact Hpl.
  destruct (63 <? j + len) eqn:Esplit.
  - (* fill the buffer, transform, whole blocks from the input, keep the rest *)
    rewrite read_at_ok by lia. cbn [hbind Z.to_nat skipn].
    set (src := firstn (Z.to_nat (64 - j)) d).
    assert (Hsrc : zlen src = 64 - j) by (unfold src; apply zlen_firstn; lia).
    rewrite memcpy_at_app by lia. cbn [hbind].
    rewrite (skipn_all_nil r0) by (unfold zlen in *; lia). rewrite app_nil_r.
    set (buf1 := p ++ src).
    assert (Hbuf1 : zlen buf1 = 64) by (unfold buf1; rewrite zlen_app; lia).
    destruct (sha1_block_loop_ok (S (length d)) (sha1_transform (s1_state c) buf1) d (64 - j) len)
      as (st' & i' & L1 & L2 & L3 & L4); try reflexivity; try (unfold len, zlen in *; lia).
    rewrite L1. cbn [hbind].
    rewrite read_at_ok by lia. cbn [hbind].
    set (rest := skipn (Z.to_nat i') d).
    assert (Hrest : zlen rest = len - i') by (unfold rest; rewrite zlen_skipn; lia).
    rewrite (firstn_all2 rest) by (unfold zlen in *; lia).
    change buf1 with ([] ++ buf1). rewrite memcpy_at_app; [|reflexivity|lia]. cbn [hbind app].
    eexists. split; [reflexivity|].
    assert (Habsorb : absorb1 (s1_state c, p) d = (st', rest)).
    { rewrite (absorb_block B B64pos sha1_transform (s1_state c) p d) by (rewrite app_length; unfold zlen in *; lia).
      assert (firstn B (p ++ d) = buf1) as ->.
      { rewrite firstn_app_ge by (unfold zlen in *; lia). unfold buf1, src. do 2 f_equal. unfold zlen in *. lia. }
      rewrite skipn_app_ge by (unfold zlen in *; lia).
      replace (B - length p)%nat with (Z.to_nat (64 - j)) by (unfold zlen in *; lia).
      rewrite L4. fold rest. apply absorb_small; [apply B64pos|]. cbn [app]. unfold zlen in *. lia. }
    apply Hgoal.
    + rewrite zlen_app. unfold zlen in *. rewrite skipn_length. lia.
    + intros j'. rewrite Habsorb. cbn [snd].
      destruct (Z.eq_dec j' (zlen rest)) as [->|Hne]; [left|right; exact Hne].
      apply firstn_app_exact. unfold zlen. lia.
    + now rewrite Habsorb.
  - (* everything fits into the buffer *)
    rewrite memcpy_at_app by lia. cbn [hbind].
    eexists. split; [reflexivity|].
    assert (Habsorb : absorb1 (s1_state c, p) d = (s1_state c, p ++ d)).
    { apply absorb_small; [apply B64pos|]. rewrite app_length. unfold zlen in *. lia. }
    apply Hgoal.
    + rewrite !zlen_app. replace (length d) with (Z.to_nat len) by (unfold len, zlen; lia).
      rewrite zlen_skipn; lia.
    + intros j'. rewrite Habsorb. cbn [snd].
      destruct (Z.eq_dec j' (zlen (p ++ d))) as [->|Hne]; [left|right; exact Hne].
      rewrite app_assoc. apply firstn_app_exact. unfold zlen. lia.
    + now rewrite Habsorb.
Qed.

Lemma sha1_feed_ok : forall chunks c msg, srep c msg ->
  exists c', fold_left sha1_feed chunks (HOk c) = HOk c' /\ srep c' (msg ++ concat chunks).
Proof.
  induction chunks as [|d ds IH]; intros c msg Hrep; cbn [fold_left concat].
  - exists c. now rewrite app_nil_r.
  - destruct (sha1_update_ok c msg d Hrep) as (c1 & H1 & H2).
    unfold sha1_feed at 2. cbn [hbind]. rewrite H1.
    destruct (IH c1 (msg ++ d) H2) as (c' & H3 & H4).
    exists c'. split; [exact H3|]. now rewrite <- app_assoc in H4.
Qed.

(* while ((count[0] & 504) != 448) Update(context, "\0", 1) *)
Lemma sha1_pad_loop_ok : forall fuel c m, srep c m -> (Z.to_nat ((56 - zlen m) mod 64) < fuel)%nat ->
  exists c', sha1_pad_loop fuel c = HOk c' /\ srep c' (m ++ repeat 0 (Z.to_nat ((56 - zlen m) mod 64))).
Proof.
  induction fuel; intros c m Hrep Hfuel; [lia|].
  destruct (srep_index c m Hrep) as (Hj & _).
  change sha1_idx_shift with 3 in Hj. change sha1_idx_mask with 63 in Hj. rewrite land_63 in Hj.
  cbn [sha1_pad_loop]. change sha1_pad_mask with 504. change sha1_pad_target with 448.
  rewrite land_504. change (2 ^ 3) with 8 in Hj. rewrite Hj.
  pose proof (Z.mod_pos_bound (zlen m) 64 ltac:(lia)) as Hr.
  destruct (zlen m mod 64 * 8 =? 448) eqn:E.
  - exists c. split; [reflexivity|].
    apply Z.eqb_eq in E. assert (E' : zlen m mod 64 = 56) by lia. clear E Hj.
    replace ((56 - zlen m) mod 64) with 0 by (generalize dependent (zlen m); intros; Z.div_mod_to_equations; lia).
    cbn [Z.to_nat repeat]. now rewrite app_nil_r.
  - destruct (sha1_update_ok c m [0] Hrep) as (c1 & H1 & H2). rewrite H1. cbn [hbind].
    apply Z.eqb_neq in E. assert (E' : zlen m mod 64 <> 56) by lia.
    assert (Hk : (56 - zlen (m ++ [0])) mod 64 = (56 - zlen m) mod 64 - 1 /\ 1 <= (56 - zlen m) mod 64).
    { rewrite zlen_app, zlen_cons, zlen_nil.
      clear - E'. generalize dependent (zlen m); intros; Z.div_mod_to_equations; lia. }
    destruct Hk as [Hk Hk1].
    destruct (IHfuel c1 (m ++ [0]) H2) as (c' & H3 & H4); [lia|].
    exists c'. split; [exact H3|].
    rewrite Hk, <- app_assoc in H4.
    replace (Z.to_nat ((56 - zlen m) mod 64)) with (S (Z.to_nat ((56 - zlen m) mod 64 - 1))) by lia.
    exact H4.
Qed.

Lemma sha1_finalcount_be c : 0 <= s1_count0 c < 2 ^ 32 -> 0 <= s1_count1 c < 2 ^ 32 ->
  sha1_finalcount c = be_bytes 8 (s1_count1 c * 2 ^ 32 + s1_count0 c).
Proof.
  intros H0 H1. unfold sha1_finalcount.
  change (nthz sha1_finalcount_sel 0) with 4. change (nthz sha1_finalcount_sel 1) with 0.
  change (nthz sha1_finalcount_sel 2) with 1.
  cbn [map be_bytes Z.leb Z.compare Pos.compare Pos.compare_cont Z.eqb Pos.eqb].
  set (c0 := s1_count0 c) in *. set (c1 := s1_count1 c) in *.
  change (2 ^ 32) with 4294967296 in *.
  repeat (f_equal; [match goal with |- ?a / ?x mod 256 = ?b / ?y mod 256 =>
                      let x' := eval vm_compute in x in let y' := eval vm_compute in y in
                      change x with x'; change y with y'; Z.div_mod_to_equations; lia end|]).
  f_equal.
  match goal with |- ?a / ?x mod 256 = ?b / ?y mod 256 =>
    let x' := eval vm_compute in x in let y' := eval vm_compute in y in
    change x with x'; change y with y' end.
  rewrite !Z.div_1_r. Z.div_mod_to_equations. lia.
Qed.

Lemma sha1_transform_len st b : length st = 5%nat -> length (sha1_transform st b) = 5%nat.
Proof.
  intros H. unfold sha1_transform. rewrite map2_length; [exact H|]. symmetry. rewrite H.
  apply (fold_left_inv _ (fun s => length s = 5%nat)); [|exact H].
  intros s [[m q] i] Hs. unfold sha1_round. destruct (nth (Z.to_nat m) sha1_macros (0, 0, 0)) as [[k rv] rw].
  do 5 (destruct s as [|? s]; [discriminate|]). destruct s; [reflexivity|discriminate].
Qed.

Lemma sha1_digest_bytes a b c d e :
  map (fun i => nthz [a; b; c; d; e] (i / 4) / 2 ^ ((3 - i mod 4) * 8) mod 256) (zrange 0 sha1_digest_size 1) =
  flat_map (be_bytes 4) [a; b; c; d; e].
Proof.
  transitivity (map (fun p : Z * Z => nthz [a; b; c; d; e] (fst p) / 2 ^ (snd p) mod 256)
                    (map (fun i => (i / 4, (3 - i mod 4) * 8)) (zrange 0 sha1_digest_size 1))).
  { rewrite map_map. reflexivity. }
  let v := eval vm_compute in (map (fun i => (i / 4, (3 - i mod 4) * 8)) (zrange 0 sha1_digest_size 1)) in
  change (map (fun i => (i / 4, (3 - i mod 4) * 8)) (zrange 0 sha1_digest_size 1)) with v.
  reflexivity.
Qed.

Lemma sha1_final_ok c msg : srep c msg -> sha1_final c = HOk (sha1_spec msg).
Proof.
  intros Hrep. pose proof Hrep as ((H0 & H1 & Hb) & Habs & Hcnt).
  unfold sha1_final. rewrite (sha1_finalcount_be c H0 H1), Hcnt.
  change sha1_pad_first with 128.
  destruct (sha1_update_ok c msg [128] Hrep) as (c1 & U1 & R1). rewrite U1. cbn [hbind].
  destruct (sha1_pad_loop_ok 128 c1 (msg ++ [128]) R1) as (c2 & U2 & R2).
  { pose proof (Z.mod_pos_bound (56 - zlen (msg ++ [128])) 64 ltac:(lia)). lia. }
  rewrite U2. cbn [hbind].
  destruct (sha1_update_ok c2 _ (be_bytes 8 ((8 * zlen msg) mod 2 ^ 64)) R2) as (c3 & U3 & R3). rewrite U3. cbn [hbind].
  f_equal.
  (* the message fed so far is the padded message *)
  assert (Hpad : (msg ++ [128]) ++ repeat 0 (Z.to_nat ((56 - zlen (msg ++ [128])) mod 64)) ++ be_bytes 8 ((8 * zlen msg) mod 2 ^ 64)
                 = md_pad 64 8 true msg).
  { unfold md_pad. cbv zeta. rewrite <- app_assoc. do 3 f_equal.
    rewrite zlen_app. change (zlen [128]) with 1. do 3 f_equal. lia. }
  rewrite <- app_assoc, Hpad in R3.
  destruct R3 as (_ & Habs3 & _).
  unfold sha1_spec.
  assert (Hlen : exists k, length (md_pad 64 8 true msg) = (k * B)%nat).
  { unfold md_pad. cbv zeta. rewrite !app_length, repeat_length, be_bytes_length. cbn [length].
    exists (Z.to_nat ((zlen msg + 1 + (64 - 8 - 1 - zlen msg) mod 64 + 8) / 64)).
    unfold zlen. pose proof (Z.mod_pos_bound (64 - 8 - 1 - Z.of_nat (length msg)) 64 ltac:(lia)).
    Z.div_mod_to_equations. lia. }
  destruct Hlen as (k & Hk).
  rewrite <- (md_fold_ext B _ _ _ _ sha1_transform_eq), <- (proj1 Gen_sha1_ok).
  rewrite (md_fold_absorb B B64pos sha1_transform sha1_iv _ k Hk), <- Habs3. cbn [sabs fst].
  assert (Hst : length (s1_state c3) = 5%nat).
  { change (s1_state c3) with (fst (sabs c3)). rewrite Habs3. unfold absorb. cbn [fst snd app].
    apply (absorb'_inv B B64pos sha1_transform (fun s => length s = 5%nat)); [|reflexivity].
    intros. now apply sha1_transform_len. }
  destruct (s1_state c3) as [|a [|b [|c' [|d [|e [|? ?]]]]]]; try discriminate.
  apply sha1_digest_bytes.
Qed.

(* ------------------------------------------------------------------------------------------ *)
Lemma sha1_any_split_lemma chunks : sha1_run chunks = HOk (sha1_spec (concat chunks)).
Proof.
  unfold sha1_run. destruct (sha1_feed_ok chunks sha1_init [] srep_init) as (c & H1 & H2).
  rewrite H1. cbn [hbind app] in *. now apply sha1_final_ok.
Qed.

Lemma sha1_oneshot_lemma data : sha1_oneshot data = HOk (sha1_spec data).
Proof. unfold sha1_oneshot. rewrite sha1_any_split_lemma. cbn [concat]. now rewrite app_nil_r. Qed.

Lemma sha1_reached_rep c msg : sha1_reached c msg -> srep c msg.
Proof.
  intros (chunks & <- & Hf). destruct (sha1_feed_ok chunks sha1_init [] srep_init) as (c' & H1 & H2).
  rewrite Hf in H1. injection H1 as <-. exact H2.
Qed.

Lemma sha1_reached_final_lemma c msg : sha1_reached c msg -> sha1_final c = HOk (sha1_spec msg).
Proof. intros H. apply sha1_final_ok, sha1_reached_rep, H. Qed.

Lemma srep_equiv c1 c2 msg : srep c1 msg -> srep c2 msg -> sha1_equiv c1 c2.
Proof.
  intros ((A0 & A1 & _) & Aabs & Acnt) ((B0 & B1 & _) & Babs & Bcnt).
  unfold sabs in *. rewrite <- Babs in Aabs. injection Aabs as S P.
  rewrite <- Bcnt in Acnt. unfold sha1_equiv. repeat split; try assumption; lia.
Qed.

Lemma sha1_update_app_lemma c msg a b : sha1_reached c msg ->
  exists c2 c12, sha1_feed (sha1_feed (HOk c) a) b = HOk c2 /\ sha1_feed (HOk c) (a ++ b) = HOk c12 /\
                 sha1_equiv c2 c12 /\ sha1_final c2 = sha1_final c12 /\
                 sha1_final c12 = HOk (sha1_spec (msg ++ a ++ b)).
Proof.
  intros Hr. pose proof (sha1_reached_rep c msg Hr) as R.
  destruct (sha1_feed_ok [a; b] c msg R) as (c2 & F2 & R2).
  destruct (sha1_feed_ok [a ++ b] c msg R) as (c12 & F12 & R12).
  cbn [fold_left concat] in *. rewrite app_nil_r in *.
  exists c2, c12. split; [exact F2|]. split; [exact F12|].
  split; [apply (srep_equiv _ _ _ R2 R12)|].
  rewrite (sha1_final_ok _ _ R2), (sha1_final_ok _ _ R12). auto.
Qed.
