(* C17: SHA-256 and SHA-512 theorems (instances of HashTomProofs + HashCompress). *)
Require Import LV.Common.Bytes LV.Common.HashWords LV.Gen.Gen_hash LV.Spec.HashSpec LV.Model.HashModel.
Require Import LV.Proofs.HashGenOk LV.Proofs.HashGeneric LV.Proofs.HashTomProofs LV.Proofs.HashCompress.
Require Import Lia ZifyBool.
Local Open Scope Z_scope.


(* ------------------------------------------------------------------------------------------ *)
Section Inst.
  (* one algorithm of the family: its parameters and what ties them to the model's definitions *)
  Variables blk lb : Z.
  Hypothesis Hblk : 16 <= blk.
  Hypothesis Hlb : 8 <= lb < blk.
  Variable compress : list Z -> list Z -> list Z.
  Variable store_word : Z -> list Z.
  Variable iv : list Z.
  Variable init : tom_ctx.
  Variable process : tom_ctx -> list Z -> hres tom_ctx.
  Variable done : tom_ctx -> hres (list Z).
  Hypothesis Hinit : init = {| t_length := 0; t_state := iv; t_curlen := 0; t_buf := repeat 0 (Z.to_nat blk) |}.
  Hypothesis Hprocess : process = tom_process blk blk (8 * blk) blk blk blk blk (8 * blk) compress.
  Hypothesis Hdone : done = tom_done blk 8 128 (blk - lb) blk (blk - 8) (blk - 8) compress store_word.

  Let feed (r : hres tom_ctx) (d : list Z) : hres tom_ctx := hbind r (fun c => process c d).
  Let spec (msg : list Z) : list Z :=
    flat_map store_word (md_fold (Z.to_nat blk) compress iv (md_pad blk lb true msg)).
  Let rep := trep blk compress iv.

  Lemma inst_feed_ok : forall chunks c msg, rep c msg -> 8 * (zlen msg + zlen (concat chunks)) < 2 ^ 64 ->
    exists c', fold_left feed chunks (HOk c) = HOk c' /\ rep c' (msg ++ concat chunks).
  Proof. unfold feed, rep. rewrite Hprocess. apply (tom_feed_ok blk lb); assumption. Qed.

  Lemma inst_reached_rep c msg : 8 * zlen msg < 2 ^ 64 ->
    (exists chunks, concat chunks = msg /\ fold_left feed chunks (HOk init) = HOk c) -> rep c msg.
  Proof.
    intros Hlen (chunks & <- & Hf).
    destruct (inst_feed_ok chunks init []) as (c' & H1 & H2).
    - unfold rep. rewrite Hinit. apply trep_init; assumption.
    - rewrite zlen_nil. lia.
    - rewrite Hf in H1. injection H1 as <-. exact H2.
  Qed.

  Lemma inst_any_split chunks : 8 * zlen (concat chunks) < 2 ^ 64 ->
    hbind (fold_left feed chunks (HOk init)) done = HOk (spec (concat chunks)).
  Proof.
    intros Hlen.
    destruct (inst_feed_ok chunks init []) as (c' & H1 & H2).
    - unfold rep. rewrite Hinit. apply trep_init; assumption.
    - rewrite zlen_nil. lia.
    - rewrite H1. cbn [hbind app] in *. rewrite Hdone. unfold spec. apply (tom_done_ok blk lb); assumption.
  Qed.

  Lemma inst_rep_done c msg : rep c msg -> 8 * zlen msg < 2 ^ 64 -> done c = HOk (spec msg).
  Proof. intros. rewrite Hdone. unfold spec. apply (tom_done_ok blk lb); assumption. Qed.

  Lemma inst_rep_equiv c1 c2 msg : rep c1 msg -> rep c2 msg -> tom_equiv c1 c2.
  Proof.
    intros R1 R2.
    pose proof (trep_curlen blk Hblk compress iv c1 msg R1) as C1.
    pose proof (trep_curlen blk Hblk compress iv c2 msg R2) as C2.
    destruct R1 as (_ & A1 & B1), R2 as (_ & A2 & B2).
    unfold tabs in *. rewrite <- A2 in A1. injection A1 as S P.
    unfold tbits in *. unfold tom_equiv. repeat split; try assumption; lia.
  Qed.

  Lemma inst_update_app c msg a b :
    (exists chunks, concat chunks = msg /\ fold_left feed chunks (HOk init) = HOk c) ->
    8 * (zlen msg + zlen a + zlen b) < 2 ^ 64 ->
    exists c2 c12, feed (feed (HOk c) a) b = HOk c2 /\ feed (HOk c) (a ++ b) = HOk c12 /\
                   tom_equiv c2 c12 /\ done c2 = done c12 /\ done c12 = HOk (spec (msg ++ a ++ b)).
  Proof.
    intros Hr Hlen. pose proof (zlen_nonneg msg). pose proof (zlen_nonneg a). pose proof (zlen_nonneg b).
    assert (R : rep c msg) by (apply inst_reached_rep; [lia|exact Hr]).
    destruct (inst_feed_ok [a; b] c msg R) as (c2 & F2 & R2).
    { cbn [concat]. rewrite !zlen_app, zlen_nil. lia. }
    destruct (inst_feed_ok [a ++ b] c msg R) as (c12 & F12 & R12).
    { cbn [concat]. rewrite !zlen_app, zlen_nil. lia. }
    cbn [fold_left concat] in *. rewrite app_nil_r in *.
    exists c2, c12. split; [exact F2|]. split; [exact F12|].
    assert (8 * zlen (msg ++ a ++ b) < 2 ^ 64) by (rewrite !zlen_app; lia).
    split; [apply (inst_rep_equiv _ _ _ R2 R12)|].
    rewrite (inst_rep_done _ _ R2), (inst_rep_done _ _ R12) by assumption. auto.
  Qed.
End Inst.

(* ------------------------------------------------------------------------------------------ *)
(* SHA-256                                                                                     *)
Lemma sha256_spec_is msg :
  flat_map store32h (md_fold (Z.to_nat 64) sha256_compress sha256_iv (md_pad 64 8 true msg)) = sha256_spec msg.
Proof.
  unfold sha256_spec. rewrite (proj1 Gen_sha256_ok).
  rewrite (md_fold_ext _ _ _ _ _ sha256_compress_eq).
  apply flat_map_ext'. apply store32h_be.
Qed.

Lemma sha256_any_split_lemma chunks : 8 * zlen (concat chunks) < 2 ^ 64 ->
  sha256_run chunks = HOk (sha256_spec (concat chunks)).
Proof.
  intros H. rewrite <- sha256_spec_is.
  apply (inst_any_split 64 8 ltac:(lia) ltac:(lia) sha256_compress store32h sha256_iv sha256_init sha256_process sha256_done);
    [reflexivity|reflexivity|reflexivity|exact H].
Qed.

Lemma sha256_oneshot_lemma data : 8 * zlen data < 2 ^ 64 -> sha256_oneshot data = HOk (sha256_spec data).
Proof.
  intros H. unfold sha256_oneshot. rewrite sha256_any_split_lemma; cbn [concat]; rewrite app_nil_r; [reflexivity|exact H].
Qed.

Lemma sha256_update_app_lemma c msg a b :
  sha256_reached c msg -> 8 * (zlen msg + zlen a + zlen b) < 2 ^ 64 ->
  exists c2 c12, sha256_feed (sha256_feed (HOk c) a) b = HOk c2 /\ sha256_feed (HOk c) (a ++ b) = HOk c12 /\
                 tom_equiv c2 c12 /\ sha256_done c2 = sha256_done c12 /\
                 sha256_done c12 = HOk (sha256_spec (msg ++ a ++ b)).
Proof.
  intros Hr H. rewrite <- sha256_spec_is.
  apply (inst_update_app 64 8 ltac:(lia) ltac:(lia) sha256_compress store32h sha256_iv sha256_init sha256_process sha256_done);
    [reflexivity|reflexivity|reflexivity|exact Hr|exact H].
Qed.

Lemma sha256_reached_done_lemma c msg : sha256_reached c msg -> 8 * zlen msg < 2 ^ 64 ->
  sha256_done c = HOk (sha256_spec msg).
Proof.
  intros Hr H. rewrite <- sha256_spec_is.
  apply (inst_rep_done 64 8 ltac:(lia) ltac:(lia) sha256_compress store32h sha256_iv sha256_done); [reflexivity| |exact H].
  apply (inst_reached_rep 64 8 ltac:(lia) ltac:(lia) sha256_compress sha256_iv sha256_init sha256_process);
    [reflexivity|reflexivity|exact H|exact Hr].
Qed.

(* ------------------------------------------------------------------------------------------ *)
(* SHA-512                                                                                     *)
Lemma sha512_spec_is msg :
  flat_map store64h (md_fold (Z.to_nat 128) sha512_compress sha512_iv (md_pad 128 16 true msg)) = sha512_spec msg.
Proof.
  unfold sha512_spec. rewrite (proj1 Gen_sha512_ok).
  rewrite (md_fold_ext _ _ _ _ _ sha512_compress_eq).
  apply flat_map_ext'. apply store64h_be.
Qed.

Lemma sha512_any_split_lemma chunks : 8 * zlen (concat chunks) < 2 ^ 64 ->
  sha512_run chunks = HOk (sha512_spec (concat chunks)).
Proof.
  intros H. rewrite <- sha512_spec_is.
  apply (inst_any_split 128 16 ltac:(lia) ltac:(lia) sha512_compress store64h sha512_iv sha512_init sha512_process sha512_done);
    [reflexivity|reflexivity|reflexivity|exact H].
Qed.

Lemma sha512_oneshot_lemma data : 8 * zlen data < 2 ^ 64 -> sha512_oneshot data = HOk (sha512_spec data).
Proof.
  intros H. unfold sha512_oneshot. rewrite sha512_any_split_lemma; cbn [concat]; rewrite app_nil_r; [reflexivity|exact H].
Qed.

Lemma sha512_update_app_lemma c msg a b :
  sha512_reached c msg -> 8 * (zlen msg + zlen a + zlen b) < 2 ^ 64 ->
  exists c2 c12, sha512_feed (sha512_feed (HOk c) a) b = HOk c2 /\ sha512_feed (HOk c) (a ++ b) = HOk c12 /\
                 tom_equiv c2 c12 /\ sha512_done c2 = sha512_done c12 /\
                 sha512_done c12 = HOk (sha512_spec (msg ++ a ++ b)).
Proof.
  intros Hr H. rewrite <- sha512_spec_is.
  apply (inst_update_app 128 16 ltac:(lia) ltac:(lia) sha512_compress store64h sha512_iv sha512_init sha512_process sha512_done);
    [reflexivity|reflexivity|reflexivity|exact Hr|exact H].
Qed.

Lemma sha512_reached_done_lemma c msg : sha512_reached c msg -> 8 * zlen msg < 2 ^ 64 ->
  sha512_done c = HOk (sha512_spec msg).
Proof.
  intros Hr H. rewrite <- sha512_spec_is.
  apply (inst_rep_done 128 16 ltac:(lia) ltac:(lia) sha512_compress store64h sha512_iv sha512_done); [reflexivity| |exact H].
  apply (inst_reached_rep 128 16 ltac:(lia) ltac:(lia) sha512_compress sha512_iv sha512_init sha512_process);
    [reflexivity|reflexivity|exact H|exact Hr].
Qed.
