(* C17: buffering / padding of the LibTomCrypt-shaped digests (sha256.c, sha512.c), proved once for
   an abstract block size blk and length-field width lb. *)
Require Import LV.Common.Bytes LV.Common.HashWords LV.Spec.HashSpec LV.Model.HashModel LV.Proofs.HashGeneric.
Require Import Lia ZifyBool.
Local Open Scope Z_scope.

Section TomBuf.
  Variables blk lb : Z.
  Hypothesis Hblk : 16 <= blk.
  Hypothesis Hlb : 8 <= lb < blk.
  Variable compress : list Z -> list Z -> list Z.
  Variable store_word : Z -> list Z.
  Variable iv : list Z.

  Let B : nat := Z.to_nat blk.
  Let process := tom_process blk blk (8 * blk) blk blk blk blk (8 * blk) compress.
  Let loop := tom_loop blk blk (8 * blk) blk blk blk blk (8 * blk) compress.
  Let done := tom_done blk 8 128 (blk - lb) blk (blk - 8) (blk - 8) compress store_word.
  Let init : tom_ctx := {| t_length := 0; t_state := iv; t_curlen := 0; t_buf := repeat 0 B |}.

  Definition tabs (c : tom_ctx) : list Z * list Z := (t_state c, firstn (Z.to_nat (t_curlen c)) (t_buf c)).
  Definition tinv (c : tom_ctx) : Prop := 0 <= t_curlen c < blk /\ zlen (t_buf c) = blk /\ 0 <= t_length c.
  Definition tbits (c : tom_ctx) : Z := t_length c + 8 * t_curlen c.

  Lemma Bpos : (0 < B)%nat.
  Proof. unfold B. lia. Qed.

  Lemma tabs_pending_len c : tinv c -> zlen (snd (tabs c)) = t_curlen c.
  Proof. intros (H1 & H2 & _). unfold tabs. cbn [snd]. apply zlen_firstn. lia. Qed.

  Lemma tom_loop_ok : forall fuel c data pos inlen,
    tinv c -> 0 <= pos -> 0 <= inlen -> pos + inlen = zlen data -> (Z.to_nat inlen < fuel)%nat ->
    tbits c + 8 * inlen < 2 ^ 64 ->
    exists c', loop fuel c data pos inlen = HOk c' /\ tinv c' /\
      tabs c' = absorb B compress (tabs c) (skipn (Z.to_nat pos) data) /\
      tbits c' = tbits c + 8 * inlen.
  Proof.
    induction fuel; intros c data pos inlen Hinv Hpos Hin Hsum Hfuel Hbits; [lia|].
    pose proof (tabs_pending_len c Hinv) as Hpl.
    destruct Hinv as (Hcl & Hbuf & Hlen).
    unfold loop. cbn [tom_loop]. fold loop. destruct (0 <? inlen) eqn:E0.
    2:{ exists c. split; [reflexivity|]. split; [unfold tinv; auto|]. split; [|lia].
        rewrite skipn_all_nil by (unfold zlen in *; lia).
        symmetry. apply absorb_nil; [apply Bpos|]. unfold zlen in Hpl. unfold B. lia. }
    destruct ((t_curlen c =? 0) && (blk <=? inlen)) eqn:Efast.
    - apply andb_true_iff in Efast as [Hc0 Hge]. apply Z.eqb_eq in Hc0. apply Z.leb_le in Hge.
      rewrite read_at_ok by lia. cbn [hbind].
      set (rest := skipn (Z.to_nat pos) data).
      assert (Hrest : zlen rest = inlen) by (unfold rest; rewrite zlen_skipn; lia).
      unfold tbits in *.
      edestruct (IHfuel (tom_mk ((t_length c + 8 * blk) mod 2 ^ 64) (compress (t_state c) (firstn (Z.to_nat blk) rest)) (t_curlen c) (t_buf c))
                        data (pos + blk) (inlen - blk)) as (c' & H1 & H2 & H3 & H4); try lia.
      + unfold tinv, tom_mk. cbn [t_length t_state t_curlen t_buf]. split; [lia|]. split; [exact Hbuf|]. apply Z.mod_pos_bound. lia.
      + unfold tom_mk. cbn [t_length t_state t_curlen t_buf]. rewrite Z.mod_small by lia. lia.
      + exists c'. split; [exact H1|]. split; [exact H2|]. split.
        * rewrite H3. unfold tabs, tom_mk. cbn [t_state t_curlen t_buf]. rewrite Hc0. cbn [Z.to_nat firstn].
          rewrite (absorb_block B Bpos compress (t_state c) [] rest) by (cbn [app]; unfold zlen in Hrest; unfold B; lia).
          cbn [app]. unfold rest. rewrite skipn_skipn'. fold B. do 2 f_equal. unfold B. lia.
        * rewrite H4. unfold tom_mk. cbn [t_length t_state t_curlen t_buf]. rewrite Z.mod_small by lia. lia.
    - set (n := Z.min inlen (blk - t_curlen c)).
      assert (Hn : 1 <= n <= inlen /\ n <= blk - t_curlen c) by lia.
      rewrite read_at_ok by lia. cbn [hbind].
      set (rest := skipn (Z.to_nat pos) data).
      assert (Hrest : zlen rest = inlen) by (unfold rest; rewrite zlen_skipn; lia).
      set (src := firstn (Z.to_nat n) rest).
      assert (Hsrc : zlen src = n) by (unfold src; apply zlen_firstn; lia).
      set (p := firstn (Z.to_nat (t_curlen c)) (t_buf c)) in *.
      rewrite <- (firstn_skipn (Z.to_nat (t_curlen c)) (t_buf c)). fold p.
      assert (Hp : zlen p = t_curlen c) by exact Hpl.
      rewrite memcpy_at_app; [|lia|rewrite zlen_skipn; lia]. cbn [hbind].
      set (buf' := p ++ src ++ skipn (length src) (skipn (Z.to_nat (t_curlen c)) (t_buf c))).
      assert (Hbuf' : zlen buf' = blk).
      { unfold buf'. rewrite !zlen_app. replace (length src) with (Z.to_nat (zlen src)) by (unfold zlen; lia).
        rewrite zlen_skipn; rewrite zlen_skipn; lia. }
      assert (Hfirst : firstn (Z.to_nat (t_curlen c + n)) buf' = p ++ src).
      { unfold buf'. rewrite app_assoc. apply firstn_app_exact. rewrite app_length. unfold zlen in *. lia. }
      destruct (t_curlen c + n =? blk) eqn:Efull.
      + assert (t_curlen c + n = blk) by lia.
        assert (Hb' : buf' = p ++ src).
        { rewrite <- Hfirst. symmetry. apply firstn_all2. unfold zlen in *. lia. }
        edestruct (IHfuel (tom_mk ((t_length c + 8 * blk) mod 2 ^ 64) (compress (t_state c) buf') 0 buf')
                          data (pos + n) (inlen - n)) as (c' & H1 & H2 & H3 & H4); try lia.
        * unfold tinv, tom_mk. cbn [t_length t_state t_curlen t_buf]. split; [lia|]. split; [exact Hbuf'|]. apply Z.mod_pos_bound. lia.
        * unfold tbits in *. unfold tom_mk. cbn [t_length t_state t_curlen t_buf]. rewrite Z.mod_small by lia. lia.
        * exists c'. split; [exact H1|]. split; [exact H2|]. split.
          -- rewrite H3. unfold tabs, tom_mk. cbn [t_state t_curlen t_buf Z.to_nat firstn]. fold p.
             rewrite (absorb_block B Bpos compress (t_state c) p rest)
               by (rewrite app_length; unfold zlen in *; unfold B; lia).
             assert (firstn B (p ++ rest) = buf') as ->.
             { rewrite Hb'. rewrite firstn_app_ge by (unfold zlen in *; unfold B; lia). f_equal.
               unfold src. f_equal. unfold zlen in *. unfold B. lia. }
             rewrite skipn_app_ge by (unfold zlen in *; unfold B; lia).
             unfold rest. rewrite skipn_skipn'. do 2 f_equal. unfold zlen in *. unfold B. lia.
          -- rewrite H4. unfold tbits, tom_mk. cbn [t_length t_state t_curlen t_buf]. rewrite Z.mod_small by (unfold tbits in *; lia). lia.
      + assert (n = inlen) by lia.
        edestruct (IHfuel (tom_mk (t_length c) (t_state c) (t_curlen c + n) buf') data (pos + n) (inlen - n))
          as (c' & H1 & H2 & H3 & H4); try lia.
        * unfold tinv, tom_mk. cbn [t_length t_state t_curlen t_buf]. split; [lia|]. split; [exact Hbuf'|lia].
        * unfold tbits in *. unfold tom_mk. cbn [t_length t_state t_curlen t_buf]. lia.
        * exists c'. split; [exact H1|]. split; [exact H2|]. split.
          -- rewrite H3. unfold tabs, tom_mk. cbn [t_state t_curlen t_buf]. fold p. rewrite Hfirst.
             rewrite (skipn_all_nil data) by (unfold zlen in *; lia).
             rewrite absorb_nil; [|apply Bpos|cbn [snd]; rewrite app_length; unfold zlen in *; unfold B; lia].
             assert (src = rest) as ->. { unfold src. apply firstn_all2. unfold zlen in *. lia. }
             symmetry. apply absorb_small; [apply Bpos|]. rewrite app_length. unfold zlen in *. unfold B. lia.
          -- rewrite H4. unfold tbits, tom_mk. cbn [t_length t_state t_curlen t_buf]. lia.
  Qed.

  Definition trep (c : tom_ctx) (msg : list Z) : Prop :=
    tinv c /\ tabs c = absorb B compress (iv, []) msg /\ tbits c = 8 * zlen msg.

  Lemma trep_init : trep init [].
  Proof.
    unfold trep, tinv, tabs, tbits, init. cbn [t_length t_state t_curlen t_buf Z.to_nat firstn].
    rewrite zlen_repeat. split; [unfold B; lia|]. split; [|reflexivity].
    symmetry. apply absorb_nil; [apply Bpos|]. cbn [snd length]. apply Bpos.
  Qed.

  Lemma tom_process_ok c msg d : trep c msg -> 8 * (zlen msg + zlen d) < 2 ^ 64 ->
    exists c', process c d = HOk c' /\ trep c' (msg ++ d).
  Proof.
    intros (Hinv & Habs & Hbits) Hlen.
    pose proof Hinv as (Hcl & Hbuf & Hl). pose proof (zlen_nonneg d). pose proof (zlen_nonneg msg).
    unfold tbits in Hbits.
    unfold process, tom_process. fold loop.
    destruct (blk <? t_curlen c) eqn:E1; [lia|].
    rewrite Z.mod_small by lia.
    destruct (t_length c + zlen d <? t_length c) eqn:E2; [lia|].
    destruct (tom_loop_ok (S (length d)) c d 0 (zlen d)) as (c' & H1 & H2 & H3 & H4);
      try (unfold tbits, zlen in *; lia); [exact Hinv|].
    exists c'. split; [exact H1|]. split; [exact H2|]. split.
    - rewrite H3, Habs. cbn [Z.to_nat skipn]. apply (absorb_app B Bpos).
    - rewrite H4. unfold tbits. rewrite zlen_app. lia.
  Qed.

  Definition feed (r : hres tom_ctx) (d : list Z) : hres tom_ctx := hbind r (fun c => process c d).

  Lemma tom_feed_ok : forall chunks c msg, trep c msg -> 8 * (zlen msg + zlen (concat chunks)) < 2 ^ 64 ->
    exists c', fold_left feed chunks (HOk c) = HOk c' /\ trep c' (msg ++ concat chunks).
  Proof.
    induction chunks as [|d ds IH]; intros c msg Hrep Hlen; cbn [fold_left concat] in *.
    - exists c. now rewrite app_nil_r.
    - rewrite zlen_app in Hlen. pose proof (zlen_nonneg (concat ds)). pose proof (zlen_nonneg d).
      destruct (tom_process_ok c msg d Hrep) as (c1 & H1 & H2); [lia|].
      unfold feed at 2. cbn [hbind]. rewrite H1.
      destruct (IH c1 (msg ++ d) H2) as (c' & H3 & H4); [rewrite zlen_app; lia|].
      exists c'. split; [exact H3|]. now rewrite <- app_assoc in H4.
  Qed.

  Lemma trep_curlen c msg : trep c msg -> t_curlen c = zlen msg mod blk.
  Proof.
    intros (Hinv & Habs & _). rewrite <- (tabs_pending_len c Hinv), Habs.
    unfold absorb. cbn [fst snd app]. unfold zlen.
    rewrite (proj2 (absorb'_rem B Bpos compress iv msg)). rewrite Nat2Z.inj_mod. unfold B. f_equal. lia.
  Qed.

  Lemma tom_done_ok c msg : trep c msg -> 8 * zlen msg < 2 ^ 64 ->
    done c = HOk (flat_map store_word (md_fold B compress iv (md_pad blk lb true msg))).
  Proof.
    intros Hrep Hlen. pose proof (trep_curlen c msg Hrep) as Hcur.
    destruct Hrep as (Hinv & Habs & Hbits). pose proof (tabs_pending_len c Hinv) as Hpl.
    pose proof Hinv as (Hcl & Hbuf & Hl). pose proof (zlen_nonneg msg) as Hn0.
    unfold tbits in Hbits. set (n := zlen msg) in *. set (cl := t_curlen c) in *.
    set (st := t_state c). set (p := firstn (Z.to_nat cl) (t_buf c)).
    assert (Hp : zlen p = cl) by exact Hpl.
    assert (Htabs : tabs c = (st, p)) by reflexivity.
    (* the specification side *)
    unfold md_pad. fold n. cbv zeta.
    assert (H264 : 2 ^ 64 <= 2 ^ (8 * lb)) by (apply Z.pow_le_mono_r; lia).
    rewrite (Z.mod_small (8 * n)) by lia.
    replace (Z.to_nat lb) with ((Z.to_nat lb - 8) + 8)%nat by lia.
    rewrite be_bytes_small by (change (256 ^ Z.of_nat 8) with (2 ^ 64); lia).
    set (k := (blk - lb - 1 - n) mod blk).
    set (be8 := be_bytes 8 (8 * n)).
    assert (Hbe8 : length be8 = 8%nat) by apply be_bytes_length.
    (* the model side *)
    unfold done, tom_done.
    destruct (blk <=? t_curlen c) eqn:E1; [fold cl in E1; lia|].
    fold cl st. rewrite (Z.mod_small (t_length c + cl * 8)) by lia.
    replace (t_length c + cl * 8) with (8 * n) by lia.
    rewrite store64h_be. fold be8.
    rewrite <- (firstn_skipn (Z.to_nat cl) (t_buf c)). fold p.
    set (r0 := skipn (Z.to_nat cl) (t_buf c)).
    assert (Hr0 : zlen r0 = blk - cl) by (unfold r0; rewrite zlen_skipn; lia).
    rewrite memcpy_at_app; [|lia|rewrite zlen_cons, zlen_nil; lia]. cbn [hbind length].
    set (r1 := skipn 1 r0).
    assert (Hr1 : zlen r1 = blk - cl - 1) by (unfold r1; change 1%nat with (Z.to_nat 1); rewrite zlen_skipn; lia).
    destruct (blk - lb <? cl + 1) eqn:Ecase.
    - (* two blocks *)
      assert (Hk : k = 2 * blk - lb - 1 - cl).
      { unfold k. rewrite Hcur. pose proof (Z.mod_pos_bound n blk ltac:(lia)).
        symmetry. apply (Z.mod_unique _ _ (- (n / blk) - 1)); [lia|].
        pose proof (Z.div_mod n blk ltac:(lia)). lia. }
      replace (p ++ [128] ++ r1) with ((p ++ [128]) ++ r1) by now rewrite <- app_assoc.
      rewrite zero_fill_app; [|rewrite zlen_app, zlen_cons, zlen_nil; lia|lia]. cbn [hbind].
      rewrite (skipn_all_nil r1) by (unfold zlen in *; lia). rewrite app_nil_r.
      set (t1 := [128] ++ repeat 0 (Z.to_nat (blk - (cl + 1)))).
      replace ((p ++ [128]) ++ repeat 0 (Z.to_nat (blk - (cl + 1)))) with (p ++ t1) by (unfold t1; now rewrite <- app_assoc).
      assert (Ht1 : zlen (p ++ t1) = blk).
      { unfold t1. rewrite !zlen_app, zlen_cons, zlen_nil, zlen_repeat. lia. }
      set (b1 := p ++ t1) in *.
      change (zero_fill b1 0 (blk - 8)) with (zero_fill ([] ++ b1) 0 (blk - 8)).
      rewrite zero_fill_app; [|reflexivity|lia]. cbn [hbind]. rewrite app_nil_l, Z.sub_0_r.
      set (t := skipn (Z.to_nat (blk - 8)) b1).
      assert (Ht : zlen t = 8) by (unfold t; rewrite zlen_skipn; lia).
      rewrite memcpy_at_app; [|rewrite zlen_repeat; lia|unfold zlen in *; lia]. cbn [hbind].
      rewrite (skipn_all_nil t) by (unfold zlen in *; lia). rewrite app_nil_r.
      set (t2 := repeat 0 (Z.to_nat (blk - 8)) ++ be8).
      (* the padded message is msg ++ t1 ++ t2 *)
      assert (Htail : [128] ++ repeat 0 (Z.to_nat k) ++ repeat 0 (Z.to_nat lb - 8) ++ be8 = t1 ++ t2).
      { unfold t1, t2. rewrite <- !app_assoc. f_equal. rewrite !app_assoc. f_equal.
        rewrite !repeat_app'. f_equal. lia. }
      rewrite Htail.
      rewrite (md_fold_absorb B Bpos compress iv _ (length msg / B + 2)).
      2:{ rewrite !app_length. unfold t1, t2. rewrite !app_length, !repeat_length. cbn [length]. rewrite Hbe8.
          assert (Z.of_nat (length msg) = n) by reflexivity.
          pose proof (Nat.div_mod (length msg) B ltac:(pose proof Bpos; lia)).
          assert (Z.of_nat (length msg mod B) = cl).
          { rewrite Nat2Z.inj_mod. unfold B. rewrite Z2Nat.id by lia. now rewrite Hcur. }
          unfold B in *. nia. }
      f_equal. f_equal.
      rewrite <- (absorb_app B Bpos compress (iv, []) msg (t1 ++ t2)), <- Habs, Htabs.
      rewrite (absorb_block B Bpos compress st p (t1 ++ t2))
        by (rewrite app_assoc, app_length; fold b1; unfold zlen in *; unfold B; lia).
      rewrite (app_assoc p t1 t2). fold b1.
      rewrite firstn_app_exact, skipn_app_exact by (unfold zlen in *; unfold B; lia).
      assert (Ht2 : zlen t2 = blk).
      { unfold t2. rewrite zlen_app, zlen_repeat. unfold zlen. rewrite Hbe8. lia. }
      rewrite (absorb_block B Bpos compress _ [] t2) by (cbn [app]; unfold zlen in *; unfold B; lia).
      cbn [app]. rewrite firstn_all2, skipn_all_nil by (unfold zlen in *; unfold B; lia).
      rewrite absorb_nil by (cbn; apply Bpos). reflexivity.
    - (* one block *)
      assert (Hk : k = blk - lb - 1 - cl).
      { unfold k. rewrite Hcur. pose proof (Z.mod_pos_bound n blk ltac:(lia)).
        symmetry. apply (Z.mod_unique _ _ (- (n / blk))); [lia|].
        pose proof (Z.div_mod n blk ltac:(lia)). lia. }
      cbn [hbind].
      replace (p ++ [128] ++ r1) with ((p ++ [128]) ++ r1) by now rewrite <- app_assoc.
      rewrite zero_fill_app; [|rewrite zlen_app, zlen_cons, zlen_nil; lia|lia]. cbn [hbind].
      set (z := repeat 0 (Z.to_nat (blk - 8 - (cl + 1)))).
      set (t := skipn (Z.to_nat (blk - 8 - (cl + 1))) r1).
      assert (Ht : zlen t = 8) by (unfold t; rewrite zlen_skipn; lia).
      replace ((p ++ [128]) ++ z ++ t) with ((p ++ [128] ++ z) ++ t) by now rewrite <- !app_assoc.
      rewrite memcpy_at_app; [|unfold z; rewrite !zlen_app, zlen_cons, zlen_nil, zlen_repeat; lia|unfold zlen in *; lia].
      cbn [hbind]. rewrite (skipn_all_nil t) by (unfold zlen in *; lia). rewrite app_nil_r.
      assert (Htail : [128] ++ repeat 0 (Z.to_nat k) ++ repeat 0 (Z.to_nat lb - 8) ++ be8 = ([128] ++ z) ++ be8).
      { unfold z. rewrite <- !app_assoc. f_equal. rewrite !app_assoc. f_equal.
        rewrite !repeat_app'. f_equal. lia. }
      rewrite Htail.
      set (t1 := ([128] ++ z) ++ be8).
      assert (Ht1 : zlen (p ++ t1) = blk).
      { unfold t1, z. rewrite !zlen_app, zlen_cons, zlen_nil, zlen_repeat. unfold zlen at 2. rewrite Hbe8. lia. }
      rewrite (md_fold_absorb B Bpos compress iv _ (length msg / B + 1)).
      2:{ rewrite !app_length. unfold zlen in Ht1. rewrite app_length in Ht1.
          assert (Z.of_nat (length msg) = n) by reflexivity.
          pose proof (Nat.div_mod (length msg) B ltac:(pose proof Bpos; lia)).
          assert (Z.of_nat (length msg mod B) = cl).
          { rewrite Nat2Z.inj_mod. unfold B. rewrite Z2Nat.id by lia. now rewrite Hcur. }
          unfold zlen in Hp. unfold B in *. nia. }
      f_equal. f_equal.
      rewrite <- (absorb_app B Bpos compress (iv, []) msg t1), <- Habs, Htabs.
      rewrite (absorb_block B Bpos compress st p t1) by (unfold zlen in *; unfold B; lia).
      rewrite firstn_all2, skipn_all_nil by (unfold zlen in *; unfold B; lia).
      rewrite absorb_nil by (cbn; apply Bpos). cbn [fst].
      f_equal. unfold t1. now rewrite <- !app_assoc.
  Qed.
End TomBuf.
