(* C19 - proofs about the model of src/jid.c (Model/JidModel.v) against the RFC 7622 split
   (Spec/JidSpec.v).  Only the Coq standard library is used. *)
Require Import LV.Common.Bytes LV.Gen.Gen_jid LV.Model.JidModel LV.Spec.JidSpec.
From Coq Require Import List ZArith Lia Bool ZifyBool.
Import ListNotations.
Local Open Scope Z_scope.

(* ------------------------------------------------------------------------- *)
(* 1. The constants found in src/jid.c                                       *)
(* ------------------------------------------------------------------------- *)

Lemma Gen_jid_ok :
  jid_dlen_max = spec_part_max /\
  jid_nlen_max = spec_part_max + 1 /\
  jid_rlen_max = spec_part_max + 1 /\
  jid_forbidden = spec_forbidden /\
  jid_new_at = AT /\ jid_new_slash = SLASH /\
  jid_bare_stop = [SLASH] /\
  jid_node_cut = SLASH /\ jid_node_sep = AT /\
  jid_domain_cut = SLASH /\ jid_domain_sep = AT /\
  jid_resource_sep = SLASH.
Proof. vm_compute. repeat split. Qed.

Lemma dlen_max_eq : jid_dlen_max = spec_part_max.      Proof. apply Gen_jid_ok. Qed.
Lemma nlen_max_eq : jid_nlen_max = spec_part_max + 1.  Proof. apply Gen_jid_ok. Qed.
Lemma rlen_max_eq : jid_rlen_max = spec_part_max + 1.  Proof. apply Gen_jid_ok. Qed.
Lemma forbidden_eq : jid_forbidden = spec_forbidden.   Proof. apply Gen_jid_ok. Qed.
Lemma new_at_eq : jid_new_at = AT.                     Proof. apply Gen_jid_ok. Qed.
Lemma new_slash_eq : jid_new_slash = SLASH.            Proof. apply Gen_jid_ok. Qed.
Lemma bare_stop_eq : jid_bare_stop = [SLASH].          Proof. apply Gen_jid_ok. Qed.
Lemma node_cut_eq : jid_node_cut = SLASH.              Proof. apply Gen_jid_ok. Qed.
Lemma node_sep_eq : jid_node_sep = AT.                 Proof. apply Gen_jid_ok. Qed.
Lemma domain_cut_eq : jid_domain_cut = SLASH.          Proof. apply Gen_jid_ok. Qed.
Lemma domain_sep_eq : jid_domain_sep = AT.             Proof. apply Gen_jid_ok. Qed.
Lemma resource_sep_eq : jid_resource_sep = SLASH.      Proof. apply Gen_jid_ok. Qed.

Lemma SLASH_nz : SLASH <> 0.  Proof. discriminate. Qed.
Lemma AT_nz : AT <> 0.        Proof. discriminate. Qed.
Lemma AT_SLASH : AT <> SLASH. Proof. discriminate. Qed.

(* ------------------------------------------------------------------------- *)
(* 2. before / after                                                         *)
(* ------------------------------------------------------------------------- *)

Lemma nul_free_cons : forall x s, nul_free (x :: s) <-> x <> 0 /\ nul_free s.
Proof.
  unfold nul_free. intros x s. cbn [In]. split.
  - intros H. split; intro; apply H; auto.
  - intros [H1 H2] [E|E]; [exact (H1 E) | exact (H2 E)].
Qed.

Lemma nul_free_app : forall a b, nul_free (a ++ b) <-> nul_free a /\ nul_free b.
Proof.
  unfold nul_free. intros a b. rewrite in_app_iff. tauto.
Qed.

Lemma nul_free_skipn : forall p s, nul_free s -> nul_free (skipn p s).
Proof.
  intros p s H. rewrite <- (firstn_skipn p s) in H. apply nul_free_app in H. tauto.
Qed.

Lemma after_split : forall c s r, after c s = Some r -> s = before c s ++ c :: r.
Proof.
  intros c s. induction s as [|x s IH]; intros r H; cbn [after before] in *.
  - discriminate.
  - destruct (Z.eqb_spec x c) as [E|E].
    + injection H as <-. subst. reflexivity.
    + cbn [app]. f_equal. apply IH. exact H.
Qed.

Lemma after_none_before : forall c s, after c s = None -> before c s = s.
Proof.
  intros c s. induction s as [|x s IH]; intros H; cbn [after before] in *.
  - reflexivity.
  - destruct (Z.eqb_spec x c); [discriminate|]. f_equal. apply IH. exact H.
Qed.

Lemma before_notin : forall c s, ~ In c (before c s).
Proof.
  intros c s. induction s as [|x s IH]; cbn [before].
  - intros [].
  - destruct (Z.eqb_spec x c) as [E|E]; [intros []|].
    intros [H|H]; [apply E; exact H | exact (IH H)].
Qed.

Lemma after_none_notin : forall c s, after c s = None -> ~ In c s.
Proof.
  intros c s H. rewrite <- (after_none_before c s H). apply before_notin.
Qed.

Lemma after_notin : forall c s, ~ In c s -> after c s = None.
Proof.
  intros c s. induction s as [|x s IH]; intros H; cbn [after].
  - reflexivity.
  - destruct (Z.eqb_spec x c) as [E|E].
    + exfalso. apply H. left. exact E.
    + apply IH. intro. apply H. right. assumption.
Qed.

Lemma before_id : forall c s, ~ In c s -> before c s = s.
Proof. intros c s H. apply after_none_before. apply after_notin. exact H. Qed.

Lemma before_app : forall c a b, ~ In c a -> before c (a ++ c :: b) = a.
Proof.
  intros c a b. induction a as [|x a IH]; intros H; cbn [app before].
  - rewrite Z.eqb_refl. reflexivity.
  - destruct (Z.eqb_spec x c) as [E|E].
    + exfalso. apply H. left. exact E.
    + f_equal. apply IH. intro. apply H. right. assumption.
Qed.

Lemma after_app : forall c a b, ~ In c a -> after c (a ++ c :: b) = Some b.
Proof.
  intros c a b. induction a as [|x a IH]; intros H; cbn [app after].
  - rewrite Z.eqb_refl. reflexivity.
  - destruct (Z.eqb_spec x c) as [E|E].
    + exfalso. apply H. left. exact E.
    + apply IH. intro. apply H. right. assumption.
Qed.

Lemma before_len : forall c s, (length (before c s) <= length s)%nat.
Proof.
  intros c s. induction s as [|x s IH]; cbn [before length]; [lia|].
  destruct (x =? c); cbn [length]; lia.
Qed.

Lemma firstn_before : forall c s, firstn (length (before c s)) s = before c s.
Proof.
  intros c s. induction s as [|x s IH]; cbn [before]; [reflexivity|].
  destruct (x =? c); cbn [length firstn]; [reflexivity|]. f_equal. exact IH.
Qed.

Lemma skipn_before : forall c s r, after c s = Some r -> skipn (length (before c s) + 1) s = r.
Proof.
  intros c s. induction s as [|x s IH]; intros r H; cbn [before after] in *; [discriminate|].
  destruct (x =? c).
  - injection H as <-. reflexivity.
  - cbn [length Nat.add skipn]. apply IH. exact H.
Qed.

Lemma after_len : forall c s r, after c s = Some r -> (length (before c s) + 1 <= length s)%nat.
Proof.
  intros c s r H. rewrite (after_split c s r H) at 2. rewrite app_length. cbn [length]. lia.
Qed.

(* the first maximal segment without a character of rej (what strcspn measures) *)
Fixpoint span (rej : list Z) (s : list Z) : list Z :=
  match s with
  | [] => []
  | x :: r => if existsb (Z.eqb x) rej then [] else x :: span rej r
  end.

Lemma span_single : forall c s, span [c] s = before c s.
Proof.
  intros c s. induction s as [|x s IH]; cbn [span before existsb]; [reflexivity|].
  rewrite orb_false_r. destruct (x =? c); [reflexivity|]. f_equal. exact IH.
Qed.

Lemma span_len : forall rej s, (length (span rej s) <= length s)%nat.
Proof.
  intros rej s. induction s as [|x s IH]; cbn [span length]; [lia|].
  destruct (existsb (Z.eqb x) rej); cbn [length]; lia.
Qed.

Lemma span_full : forall rej s,
  (length (span rej s) =? length s)%nat = forallb (fun x => negb (existsb (Z.eqb x) rej)) s.
Proof.
  intros rej s. induction s as [|x s IH]; cbn [span length forallb]; [reflexivity|].
  destruct (existsb (Z.eqb x) rej); cbn [negb andb length].
  - reflexivity.
  - rewrite <- IH. reflexivity.
Qed.

(* ------------------------------------------------------------------------- *)
(* 3. The libc operations on a block that starts with a C string             *)
(* ------------------------------------------------------------------------- *)

(* a block holding the string s, its terminator, and then anything *)
Definition mem (s : list Z) (t : cells) : cells := map Some s ++ Some 0 :: t.

Lemma cstr_mem : forall s, cstr s = mem s [].
Proof. reflexivity. Qed.

Lemma mem_length : forall s t, length (mem s t) = (length s + 1 + length t)%nat.
Proof. intros. unfold mem. rewrite app_length, map_length. cbn [length]. lia. Qed.

Lemma strlen_mem : forall s t, nul_free s -> m_strlen (mem s t) = Some (length s).
Proof.
  intros s t. unfold mem. induction s as [|x s IH]; intros H; cbn [map app m_strlen length].
  - reflexivity.
  - apply nul_free_cons in H. destruct H as [H1 H2].
    destruct (Z.eqb_spec x 0); [contradiction|]. rewrite (IH H2). reflexivity.
Qed.

Lemma string_mem : forall s t, nul_free s -> m_string (mem s t) = Some s.
Proof.
  intros s t. unfold mem. induction s as [|x s IH]; intros H; cbn [map app m_string].
  - reflexivity.
  - apply nul_free_cons in H. destruct H as [H1 H2].
    destruct (Z.eqb_spec x 0); [contradiction|]. rewrite (IH H2). reflexivity.
Qed.

Lemma strchr_mem : forall c s t, c <> 0 -> nul_free s ->
  m_strchr (mem s t) c =
  Some (match after c s with Some _ => Some (length (before c s)) | None => None end).
Proof.
  intros c s t Hc. unfold mem. induction s as [|x s IH]; intros H;
    cbn [map app m_strchr after before].
  - destruct (Z.eqb_spec 0 c); [exfalso; apply Hc; symmetry; assumption|]. reflexivity.
  - apply nul_free_cons in H. destruct H as [H1 H2].
    destruct (Z.eqb_spec x c); [reflexivity|].
    destruct (Z.eqb_spec x 0); [contradiction|].
    rewrite (IH H2). destruct (after c s); reflexivity.
Qed.

Lemma strcspn_mem : forall rej s t, nul_free s ->
  m_strcspn (mem s t) rej = Some (length (span rej s)).
Proof.
  intros rej s t. unfold mem. induction s as [|x s IH]; intros H;
    cbn [map app m_strcspn span].
  - reflexivity.
  - apply nul_free_cons in H. destruct H as [H1 H2].
    destruct (Z.eqb_spec x 0); [contradiction|]. cbn [orb].
    destruct (existsb (Z.eqb x) rej); [reflexivity|].
    rewrite (IH H2). reflexivity.
Qed.

Lemma skipn_mem : forall p s t, (p <= length s)%nat -> skipn p (mem s t) = mem (skipn p s) t.
Proof.
  intros p s t H. unfold mem. rewrite skipn_app, map_length, skipn_map.
  replace (p - length s)%nat with O by lia. reflexivity.
Qed.

Lemma firstn_mem : forall n s t, (n <= length s)%nat ->
  firstn n (mem s t) = map Some (firstn n s).
Proof.
  intros n s t H. unfold mem. rewrite firstn_app, map_length, firstn_map.
  replace (n - length s)%nat with O by lia. cbn [firstn]. apply app_nil_r.
Qed.

Lemma alloc_app : forall a b, alloc (a + b) = alloc a ++ alloc b.
Proof. intros. unfold alloc. apply repeat_app. Qed.

Lemma alloc_length : forall n, length (alloc n) = n.
Proof. intros. apply repeat_length. Qed.

(* memcpy into the untouched tail of a block under construction *)
Lemma memcpy_alloc : forall pre doff n k src soff,
  length pre = doff -> (soff + n <= length src)%nat ->
  m_memcpy (pre ++ alloc (n + k)) doff src soff n =
  Some (pre ++ firstn n (skipn soff src) ++ alloc k).
Proof.
  intros pre doff n k src soff Hp Hs. unfold m_memcpy.
  rewrite app_length, alloc_length.
  replace ((soff + n <=? length src)%nat) with true by (symmetry; apply Nat.leb_le; lia).
  replace ((doff + n <=? length pre + (n + k))%nat) with true by (symmetry; apply Nat.leb_le; lia).
  cbn [andb]. subst doff. f_equal.
  rewrite firstn_app, firstn_all, Nat.sub_diag. cbn [firstn]. rewrite app_nil_r.
  f_equal. f_equal.
  rewrite skipn_app, alloc_app.
  rewrite (skipn_all2 pre) by lia. cbn [app].
  replace (length pre + n - length pre)%nat with n by lia.
  rewrite skipn_app, alloc_length, Nat.sub_diag.
  rewrite skipn_all2 by (rewrite alloc_length; lia). reflexivity.
Qed.

Lemma memcpy_alloc0 : forall n k src soff,
  (soff + n <= length src)%nat ->
  m_memcpy (alloc (n + k)) 0 src soff n = Some (firstn n (skipn soff src) ++ alloc k).
Proof. intros. apply (memcpy_alloc [] 0%nat); [reflexivity|assumption]. Qed.

Lemma store_at : forall pre x post off v,
  length pre = off ->
  m_store (pre ++ x :: post) off v = Some (pre ++ Some v :: post).
Proof.
  intros pre x post off v Hp. unfold m_store. rewrite app_length. cbn [length].
  replace ((off <? length pre + S (length post))%nat) with true by (symmetry; apply Nat.ltb_lt; lia).
  subst off. f_equal.
  rewrite firstn_app, firstn_all, Nat.sub_diag. cbn [firstn]. rewrite app_nil_r.
  f_equal. f_equal.
  rewrite skipn_app. rewrite skipn_all2 by lia. cbn [app].
  replace (S (length pre) - length pre)%nat with 1%nat by lia. reflexivity.
Qed.

Lemma strdup_mem : forall s t p, nul_free s -> (p <= length s)%nat ->
  m_strdup (mem s t) p = Some (cstr (skipn p s)).
Proof.
  intros s t p H Hp. unfold m_strdup.
  rewrite skipn_mem by assumption.
  rewrite strlen_mem by (apply nul_free_skipn; assumption). cbn [bind].
  rewrite memcpy_alloc0 by (rewrite mem_length, skipn_length; lia). cbn [bind].
  rewrite skipn_mem by assumption.
  rewrite firstn_mem by lia. rewrite firstn_all.
  change (alloc 1) with [@None Z].
  rewrite store_at by (rewrite map_length; reflexivity). reflexivity.
Qed.

Lemma cut_mem : forall c s t, c <> 0 -> nul_free s ->
  exists t', cut_at (mem s t) c = Some (mem (before c s) t').
Proof.
  intros c s t Hc H. unfold cut_at. rewrite strchr_mem by assumption. cbn [bind].
  destruct (after c s) as [r|] eqn:E.
  - exists (mem r t). rewrite (after_split c s r E) at 1.
    unfold mem at 1. rewrite map_app. cbn [map]. rewrite <- app_assoc. cbn [app].
    rewrite store_at by (rewrite map_length; reflexivity). reflexivity.
  - exists t. rewrite (after_none_before c s E). reflexivity.
Qed.

Lemma nul_free_before : forall c s, nul_free s -> nul_free (before c s).
Proof.
  intros c s H. destruct (after c s) as [r|] eqn:E.
  - rewrite (after_split c s r E) in H. apply nul_free_app in H. tauto.
  - rewrite (after_none_before c s E). exact H.
Qed.

Lemma nul_free_after : forall c s r, nul_free s -> after c s = Some r -> nul_free r.
Proof.
  intros c s r H E. rewrite (after_split c s r E) in H. apply nul_free_app in H.
  destruct H as [_ H]. apply nul_free_cons in H. tauto.
Qed.

(* ------------------------------------------------------------------------- *)
(* 4. The four splitting helpers compute the RFC 7622 parts                  *)
(* ------------------------------------------------------------------------- *)

Definition ostr (o : option (list Z)) : jres :=
  match o with Some s => JStr s | None => JNull end.

Ltac side :=
  first [ assumption | apply SLASH_nz | apply AT_nz
        | apply nul_free_before; assumption
        | apply nul_free_skipn; assumption ].

Lemma ret_cstr : forall s, nul_free s -> oret (Some (Some (cstr s))) = JStr s.
Proof. intros s H. cbn [oret]. rewrite cstr_mem, string_mem by assumption. reflexivity. Qed.

(* allocate len+1 cells, copy the first len bytes of the string at the start of the block, terminate *)
Lemma copy_prefix : forall s t len,
  (len <= length s)%nat ->
  (do result <- m_memcpy (alloc (len + 1)) 0 (mem s t) 0 len;
   do result <- m_store result len 0;
   Some (Some result)) = Some (Some (cstr (firstn len s))).
Proof.
  intros s t len H.
  rewrite memcpy_alloc0 by (rewrite mem_length; lia). cbn [bind skipn].
  rewrite firstn_mem by assumption.
  change (alloc 1) with [@None Z].
  rewrite store_at by (rewrite map_length, firstn_length; lia). reflexivity.
Qed.

Lemma jid_bare_eq : forall j, nul_free j -> jid_bare j = JStr (spec_bare j).
Proof.
  intros j H. unfold jid_bare, spec_bare. cbv zeta. rewrite bare_stop_eq, cstr_mem.
  rewrite strcspn_mem by assumption. rewrite span_single. cbn [bind].
  rewrite copy_prefix by apply before_len. rewrite firstn_before.
  apply ret_cstr. side.
Qed.

Lemma jid_resource_eq : forall j, nul_free j -> jid_resource j = ostr (spec_resource j).
Proof.
  intros j H. unfold jid_resource, spec_resource. cbv zeta. rewrite resource_sep_eq, cstr_mem.
  rewrite strchr_mem by side. cbn [bind].
  destruct (after SLASH j) as [r|] eqn:E; [|reflexivity].
  rewrite strdup_mem; [| assumption | apply (after_len _ _ _ E)]. cbn [bind].
  rewrite (skipn_before _ _ _ E). cbn [ostr]. apply ret_cstr.
  apply (nul_free_after _ _ _ H E).
Qed.

Lemma strdup0 : forall s t, nul_free s -> m_strdup (mem s t) 0 = Some (cstr s).
Proof. intros. rewrite strdup_mem by (try assumption; lia). reflexivity. Qed.

Lemma jid_node_eq : forall j, nul_free j -> jid_node j = ostr (spec_node j).
Proof.
  intros j H. unfold jid_node, spec_node, spec_bare. cbv zeta.
  rewrite node_cut_eq, node_sep_eq, cstr_mem.
  rewrite strdup0 by assumption. cbn [bind]. rewrite cstr_mem.
  destruct (cut_mem SLASH j [] SLASH_nz H) as [t' Ht]. rewrite Ht. cbn [bind].
  pose proof (nul_free_before SLASH j H) as Hb.
  rewrite strchr_mem by side. cbn [bind].
  destruct (after AT (before SLASH j)) as [d|] eqn:E; [|reflexivity].
  rewrite copy_prefix by apply before_len. rewrite firstn_before.
  cbn [ostr]. apply ret_cstr. side.
Qed.

Lemma jid_domain_eq : forall j, nul_free j -> jid_domain j = JStr (spec_domain j).
Proof.
  intros j H. unfold jid_domain, spec_domain, spec_bare. cbv zeta.
  rewrite domain_cut_eq, domain_sep_eq, cstr_mem.
  rewrite strdup0 by assumption. cbn [bind]. rewrite cstr_mem.
  destruct (cut_mem SLASH j [] SLASH_nz H) as [t' Ht]. rewrite Ht. cbn [bind].
  pose proof (nul_free_before SLASH j H) as Hb.
  rewrite strchr_mem by side. cbn [bind].
  destruct (after AT (before SLASH j)) as [d|] eqn:E.
  - rewrite strdup_mem; [| assumption | apply (after_len _ _ _ E)]. cbn [bind].
    rewrite (skipn_before _ _ _ E). apply ret_cstr. apply (nul_free_after _ _ _ Hb E).
  - rewrite strdup0 by assumption. cbn [bind]. apply ret_cstr. assumption.
Qed.
