(* C19 - proofs about the model of src/jid.c (Model/JidModel.v) against the RFC 7622 split
   (Spec/JidSpec.v).  Only the Coq standard library is used. *)
Require Import LV.Common.Bytes LV.Gen.Gen_jid LV.Model.JidModel LV.Spec.JidSpec.
From Coq Require Import List ZArith Lia Bool ZifyBool.
Import ListNotations.
Local Open Scope Z_scope.

(* ------------------------------------------------------------------------- *)
(* 1. The constants found in src/jid.c                                       *)
(* ------------------------------------------------------------------------- *)

Lemma Gen_jid_ok :
  jid_dlen_max = spec_part_max /\
  jid_nlen_max = spec_part_max + 1 /\
  jid_rlen_max = spec_part_max + 1 /\
  jid_forbidden = spec_forbidden /\
  jid_new_at = AT /\ jid_new_slash = SLASH /\
  jid_bare_stop = [SLASH] /\
  jid_node_cut = SLASH /\ jid_node_sep = AT /\
  jid_domain_cut = SLASH /\ jid_domain_sep = AT /\
  jid_resource_sep = SLASH.
Proof. vm_compute. repeat split. Qed.

Lemma dlen_max_eq : jid_dlen_max = spec_part_max.      Proof. apply Gen_jid_ok. Qed.
Lemma nlen_max_eq : jid_nlen_max = spec_part_max + 1.  Proof. apply Gen_jid_ok. Qed.
Lemma rlen_max_eq : jid_rlen_max = spec_part_max + 1.  Proof. apply Gen_jid_ok. Qed.
Lemma forbidden_eq : jid_forbidden = spec_forbidden.   Proof. apply Gen_jid_ok. Qed.
Lemma new_at_eq : jid_new_at = AT.                     Proof. apply Gen_jid_ok. Qed.
Lemma new_slash_eq : jid_new_slash = SLASH.            Proof. apply Gen_jid_ok. Qed.
Lemma bare_stop_eq : jid_bare_stop = [SLASH].          Proof. apply Gen_jid_ok. Qed.
Lemma node_cut_eq : jid_node_cut = SLASH.              Proof. apply Gen_jid_ok. Qed.
Lemma node_sep_eq : jid_node_sep = AT.                 Proof. apply Gen_jid_ok. Qed.
Lemma domain_cut_eq : jid_domain_cut = SLASH.          Proof. apply Gen_jid_ok. Qed.
Lemma domain_sep_eq : jid_domain_sep = AT.             Proof. apply Gen_jid_ok. Qed.
Lemma resource_sep_eq : jid_resource_sep = SLASH.      Proof. apply Gen_jid_ok. Qed.

Lemma SLASH_nz : SLASH <> 0.  Proof. discriminate. Qed.
Lemma AT_nz : AT <> 0.        Proof. discriminate. Qed.
Lemma AT_SLASH : AT <> SLASH. Proof. discriminate. Qed.

(* ------------------------------------------------------------------------- *)
(* 2. before / after                                                         *)
(* ------------------------------------------------------------------------- *)

Lemma nul_free_cons : forall x s, nul_free (x :: s) <-> x <> 0 /\ nul_free s.
Proof.
  unfold nul_free. intros x s. cbn [In]. split.
  - intros H. split; intro; apply H; auto.
  - intros [H1 H2] [E|E]; [exact (H1 E) | exact (H2 E)].
Qed.

Lemma nul_free_app : forall a b, nul_free (a ++ b) <-> nul_free a /\ nul_free b.
Proof.
  unfold nul_free. intros a b. rewrite in_app_iff. tauto.
Qed.

Lemma nul_free_skipn : forall p s, nul_free s -> nul_free (skipn p s).
Proof.
  intros p s H. rewrite <- (firstn_skipn p s) in H. apply nul_free_app in H. tauto.
Qed.

Lemma after_split : forall c s r, after c s = Some r -> s = before c s ++ c :: r.
Proof.
  intros c s. induction s as [|x s IH]; intros r H; cbn [after before] in *.
  - discriminate.
  - destruct (Z.eqb_spec x c) as [E|E].
    + injection H as <-. subst. reflexivity.
    + cbn [app]. f_equal. apply IH. exact H.
Qed.

Lemma after_none_before : forall c s, after c s = None -> before c s = s.
Proof.
  intros c s. induction s as [|x s IH]; intros H; cbn [after before] in *.
  - reflexivity.
  - destruct (Z.eqb_spec x c); [discriminate|]. f_equal. apply IH. exact H.
Qed.

Lemma before_notin : forall c s, ~ In c (before c s).
Proof.
  intros c s. induction s as [|x s IH]; cbn [before].
  - intros [].
  - destruct (Z.eqb_spec x c) as [E|E]; [intros []|].
    intros [H|H]; [apply E; exact H | exact (IH H)].
Qed.

Lemma after_none_notin : forall c s, after c s = None -> ~ In c s.
Proof.
  intros c s H. rewrite <- (after_none_before c s H). apply before_notin.
Qed.

Lemma after_notin : forall c s, ~ In c s -> after c s = None.
Proof.
  intros c s. induction s as [|x s IH]; intros H; cbn [after].
  - reflexivity.
  - destruct (Z.eqb_spec x c) as [E|E].
    + exfalso. apply H. left. exact E.
    + apply IH. intro. apply H. right. assumption.
Qed.

Lemma before_id : forall c s, ~ In c s -> before c s = s.
Proof. intros c s H. apply after_none_before. apply after_notin. exact H. Qed.

Lemma before_app : forall c a b, ~ In c a -> before c (a ++ c :: b) = a.
Proof.
  intros c a b. induction a as [|x a IH]; intros H; cbn [app before].
  - rewrite Z.eqb_refl. reflexivity.
  - destruct (Z.eqb_spec x c) as [E|E].
    + exfalso. apply H. left. exact E.
    + f_equal. apply IH. intro. apply H. right. assumption.
Qed.

Lemma after_app : forall c a b, ~ In c a -> after c (a ++ c :: b) = Some b.
Proof.
  intros c a b. induction a as [|x a IH]; intros H; cbn [app after].
  - rewrite Z.eqb_refl. reflexivity.
  - destruct (Z.eqb_spec x c) as [E|E].
    + exfalso. apply H. left. exact E.
    + apply IH. intro. apply H. right. assumption.
Qed.

Lemma before_len : forall c s, (length (before c s) <= length s)%nat.
Proof.
  intros c s. induction s as [|x s IH]; cbn [before length]; [lia|].
  destruct (x =? c); cbn [length]; lia.
Qed.

Lemma firstn_before : forall c s, firstn (length (before c s)) s = before c s.
Proof.
  intros c s. induction s as [|x s IH]; cbn [before]; [reflexivity|].
  destruct (x =? c); cbn [length firstn]; [reflexivity|]. f_equal. exact IH.
Qed.

Lemma skipn_before : forall c s r, after c s = Some r -> skipn (length (before c s) + 1) s = r.
Proof.
  intros c s. induction s as [|x s IH]; intros r H; cbn [before after] in *; [discriminate|].
  destruct (x =? c).
  - injection H as <-. reflexivity.
  - cbn [length Nat.add skipn]. apply IH. exact H.
Qed.

Lemma after_len : forall c s r, after c s = Some r -> (length (before c s) + 1 <= length s)%nat.
Proof.
  intros c s r H. rewrite (after_split c s r H) at 2. rewrite app_length. cbn [length]. lia.
Qed.

(* the first maximal segment without a character of rej (what strcspn measures) *)
Fixpoint span (rej : list Z) (s : list Z) : list Z :=
  match s with
  | [] => []
  | x :: r => if existsb (Z.eqb x) rej then [] else x :: span rej r
  end.

Lemma span_single : forall c s, span [c] s = before c s.
Proof.
  intros c s. induction s as [|x s IH]; cbn [span before existsb]; [reflexivity|].
  rewrite orb_false_r. destruct (x =? c); [reflexivity|]. f_equal. exact IH.
Qed.

Lemma span_len : forall rej s, (length (span rej s) <= length s)%nat.
Proof.
  intros rej s. induction s as [|x s IH]; cbn [span length]; [lia|].
  destruct (existsb (Z.eqb x) rej); cbn [length]; lia.
Qed.

Lemma span_full : forall rej s,
  (length (span rej s) =? length s)%nat = forallb (fun x => negb (existsb (Z.eqb x) rej)) s.
Proof.
  intros rej s. induction s as [|x s IH]; cbn [span length forallb]; [reflexivity|].
  destruct (existsb (Z.eqb x) rej); cbn [negb andb length].
  - reflexivity.
  - rewrite <- IH. reflexivity.
Qed.

(* ------------------------------------------------------------------------- *)
(* 3. The libc operations on a block that starts with a C string             *)
(* ------------------------------------------------------------------------- *)

(* a block holding the string s, its terminator, and then anything *)
Definition mem (s : list Z) (t : cells) : cells := map Some s ++ Some 0 :: t.

Lemma cstr_mem : forall s, cstr s = mem s [].
Proof. reflexivity. Qed.

Lemma mem_length : forall s t, length (mem s t) = (length s + 1 + length t)%nat.
Proof. intros. unfold mem. rewrite app_length, map_length. cbn [length]. lia. Qed.

Lemma strlen_mem : forall s t, nul_free s -> m_strlen (mem s t) = Some (length s).
Proof.
  intros s t. unfold mem. induction s as [|x s IH]; intros H; cbn [map app m_strlen length].
  - reflexivity.
  - apply nul_free_cons in H. destruct H as [H1 H2].
    destruct (Z.eqb_spec x 0); [contradiction|]. rewrite (IH H2). reflexivity.
Qed.

Lemma string_mem : forall s t, nul_free s -> m_string (mem s t) = Some s.
Proof.
  intros s t. unfold mem. induction s as [|x s IH]; intros H; cbn [map app m_string].
  - reflexivity.
  - apply nul_free_cons in H. destruct H as [H1 H2].
    destruct (Z.eqb_spec x 0); [contradiction|]. rewrite (IH H2). reflexivity.
Qed.

Lemma strchr_mem : forall c s t, c <> 0 -> nul_free s ->
  m_strchr (mem s t) c =
  Some (match after c s with Some _ => Some (length (before c s)) | None => None end).
Proof.
  intros c s t Hc. unfold mem. induction s as [|x s IH]; intros H;
    cbn [map app m_strchr after before].
  - destruct (Z.eqb_spec 0 c); [exfalso; apply Hc; symmetry; assumption|]. reflexivity.
  - apply nul_free_cons in H. destruct H as [H1 H2].
    destruct (Z.eqb_spec x c); [reflexivity|].
    destruct (Z.eqb_spec x 0); [contradiction|].
    rewrite (IH H2). destruct (after c s); reflexivity.
Qed.

Lemma strcspn_mem : forall rej s t, nul_free s ->
  m_strcspn (mem s t) rej = Some (length (span rej s)).
Proof.
  intros rej s t. unfold mem. induction s as [|x s IH]; intros H;
    cbn [map app m_strcspn span].
  - reflexivity.
  - apply nul_free_cons in H. destruct H as [H1 H2].
    destruct (Z.eqb_spec x 0); [contradiction|]. cbn [orb].
    destruct (existsb (Z.eqb x) rej); [reflexivity|].
    rewrite (IH H2). reflexivity.
Qed.

Lemma skipn_mem : forall p s t, (p <= length s)%nat -> skipn p (mem s t) = mem (skipn p s) t.
Proof.
  intros p s t H. unfold mem. rewrite skipn_app, map_length, skipn_map.
  replace (p - length s)%nat with O by lia. reflexivity.
Qed.

Lemma firstn_mem : forall n s t, (n <= length s)%nat ->
  firstn n (mem s t) = map Some (firstn n s).
Proof.
  intros n s t H. unfold mem. rewrite firstn_app, map_length, firstn_map.
  replace (n - length s)%nat with O by lia. cbn [firstn]. apply app_nil_r.
Qed.

Lemma alloc_app : forall a b, alloc (a + b) = alloc a ++ alloc b.
Proof. intros. unfold alloc. apply repeat_app. Qed.

Lemma alloc_length : forall n, length (alloc n) = n.
Proof. intros. apply repeat_length. Qed.

(* memcpy into the untouched tail of a block under construction *)
Lemma memcpy_alloc : forall pre doff n k src soff,
  length pre = doff -> (soff + n <= length src)%nat ->
  m_memcpy (pre ++ alloc (n + k)) doff src soff n =
  Some (pre ++ firstn n (skipn soff src) ++ alloc k).
Proof.
  intros pre doff n k src soff Hp Hs. unfold m_memcpy.
  rewrite app_length, alloc_length.
  replace ((soff + n <=? length src)%nat) with true by (symmetry; apply Nat.leb_le; lia).
  replace ((doff + n <=? length pre + (n + k))%nat) with true by (symmetry; apply Nat.leb_le; lia).
  cbn [andb]. subst doff. f_equal.
  rewrite firstn_app, firstn_all, Nat.sub_diag. cbn [firstn]. rewrite app_nil_r.
  f_equal. f_equal.
  rewrite skipn_app, alloc_app.
  rewrite (skipn_all2 pre) by lia. cbn [app].
  replace (length pre + n - length pre)%nat with n by lia.
  rewrite skipn_app, alloc_length, Nat.sub_diag.
  rewrite skipn_all2 by (rewrite alloc_length; lia). reflexivity.
Qed.

Lemma memcpy_alloc0 : forall n k src soff,
  (soff + n <= length src)%nat ->
  m_memcpy (alloc (n + k)) 0 src soff n = Some (firstn n (skipn soff src) ++ alloc k).
Proof. intros. apply (memcpy_alloc [] 0%nat); [reflexivity|assumption]. Qed.

Lemma store_at : forall pre x post off v,
  length pre = off ->
  m_store (pre ++ x :: post) off v = Some (pre ++ Some v :: post).
Proof.
  intros pre x post off v Hp. unfold m_store. rewrite app_length. cbn [length].
  replace ((off <? length pre + S (length post))%nat) with true by (symmetry; apply Nat.ltb_lt; lia).
  subst off. f_equal.
  rewrite firstn_app, firstn_all, Nat.sub_diag. cbn [firstn]. rewrite app_nil_r.
  f_equal. f_equal.
  rewrite skipn_app. rewrite skipn_all2 by lia. cbn [app].
  replace (S (length pre) - length pre)%nat with 1%nat by lia. reflexivity.
Qed.

Lemma strdup_mem : forall s t p, nul_free s -> (p <= length s)%nat ->
  m_strdup (mem s t) p = Some (cstr (skipn p s)).
Proof.
  intros s t p H Hp. unfold m_strdup.
  rewrite skipn_mem by assumption.
  rewrite strlen_mem by (apply nul_free_skipn; assumption). cbn [bind].
  rewrite memcpy_alloc0 by (rewrite mem_length, skipn_length; lia). cbn [bind].
  rewrite skipn_mem by assumption.
  rewrite firstn_mem by lia. rewrite firstn_all.
  change (alloc 1) with [@None Z].
  rewrite store_at by (rewrite map_length; reflexivity). reflexivity.
Qed.

Lemma cut_mem : forall c s t, c <> 0 -> nul_free s ->
  exists t', cut_at (mem s t) c = Some (mem (before c s) t').
Proof.
  intros c s t Hc H. unfold cut_at. rewrite strchr_mem by assumption. cbn [bind].
  destruct (after c s) as [r|] eqn:E.
  - exists (mem r t). rewrite (after_split c s r E) at 1.
    unfold mem at 1. rewrite map_app. cbn [map]. rewrite <- app_assoc. cbn [app].
    rewrite store_at by (rewrite map_length; reflexivity). reflexivity.
  - exists t. rewrite (after_none_before c s E). reflexivity.
Qed.

Lemma nul_free_before : forall c s, nul_free s -> nul_free (before c s).
Proof.
  intros c s H. destruct (after c s) as [r|] eqn:E.
  - rewrite (after_split c s r E) in H. apply nul_free_app in H. tauto.
  - rewrite (after_none_before c s E). exact H.
Qed.

Lemma nul_free_after : forall c s r, nul_free s -> after c s = Some r -> nul_free r.
Proof.
  intros c s r H E. rewrite (after_split c s r E) in H. apply nul_free_app in H.
  destruct H as [_ H]. apply nul_free_cons in H. tauto.
Qed.

(* ------------------------------------------------------------------------- *)
(* 4. The four splitting helpers compute the RFC 7622 parts                  *)
(* ------------------------------------------------------------------------- *)

Definition ostr (o : option (list Z)) : jres :=
  match o with Some s => JStr s | None => JNull end.

Ltac side :=
  first [ assumption | apply SLASH_nz | apply AT_nz
        | apply nul_free_before; assumption
        | apply nul_free_skipn; assumption ].

Lemma ret_cstr : forall s, nul_free s -> oret (Some (Some (cstr s))) = JStr s.
Proof. intros s H. cbn [oret]. rewrite cstr_mem, string_mem by assumption. reflexivity. Qed.

(* allocate len+1 cells, copy the first len bytes of the string at the start of the block, terminate *)
Lemma copy_prefix : forall s t len,
  (len <= length s)%nat ->
  (do result <- m_memcpy (alloc (len + 1)) 0 (mem s t) 0 len;
   do result <- m_store result len 0;
   Some (Some result)) = Some (Some (cstr (firstn len s))).
Proof.
  intros s t len H.
  rewrite memcpy_alloc0 by (rewrite mem_length; lia). cbn [bind skipn].
  rewrite firstn_mem by assumption.
  change (alloc 1) with [@None Z].
  rewrite store_at by (rewrite map_length, firstn_length; lia). reflexivity.
Qed.

Lemma jid_bare_eq : forall j, nul_free j -> jid_bare j = JStr (spec_bare j).
Proof.
  intros j H. unfold jid_bare, spec_bare. cbv zeta. rewrite bare_stop_eq, cstr_mem.
  rewrite strcspn_mem by assumption. rewrite span_single. cbn [bind].
  rewrite copy_prefix by apply before_len. rewrite firstn_before.
  apply ret_cstr. side.
Qed.

Lemma jid_resource_eq : forall j, nul_free j -> jid_resource j = ostr (spec_resource j).
Proof.
  intros j H. unfold jid_resource, spec_resource. cbv zeta. rewrite resource_sep_eq, cstr_mem.
  rewrite strchr_mem by side. cbn [bind].
  destruct (after SLASH j) as [r|] eqn:E; [|reflexivity].
  rewrite strdup_mem; [| assumption | apply (after_len _ _ _ E)]. cbn [bind].
  rewrite (skipn_before _ _ _ E). cbn [ostr]. apply ret_cstr.
  apply (nul_free_after _ _ _ H E).
Qed.

Lemma strdup0 : forall s t, nul_free s -> m_strdup (mem s t) 0 = Some (cstr s).
Proof. intros. rewrite strdup_mem by (try assumption; lia). reflexivity. Qed.

Lemma jid_node_eq : forall j, nul_free j -> jid_node j = ostr (spec_node j).
Proof.
  intros j H. unfold jid_node, spec_node, spec_bare. cbv zeta.
  rewrite node_cut_eq, node_sep_eq, cstr_mem.
  rewrite strdup0 by assumption. cbn [bind]. rewrite cstr_mem.
  destruct (cut_mem SLASH j [] SLASH_nz H) as [t' Ht]. rewrite Ht. cbn [bind].
  pose proof (nul_free_before SLASH j H) as Hb.
  rewrite strchr_mem by side. cbn [bind].
  destruct (after AT (before SLASH j)) as [d|] eqn:E; [|reflexivity].
  rewrite copy_prefix by apply before_len. rewrite firstn_before.
  cbn [ostr]. apply ret_cstr. side.
Qed.

Lemma jid_domain_eq : forall j, nul_free j -> jid_domain j = JStr (spec_domain j).
Proof.
  intros j H. unfold jid_domain, spec_domain, spec_bare. cbv zeta.
  rewrite domain_cut_eq, domain_sep_eq, cstr_mem.
  rewrite strdup0 by assumption. cbn [bind]. rewrite cstr_mem.
  destruct (cut_mem SLASH j [] SLASH_nz H) as [t' Ht]. rewrite Ht. cbn [bind].
  pose proof (nul_free_before SLASH j H) as Hb.
  rewrite strchr_mem by side. cbn [bind].
  destruct (after AT (before SLASH j)) as [d|] eqn:E.
  - rewrite strdup_mem; [| assumption | apply (after_len _ _ _ E)]. cbn [bind].
    rewrite (skipn_before _ _ _ E). apply ret_cstr. apply (nul_free_after _ _ _ Hb E).
  - rewrite strdup0 by assumption. cbn [bind]. apply ret_cstr. assumption.
Qed.

(* ------------------------------------------------------------------------- *)
(* 5. xmpp_jid_new                                                           *)
(* ------------------------------------------------------------------------- *)

Lemma memcpy_str : forall pre s t k doff,
  length pre = doff ->
  m_memcpy (map Some pre ++ alloc (length s + k)) doff (mem s t) 0 (length s) =
  Some (map Some (pre ++ s) ++ alloc k).
Proof.
  intros pre s t k doff H.
  rewrite memcpy_alloc by (rewrite ?map_length, ?mem_length; lia).
  cbn [skipn]. rewrite firstn_mem by lia. rewrite firstn_all, map_app, app_assoc. reflexivity.
Qed.

Lemma memcpy_str0 : forall s t k,
  m_memcpy (alloc (length s + k)) 0 (mem s t) 0 (length s) = Some (map Some s ++ alloc k).
Proof. intros. apply (memcpy_str [] s t k 0%nat). reflexivity. Qed.

Lemma store_str : forall pre k off v,
  length pre = off ->
  m_store (map Some pre ++ alloc (1 + k)) off v = Some (map Some (pre ++ [v]) ++ alloc k).
Proof.
  intros pre k off v H. change (alloc (1 + k)) with (@None Z :: alloc k).
  rewrite store_at by (rewrite map_length; assumption).
  rewrite map_app, <- app_assoc. reflexivity.
Qed.

Lemma ret_built : forall w, nul_free w ->
  oret (Some (Some (map Some (w ++ [0]) ++ alloc 0))) = JStr w.
Proof.
  intros w H. rewrite map_app. cbn [map alloc repeat]. rewrite app_nil_r.
  change (map Some w ++ [Some 0]) with (mem w []). cbn [oret].
  rewrite string_mem by assumption. reflexivity.
Qed.

Lemma gtb_max : forall a m, (a >? m) = negb (a <=? m).
Proof. intros. destruct (a >? m) eqn:E1, (a <=? m) eqn:E2; cbn [negb]; lia. Qed.

Lemma gtb_max1 : forall l m, (Z.of_nat (l + 1) >? m + 1) = negb (Z.of_nat l <=? m).
Proof. intros. destruct (Z.of_nat (l + 1) >? m + 1) eqn:E1, (Z.of_nat l <=? m) eqn:E2; cbn [negb]; lia. Qed.

Lemma gtb_zero : (Z.of_nat 0 >? spec_part_max + 1) = false.
Proof. reflexivity. Qed.

Ltac lenside := rewrite ?app_length, ?map_length; cbn [length]; lia.
Ltac chain :=
  repeat (first [ rewrite memcpy_str0
                | rewrite memcpy_str by lenside
                | rewrite store_str by lenside ]; cbn [bind]).

Lemma nul_free_join : forall n d r,
  nul_free_opt n -> nul_free d -> nul_free_opt r -> nul_free (spec_join n d r).
Proof.
  intros n d r Hn Hd Hr. unfold spec_join.
  apply nul_free_app. split.
  - destruct n as [n|]; [|intros []]. apply nul_free_app. split; [exact Hn|].
    apply nul_free_cons. split; [apply AT_nz | intros []].
  - apply nul_free_app. split; [exact Hd|].
    destruct r as [r|]; [|intros []]. apply nul_free_cons. split; [apply SLASH_nz | exact Hr].
Qed.

Lemma jid_new_eq : forall n d r,
  nul_free_opt n -> nul_free d -> nul_free_opt r ->
  jid_new n (Some d) r =
  if spec_new_ok n (Some d) r then JStr (spec_join n d r) else JNull.
Proof.
  intros n d r Hn Hd Hr.
  pose proof (nul_free_join n d r Hn Hd Hr) as Hj.
  unfold jid_new, spec_new_ok, len_ok, zlen.
  rewrite dlen_max_eq, nlen_max_eq, rlen_max_eq, forbidden_eq, new_at_eq, new_slash_eq.
  rewrite !cstr_mem. rewrite strlen_mem by assumption. cbn [bind].
  rewrite gtb_max.
  destruct n as [n|]; destruct r as [r|]; cbn [nul_free_opt] in *;
    rewrite ?cstr_mem; rewrite ?strlen_mem by assumption; cbn [bind];
    rewrite ?gtb_max1, ?gtb_zero.
  - (* node, resource *)
    destruct (Z.of_nat (length d) <=? spec_part_max); cbn [negb andb]; [|reflexivity].
    destruct (Z.of_nat (length n) <=? spec_part_max); cbn [negb andb]; [|reflexivity].
    destruct (Z.of_nat (length r) <=? spec_part_max); cbn [negb andb]; [|reflexivity].
    rewrite strcspn_mem by assumption. cbn [bind]. rewrite !Nat.add_sub, span_full.
    change (forallb _ n) with (local_ok n).
    destruct (local_ok n); cbn [negb]; [|reflexivity].
    replace (length n + 1 + length d + (length r + 1) + 1)%nat
      with (length n + (1 + (length d + (1 + (length r + (1 + 0))))))%nat by lia.
    chain.
    rewrite ret_built; [f_equal; unfold spec_join; rewrite <- ?app_assoc; reflexivity|].
    revert Hj. unfold spec_join. rewrite <- ?app_assoc. exact (fun x => x).
  - (* node only *)
    destruct (Z.of_nat (length d) <=? spec_part_max); cbn [negb andb]; [|reflexivity].
    destruct (Z.of_nat (length n) <=? spec_part_max); cbn [negb andb]; [|reflexivity].
    rewrite strcspn_mem by assumption. cbn [bind]. rewrite !Nat.add_sub, span_full.
    change (forallb _ n) with (local_ok n).
    destruct (local_ok n); cbn [negb]; [|reflexivity].
    replace (length n + 1 + length d + 0 + 1)%nat
      with (length n + (1 + (length d + (1 + 0))))%nat by lia.
    replace (length n + 1 + length d + 0)%nat with (length n + 1 + length d)%nat by lia.
    chain.
    rewrite ret_built; [f_equal; unfold spec_join; rewrite <- ?app_assoc, ?app_nil_r; reflexivity|].
    revert Hj. unfold spec_join. rewrite <- ?app_assoc, ?app_nil_r. exact (fun x => x).
  - (* resource only *)
    destruct (Z.of_nat (length d) <=? spec_part_max); cbn [negb andb]; [|reflexivity].
    destruct (Z.of_nat (length r) <=? spec_part_max); cbn [negb andb]; [|reflexivity].
    rewrite !Nat.add_sub. cbn [Nat.add].
    replace (length d + (length r + 1) + 1)%nat
      with (length d + (1 + (length r + (1 + 0))))%nat by lia.
    chain.
    rewrite ret_built; [f_equal; unfold spec_join; cbn [app]; rewrite <- ?app_assoc; reflexivity|].
    revert Hj. unfold spec_join. cbn [app]. rewrite <- ?app_assoc. exact (fun x => x).
  - (* domain only *)
    destruct (Z.of_nat (length d) <=? spec_part_max); cbn [negb andb]; [|reflexivity].
    cbn [Nat.add].
    replace (length d + 0 + 1)%nat with (length d + (1 + 0))%nat by lia.
    replace (length d + 0)%nat with (length d) by lia.
    chain.
    rewrite ret_built; [f_equal; unfold spec_join; cbn [app]; rewrite ?app_nil_r; reflexivity|].
    revert Hj. unfold spec_join. cbn [app]. rewrite ?app_nil_r. exact (fun x => x).
Qed.

(* ------------------------------------------------------------------------- *)
(* 6. The property statements                                                *)
(* ------------------------------------------------------------------------- *)

Lemma spec_bare_resource : forall j,
  spec_bare j ++ (match spec_resource j with Some r => SLASH :: r | None => [] end) = j.
Proof.
  intros j. unfold spec_bare, spec_resource.
  destruct (after SLASH j) as [r|] eqn:E.
  - symmetry. apply after_split. exact E.
  - rewrite (after_none_before _ _ E). apply app_nil_r.
Qed.

Lemma spec_node_domain : forall j,
  (match spec_node j with Some n => n ++ [AT] | None => [] end) ++ spec_domain j = spec_bare j.
Proof.
  intros j. unfold spec_node, spec_domain.
  destruct (after AT (spec_bare j)) as [d|] eqn:E.
  - rewrite <- app_assoc. cbn [app]. symmetry. apply after_split. exact E.
  - reflexivity.
Qed.

Lemma spec_parts_rebuild : forall j,
  spec_join (spec_node j) (spec_domain j) (spec_resource j) = j.
Proof.
  intros j. unfold spec_join. rewrite app_assoc, spec_node_domain. apply spec_bare_resource.
Qed.

(* joining the returned parts reproduces the string *)
Lemma parts_rebuild : forall j, nul_free j ->
  exists n d r,
    jid_node j = ostr n /\ jid_domain j = JStr d /\ jid_resource j = ostr r /\
    spec_join n d r = j.
Proof.
  intros j H. exists (spec_node j), (spec_domain j), (spec_resource j).
  repeat split.
  - apply jid_node_eq; assumption.
  - apply jid_domain_eq; assumption.
  - apply jid_resource_eq; assumption.
  - apply spec_parts_rebuild.
Qed.

(* the four helpers are the RFC 7622 section 3.2 split *)
Lemma split_is_rfc7622 : forall j, nul_free j ->
  jid_bare j = JStr (spec_bare j) /\ jid_node j = ostr (spec_node j) /\
  jid_domain j = JStr (spec_domain j) /\ jid_resource j = ostr (spec_resource j).
Proof.
  intros j H. repeat split.
  - apply jid_bare_eq; assumption.
  - apply jid_node_eq; assumption.
  - apply jid_domain_eq; assumption.
  - apply jid_resource_eq; assumption.
Qed.

(* the bare JID is the string without its resource *)
Lemma bare_is_prefix : forall j, nul_free j ->
  exists b,
    jid_bare j = JStr b /\
    ((jid_resource j = JNull /\ b = j) \/
     (exists r, jid_resource j = JStr r /\ b ++ SLASH :: r = j)).
Proof.
  intros j H. exists (spec_bare j). split; [apply jid_bare_eq; assumption|].
  rewrite (jid_resource_eq j H). pose proof (spec_bare_resource j) as E.
  destruct (spec_resource j) as [r|]; cbn [ostr].
  - right. exists r. split; [reflexivity | exact E].
  - left. split; [reflexivity|]. rewrite app_nil_r in E. exact E.
Qed.

(* the resource is everything after the first '/', and there is none without a '/' *)
Lemma resource_after_first_slash : forall j, nul_free j ->
  (forall p r, j = p ++ SLASH :: r -> ~ In SLASH p -> jid_resource j = JStr r) /\
  (~ In SLASH j -> jid_resource j = JNull).
Proof.
  intros j H. rewrite (jid_resource_eq j H). unfold spec_resource. split.
  - intros p r -> Hp. rewrite after_app by assumption. reflexivity.
  - intros Hn. rewrite after_notin by assumption. reflexivity.
Qed.

(* b is what precedes the first '/' of j (all of j if there is none) *)
Definition bare_part (j b : list Z) : Prop :=
  (~ In SLASH j /\ b = j) \/ (exists r, j = b ++ SLASH :: r /\ ~ In SLASH b).

Lemma bare_part_spec : forall j b, bare_part j b -> spec_bare j = b.
Proof.
  intros j b [[Hn ->]|[r [-> Hb]]]; unfold spec_bare.
  - apply before_id. assumption.
  - apply before_app. assumption.
Qed.

(* the node is everything before the first '@' of the part before the first '/', the
   domain what follows that '@'; without an '@' there is no node and that part is the domain *)
Lemma node_before_first_at : forall j b, nul_free j -> bare_part j b ->
  jid_bare j = JStr b /\
  (forall n d, b = n ++ AT :: d -> ~ In AT n -> jid_node j = JStr n /\ jid_domain j = JStr d) /\
  (~ In AT b -> jid_node j = JNull /\ jid_domain j = JStr b).
Proof.
  intros j b H Hb. apply bare_part_spec in Hb.
  rewrite (jid_bare_eq j H), (jid_node_eq j H), (jid_domain_eq j H).
  unfold spec_node, spec_domain. rewrite Hb. split; [reflexivity|]. split.
  - intros n d -> Hn. rewrite after_app, before_app by assumption. split; reflexivity.
  - intros Hn. rewrite after_notin by assumption. split; reflexivity.
Qed.

(* splitting an address built from well-formed parts *)
Lemma spec_split_join : forall n d r,
  chars_free [SLASH; AT] n -> ~ In SLASH d -> ~ In AT d ->
  spec_bare (spec_join n d r) = spec_join n d None /\
  spec_resource (spec_join n d r) = r /\
  spec_node (spec_join n d r) = n /\
  spec_domain (spec_join n d r) = d.
Proof.
  intros n d r Hn Hd1 Hd2.
  assert (Hpre : ~ In SLASH ((match n with Some n => n ++ [AT] | None => [] end) ++ d)).
  { rewrite in_app_iff. intros [Hi|Hi]; [|exact (Hd1 Hi)].
    destruct n as [l|]; [|exact Hi]. apply in_app_iff in Hi. destruct Hi as [Hi|Hi].
    - apply (Hn _ Hi). left. reflexivity.
    - destruct Hi as [Hi|[]]. discriminate Hi. }
  assert (Hb : spec_bare (spec_join n d r) = spec_join n d None).
  { unfold spec_bare, spec_join. rewrite !app_assoc. rewrite app_nil_r.
    destruct r as [r|].
    - apply before_app. exact Hpre.
    - rewrite app_nil_r. apply before_id. exact Hpre. }
  split; [exact Hb|]. split.
  - unfold spec_resource, spec_join. rewrite !app_assoc. destruct r as [r|].
    + apply after_app. exact Hpre.
    + rewrite app_nil_r. apply after_notin. exact Hpre.
  - unfold spec_node, spec_domain. rewrite Hb. unfold spec_join. rewrite app_nil_r.
    destruct n as [l|].
    + assert (Hl : ~ In AT l) by (intro Hi; apply (Hn _ Hi); right; left; reflexivity).
      rewrite <- app_assoc. cbn [app]. rewrite after_app, before_app by assumption.
      split; reflexivity.
    + cbn [app]. rewrite after_notin by assumption. split; reflexivity.
Qed.

Lemma local_ok_free : forall l,
  (forall c, In c l -> ~ In c spec_forbidden) -> local_ok l = true.
Proof.
  intros l H. unfold local_ok. apply forallb_forall. intros c Hc.
  destruct (is_forbidden c) eqn:E; [|reflexivity]. exfalso.
  unfold is_forbidden in E. apply existsb_exists in E. destruct E as [x [Hx Ex]].
  apply Z.eqb_eq in Ex. subst x. exact (H c Hc Hx).
Qed.

Lemma local_ok_bad : forall l c, In c l -> In c spec_forbidden -> local_ok l = false.
Proof.
  intros l c Hc Hf. destruct (local_ok l) eqn:E; [|reflexivity]. exfalso.
  unfold local_ok in E. rewrite forallb_forall in E. specialize (E c Hc).
  assert (is_forbidden c = true) as Ef.
  { unfold is_forbidden. apply existsb_exists. exists c. split; [exact Hf | apply Z.eqb_refl]. }
  rewrite Ef in E. discriminate.
Qed.

Lemma len_ok_le : forall o, opt_len_le o 1023 -> len_ok o = true.
Proof. intros [s|] H; cbn [len_ok opt_len_le] in *; [|reflexivity]. unfold spec_part_max. lia. Qed.

Lemma len_ok_gt : forall o, opt_len_gt o 1023 -> len_ok o = false.
Proof. intros [s|] H; cbn [len_ok opt_len_gt] in *; [|contradiction]. unfold spec_part_max. lia. Qed.

Lemma new_split : forall n d r,
  nul_free_opt n -> nul_free d -> nul_free_opt r ->
  chars_free [34; 38; 39; 47; 58; 60; 62; 64] n ->
  ~ In 47 d -> ~ In 64 d ->
  opt_len_le n 1023 -> zlen d <= 1023 -> opt_len_le r 1023 ->
  exists j,
    jid_new n (Some d) r = JStr j /\ j = spec_join n d r /\
    jid_node j = ostr n /\ jid_domain j = JStr d /\ jid_resource j = ostr r /\
    jid_bare j = JStr (spec_join n d None).
Proof.
  intros n d r Hn Hd Hr Hf Hd1 Hd2 Ln Ld Lr.
  exists (spec_join n d r).
  pose proof (nul_free_join n d r Hn Hd Hr) as Hj.
  assert (Hok : spec_new_ok n (Some d) r = true).
  { unfold spec_new_ok. rewrite (len_ok_le n Ln), (len_ok_le r Lr), (len_ok_le (Some d) Ld).
    cbn [andb]. destruct n as [l|]; [|reflexivity]. apply local_ok_free. exact Hf. }
  assert (Hf2 : chars_free [SLASH; AT] n).
  { destruct n as [l|]; [|exact I]. intros c Hc [E|[E|[]]]; apply (Hf c Hc); subst c.
    - right; right; right; left; reflexivity.
    - do 7 right; left; reflexivity. }
  destruct (spec_split_join n d r Hf2 Hd1 Hd2) as [Sb [Sr [Sn Sd]]].
  rewrite (jid_new_eq n d r Hn Hd Hr), Hok.
  rewrite (jid_node_eq _ Hj), (jid_domain_eq _ Hj), (jid_resource_eq _ Hj), (jid_bare_eq _ Hj).
  rewrite Sb, Sr, Sn, Sd. repeat split; reflexivity.
Qed.

Lemma new_refuses : forall n d r,
  nul_free_opt n -> nul_free_opt d -> nul_free_opt r ->
  d = None \/
  (exists l c, n = Some l /\ In c l /\ In c [34; 38; 39; 47; 58; 60; 62; 64]) \/
  opt_len_gt n 1023 \/ opt_len_gt d 1023 \/ opt_len_gt r 1023 ->
  jid_new n d r = JNull.
Proof.
  intros n d r Hn Hd Hr H.
  destruct d as [d|]; [|reflexivity].
  rewrite (jid_new_eq n d r Hn Hd Hr).
  replace (spec_new_ok n (Some d) r) with false; [reflexivity|]. symmetry.
  unfold spec_new_ok.
  destruct H as [H|[H|[H|[H|H]]]].
  - discriminate H.
  - destruct H as [l [c [-> [Hc Hf]]]]. rewrite (local_ok_bad l c Hc Hf). apply andb_false_r.
  - rewrite (len_ok_gt n H). rewrite andb_false_r. reflexivity.
  - rewrite (len_ok_gt (Some d) H). reflexivity.
  - rewrite (len_ok_gt r H). rewrite andb_false_r. reflexivity.
Qed.

(* complete description of xmpp_jid_new on C strings *)
Lemma new_decides : forall n d r,
  nul_free_opt n -> nul_free_opt d -> nul_free_opt r ->
  jid_new n d r =
  match d with
  | Some dd => if spec_new_ok n d r then JStr (spec_join n dd r) else JNull
  | None => JNull
  end.
Proof.
  intros n [d|] r Hn Hd Hr; [|reflexivity]. apply jid_new_eq; assumption.
Qed.

(* the model never leaves a block and never reads an unwritten cell *)
Lemma no_oob : forall j, nul_free j ->
  jid_bare j <> JOOB /\ jid_node j <> JOOB /\ jid_domain j <> JOOB /\ jid_resource j <> JOOB.
Proof.
  intros j H.
  rewrite (jid_bare_eq j H), (jid_node_eq j H), (jid_domain_eq j H), (jid_resource_eq j H).
  repeat split; try discriminate; [destruct (spec_node j) | destruct (spec_resource j)]; discriminate.
Qed.

Lemma new_no_oob : forall n d r,
  nul_free_opt n -> nul_free_opt d -> nul_free_opt r -> jid_new n d r <> JOOB.
Proof.
  intros n d r Hn Hd Hr. rewrite (new_decides n d r Hn Hd Hr).
  destruct d; [destruct (spec_new_ok _ _ _)|]; discriminate.
Qed.

(* ------------------------------------------------------------------------- *)
(* 7. The hypotheses of the statements are satisfiable (and the odd inputs)  *)
(* ------------------------------------------------------------------------- *)

(* "a@b/c@d/e" *)
Example ex_split :
  let j := [97; 64; 98; 47; 99; 64; 100; 47; 101] in
  nul_free j /\ jid_bare j = JStr [97; 64; 98] /\ jid_node j = JStr [97] /\
  jid_domain j = JStr [98] /\ jid_resource j = JStr [99; 64; 100; 47; 101] /\
  bare_part j [97; 64; 98].
Proof.
  cbv zeta. split; [unfold nul_free; cbn [In]; lia|].
  repeat split; try (vm_compute; reflexivity).
  right. exists [99; 64; 100; 47; 101]. split; [reflexivity|]. cbn [In]. unfold SLASH. lia.
Qed.

(* "@d"  "n@"  "/r"  ""  "a@b/" : empty parts are returned as empty strings, absent ones as NULL *)
Example ex_odd :
  (jid_node [64; 100] = JStr [] /\ jid_domain [64; 100] = JStr [100] /\ jid_resource [64; 100] = JNull) /\
  (jid_node [110; 64] = JStr [110] /\ jid_domain [110; 64] = JStr [] /\ jid_resource [110; 64] = JNull) /\
  (jid_node [47; 114] = JNull /\ jid_domain [47; 114] = JStr [] /\ jid_resource [47; 114] = JStr [114] /\
   jid_bare [47; 114] = JStr []) /\
  (jid_node [] = JNull /\ jid_domain [] = JStr [] /\ jid_resource [] = JNull /\ jid_bare [] = JStr []) /\
  (jid_node [97; 64; 98; 47] = JStr [97] /\ jid_domain [97; 64; 98; 47] = JStr [98] /\
   jid_resource [97; 64; 98; 47] = JStr [] /\ jid_bare [97; 64; 98; 47] = JStr [97; 64; 98]).
Proof. vm_compute. repeat split. Qed.

(* parts of exactly 1023 bytes are accepted, 1024 refused *)
Example ex_new_limits :
  let p := repeat 97 (Z.to_nat 1023) in
  let q := repeat 97 (Z.to_nat 1024) in
  jid_new (Some p) (Some p) (Some p) = JStr (p ++ [64] ++ p ++ [47] ++ p) /\
  jid_new (Some q) (Some p) (Some p) = JNull /\
  jid_new (Some p) (Some q) (Some p) = JNull /\
  jid_new (Some p) (Some p) (Some q) = JNull /\
  jid_new None None None = JNull /\
  jid_new (Some [97; 58]) (Some [98]) None = JNull.
Proof. vm_compute. repeat split. Qed.

Example ex_new_hyps :
  let n := Some [110] in let d := [100] in let r := Some [114] in
  nul_free_opt n /\ nul_free d /\ nul_free_opt r /\
  chars_free [34; 38; 39; 47; 58; 60; 62; 64] n /\ ~ In 47 d /\ ~ In 64 d /\
  opt_len_le n 1023 /\ zlen d <= 1023 /\ opt_len_le r 1023.
Proof.
  cbv zeta. unfold nul_free_opt, nul_free, chars_free, opt_len_le, zlen. cbn [In length].
  repeat split; lia.
Qed.

Example ex_refuse_hyps :
  (exists l c, Some [97; 58] = Some l /\ In c l /\ In c [34; 38; 39; 47; 58; 60; 62; 64]) /\
  opt_len_gt (Some (repeat 97 (Z.to_nat 1024))) 1023.
Proof.
  split.
  - exists [97; 58], 58. cbn [In]. repeat split; auto 10.
  - unfold opt_len_gt, zlen. rewrite repeat_length. lia.
Qed.
