(* Frame ("what does this model function leave alone / what may it add") lemmas for the
   connection automaton NegModel, used by Proofs/NegProofs_C02.v.  Only the Coq standard library.

   Organisation
   - tactics that split ONE `if`/`match` at a time;
   - field tags `fld`, `frame chg s s'` = every tagged field not in `chg` is equal in s and s'
     (list-valued fields are compared through their projections wq/hk/ik/sw);
   - `eff chg Pw Ph Pi s s'` = frame + "every element appended to the send queue satisfies Pw or
     comes from the SM queue" + "every new stanza handler satisfies Ph" + "every new id handler
     satisfies Pi" + "the SM queue only shrinks";
   - one `eff` lemma per model function, combined with eff_trans / eff_weaken;
   - what a function can emit (`quiet`): no OWire, and no OTlsStart when TLS is disabled. *)
Require Import LV.Common.Bytes LV.Gen.Gen_neg LV.Model.NegState LV.Model.NegModel LV.Spec.NegSpec.
Local Open Scope Z_scope.

(* ------------------------------------------------------------------ tactics *)
Ltac break_if :=
  match goal with
  | |- context [if ?b then _ else _] => destruct b eqn:?
  end.
Ltac break_match :=
  match goal with
  | |- context [match ?x with _ => _ end] => destruct x eqn:?
  end.
Ltac break_let :=
  match goal with
  | |- context [let '(_, _) := ?x in _] => destruct x eqn:?
  end.
Ltac break_if_in H :=
  match type of H with
  | context [if ?b then _ else _] => destruct b eqn:?
  end.
Ltac break_match_in H :=
  match type of H with
  | context [match ?x with _ => _ end] => destruct x eqn:?
  end.
Ltac inv H := inversion H; subst; clear H.

(* ------------------------------------------------------------------ decidable equalities reflect *)
Lemma mech_eqb_eq a b : mech_eqb a b = true <-> a = b.
Proof.
  destruct a, b; simpl; split; intro H; try discriminate; try reflexivity.
  - apply Nat.eqb_eq in H. congruence.
  - inv H. apply Nat.eqb_refl.
Qed.
Lemma mech_eqb_refl a : mech_eqb a a = true.
Proof. apply mech_eqb_eq. reflexivity. Qed.

Lemma hkind_eqb_eq a b : hkind_eqb a b = true <-> a = b.
Proof.
  destruct a, b; simpl; split; intro H; try discriminate; try reflexivity.
  - apply mech_eqb_eq in H. congruence.
  - inv H. apply mech_eqb_refl.
  - apply andb_true_iff in H as [A B]. apply Nat.eqb_eq in A. apply Nat.eqb_eq in B. congruence.
  - inv H. rewrite !Nat.eqb_refl. reflexivity.
Qed.
Lemma hkind_eqb_refl a : hkind_eqb a a = true.
Proof. apply hkind_eqb_eq. reflexivity. Qed.

Lemma idk_eqb_eq a b : idk_eqb a b = true <-> a = b.
Proof. destruct a, b; simpl; split; intro H; try discriminate; reflexivity. Qed.

Lemma tkind_eqb_eq a b : tkind_eqb a b = true <-> a = b.
Proof. destruct a, b; simpl; split; intro H; try discriminate; reflexivity. Qed.

(* ------------------------------------------------------------------ projections of the list fields *)
Definition wq (s : state) : list welem := map (fun x => fst (fst x)) (sendq s).
Definition hk (s : state) : list hkind := map fst (handlers s).
Definition ik (s : state) : list idk := map fst (idhandlers s).
Definition tk (s : state) : list tkind := map (fun x => fst (fst x)) (timed s).
Definition sw (s : state) : list welem := map (fun x => fst (fst (fst x))) (smq s).
Definition live (s : state) : Prop := st s <> Disconnected.

Lemma h_has_In k s : h_has k s = true <-> In k (hk s).
Proof.
  unfold h_has, hk. rewrite existsb_exists. split.
  - intros [x [Hin He]]. apply hkind_eqb_eq in He. subst. apply in_map. exact Hin.
  - intro H. apply in_map_iff in H as [x [E Hin]]. exists x. split; [exact Hin|].
    apply hkind_eqb_eq. symmetry. exact E.
Qed.
Lemma id_has_In k s : id_has k s = true <-> In k (ik s).
Proof.
  unfold id_has, ik. rewrite existsb_exists. split.
  - intros [x [Hin He]]. apply idk_eqb_eq in He. subst. apply in_map. exact Hin.
  - intro H. apply in_map_iff in H as [x [E Hin]]. exists x. split; [exact Hin|].
    apply idk_eqb_eq. symmetry. exact E.
Qed.
Lemma timed_has_In k s : timed_has k s = true <-> In k (tk s).
Proof.
  unfold timed_has, tk. rewrite existsb_exists. split.
  - intros [x [Hin He]]. apply tkind_eqb_eq in He. subst. apply (in_map (fun x => fst (fst x))). exact Hin.
  - intro H. apply in_map_iff in H as [x [E Hin]]. exists x. split; [exact Hin|].
    apply tkind_eqb_eq. symmetry. exact E.
Qed.

Lemma map_filter_proj {A B} (f : A -> B) (p : B -> bool) (l : list A) :
  map f (filter (fun x => p (f x)) l) = filter p (map f l).
Proof.
  induction l as [|x r IH]; simpl; [reflexivity|].
  destruct (p (f x)); simpl; rewrite IH; reflexivity.
Qed.

(* ------------------------------------------------------------------ field tags and frames *)
Inductive fld : Type :=
| Fdis | Fmand | Flssl | Flauth | Ftyp | Fraw | Fcert | Fjnode | Fst | Fsec | Ftlsp | Ftlsf | Ftlss
| Fsasl | Fsme | Frp | Foh | Fps | Fh | Fid | Ft | Fsq | Fsmq | Fgs | Fgf | Fcr.

Definition fld_n (f : fld) : nat :=
  match f with
  | Fdis => 0 | Fmand => 1 | Flssl => 2 | Flauth => 3 | Ftyp => 4 | Fraw => 5 | Fcert => 6 | Fjnode => 7
  | Fst => 8 | Fsec => 9 | Ftlsp => 10 | Ftlsf => 11 | Ftlss => 12 | Fsasl => 13 | Fsme => 14 | Frp => 15
  | Foh => 16 | Fps => 17 | Fh => 18 | Fid => 19 | Ft => 20 | Fsq => 21 | Fsmq => 22 | Fgs => 23 | Fgf => 24
  | Fcr => 25
  end%nat.
Definition fmem (f : fld) (l : list fld) : bool := existsb (fun g => Nat.eqb (fld_n f) (fld_n g)) l.

Definition eq_on (f : fld) (s s' : state) : Prop :=
  match f with
  | Fdis => f_tls_disabled s' = f_tls_disabled s
  | Fmand => f_tls_mandatory s' = f_tls_mandatory s
  | Flssl => f_legacy_ssl s' = f_legacy_ssl s
  | Flauth => f_legacy_auth s' = f_legacy_auth s
  | Ftyp => typ s' = typ s
  | Fraw => is_raw s' = is_raw s
  | Fcert => cert_set s' = cert_set s
  | Fjnode => jid_node s' = jid_node s
  | Fst => st s' = st s
  | Fsec => secured s' = secured s
  | Ftlsp => tls_present s' = tls_present s
  | Ftlsf => tls_failed s' = tls_failed s
  | Ftlss => tls_support s' = tls_support s
  | Fsasl => sasl s' = sasl s
  | Fsme => sm_enabled s' = sm_enabled s
  | Frp => reset_parser s' = reset_parser s
  | Foh => oh s' = oh s
  | Fps => ps s' = ps s
  | Fh => hk s' = hk s
  | Fid => ik s' = ik s
  | Ft => tk s' = tk s
  | Fsq => sendq s' = sendq s
  | Fsmq => sw s' = sw s
  | Fgs => g_strong (gh s') = g_strong (gh s)
  | Fgf => g_feat_seen (gh s') = g_feat_seen (gh s)
  | Fcr => crashed s' = crashed s
  end.

Definition frame (chg : list fld) (s s' : state) : Prop := forall f, fmem f chg = false -> eq_on f s s'.

Lemma frame_refl c s : frame c s s.
Proof. intros f _. destruct f; reflexivity. Qed.
Lemma eq_on_trans f s s1 s2 : eq_on f s s1 -> eq_on f s1 s2 -> eq_on f s s2.
Proof. destruct f; cbn [eq_on]; congruence. Qed.
Lemma frame_trans c1 c2 s s1 s2 : frame c1 s s1 -> frame c2 s1 s2 -> frame (c1 ++ c2) s s2.
Proof.
  intros H1 H2 f Hf. unfold fmem in Hf. rewrite existsb_app in Hf. apply orb_false_iff in Hf as [A B].
  eapply eq_on_trans; [apply H1; exact A|apply H2; exact B].
Qed.
Lemma frame_weaken c c' s s' : (forall f, fmem f c' = false -> fmem f c = false) -> frame c s s' -> frame c' s s'.
Proof. intros W H f Hf. apply H. apply W. exact Hf. Qed.

(* a goal `frame [..] s (concrete setters applied to s)` *)
Ltac solve_frame :=
  let f := fresh "f" in let H := fresh "H" in
  intros f H; destruct f; try discriminate H; reflexivity.
(* side condition of frame_weaken / eff_weaken on concrete lists *)
Ltac solve_sub :=
  let f := fresh "f" in let H := fresh "H" in
  intros f H; destruct f; first [reflexivity | discriminate H].

(* all the equalities a frame hypothesis provides (chg must be a concrete list) *)
Ltac fr_one H t :=
  first [ let E := fresh "E" in assert (E := H t eq_refl); cbn [eq_on] in E | idtac ].
Ltac fr H :=
  fr_one H Fdis; fr_one H Fmand; fr_one H Flssl; fr_one H Flauth; fr_one H Ftyp; fr_one H Fraw; fr_one H Fcert;
  fr_one H Fjnode; fr_one H Fst; fr_one H Fsec; fr_one H Ftlsp; fr_one H Ftlsf; fr_one H Ftlss; fr_one H Fsasl;
  fr_one H Fsme; fr_one H Frp; fr_one H Foh; fr_one H Fps; fr_one H Fh; fr_one H Fid; fr_one H Ft; fr_one H Fsq;
  fr_one H Fsmq; fr_one H Fgs; fr_one H Fgf; fr_one H Fcr.

(* ------------------------------------------------------------------ effects *)
Definition DISC : list fld := [Fst; Ftlsp; Fsme].
Definition entry : Type := (welem * bool * bool)%type.

Record preds : Type := mkP {
  pw : entry -> Prop;       (* what may be appended to the send queue *)
  ph : hkind -> Prop;       (* which stanza handlers may be added *)
  pid : idk -> Prop;        (* which id handlers may be added *)
  pt : tkind -> Prop        (* which timed handlers may be added *)
}.
Definition pnone : preds := mkP (fun _ => False) (fun _ => False) (fun _ => False) (fun _ => False).
Definition pimp (p q : preds) : Prop :=
  (forall x, pw p x -> pw q x) /\ (forall x, ph p x -> ph q x) /\ (forall x, pid p x -> pid q x) /\ (forall x, pt p x -> pt q x).
Lemma pimp_refl p : pimp p p.
Proof. repeat split; auto. Qed.
Lemma pimp_none q : pimp pnone q.
Proof. repeat split; cbn; tauto. Qed.

Definition sq_ext (P : entry -> Prop) (s s' : state) : Prop :=
  exists l, sendq s' = sendq s ++ l /\ Forall (fun x => P x \/ In (fst (fst x)) (sw s)) l.
Definition h_sub (P : hkind -> Prop) (s s' : state) : Prop := forall k, In k (hk s') -> In k (hk s) \/ P k.
Definition i_sub (P : idk -> Prop) (s s' : state) : Prop := forall k, In k (ik s') -> In k (ik s) \/ P k.
Definition t_sub (P : tkind -> Prop) (s s' : state) : Prop := forall k, In k (tk s') -> In k (tk s) \/ P k.
Definition smq_sub (s s' : state) : Prop := forall w, In w (sw s') -> In w (sw s).

Record eff (c : list fld) (p : preds) (s s' : state) : Prop := mkEff {
  ef_U : frame (c ++ DISC) s s';
  ef_L : live s' -> frame c s s';
  ef_st : st s' = st s \/ st s' = Disconnected;
  ef_sme : fmem Fsme c = false -> sm_enabled s' = sm_enabled s \/ sm_enabled s' = false;
  ef_sq : sq_ext (pw p) s s';
  ef_h : h_sub (ph p) s s';
  ef_i : i_sub (pid p) s s';
  ef_t : t_sub (pt p) s s';
  ef_smq : smq_sub s s'
}.

Lemma fmem_app f a b : fmem f (a ++ b) = fmem f a || fmem f b.
Proof. unfold fmem. apply existsb_app. Qed.

Lemma sq_ext_same P s s' : sendq s' = sendq s -> sq_ext P s s'.
Proof. intro E. exists []. rewrite app_nil_r. split; [exact E|constructor]. Qed.
Lemma h_sub_same P s s' : hk s' = hk s -> h_sub P s s'.
Proof. intros E k H. left. rewrite <- E. exact H. Qed.
Lemma i_sub_same P s s' : ik s' = ik s -> i_sub P s s'.
Proof. intros E k H. left. rewrite <- E. exact H. Qed.
Lemma t_sub_same P s s' : tk s' = tk s -> t_sub P s s'.
Proof. intros E k H. left. rewrite <- E. exact H. Qed.
Lemma smq_sub_same s s' : sw s' = sw s -> smq_sub s s'.
Proof. intros E k H. rewrite <- E. exact H. Qed.

Lemma live_back s s' : st s' = st s \/ st s' = Disconnected -> live s' -> live s /\ st s' = st s.
Proof. unfold live. intros [A|A] L; [split; congruence|contradiction]. Qed.

Lemma eff_refl c p s : eff c p s s.
Proof.
  constructor; try (intros k H; auto; fail).
  - apply frame_refl.
  - intros _. apply frame_refl.
  - left. reflexivity.
  - intros _. left. reflexivity.
  - apply sq_ext_same. reflexivity.
Qed.

Lemma eff_trans c1 c2 p s s1 s2 : eff c1 p s s1 -> eff c2 p s1 s2 -> eff (c1 ++ c2) p s s2.
Proof.
  intros [U1 L1 S1 E1 [l1 [Q1 A1]] H1 I1 T1 M1] [U2 L2 S2 E2 [l2 [Q2 A2]] H2 I2 T2 M2]. constructor.
  - eapply frame_weaken; [|eapply frame_trans; [exact U1|exact U2]].
    intros f Hf. rewrite !fmem_app in *.
    destruct (fmem f c1), (fmem f c2), (fmem f DISC); simpl in *; congruence.
  - intros Lv. destruct (live_back _ _ S2 Lv) as [Lv1 _].
    eapply frame_trans; [apply L1; exact Lv1|apply L2; exact Lv].
  - destruct S2 as [A|A]; [rewrite A; exact S1|right; exact A].
  - intro Hf. rewrite fmem_app in Hf. apply orb_false_iff in Hf as [Fa Fb].
    destruct (E1 Fa) as [A|A], (E2 Fb) as [B|B]; try (right; congruence); left; congruence.
  - exists (l1 ++ l2). split.
    + rewrite Q2, Q1, app_assoc. reflexivity.
    + apply Forall_app. split; [exact A1|].
      eapply Forall_impl; [|exact A2]. intros w [A|A]; [left; exact A|right; apply M1; exact A].
  - intros k Hk. destruct (H2 k Hk) as [A|A]; [apply H1; exact A|right; exact A].
  - intros k Hk. destruct (I2 k Hk) as [A|A]; [apply I1; exact A|right; exact A].
  - intros k Hk. destruct (T2 k Hk) as [A|A]; [apply T1; exact A|right; exact A].
  - intros w Hw. apply M1, M2, Hw.
Qed.

Lemma eff_weaken c c' p q s s' :
  (forall f, fmem f c' = false -> fmem f c = false) -> pimp p q -> eff c p s s' -> eff c' q s s'.
Proof.
  intros W [WW [WH [WI WT]]] [U L S E [l [Q A]] H I T M]. constructor.
  - eapply frame_weaken; [|exact U]. intros f Hf. rewrite fmem_app in *.
    apply orb_false_iff in Hf as [X Y]. rewrite (W f X), Y. reflexivity.
  - intro Lv. eapply frame_weaken; [exact W|apply L; exact Lv].
  - exact S.
  - intro Hf. apply E. apply W. exact Hf.
  - exists l. split; [exact Q|]. eapply Forall_impl; [|exact A]. intros w [B|B]; [left; auto|right; exact B].
  - intros k Hk. destruct (H k Hk); auto.
  - intros k Hk. destruct (I k Hk); auto.
  - intros k Hk. destruct (T k Hk); auto.
  - exact M.
Qed.

(* sequencing with weakening to a common (c, p) *)
Lemma eff_seq c p c1 p1 c2 p2 s s1 s2 :
  eff c1 p1 s s1 -> eff c2 p2 s1 s2 ->
  (forall f, fmem f c = false -> fmem f (c1 ++ c2) = false) -> pimp p1 p -> pimp p2 p -> eff c p s s2.
Proof.
  intros A B W P1 P2. eapply eff_weaken; [exact W|apply pimp_refl|].
  eapply eff_trans; (eapply eff_weaken; [| |eassumption]; [intros f Hf; exact Hf|assumption]).
Qed.

(* an effect proved from a pure frame (no tagged list field changes, no disconnect) *)
Lemma eff_of_frame c p s s' :
  frame c s s' -> fmem Fsq c = false -> fmem Fh c = false -> fmem Fid c = false -> fmem Ft c = false ->
  fmem Fsmq c = false -> fmem Fst c = false -> (fmem Fsme c = false -> sm_enabled s' = sm_enabled s) ->
  eff c p s s'.
Proof.
  intros F A B C D E G Hs. constructor.
  - eapply frame_weaken; [|exact F]. intros f Hf. rewrite fmem_app in Hf. apply orb_false_iff in Hf. tauto.
  - intros _. exact F.
  - left. exact (F Fst G).
  - intro X. left. apply Hs. exact X.
  - apply sq_ext_same. exact (F Fsq A).
  - apply h_sub_same. exact (F Fh B).
  - apply i_sub_same. exact (F Fid C).
  - apply t_sub_same. exact (F Ft D).
  - apply smq_sub_same. exact (F Fsmq E).
Qed.
Ltac eff_frame :=
  apply eff_of_frame; [solve_frame|reflexivity|reflexivity|reflexivity|reflexivity|reflexivity|reflexivity|
                       first [intros _; reflexivity | let X := fresh in intro X; discriminate X]].

Lemma eff_mk c p s s' :
  frame c s s' -> fmem Fst c = false -> (fmem Fsme c = false -> sm_enabled s' = sm_enabled s) ->
  sq_ext (pw p) s s' -> h_sub (ph p) s s' -> i_sub (pid p) s s' -> t_sub (pt p) s s' -> smq_sub s s' ->
  eff c p s s'.
Proof.
  intros F G Hs A B C D E. constructor; try assumption.
  - eapply frame_weaken; [|exact F]. intros f Hf. rewrite fmem_app in Hf. apply orb_false_iff in Hf. tauto.
  - intros _. exact F.
  - left. exact (F Fst G).
  - intro X. left. apply Hs. exact X.
Qed.
Ltac sme_side := first [intros _; reflexivity | let X := fresh in intro X; discriminate X].
Ltac same_side :=
  first [apply sq_ext_same; reflexivity | apply h_sub_same; reflexivity | apply i_sub_same; reflexivity
        | apply t_sub_same; reflexivity | apply smq_sub_same; reflexivity].

Definition pW (P : entry -> Prop) : preds := mkP P (fun _ => False) (fun _ => False) (fun _ => False).
Definition pH (P : hkind -> Prop) : preds := mkP (fun _ => False) P (fun _ => False) (fun _ => False).
Definition pI (P : idk -> Prop) : preds := mkP (fun _ => False) (fun _ => False) P (fun _ => False).
Definition pT (P : tkind -> Prop) : preds := mkP (fun _ => False) (fun _ => False) (fun _ => False) P.

(* ------------------------------------------------------------------ primitive functions *)
Definition qa_entry (w : welem) (u m : bool) (s : state) : entry := (w, u, m || (negb u && negb (sm_enabled s))).

Lemma q_append_eff w u m s :
  eff [Fsq] (pW (fun x => x = qa_entry w u m s \/ x = (WReq, false, true))) s (q_append w u m s).
Proof.
  unfold q_append. cbv zeta. break_if.
  - apply eff_mk; [solve_frame|reflexivity|sme_side| |same_side..].
    exists [qa_entry w u m s; (WReq, false, true)]. split.
    + simpl. rewrite <- app_assoc. reflexivity.
    + repeat constructor; cbn; auto.
  - apply eff_mk; [solve_frame|reflexivity|sme_side| |same_side..].
    exists [qa_entry w u m s]. split; [reflexivity|]. repeat constructor; cbn; auto.
Qed.
Lemma send_gated_eff w u m s :
  eff [Fsq] (pW (fun x => x = qa_entry w u m s \/ x = (WReq, false, true))) s (send_gated w u m s).
Proof. unfold send_gated. break_if; [apply q_append_eff|apply eff_refl]. Qed.
Lemma send_raw_m_eff w u m s :
  eff [Fsq] (pW (fun x => x = qa_entry w u m s \/ x = (WReq, false, true))) s (send_raw_m w u m s).
Proof. unfold send_raw_m. break_match; try apply q_append_eff; apply eff_refl. Qed.
(* nothing is queued unless Connected *)
Lemma send_gated_off w u m s : st s <> Connected -> send_gated w u m s = s.
Proof. unfold send_gated, is_connected_owner. destruct (st s); try reflexivity. congruence. Qed.
Lemma send_raw_m_off w u m s : st s <> Connected -> send_raw_m w u m s = s.
Proof. unfold send_raw_m. destruct (st s); try reflexivity. congruence. Qed.

Lemma In_tk_timed_add k k' now s : In k' (tk (timed_add k now s)) <-> In k' (tk s) \/ k' = k.
Proof.
  unfold timed_add. destruct (timed_has k s) eqn:E.
  - split; [auto|]. intros [A|A]; [exact A|]. subst. apply timed_has_In. exact E.
  - unfold tk. simpl. intuition.
Qed.
Lemma timed_add_eff k now s : eff [Ft] (pT (fun x => x = k)) s (timed_add k now s).
Proof.
  apply eff_mk; [|reflexivity|sme_side| | | | |]; try (unfold timed_add; break_if; same_side).
  - unfold timed_add. break_if; [apply frame_refl|solve_frame].
  - intros k' H. apply In_tk_timed_add in H. exact H.
Qed.
Lemma In_tk_timed_del k k' s : In k' (tk (timed_del k s)) <-> In k' (tk s) /\ k' <> k.
Proof.
  unfold timed_del, tk. simpl.
  rewrite (map_filter_proj (fun x : tkind * bool * Z => fst (fst x)) (fun y => negb (tkind_eqb k y))). rewrite filter_In.
  split; intros [A B]; split; try exact A.
  - intro E. subst. assert (X : tkind_eqb k k = true) by (apply tkind_eqb_eq; reflexivity). rewrite X in B. discriminate.
  - destruct (tkind_eqb k k') eqn:E; [|reflexivity]. apply tkind_eqb_eq in E. congruence.
Qed.
Lemma timed_del_eff k s p : eff [Ft] p s (timed_del k s).
Proof.
  apply eff_mk; [unfold timed_del; solve_frame|reflexivity|sme_side|same_side|same_side|same_side| |same_side].
  intros k' H. apply In_tk_timed_del in H. left. tauto.
Qed.
Lemma timed_reset_all_eff now s p : eff [] p s (timed_reset_all now s).
Proof.
  apply eff_of_frame; try reflexivity; [|sme_side].
  intros f H; destruct f; try discriminate H; try reflexivity.
  unfold timed_reset_all, eq_on, tk. simpl. rewrite map_map. reflexivity.
Qed.
Lemma timed_set_stamp_eff k now s p : eff [] p s (timed_set_stamp k now s).
Proof.
  apply eff_of_frame; try reflexivity; [|sme_side].
  intros f H; destruct f; try discriminate H; try reflexivity.
  unfold timed_set_stamp, eq_on, tk. simpl. rewrite map_map. apply map_ext. intro a. break_if; reflexivity.
Qed.

Lemma In_hk_h_add k k' s : In k' (hk (h_add k s)) <-> In k' (hk s) \/ k' = k.
Proof.
  unfold h_add. destruct (h_has k s) eqn:E.
  - split; [auto|]. intros [A|A]; [exact A|]. subst. apply h_has_In. exact E.
  - unfold hk. simpl. rewrite map_app, in_app_iff. simpl. intuition.
Qed.
Lemma h_add_eff k s : eff [Fh] (pH (fun x => x = k)) s (h_add k s).
Proof.
  apply eff_mk; [|reflexivity|sme_side| | | | |]; try (unfold h_add; break_if; same_side).
  - unfold h_add. break_if; [apply frame_refl|solve_frame].
  - intros k' H. apply In_hk_h_add in H. exact H.
Qed.
Lemma In_hk_h_del k k' s : In k' (hk (h_del k s)) <-> In k' (hk s) /\ k' <> k.
Proof.
  unfold h_del, hk. simpl.
  rewrite (map_filter_proj (@fst hkind bool) (fun y => negb (hkind_eqb k y))). rewrite filter_In.
  split; intros [A B]; split; try exact A.
  - intro E. subst. rewrite hkind_eqb_refl in B. discriminate.
  - destruct (hkind_eqb k k') eqn:E; [|reflexivity]. apply hkind_eqb_eq in E. congruence.
Qed.
Lemma h_del_eff k s p : eff [Fh] p s (h_del k s).
Proof.
  apply eff_mk; [unfold h_del; solve_frame|reflexivity|sme_side|same_side| |same_side|same_side|same_side].
  intros k' H. apply In_hk_h_del in H. left. tauto.
Qed.
Lemma In_ik_id_add k k' s : In k' (ik (id_add k s)) <-> In k' (ik s) \/ k' = k.
Proof.
  unfold id_add. destruct (id_has k s) eqn:E.
  - split; [auto|]. intros [A|A]; [exact A|]. subst. apply id_has_In. exact E.
  - unfold ik. simpl. rewrite map_app, in_app_iff. simpl. intuition.
Qed.
Lemma id_add_eff k s : eff [Fid] (pI (fun x => x = k)) s (id_add k s).
Proof.
  apply eff_mk; [|reflexivity|sme_side| | | | |]; try (unfold id_add; break_if; same_side).
  - unfold id_add. break_if; [apply frame_refl|solve_frame].
  - intros k' H. apply In_ik_id_add in H. exact H.
Qed.
Lemma In_ik_id_del k k' s : In k' (ik (id_del k s)) -> In k' (ik s).
Proof.
  unfold id_del, ik. simpl.
  rewrite (map_filter_proj (@fst idk bool) (fun y => negb (idk_eqb k y))). rewrite filter_In. tauto.
Qed.
Lemma id_del_eff k s p : eff [Fid] p s (id_del k s).
Proof.
  apply eff_mk; [unfold id_del; solve_frame|reflexivity|sme_side|same_side|same_side| |same_side|same_side].
  intros k' H. left. eapply In_ik_id_del. exact H.
Qed.
