(* Frame ("what does this model function leave alone / what may it add") lemmas for the
   connection automaton NegModel, used by Proofs/NegProofs_C02.v.  Only the Coq standard library.

   Organisation
   - tactics that split ONE `if`/`match` at a time;
   - field tags `fld`, `frame chg s s'` = every tagged field not in `chg` is equal in s and s'
     (list-valued fields are compared through their projections wq/hk/ik/sw);
   - `eff chg Pw Ph Pi s s'` = frame + "every element appended to the send queue satisfies Pw or
     comes from the SM queue" + "every new stanza handler satisfies Ph" + "every new id handler
     satisfies Pi" + "the SM queue only shrinks";
   - one `eff` lemma per model function, combined with eff_trans / eff_weaken;
   - what a function can emit (`quiet`): no OWire, and no OTlsStart when TLS is disabled. *)
Require Import LV.Common.Bytes LV.Gen.Gen_neg LV.Model.NegState LV.Model.NegModel LV.Spec.NegSpec.
Local Open Scope Z_scope.

(* ------------------------------------------------------------------ tactics *)
Ltac break_if :=
  match goal with
  | |- context [if ?b then _ else _] => destruct b eqn:?
  end.
Ltac break_match :=
  match goal with
  | |- context [match ?x with _ => _ end] => destruct x eqn:?
  end.
Ltac break_let :=
  match goal with
  | |- context [let '(_, _) := ?x in _] => destruct x eqn:?
  end.
Ltac break_if_in H :=
  match type of H with
  | context [if ?b then _ else _] => destruct b eqn:?
  end.
Ltac break_match_in H :=
  match type of H with
  | context [match ?x with _ => _ end] => destruct x eqn:?
  end.
Ltac inv H := inversion H; subst; clear H.

(* ------------------------------------------------------------------ decidable equalities reflect *)
Lemma mech_eqb_eq a b : mech_eqb a b = true <-> a = b.
Proof.
  destruct a, b; simpl; split; intro H; try discriminate; try reflexivity.
  - apply Nat.eqb_eq in H. congruence.
  - inv H. apply Nat.eqb_refl.
Qed.
Lemma mech_eqb_refl a : mech_eqb a a = true.
Proof. apply mech_eqb_eq. reflexivity. Qed.

Lemma hkind_eqb_eq a b : hkind_eqb a b = true <-> a = b.
Proof.
  destruct a, b; simpl; split; intro H; try discriminate; try reflexivity.
  - apply mech_eqb_eq in H. congruence.
  - inv H. apply mech_eqb_refl.
  - apply andb_true_iff in H as [A B]. apply Nat.eqb_eq in A. apply Nat.eqb_eq in B. congruence.
  - inv H. rewrite !Nat.eqb_refl. reflexivity.
Qed.
Lemma hkind_eqb_refl a : hkind_eqb a a = true.
Proof. apply hkind_eqb_eq. reflexivity. Qed.

Lemma idk_eqb_eq a b : idk_eqb a b = true <-> a = b.
Proof. destruct a, b; simpl; split; intro H; try discriminate; reflexivity. Qed.

Lemma tkind_eqb_eq a b : tkind_eqb a b = true <-> a = b.
Proof. destruct a, b; simpl; split; intro H; try discriminate; reflexivity. Qed.

(* ------------------------------------------------------------------ projections of the list fields *)
Definition wq (s : state) : list welem := map (fun x => fst (fst x)) (sendq s).
Definition hk (s : state) : list hkind := map fst (handlers s).
(* the id handlers of the library; the user's (IKUser, xmpp_id_handler_add) is registered at any time, survives
   a reset and never takes part in the negotiation, so the invariants do not speak about it *)
Definition ik (s : state) : list idk := filter (fun k => negb (is_user_id k)) (map fst (idhandlers s)).
Definition tk (s : state) : list tkind := map (fun x => fst (fst x)) (timed s).
Definition sw (s : state) : list welem := map (fun x => fst (fst (fst x))) (smq s).
Definition live (s : state) : Prop := st s <> Disconnected.

Lemma h_has_In k s : h_has k s = true <-> In k (hk s).
Proof.
  unfold h_has, hk. rewrite existsb_exists. split.
  - intros [x [Hin He]]. apply hkind_eqb_eq in He. subst. apply in_map. exact Hin.
  - intro H. apply in_map_iff in H as [x [E Hin]]. exists x. split; [exact Hin|].
    apply hkind_eqb_eq. symmetry. exact E.
Qed.
Lemma id_has_In k s : is_user_id k = false -> (id_has k s = true <-> In k (ik s)).
Proof.
  intro U. unfold id_has, ik. rewrite existsb_exists, filter_In. split.
  - intros [x [Hin He]]. apply idk_eqb_eq in He. subst. split; [apply in_map; exact Hin|rewrite U; reflexivity].
  - intros [H _]. apply in_map_iff in H as [x [E Hin]]. exists x. split; [exact Hin|].
    apply idk_eqb_eq. symmetry. exact E.
Qed.
Lemma timed_has_In k s : timed_has k s = true <-> In k (tk s).
Proof.
  unfold timed_has, tk. rewrite existsb_exists. split.
  - intros [x [Hin He]]. apply tkind_eqb_eq in He. subst. apply (in_map (fun x => fst (fst x))). exact Hin.
  - intro H. apply in_map_iff in H as [x [E Hin]]. exists x. split; [exact Hin|].
    apply tkind_eqb_eq. symmetry. exact E.
Qed.

Lemma map_filter_proj {A B} (f : A -> B) (p : B -> bool) (l : list A) :
  map f (filter (fun x => p (f x)) l) = filter p (map f l).
Proof.
  induction l as [|x r IH]; simpl; [reflexivity|].
  destruct (p (f x)); simpl; rewrite IH; reflexivity.
Qed.

(* ------------------------------------------------------------------ field tags and frames *)
Inductive fld : Type :=
| Fdis | Fmand | Flssl | Flauth | Ftyp | Fraw | Fcert | Fjnode | Fst | Fsec | Ftlsp | Ftlsf | Ftlss
| Fsasl | Fsme | Frp | Foh | Fps | Fh | Fid | Ft | Fsq | Fsmq | Fgs | Fgf | Fcr
| FhD | FidD | Fdisc.   (* FhD / FidD: stanza / id handlers may be removed; Fdisc: may call conn_disconnect *)

Definition fld_n (f : fld) : nat :=
  match f with
  | Fdis => 0 | Fmand => 1 | Flssl => 2 | Flauth => 3 | Ftyp => 4 | Fraw => 5 | Fcert => 6 | Fjnode => 7
  | Fst => 8 | Fsec => 9 | Ftlsp => 10 | Ftlsf => 11 | Ftlss => 12 | Fsasl => 13 | Fsme => 14 | Frp => 15
  | Foh => 16 | Fps => 17 | Fh => 18 | Fid => 19 | Ft => 20 | Fsq => 21 | Fsmq => 22 | Fgs => 23 | Fgf => 24
  | Fcr => 25 | FhD => 26 | FidD => 27 | Fdisc => 28
  end%nat.
Definition fmem (f : fld) (l : list fld) : bool := existsb (fun g => Nat.eqb (fld_n f) (fld_n g)) l.

Definition eq_on (f : fld) (s s' : state) : Prop :=
  match f with
  | Fdis => f_tls_disabled s' = f_tls_disabled s
  | Fmand => f_tls_mandatory s' = f_tls_mandatory s
  | Flssl => f_legacy_ssl s' = f_legacy_ssl s
  | Flauth => f_legacy_auth s' = f_legacy_auth s
  | Ftyp => typ s' = typ s
  | Fraw => is_raw s' = is_raw s
  | Fcert => cert_set s' = cert_set s
  | Fjnode => jid_node s' = jid_node s
  | Fst => st s' = st s
  | Fsec => secured s' = secured s
  | Ftlsp => tls_present s' = tls_present s
  | Ftlsf => tls_failed s' = tls_failed s
  | Ftlss => tls_support s' = tls_support s
  | Fsasl => sasl s' = sasl s
  | Fsme => sm_enabled s' = sm_enabled s
  | Frp => reset_parser s' = reset_parser s
  | Foh => oh s' = oh s
  | Fps => ps s' = ps s
  | Fh => hk s' = hk s
  | Fid => ik s' = ik s
  | Ft => tk s' = tk s
  | Fsq => sendq s' = sendq s
  | Fsmq => sw s' = sw s
  | Fgs => g_strong (gh s') = g_strong (gh s)
  | Fgf => g_feat_seen (gh s') = g_feat_seen (gh s)
  | Fcr => crashed s' = crashed s
  | FhD => True
  | FidD => True
  | Fdisc => True
  end.

Definition frame (chg : list fld) (s s' : state) : Prop := forall f, fmem f chg = false -> eq_on f s s'.

Lemma frame_refl c s : frame c s s.
Proof. intros f _. destruct f; reflexivity. Qed.
Lemma eq_on_trans f s s1 s2 : eq_on f s s1 -> eq_on f s1 s2 -> eq_on f s s2.
Proof. destruct f; cbn [eq_on]; congruence. Qed.
Lemma frame_trans c1 c2 s s1 s2 : frame c1 s s1 -> frame c2 s1 s2 -> frame (c1 ++ c2) s s2.
Proof.
  intros H1 H2 f Hf. unfold fmem in Hf. rewrite existsb_app in Hf. apply orb_false_iff in Hf as [A B].
  eapply eq_on_trans; [apply H1; exact A|apply H2; exact B].
Qed.
Lemma frame_weaken c c' s s' : (forall f, fmem f c' = false -> fmem f c = false) -> frame c s s' -> frame c' s s'.
Proof. intros W H f Hf. apply H. apply W. exact Hf. Qed.

(* a goal `frame [..] s (concrete setters applied to s)` *)
Ltac solve_frame :=
  let f := fresh "f" in let H := fresh "H" in
  intros f H; destruct f; try discriminate H; reflexivity.
(* side condition of frame_weaken / eff_weaken on concrete lists, decided by computation *)
Definition all_flds : list fld :=
  [Fdis; Fmand; Flssl; Flauth; Ftyp; Fraw; Fcert; Fjnode; Fst; Fsec; Ftlsp; Ftlsf; Ftlss; Fsasl; Fsme; Frp; Foh; Fps;
   Fh; Fid; Ft; Fsq; Fsmq; Fgs; Fgf; Fcr; FhD; FidD; Fdisc].
Definition subl (c c' : list fld) : bool := forallb (fun f => fmem f c' || negb (fmem f c)) all_flds.
Lemma subl_ok c c' : subl c c' = true -> forall f, fmem f c' = false -> fmem f c = false.
Proof.
  unfold subl. rewrite forallb_forall. intros H f Hf.
  assert (I : In f all_flds) by (destruct f; simpl; tauto).
  specialize (H f I). rewrite Hf in H. simpl in H. destruct (fmem f c); [discriminate|reflexivity].
Qed.
Ltac solve_sub := apply subl_ok; vm_compute; reflexivity.

(* all the equalities a frame hypothesis provides (chg must be a concrete list) *)
Ltac fr_one H t :=
  first [ let E := fresh "E" in assert (E := H t eq_refl); cbn [eq_on] in E | idtac ].
Ltac fr H :=
  fr_one H Fdis; fr_one H Fmand; fr_one H Flssl; fr_one H Flauth; fr_one H Ftyp; fr_one H Fraw; fr_one H Fcert;
  fr_one H Fjnode; fr_one H Fst; fr_one H Fsec; fr_one H Ftlsp; fr_one H Ftlsf; fr_one H Ftlss; fr_one H Fsasl;
  fr_one H Fsme; fr_one H Frp; fr_one H Foh; fr_one H Fps; fr_one H Fh; fr_one H Fid; fr_one H Ft; fr_one H Fsq;
  fr_one H Fsmq; fr_one H Fgs; fr_one H Fgf; fr_one H Fcr.

(* ------------------------------------------------------------------ effects *)
Definition DISC : list fld := [Fst; Ftlsp; Fsme].
Definition entry : Type := (welem * bool * bool)%type.

Record preds : Type := mkP {
  pw : entry -> Prop;       (* what may be appended to the send queue *)
  ph : hkind -> Prop;       (* which stanza handlers may be added *)
  pid : idk -> Prop;        (* which id handlers may be added *)
  pt : tkind -> Prop        (* which timed handlers may be added *)
}.
Definition pnone : preds := mkP (fun _ => False) (fun _ => False) (fun _ => False) (fun _ => False).
Definition pimp (p q : preds) : Prop :=
  (forall x, pw p x -> pw q x) /\ (forall x, ph p x -> ph q x) /\ (forall x, pid p x -> pid q x) /\ (forall x, pt p x -> pt q x).
Lemma pimp_refl p : pimp p p.
Proof. repeat split; auto. Qed.
Lemma pimp_none q : pimp pnone q.
Proof. repeat split; cbn; tauto. Qed.

Definition sq_ext (P : entry -> Prop) (s s' : state) : Prop :=
  exists l, sendq s' = sendq s ++ l /\ Forall (fun x => P x \/ In (fst (fst x)) (sw s)) l.
Definition h_sub (P : hkind -> Prop) (s s' : state) : Prop := forall k, In k (hk s') -> In k (hk s) \/ P k.
Definition i_sub (P : idk -> Prop) (s s' : state) : Prop := forall k, In k (ik s') -> In k (ik s) \/ P k.
Definition t_sub (P : tkind -> Prop) (s s' : state) : Prop := forall k, In k (tk s') -> In k (tk s) \/ P k.
Definition smq_sub (s s' : state) : Prop := forall w, In w (sw s') -> In w (sw s).

Record eff (c : list fld) (p : preds) (s s' : state) : Prop := mkEff {
  ef_U : frame (c ++ DISC) s s';
  ef_L : live s' -> frame c s s';
  ef_st : st s' = st s \/ st s' = Disconnected;
  ef_sme : fmem Fsme c = false -> sm_enabled s' = sm_enabled s \/ sm_enabled s' = false;
  ef_sq : sq_ext (pw p) s s';
  ef_h : h_sub (ph p) s s';
  ef_i : i_sub (pid p) s s';
  ef_t : t_sub (pt p) s s';
  ef_smq : smq_sub s s';
  ef_hkeep : fmem FhD c = false -> forall x, In x (handlers s) -> In x (handlers s');
  ef_ikeep : fmem FidD c = false -> forall k, In k (ik s) -> In k (ik s');
  ef_cr : crashed s = true -> crashed s' = true;
  ef_sqoff : st s <> Connected -> sendq s' = sendq s;
  ef_nd : fmem Fdisc c = false -> st s' = st s
}.

Lemma fmem_app f a b : fmem f (a ++ b) = fmem f a || fmem f b.
Proof. unfold fmem. apply existsb_app. Qed.

Lemma sq_ext_same P s s' : sendq s' = sendq s -> sq_ext P s s'.
Proof. intro E. exists []. rewrite app_nil_r. split; [exact E|constructor]. Qed.
Lemma h_sub_same P s s' : hk s' = hk s -> h_sub P s s'.
Proof. intros E k H. left. rewrite <- E. exact H. Qed.
Lemma i_sub_same P s s' : ik s' = ik s -> i_sub P s s'.
Proof. intros E k H. left. rewrite <- E. exact H. Qed.
Lemma t_sub_same P s s' : tk s' = tk s -> t_sub P s s'.
Proof. intros E k H. left. rewrite <- E. exact H. Qed.
Lemma smq_sub_same s s' : sw s' = sw s -> smq_sub s s'.
Proof. intros E k H. rewrite <- E. exact H. Qed.

Lemma live_back s s' : st s' = st s \/ st s' = Disconnected -> live s' -> live s /\ st s' = st s.
Proof. unfold live. intros [A|A] L; [split; congruence|contradiction]. Qed.

Lemma eff_refl c p s : eff c p s s.
Proof.
  constructor; try (intros k H; auto; fail); try (intros _ k H; exact H); try (intros X; exact X); try (intros _; reflexivity).
  - apply frame_refl.
  - intros _. apply frame_refl.
  - left. reflexivity.
  - intros _. left. reflexivity.
  - apply sq_ext_same. reflexivity.
Qed.

Lemma eff_trans c1 c2 p s s1 s2 : eff c1 p s s1 -> eff c2 p s1 s2 -> eff (c1 ++ c2) p s s2.
Proof.
  intros [U1 L1 S1 E1 [l1 [Q1 A1]] H1 I1 T1 M1 HK1 IK1 C1 O1 N1] [U2 L2 S2 E2 [l2 [Q2 A2]] H2 I2 T2 M2 HK2 IK2 C2 O2 N2]. constructor.
  - eapply frame_weaken; [|eapply frame_trans; [exact U1|exact U2]].
    intros f Hf. rewrite !fmem_app in *.
    destruct (fmem f c1), (fmem f c2), (fmem f DISC); simpl in *; congruence.
  - intros Lv. destruct (live_back _ _ S2 Lv) as [Lv1 _].
    eapply frame_trans; [apply L1; exact Lv1|apply L2; exact Lv].
  - destruct S2 as [A|A]; [rewrite A; exact S1|right; exact A].
  - intro Hf. rewrite fmem_app in Hf. apply orb_false_iff in Hf as [Fa Fb].
    destruct (E1 Fa) as [A|A], (E2 Fb) as [B|B]; try (right; congruence); left; congruence.
  - exists (l1 ++ l2). split.
    + rewrite Q2, Q1, app_assoc. reflexivity.
    + apply Forall_app. split; [exact A1|].
      eapply Forall_impl; [|exact A2]. intros w [A|A]; [left; exact A|right; apply M1; exact A].
  - intros k Hk. destruct (H2 k Hk) as [A|A]; [apply H1; exact A|right; exact A].
  - intros k Hk. destruct (I2 k Hk) as [A|A]; [apply I1; exact A|right; exact A].
  - intros k Hk. destruct (T2 k Hk) as [A|A]; [apply T1; exact A|right; exact A].
  - intros w Hw. apply M1, M2, Hw.
  - intros Hf k Hk. rewrite fmem_app in Hf. apply orb_false_iff in Hf as [Fa Fb]. apply HK2; [exact Fb|]. apply HK1; assumption.
  - intros Hf k Hk. rewrite fmem_app in Hf. apply orb_false_iff in Hf as [Fa Fb]. apply IK2; [exact Fb|]. apply IK1; assumption.
  - intro X. apply C2, C1, X.
  - intro X. rewrite O2, O1; auto. destruct S1 as [Y|Y]; rewrite Y; [exact X|discriminate].
  - intro Hf. rewrite fmem_app in Hf. apply orb_false_iff in Hf as [Fa Fb]. rewrite (N2 Fb). exact (N1 Fa).
Qed.

Lemma eff_weaken c c' p q s s' :
  (forall f, fmem f c' = false -> fmem f c = false) -> pimp p q -> eff c p s s' -> eff c' q s s'.
Proof.
  intros W [WW [WH [WI WT]]] [U L S E [l [Q A]] H I T M HK IK C O N]. constructor.
  - eapply frame_weaken; [|exact U]. intros f Hf. rewrite fmem_app in *.
    apply orb_false_iff in Hf as [X Y]. rewrite (W f X), Y. reflexivity.
  - intro Lv. eapply frame_weaken; [exact W|apply L; exact Lv].
  - exact S.
  - intro Hf. apply E. apply W. exact Hf.
  - exists l. split; [exact Q|]. eapply Forall_impl; [|exact A]. intros w [B|B]; [left; auto|right; exact B].
  - intros k Hk. destruct (H k Hk); auto.
  - intros k Hk. destruct (I k Hk); auto.
  - intros k Hk. destruct (T k Hk); auto.
  - exact M.
  - intro Hf. apply HK. apply W. exact Hf.
  - intro Hf. apply IK. apply W. exact Hf.
  - exact C.
  - exact O.
  - intro Hf. apply N. apply W. exact Hf.
Qed.

(* sequencing with weakening to a common (c, p) *)
Lemma eff_seq c p c1 p1 c2 p2 s s1 s2 :
  eff c1 p1 s s1 -> eff c2 p2 s1 s2 ->
  (forall f, fmem f c = false -> fmem f (c1 ++ c2) = false) -> pimp p1 p -> pimp p2 p -> eff c p s s2.
Proof.
  intros A B W P1 P2. eapply eff_weaken; [exact W|apply pimp_refl|].
  eapply eff_trans; (eapply eff_weaken; [| |eassumption]; [intros f Hf; exact Hf|assumption]).
Qed.

(* an effect proved from a pure frame (no tagged list field changes, no disconnect) *)
Lemma eff_of_frame c p s s' :
  frame c s s' -> fmem Fsq c = false -> fmem Fh c = false -> fmem Fid c = false -> fmem Ft c = false ->
  fmem Fsmq c = false -> fmem Fst c = false -> (fmem Fsme c = false -> sm_enabled s' = sm_enabled s) ->
  (crashed s = true -> crashed s' = true) -> handlers s' = handlers s ->
  eff c p s s'.
Proof.
  intros F A B C D E G Hs Hc Hh. constructor.
  - eapply frame_weaken; [|exact F]. intros f Hf. rewrite fmem_app in Hf. apply orb_false_iff in Hf. tauto.
  - intros _. exact F.
  - left. exact (F Fst G).
  - intro X. left. apply Hs. exact X.
  - apply sq_ext_same. exact (F Fsq A).
  - apply h_sub_same. exact (F Fh B).
  - apply i_sub_same. exact (F Fid C).
  - apply t_sub_same. exact (F Ft D).
  - apply smq_sub_same. exact (F Fsmq E).
  - intros _ k Hk. rewrite Hh. exact Hk.
  - intros _ k Hk. pose proof (F Fid C) as X. cbn in X. rewrite X. exact Hk.
  - exact Hc.
  - intros _. exact (F Fsq A).
  - intros _. exact (F Fst G).
Qed.
Ltac eff_frame :=
  apply eff_of_frame; [solve_frame|reflexivity|reflexivity|reflexivity|reflexivity|reflexivity|reflexivity|
                       first [intros _; reflexivity | let X := fresh in intro X; discriminate X]|
                       first [intros _; reflexivity | let X := fresh in intro X; exact X]|reflexivity].

Lemma eff_mk c p s s' :
  frame c s s' -> fmem Fst c = false -> (fmem Fsme c = false -> sm_enabled s' = sm_enabled s) ->
  sq_ext (pw p) s s' -> h_sub (ph p) s s' -> i_sub (pid p) s s' -> t_sub (pt p) s s' -> smq_sub s s' ->
  (fmem FhD c = false -> forall x, In x (handlers s) -> In x (handlers s')) ->
  (fmem FidD c = false -> forall k, In k (ik s) -> In k (ik s')) ->
  fmem Fcr c = false -> (st s <> Connected -> sendq s' = sendq s) ->
  eff c p s s'.
Proof.
  intros F G Hs A B C D E HK IK Hc Ho. constructor; try assumption.
  - eapply frame_weaken; [|exact F]. intros f Hf. rewrite fmem_app in Hf. apply orb_false_iff in Hf. tauto.
  - intros _. exact F.
  - left. exact (F Fst G).
  - intro X. left. apply Hs. exact X.
  - intro X. pose proof (F Fcr Hc) as Y. cbn in Y. congruence.
  - intros _. exact (F Fst G).
Qed.
Ltac sme_side := first [intros _; reflexivity | let X := fresh in intro X; discriminate X].
Ltac same_side :=
  first [apply sq_ext_same; reflexivity | apply h_sub_same; reflexivity | apply i_sub_same; reflexivity
        | apply t_sub_same; reflexivity | apply smq_sub_same; reflexivity].

Ltac mk_auto :=
  apply eff_mk;
  try (solve_frame); try same_side; try (intros _; reflexivity); try reflexivity;
  try (let H := fresh in intros _ ? H; exact H);
  try (let X := fresh in intro X; discriminate X).
  (* leaves: the list-field goals that really change *)

Definition pW (P : entry -> Prop) : preds := mkP P (fun _ => False) (fun _ => False) (fun _ => False).
Definition pH (P : hkind -> Prop) : preds := mkP (fun _ => False) P (fun _ => False) (fun _ => False).
Definition pI (P : idk -> Prop) : preds := mkP (fun _ => False) (fun _ => False) P (fun _ => False).
Definition pT (P : tkind -> Prop) : preds := mkP (fun _ => False) (fun _ => False) (fun _ => False) P.

(* ------------------------------------------------------------------ primitive functions *)
Definition qa_entry (w : welem) (u m : bool) (s : state) : entry := (w, u, m || (negb u && negb (sm_enabled s))).

Lemma q_append_eff w u m s : st s = Connected ->
  eff [Fsq] (pW (fun x => x = qa_entry w u m s \/ x = (WReq, false, true))) s (q_append w u m s).
Proof.
  intro Hc. unfold q_append. cbv zeta. break_if; mk_auto; try (intro X; congruence).
  - exists [qa_entry w u m s; (WReq, false, true)]. split.
    + simpl. rewrite <- app_assoc. reflexivity.
    + constructor; [left; cbn; auto|constructor; [left; cbn; auto|constructor]].
  - exists [qa_entry w u m s]. split; [reflexivity|]. constructor; [left; cbn; auto|constructor].
Qed.
Lemma send_gated_eff w u m s :
  eff [Fsq] (pW (fun x => x = qa_entry w u m s \/ x = (WReq, false, true))) s (send_gated w u m s).
Proof.
  unfold send_gated, is_connected_owner. destruct (st s) eqn:E; try apply eff_refl.
  break_if; [apply q_append_eff; exact E|apply eff_refl].
Qed.
Lemma send_raw_m_eff w u m s :
  eff [Fsq] (pW (fun x => x = qa_entry w u m s \/ x = (WReq, false, true))) s (send_raw_m w u m s).
Proof. unfold send_raw_m. destruct (st s) eqn:E; try apply eff_refl. apply q_append_eff. exact E. Qed.
(* nothing is queued unless Connected *)
Lemma send_gated_off w u m s : st s <> Connected -> send_gated w u m s = s.
Proof. unfold send_gated, is_connected_owner. destruct (st s); try reflexivity. congruence. Qed.
Lemma send_raw_m_off w u m s : st s <> Connected -> send_raw_m w u m s = s.
Proof. unfold send_raw_m. destruct (st s); try reflexivity. congruence. Qed.

Lemma In_tk_timed_add k k' now s : In k' (tk (timed_add k now s)) <-> In k' (tk s) \/ k' = k.
Proof.
  unfold timed_add. destruct (timed_has k s) eqn:E.
  - split; [auto|]. intros [A|A]; [exact A|]. subst. apply timed_has_In. exact E.
  - unfold tk. simpl. intuition.
Qed.
Lemma timed_add_eff k now s : eff [Ft] (pT (fun x => x = k)) s (timed_add k now s).
Proof.
  unfold timed_add. break_if; [apply eff_refl|]. mk_auto.
  intros k' H. unfold tk in H. simpl in H. destruct H as [H|H]; [right; cbn; auto|left; exact H].
Qed.
Lemma In_tk_timed_del k k' s : In k' (tk (timed_del k s)) <-> In k' (tk s) /\ k' <> k.
Proof.
  unfold timed_del, tk. simpl.
  rewrite (map_filter_proj (fun x : tkind * bool * Z => fst (fst x)) (fun y => negb (tkind_eqb k y))). rewrite filter_In.
  split; intros [A B]; split; try exact A.
  - intro E. subst. assert (X : tkind_eqb k k = true) by (apply tkind_eqb_eq; reflexivity). rewrite X in B. discriminate.
  - destruct (tkind_eqb k k') eqn:E; [|reflexivity]. apply tkind_eqb_eq in E. congruence.
Qed.
Lemma timed_del_eff p k s : eff [Ft] p s (timed_del k s).
Proof.
  unfold timed_del. mk_auto. intros k' H. apply (In_tk_timed_del k k' s) in H. left. tauto.
Qed.
Lemma timed_reset_all_eff p now s : eff [] p s (timed_reset_all now s).
Proof.
  apply eff_of_frame; try reflexivity; try (intros X; exact X).
  intros f H; destruct f; try discriminate H; try reflexivity.
  unfold timed_reset_all, eq_on, tk. simpl. rewrite map_map. reflexivity.
Qed.
Lemma timed_set_stamp_eff p k now s : eff [] p s (timed_set_stamp k now s).
Proof.
  apply eff_of_frame; try reflexivity; try (intros X; exact X).
  intros f H; destruct f; try discriminate H; try reflexivity.
  unfold timed_set_stamp, eq_on, tk. simpl. rewrite map_map. apply map_ext. intro a. break_if; reflexivity.
Qed.

Lemma In_hk_h_add k k' s : In k' (hk (h_add k s)) <-> In k' (hk s) \/ k' = k.
Proof.
  unfold h_add. destruct (h_has k s) eqn:E.
  - split; [auto|]. intros [A|A]; [exact A|]. subst. apply h_has_In. exact E.
  - unfold hk. simpl. rewrite map_app, in_app_iff. simpl. intuition.
Qed.
Lemma h_add_eff k s : eff [Fh] (pH (fun x => x = k)) s (h_add k s).
Proof.
  unfold h_add. break_if; [apply eff_refl|]. mk_auto.
  - intros k' H. unfold hk in H. simpl in H. rewrite map_app in H. apply in_app_iff in H.
    destruct H as [H|[H|[]]]; [left; exact H|right; cbn; auto].
  - intros _ k' H. simpl. apply in_app_iff. left. exact H.
Qed.
Lemma In_hk_h_del k k' s : In k' (hk (h_del k s)) <-> In k' (hk s) /\ k' <> k.
Proof.
  unfold h_del, hk. simpl.
  rewrite (map_filter_proj (@fst hkind bool) (fun y => negb (hkind_eqb k y))). rewrite filter_In.
  split; intros [A B]; split; try exact A.
  - intro E. subst. rewrite hkind_eqb_refl in B. discriminate.
  - destruct (hkind_eqb k k') eqn:E; [|reflexivity]. apply hkind_eqb_eq in E. congruence.
Qed.
Lemma h_del_eff p k s : eff [Fh; FhD] p s (h_del k s).
Proof.
  unfold h_del. mk_auto. intros k' H. apply (In_hk_h_del k k' s) in H. left. tauto.
Qed.
Lemma ik_id_add_new k s : id_has k s = false ->
  ik (id_add k s) = ik s ++ (if is_user_id k then [] else [k]).
Proof.
  intro E. unfold id_add. rewrite E. unfold ik. cbn [idhandlers set_idhandlers]. rewrite map_app, filter_app. cbn [map filter fst].
  destruct (is_user_id k); reflexivity.
Qed.
Lemma In_ik_id_add k k' s : In k' (ik (id_add k s)) -> In k' (ik s) \/ k' = k.
Proof.
  destruct (id_has k s) eqn:E; [unfold id_add; rewrite E; auto|].
  rewrite (ik_id_add_new k s E), in_app_iff. intros [A|A]; [left; exact A|right].
  destruct (is_user_id k); [destruct A|destruct A as [A|[]]; auto].
Qed.
Lemma ik_id_add_user s : ik (id_add IKUser s) = ik s.
Proof.
  destruct (id_has IKUser s) eqn:E; [unfold id_add; rewrite E; reflexivity|].
  rewrite (ik_id_add_new _ s E). apply app_nil_r.
Qed.
Lemma id_add_eff k s : eff [Fid] (pI (fun x => x = k)) s (id_add k s).
Proof.
  destruct (id_has k s) eqn:E; [unfold id_add; rewrite E; apply eff_refl|].
  pose proof (ik_id_add_new k s E) as X. unfold id_add in *. rewrite E in *. mk_auto.
  - intros k' H. rewrite X in H. apply in_app_iff in H.
    destruct H as [H|H]; [left; exact H|right; cbn]. destruct (is_user_id k); [destruct H|destruct H as [H|[]]; auto].
  - intros _ k' H. rewrite X. apply in_app_iff. left. exact H.
Qed.
Lemma In_ik_id_del k k' s : In k' (ik (id_del k s)) -> In k' (ik s).
Proof.
  unfold id_del, ik. cbn [idhandlers set_idhandlers].
  rewrite (map_filter_proj (@fst idk bool) (fun y => negb (idk_eqb k y))). rewrite !filter_In. tauto.
Qed.
Lemma id_del_eff p k s : eff [Fid; FidD] p s (id_del k s).
Proof.
  unfold id_del. mk_auto. intros k' H. left. eapply In_ik_id_del. exact H.
Qed.

Lemma prepare_reset_eff p h s : eff [Foh; Frp] p s (prepare_reset h s).
Proof. unfold prepare_reset. eff_frame. Qed.

Lemma reset_sm_eff p s : eff [Fsme] p s (reset_sm_for_reconnect s).
Proof. unfold reset_sm_for_reconnect. cbv zeta. break_if; eff_frame. Qed.
Lemma reset_sm_sme s : sm_enabled (reset_sm_for_reconnect s) = false.
Proof. unfold reset_sm_for_reconnect. cbv zeta. break_if; reflexivity. Qed.

Lemma drop_below_incl h q x : In x (drop_below h q) -> In x q.
Proof.
  induction q as [|y r IH]; simpl; [auto|]. destruct (snd y <? h); [intro H; right; auto|auto].
Qed.
Lemma sm_queue_cleanup_eff p h s : eff [Fsmq] p s (sm_queue_cleanup h s).
Proof.
  unfold sm_queue_cleanup. mk_auto.
  intros w H. unfold sw in *. simpl in H.
  apply in_map_iff in H as [x [E Hin]]. apply drop_below_incl in Hin. subst.
  apply (in_map (fun x => fst (fst (fst x)))). exact Hin.
Qed.

(* conn_disconnect: either nothing, or a crash, or the connection is gone *)
Lemma conn_disconnect_eff p s : eff [Fcr; Fdisc] p s (fst (conn_disconnect s)).
Proof.
  unfold conn_disconnect. destruct (st s) eqn:Est; try apply eff_refl.
  all: destruct (negb (sm_alloc s)) eqn:Ea; [cbn [fst]; eff_frame|].
  all: cbv zeta; cbn [fst]; break_if; unfold reset_sm_for_reconnect, upg; cbv zeta; break_if.
  all: constructor; try same_side.
  all: try (intros L; exfalso; apply L; reflexivity).
  all: try (right; reflexivity).
  all: try (intros _; right; reflexivity).
  all: try (let H := fresh in intros _ ? H; exact H).
  all: try (let H := fresh in intros H; exact H).
  all: try (intros _; reflexivity).
  all: try (let X := fresh in intro X; discriminate X).
  all: intros f H; destruct f; try discriminate H; reflexivity.
Qed.
Lemma conn_disconnect_st s : crashed (fst (conn_disconnect s)) = false -> crashed s = false ->
  st (fst (conn_disconnect s)) = Disconnected.
Proof.
  unfold conn_disconnect. destruct (st s) eqn:Est; cbn [fst ret]; [auto| |].
  all: destruct (negb (sm_alloc s)); cbn [fst]; [cbn; congruence|].
  all: intros _ _; cbv zeta; break_if; unfold reset_sm_for_reconnect, upg; cbv zeta; break_if; reflexivity.
Qed.

Definition eWClose : entry -> Prop := fun x => fst (fst x) = WClose \/ fst (fst x) = WReq.
Lemma xmpp_disconnect_eff now s :
  eff [Fsq; Ft] (mkP (fun x => fst (fst x) = WClose \/ fst (fst x) = WReq) (fun _ => False) (fun _ => False)
                     (fun k => k = TDisconnectCleanup)) s (xmpp_disconnect now s).
Proof.
  unfold xmpp_disconnect. break_match; try apply eff_refl.
  all: eapply eff_seq; [apply send_gated_eff|apply timed_add_eff|solve_sub| |]; repeat split; cbn; try tauto.
  all: intros x [A|A]; subst; cbn; auto.
Qed.

Lemma conn_open_stream_eff s :
  eff [Fsq] (pW (fun x => (exists b, fst (fst x) = WHeader b) \/ fst (fst x) = WReq)) s (conn_open_stream s).
Proof.
  unfold conn_open_stream. eapply eff_weaken; [|
    |apply send_gated_eff]; [solve_sub|]. repeat split; cbn; try tauto.
  intros x [A|A]; subst; cbn; eauto.
Qed.

Lemma stream_negotiation_success_eff p s : eff [] p s (fst (stream_negotiation_success s)).
Proof.
  unfold stream_negotiation_success. break_if; cbn [fst ret]; [apply eff_refl|].
  break_if; unfold upg; eff_frame.
Qed.

(* negotiation elements that must never be retained in the SM queue / are policy relevant *)
Definition is_neg (w : welem) : bool :=
  match w with WStartTls | WAuth _ | WResponse | WLegacy | WHandshake => true | _ => false end.
Definition benignE : entry -> Prop := fun x => is_neg (fst (fst x)) = false.
Definition pB : preds := mkP benignE (fun _ => False) (fun _ => False) (fun _ => False).

Lemma gh_set_gh g s : gh (set_gh g s) = g.
Proof. reflexivity. Qed.

Definition is_feat (e : elem) : bool := ns_eqb (e_ns e) NsStreams && ename_eqb (e_name e) NmFeatures.
Lemma note_rx_gh e s :
  g_feat_seen (gh (note_rx e s)) = g_feat_seen (gh s) || is_feat e /\
  g_strong (gh (note_rx e s)) =
    g_strong (gh s) || (is_feat e && negb (g_feat_seen (gh s)) && existsb (is_strong (cert_set s)) (e_mechs e)).
Proof.
  unfold note_rx, is_feat. cbv zeta. rewrite gh_set_gh.
  set (g1 := if ns_eqb (e_ns e) NsStreams && ename_eqb (e_name e) NmFeatures then _ else gh s).
  match goal with |- g_feat_seen ?g6 = _ /\ _ =>
    assert (A : g_feat_seen g6 = g_feat_seen g1 /\ g_strong g6 = g_strong g1) by
      (clearbody g1; repeat break_match; split; reflexivity) end.
  destruct A as [A1 A2]. rewrite A1, A2. unfold g1. clear.
  destruct (ns_eqb (e_ns e) NsStreams && ename_eqb (e_name e) NmFeatures); cbn [andb orb].
  - destruct (g_feat_seen (gh s)) eqn:E; cbn [negb andb]; split; try reflexivity.
    + cbn. rewrite E. reflexivity.
    + cbn. rewrite orb_false_r. reflexivity.
  - rewrite !orb_false_r. split; reflexivity.
Qed.
Lemma note_rx_eff p e s : eff [Fgs; Fgf] p s (note_rx e s).
Proof. unfold note_rx. cbv zeta. eff_frame. Qed.

Lemma note_outs_gh o s : g_strong (gh (note_outs o s)) = g_strong (gh s) /\ g_feat_seen (gh (note_outs o s)) = g_feat_seen (gh s).
Proof.
  unfold note_outs. rewrite gh_set_gh. generalize (gh s). induction o as [|x r IH]; intro g; simpl; [auto|].
  destruct (IH (note_out g x)) as [A B]. rewrite A, B. unfold note_out. repeat break_match; split; reflexivity.
Qed.
Lemma note_outs_eff p o s : eff [] p s (note_outs o s).
Proof.
  apply eff_of_frame; try reflexivity; try (intros X; exact X).
  intros f H; destruct f; try discriminate H; try reflexivity; cbn [eq_on]; apply note_outs_gh.
Qed.

Lemma conn_tls_start_eff p s : eff [Fsec; Ftlsp; Ftlsf] p s (fst (fst (conn_tls_start s))).
Proof. unfold conn_tls_start. cbv zeta. repeat break_if; cbn [fst]; try apply eff_refl; eff_frame. Qed.
(* the three outcomes *)
Lemma conn_tls_start_spec s :
  let r := conn_tls_start s in
  (snd r = true /\ f_tls_disabled s = false /\ secured (fst (fst r)) = true /\ tls_present (fst (fst r)) = true /\
     tls_failed (fst (fst r)) = tls_failed s /\ snd (fst r) = [OTlsStart true]) \/
  (snd r = false /\ fst (fst r) = s /\ snd (fst r) = []) \/
  (snd r = false /\ f_tls_disabled s = false /\ secured (fst (fst r)) = secured s /\ tls_present (fst (fst r)) = false /\
     snd (fst r) = [OTlsStart false]).
Proof.
  unfold conn_tls_start. cbv zeta. repeat break_if; cbn [fst snd]; auto 10.
Qed.

Lemma do_bind_eff now b s :
  eff [Fsq; Fid; Ft; Fcr] (mkP benignE (fun _ => False) (fun k => k = IKBind) (fun k => k = TMissingBind)) s (fst (do_bind now b s)).
Proof.
  unfold do_bind. cbv zeta.
  assert (A : eff [Fid; Ft] (mkP benignE (fun _ => False) (fun k => k = IKBind) (fun k => k = TMissingBind)) s
                (timed_add TMissingBind now (id_add IKBind s))).
  { eapply eff_seq; [apply id_add_eff|apply timed_add_eff|solve_sub| |]; repeat split; cbn; tauto. }
  break_if; cbn [fst ret].
  - eapply (eff_seq _ _ _ _ [Fcr] pnone); [exact A|eff_frame|solve_sub|apply pimp_refl|apply pimp_none].
  - eapply eff_seq; [exact A|apply send_gated_eff|solve_sub|apply pimp_refl|].
    repeat split; cbn; try tauto. intros x [E|E]; subst; reflexivity.
Qed.
Lemma session_start_eff now s :
  eff [Fsq; Fid; Ft] (mkP benignE (fun _ => False) (fun k => k = IKSession) (fun k => k = TMissingSession)) s (session_start now s).
Proof.
  unfold session_start.
  assert (A : eff [Fid; Ft] (mkP benignE (fun _ => False) (fun k => k = IKSession) (fun k => k = TMissingSession)) s
                (timed_add TMissingSession now (id_add IKSession s))).
  { eapply eff_seq; [apply id_add_eff|apply timed_add_eff|solve_sub| |]; repeat split; cbn; tauto. }
  eapply eff_seq; [exact A|apply send_gated_eff|solve_sub|apply pimp_refl|].
  repeat split; cbn; try tauto. intros x [E|E]; subst; reflexivity.
Qed.
Lemma sm_enable_eff s :
  eff [Fsq; Fh; Fsme] (mkP benignE (fun k => k = HSm) (fun _ => False) (fun _ => False)) s (sm_enable s).
Proof.
  unfold sm_enable. cbv zeta.
  assert (A : eff [Fh; Fsq] (mkP benignE (fun k => k = HSm) (fun _ => False) (fun _ => False)) s
                (send_gated (WEnable (negb (sm_dont_request (h_add HSm s)))) false true (h_add HSm s))).
  { eapply eff_seq; [apply h_add_eff|apply send_gated_eff|solve_sub| |]; repeat split; cbn; try tauto.
    intros x [E|E]; subst; reflexivity. }
  eapply (eff_seq _ _ _ _ [Fsme] pnone); [exact A|eff_frame|solve_sub|apply pimp_refl|apply pimp_none].
Qed.
Lemma sm_enable_sme s : sm_enabled (sm_enable s) = true.
Proof. reflexivity. Qed.

Ltac eseq A B := eapply eff_seq; [A | B | solve_sub | | ].
Ltac psolve := repeat split; cbn; try tauto.

Lemma eff_absorb c P Ph Pi Pt s s' :
  eff c (mkP (fun x => P x \/ In (fst (fst x)) (sw s)) Ph Pi Pt) s s' -> eff c (mkP P Ph Pi Pt) s s'.
Proof.
  intros [U L S E [l [Q A]] H I T M HK IK C O N]. constructor; try assumption.
  exists l. split; [exact Q|]. eapply Forall_impl; [|exact A]. cbn. tauto.
Qed.

Lemma sm_queue_resend_eff s : eff [Fsq; Fsmq] (pW (fun x => fst (fst x) = WReq)) s (sm_queue_resend s).
Proof.
  unfold sm_queue_resend.
  assert (G : forall q a, eff [Fsq] (pW (fun x => fst (fst x) = WReq \/ In (fst (fst x)) (map (fun y : welem * bool * bool * Z => fst (fst (fst y))) q))) a
            (fold_left (fun a x => send_raw_m (fst (fst (fst x))) (snd (fst (fst x))) (snd (fst x)) a) q a)).
  { induction q as [|x r IH]; intro a; simpl; [apply eff_refl|].
    eseq ltac:(apply send_raw_m_eff) ltac:(apply IH); psolve.
    intros y [E|E]; subst; cbn; auto. }
  apply eff_absorb.
  eapply (eff_seq _ _ [Fsmq] pnone); [|apply G|solve_sub|apply pimp_none|apply pimp_refl].
  mk_auto. intros w H. destruct H.
Qed.

Definition eLegacy (s : state) : entry -> Prop :=
  fun x => x = (WLegacy, false, negb (sm_enabled s)) \/ benignE x.
Lemma auth_legacy_eff now s :
  eff [Fsq; Fid; Ft] (mkP (eLegacy s) (fun _ => False) (fun k => k = IKLegacy)
                        (fun k => k = TMissingLegacy \/ k = TDisconnectCleanup)) s (auth_legacy now s).
Proof.
  unfold auth_legacy. break_if.
  - eapply eff_weaken; [| |apply xmpp_disconnect_eff]; [solve_sub|]. psolve.
    intros x [E|E]; right; unfold benignE; rewrite E; reflexivity.
  - assert (A : eff [Fid; Ft] (mkP (eLegacy s) (fun _ => False) (fun k => k = IKLegacy)
                        (fun k => k = TMissingLegacy \/ k = TDisconnectCleanup)) s
                  (timed_add TMissingLegacy now (id_add IKLegacy s))).
    { eseq ltac:(apply id_add_eff) ltac:(apply timed_add_eff); psolve. }
    eseq ltac:(exact A) ltac:(apply send_gated_eff); [apply pimp_refl|]. psolve.
    assert (Es : sm_enabled (timed_add TMissingLegacy now (id_add IKLegacy s)) = sm_enabled s)
      by (unfold timed_add, id_add; repeat break_if; reflexivity).
    intros x [X|X]; subst; [left|right; reflexivity].
    unfold qa_entry. cbn. rewrite Es. reflexivity.
Qed.

(* ------------------------------------------------------------------ _auth *)
Definition is_saslh (k : hkind) : bool :=
  match k with HSaslResult _ | HDigestChallenge | HDigestRspauth | HScramChallenge _ _ => true | _ => false end.

Lemma first_scram_mem l k i n : first_scram i k l = Some n -> mem_mech (MScram n) l = true.
Proof.
  revert i. induction k as [|k IH]; intros i; simpl; [discriminate|].
  destruct (mem_mech (MScram i) l) eqn:E; [intro H; inv H; exact E|apply IH].
Qed.
Lemma first_scram_nil k i : first_scram i k [] = None.
Proof. revert i. induction k as [|k IH]; intro i; simpl; [reflexivity|apply IH]. Qed.

(* the part of _auth after the STARTTLS decision *)
Inductive body_res (now : Z) (s : state) : state -> emit -> Prop :=
| BR_disc : f_tls_mandatory s && negb (is_secured s) = true ->
    body_res now s (fst (conn_disconnect s)) (snd (conn_disconnect s))
| BR_mech m kh s' : f_tls_mandatory s && negb (is_secured s) = false ->
    mem_mech m (sasl s) = true -> is_saslh kh = true ->
    let s1 := set_sasl (del_mech m (sasl s)) (send_gated (WAuth m) false false (h_add kh s)) in
    (s' = s1 \/ exists n, s' = set_scram_serial n s1) ->
    body_res now s s' []
| BR_legacy : f_tls_mandatory s && negb (is_secured s) = false ->
    typ s = TClient -> f_legacy_auth s = true -> sasl s = sasl s ->
    body_res now s (auth_legacy now s) []
| BR_xd : f_tls_mandatory s && negb (is_secured s) = false ->
    body_res now s (xmpp_disconnect now s) [].

Lemma auth_body_spec f now s : tls_support s = false -> body_res now s (fst (auth f now s)) (snd (auth f now s)).
Proof.
  intro H. destruct f; cbn [auth]; rewrite H.
  all: destruct (f_tls_mandatory s && negb (is_secured s)) eqn:Em; [apply BR_disc; exact Em|].
  all: repeat break_match; cbn [fst snd ret]; try (apply BR_xd; exact Em); try (apply BR_legacy; auto; fail).
  all: try (eapply BR_mech; cycle 3; [cbv zeta; left; reflexivity|exact Em|first [assumption|apply andb_true_iff in Heqb; tauto]|reflexivity]; fail).
  all: eapply BR_mech; cycle 3; [cbv zeta; right; eexists; reflexivity|exact Em|eapply first_scram_mem; eassumption|reflexivity].
Qed.

Inductive auth_res (now : Z) (s : state) : state -> emit -> Prop :=
| AR_tls : tls_support s = true -> tlsnew_ok s = true ->
    auth_res now s (set_tls_support false (send_gated WStartTls false false (h_add HProceedTls s))) []
| AR_body s0 s' o : (s0 = s /\ tls_support s = false) \/ s0 = set_tls_support false s -> tls_support s0 = false ->
    body_res now s0 s' o -> auth_res now s s' o.

Lemma auth_S_rec f now s : tls_support s = true -> negb (tlsnew_ok s) = true ->
  auth (S f) now s = auth f now (set_tls_support false s).
Proof. intros A B. cbn [auth]. rewrite A, B. reflexivity. Qed.
Lemma auth_S_tls f now s : tls_support s = true -> negb (tlsnew_ok s) = false ->
  auth (S f) now s = ret (set_tls_support false (send_gated WStartTls false false (h_add HProceedTls s))).
Proof. intros A B. cbn [auth]. rewrite A, B. reflexivity. Qed.

Lemma auth_spec now s : auth_res now s (fst (auth 1 now s)) (snd (auth 1 now s)).
Proof.
  destruct (tls_support s) eqn:Et.
  - destruct (negb (tlsnew_ok s)) eqn:En.
    + rewrite (auth_S_rec _ _ _ Et En).
      eapply AR_body; [right; reflexivity|reflexivity|]. apply auth_body_spec. reflexivity.
    + rewrite (auth_S_tls _ _ _ Et En). cbn [fst snd ret]. apply AR_tls; [exact Et|].
      destruct (tlsnew_ok s); [reflexivity|discriminate].
  - eapply AR_body; [left; split; [reflexivity|exact Et]|exact Et|]. apply auth_body_spec. exact Et.
Qed.

Definition pAuth : preds :=
  mkP (fun _ => True) (fun k => is_saslh k = true \/ k = HProceedTls) (fun k => k = IKLegacy)
      (fun k => k = TMissingLegacy \/ k = TDisconnectCleanup).
Definition cAuth : list fld := [Ftlss; Fsasl; Fsq; Fh; Fid; Ft; Fcr; Fdisc].

Lemma mech_step_eff m kh s : is_saslh kh = true ->
  eff [Fsasl; Fsq; Fh] (mkP (fun x => x = (WAuth m, false, negb (sm_enabled s)) \/ x = (WReq, false, true))
                          (fun k => k = kh) (fun _ => False) (fun _ => False)) s
      (set_sasl (del_mech m (sasl s)) (send_gated (WAuth m) false false (h_add kh s))).
Proof.
  intro K.
  assert (A : eff [Fh; Fsq] (mkP (fun x => x = (WAuth m, false, negb (sm_enabled s)) \/ x = (WReq, false, true))
                          (fun k => k = kh) (fun _ => False) (fun _ => False)) s
                (send_gated (WAuth m) false false (h_add kh s))).
  { eseq ltac:(apply h_add_eff) ltac:(apply send_gated_eff); psolve.
    assert (Es : sm_enabled (h_add kh s) = sm_enabled s) by (unfold h_add; break_if; reflexivity).
    intros x [X|X]; subst; [left|right; reflexivity]. unfold qa_entry. cbn. rewrite Es. reflexivity. }
  eapply (eff_seq _ _ _ _ [Fsasl] pnone); [exact A|eff_frame|solve_sub|apply pimp_refl|apply pimp_none].
Qed.

Lemma body_res_eff now s s' o : body_res now s s' o -> eff cAuth pAuth s s'.
Proof.
  intros [Em|m kh s2 Em Hm K s1 Hs|Em _ _ _|Em].
  - eapply eff_weaken; [| |apply conn_disconnect_eff]; [solve_sub|apply pimp_none].
  - assert (A : eff cAuth pAuth s s1).
    { eapply eff_weaken; [| |apply (mech_step_eff m kh s K)]; [solve_sub|]. psolve; intros; subst; auto. }
    destruct Hs as [Hs|[n Hs]]; subst s2; [exact A|].
    eapply (eff_seq _ _ _ _ [] pnone); [exact A|eff_frame|solve_sub|apply pimp_refl|apply pimp_none].
  - eapply eff_weaken; [| |apply auth_legacy_eff]; [solve_sub|]. psolve.
  - eapply eff_weaken; [| |apply xmpp_disconnect_eff]; [solve_sub|]. psolve.
Qed.

Lemma auth_res_eff now s s' o : auth_res now s s' o -> eff cAuth pAuth s s' /\ tls_support s' = false.
Proof.
  intros [Et En|s0 s2 o2 Hs0 Ht Hb].
  - split; [|reflexivity].
    assert (A : eff [Fh; Fsq] pAuth s (send_gated WStartTls false false (h_add HProceedTls s))).
    { eseq ltac:(apply h_add_eff) ltac:(apply send_gated_eff); psolve; intros; subst; auto. }
    eapply (eff_seq _ _ _ _ [Ftlss] pnone); [exact A|eff_frame|solve_sub|apply pimp_refl|apply pimp_none].
  - assert (A : eff [Ftlss] pAuth s s0).
    { destruct Hs0 as [[E _]|E]; subst s0; [apply eff_refl|eff_frame]. }
    pose proof (body_res_eff _ _ _ _ Hb) as B. split.
    + eapply eff_seq; [exact A|exact B|solve_sub|apply pimp_refl|apply pimp_refl].
    + destruct B as [U _ _ _ _ _ _ _ _].
      (* tls_support is not touched by the body *)
      clear - Hb Ht. destruct Hb as [Em|m kh s2 Em Hm K s1 Hs|Em _ _ _|Em].
      * pose proof (conn_disconnect_eff pnone s0) as [U _ _ _ _ _ _ _ _]. rewrite (U Ftlss eq_refl). exact Ht.
      * destruct Hs as [Hs|[n Hs]]; subst s2;
          pose proof (mech_step_eff m kh s0 K) as [U _ _ _ _ _ _ _ _]; pose proof (U Ftlss eq_refl) as X;
          exact (eq_trans X Ht).
      * pose proof (auth_legacy_eff now s0) as [U _ _ _ _ _ _ _ _]. rewrite (U Ftlss eq_refl). exact Ht.
      * pose proof (xmpp_disconnect_eff now s0) as [U _ _ _ _ _ _ _ _]. rewrite (U Ftlss eq_refl). exact Ht.
Qed.

Lemma auth_eff now s : eff cAuth pAuth s (fst (auth 1 now s)) /\ tls_support (fst (auth 1 now s)) = false.
Proof. eapply auth_res_eff. apply auth_spec. Qed.

(* ------------------------------------------------------------------ coarse layer: config is never touched, outputs are quiet *)
Definition pTrue : preds := mkP (fun _ => True) (fun _ => True) (fun _ => True) (fun _ => True).
Lemma pimp_true p : pimp p pTrue.
Proof. repeat split; cbn; auto. Qed.
Definition cAll : list fld :=
  [Fst; Fsec; Ftlsp; Ftlsf; Ftlss; Fsasl; Fsme; Frp; Foh; Fh; Fid; Ft; Fsq; Fsmq; Fgs; Fgf; Fcr; FhD; FidD; Fdisc].
Definition cAllP : list fld := Fps :: cAll.
Ltac toA L := eapply eff_weaken; [| |first [apply (L pnone)|apply L]]; [solve_sub|apply pimp_true].
Ltac frameA := eapply (eff_weaken [] _ pnone); [solve_sub|apply pimp_true|eff_frame].
Lemma effA_trans s s1 s2 : eff cAll pTrue s s1 -> eff cAll pTrue s1 s2 -> eff cAll pTrue s s2.
Proof. intros A B. eapply eff_seq; [exact A|exact B|solve_sub|apply pimp_refl|apply pimp_refl]. Qed.
Lemma effP_trans s s1 s2 : eff cAllP pTrue s s1 -> eff cAllP pTrue s1 s2 -> eff cAllP pTrue s s2.
Proof. intros A B. eapply eff_seq; [exact A|exact B|solve_sub|apply pimp_refl|apply pimp_refl]. Qed.
Lemma effA_P s s' : eff cAll pTrue s s' -> eff cAllP pTrue s s'.
Proof. intro A. eapply eff_weaken; [|apply pimp_refl|exact A]. solve_sub. Qed.
Lemma effA_dis s s' : eff cAllP pTrue s s' -> f_tls_disabled s' = f_tls_disabled s.
Proof. intros [U _ _ _ _ _ _ _ _]. exact (U Fdis eq_refl). Qed.

(* what may be emitted outside the send phase: no wire data, and no TLS start when TLS is disabled *)
Definition quiet (d : bool) (o : out) : bool :=
  match o with OWire _ _ => false | OTlsStart _ => negb d | _ => true end.
Definition outs_q (d : bool) (l : list out) : Prop := forallb (quiet d) l = true.
Lemma outs_q_app d a b : outs_q d a -> outs_q d b -> outs_q d (a ++ b).
Proof. unfold outs_q. intros A B. rewrite forallb_app, A, B. reflexivity. Qed.
Lemma outs_q_nil d : outs_q d [].
Proof. reflexivity. Qed.

Definition goodR (s : state) (r : R) : Prop := eff cAll pTrue s (fst r) /\ outs_q (f_tls_disabled s) (snd r).
Lemma goodR_ret s s' : eff cAll pTrue s s' -> goodR s (ret s').
Proof. intro A. split; [exact A|reflexivity]. Qed.
Lemma goodR_bind s r f : goodR s r -> (forall s1, goodR s1 (f s1)) ->
  goodR s (let '(s1, o1) := r in let '(s2, o2) := f s1 in (s2, o1 ++ o2)).
Proof.
  destruct r as [s1 o1]. intros [A B] F. specialize (F s1). destruct (f s1) as [s2 o2]. destruct F as [C D].
  cbn [fst snd] in *. split; [eapply effA_trans; eassumption|].
  apply outs_q_app; [exact B|]. rewrite <- (effA_dis s s1 (effA_P _ _ A)). exact D.
Qed.

Lemma conn_disconnect_good s : goodR s (conn_disconnect s).
Proof.
  split; [toA conn_disconnect_eff|].
  unfold conn_disconnect. destruct (st s); try reflexivity.
  all: destruct (negb (sm_alloc s)); [reflexivity|]; cbv zeta; cbn [snd]; break_if; reflexivity.
Qed.
Lemma sns_good s : goodR s (stream_negotiation_success s).
Proof.
  split; [toA stream_negotiation_success_eff|]. unfold stream_negotiation_success. break_if; reflexivity.
Qed.
Lemma do_bind_good now b s : goodR s (do_bind now b s).
Proof. split; [toA do_bind_eff|]. unfold do_bind. cbv zeta. break_if; reflexivity. Qed.
Lemma auth_res_quiet now s s' o : auth_res now s s' o -> outs_q (f_tls_disabled s) o.
Proof.
  intros [Et En|s0 s2 o2 Hs0 Ht Hb]; [reflexivity|].
  assert (E : f_tls_disabled s = f_tls_disabled s0) by (destruct Hs0 as [[E _]|E]; subst; reflexivity).
  destruct Hb; try reflexivity. rewrite E. apply conn_disconnect_good.
Qed.
Lemma auth_good now s : goodR s (auth 1 now s).
Proof.
  split; [destruct (auth_eff now s) as [A _]; eapply eff_weaken; [|apply pimp_true|exact A]; solve_sub|].
  eapply auth_res_quiet. apply auth_spec.
Qed.
Lemma sasl_result_good now e s : goodR s (sasl_result now e s).
Proof.
  unfold sasl_result. break_match; try (apply goodR_ret; toA xmpp_disconnect_eff); [apply auth_good|].
  apply goodR_ret. eapply effA_trans; [toA prepare_reset_eff|toA conn_open_stream_eff].
Qed.
Lemma features_sasl_good now e s : goodR s (features_sasl now e s).
Proof.
  unfold features_sasl. cbv zeta.
  set (s3 := if e_sm e then _ else _).
  assert (A : eff cAll pTrue s s3).
  { unfold s3. eapply effA_trans; [toA timed_del_eff|]. repeat break_if; frameA. }
  assert (D : f_tls_disabled s3 = f_tls_disabled s) by (apply effA_dis, effA_P, A).
  clearbody s3. repeat break_if.
  - apply goodR_ret. eapply effA_trans; [exact A|]. eapply effA_trans; [|toA h_add_eff].
    eapply effA_trans; [|toA send_gated_eff]. frameA.
  - destruct (do_bind_good now true s3) as [B C]. split; [eapply effA_trans; eassumption|]. rewrite <- D. exact C.
  - apply goodR_ret. eapply effA_trans; [exact A|toA xmpp_disconnect_eff].
Qed.

Definition cSet : list fld := [Fsec; Ftlsp; Ftlsf; Ftlss; Fsasl; Fsme; Frp; Foh; Fgs; Fgf; Fcr].
Ltac frameS := eapply (eff_weaken cSet _ pnone); [solve_sub|apply pimp_true|eff_frame].

(* peel the outermost model function / setter off the target state of a coarse effect goal *)
Ltac peel :=
  match goal with
  | |- eff _ _ ?s ?s => apply eff_refl
  | H : eff cAll pTrue ?s ?t |- eff cAll pTrue ?s ?t => exact H
  | |- eff _ _ _ (if _ then _ else _) => break_if
  | |- eff _ _ _ (match _ with _ => _ end) => break_match
  | |- eff _ _ _ (send_gated _ _ _ _) => eapply effA_trans; [|toA send_gated_eff]
  | |- eff _ _ _ (send_raw_m _ _ _ _) => eapply effA_trans; [|toA send_raw_m_eff]
  | |- eff _ _ _ (xmpp_disconnect _ _) => eapply effA_trans; [|toA xmpp_disconnect_eff]
  | |- eff _ _ _ (conn_open_stream _) => eapply effA_trans; [|toA conn_open_stream_eff]
  | |- eff _ _ _ (prepare_reset _ _) => eapply effA_trans; [|toA prepare_reset_eff]
  | |- eff _ _ _ (timed_add _ _ _) => eapply effA_trans; [|toA timed_add_eff]
  | |- eff _ _ _ (timed_del _ _) => eapply effA_trans; [|toA timed_del_eff]
  | |- eff _ _ _ (timed_reset_all _ _) => eapply effA_trans; [|toA timed_reset_all_eff]
  | |- eff _ _ _ (timed_set_stamp _ _ _) => eapply effA_trans; [|toA timed_set_stamp_eff]
  | |- eff _ _ _ (h_add _ _) => eapply effA_trans; [|toA h_add_eff]
  | |- eff _ _ _ (h_del _ _) => eapply effA_trans; [|toA h_del_eff]
  | |- eff _ _ _ (id_add _ _) => eapply effA_trans; [|toA id_add_eff]
  | |- eff _ _ _ (id_del _ _) => eapply effA_trans; [|toA id_del_eff]
  | |- eff _ _ _ (sm_queue_resend _) => eapply effA_trans; [|toA sm_queue_resend_eff]
  | |- eff _ _ _ (sm_queue_cleanup _ _) => eapply effA_trans; [|toA sm_queue_cleanup_eff]
  | |- eff _ _ _ (sm_enable _) => eapply effA_trans; [|toA sm_enable_eff]
  | |- eff _ _ _ (session_start _ _) => eapply effA_trans; [|toA session_start_eff]
  | |- eff _ _ _ (auth_legacy _ _) => eapply effA_trans; [|toA auth_legacy_eff]
  | |- eff _ _ _ (reset_sm_for_reconnect _) => eapply effA_trans; [|toA reset_sm_eff]
  | |- eff _ _ _ (note_rx _ _) => eapply effA_trans; [|toA note_rx_eff]
  | |- eff _ _ _ (upg _ _) => unfold upg
  | |- eff _ _ _ (fst (conn_disconnect _)) => eapply effA_trans; [|toA conn_disconnect_eff]
  | |- eff _ _ _ (fst (stream_negotiation_success _)) => eapply effA_trans; [|toA stream_negotiation_success_eff]
  | |- eff _ _ _ (fst (do_bind _ _ _)) => eapply effA_trans; [|toA do_bind_eff]
  | |- eff _ _ _ (fst (auth 1 _ _)) => eapply effA_trans; [|apply auth_good]
  | |- eff _ _ _ (fst (sasl_result _ _ _)) => eapply effA_trans; [|apply sasl_result_good]
  | |- eff _ _ _ (fst (features_sasl _ _ _)) => eapply effA_trans; [|apply features_sasl_good]
  | |- eff _ _ _ (fst (fst (conn_tls_start _))) => eapply effA_trans; [|toA conn_tls_start_eff]
  | |- eff _ _ ?s (?f ?v ?t) =>
      apply (effA_trans s t);
      [|let tt := fresh "tt" in set (tt := t); clearbody tt; frameS]
  end.
Ltac peels := repeat peel.

(* results written with let '(s1, o) := F in ...: name the components by projections *)
Lemma pair_eta {A B} (x : A * B) : x = (fst x, snd x).
Proof. destruct x; reflexivity. Qed.
Ltac proj_let :=
  match goal with
  | |- context [let '(a, b) := ?x in _] => rewrite (pair_eta x)
  end.

Definition goodT (s : state) (r : state * emit * bool) : Prop :=
  eff cAll pTrue s (fst (fst r)) /\ outs_q (f_tls_disabled s) (snd (fst r)).
Lemma goodT_of s (r : R) b : goodR s r -> goodT s (fst r, snd r, b).
Proof. intro H. exact H. Qed.
Lemma goodR_pre s s0 r : eff cAll pTrue s s0 -> goodR s0 r -> goodR s r.
Proof.
  intros A [B C]. split; [eapply effA_trans; eassumption|]. rewrite <- (effA_dis _ _ (effA_P _ _ A)). exact C.
Qed.
Lemma goodT_pre s s0 r : eff cAll pTrue s s0 -> goodT s0 r -> goodT s r.
Proof.
  intros A [B C]. split; [eapply effA_trans; eassumption|]. rewrite <- (effA_dis _ _ (effA_P _ _ A)). exact C.
Qed.
Lemma goodT_st s s' : eff cAll pTrue s s' -> goodT s (s', [], false).
Proof. intro A. split; [exact A|reflexivity]. Qed.
Lemma goodT_st' s s' : eff cAll pTrue s s' -> goodT s (s', [], true).
Proof. intro A. split; [exact A|reflexivity]. Qed.

Lemma outs_via s s' (r : R) : eff cAllP pTrue s s' -> goodR s' r -> outs_q (f_tls_disabled s) (snd r).
Proof. intros A [_ B]. rewrite <- (effA_dis _ _ A). exact B. Qed.
Ltac outs :=
  first [ match goal with
          | |- outs_q _ [] => reflexivity
          | |- outs_q _ [_] => reflexivity
          | |- outs_q _ [_; _] => reflexivity
          end
        | eapply outs_via; cycle 1;
          [ first [apply auth_good | apply do_bind_good | apply sns_good | apply sasl_result_good
                  | apply features_sasl_good | apply conn_disconnect_good]
          | apply effA_P; peels ] ].
Ltac crunch := repeat first [break_if | proj_let; cbv beta iota | break_match].
Ltac finT := split; cbn [fst snd]; [peels | outs].


(* symbolic execution of a handler body for the coarse judgement: intermediate states bound by
   `let` are abstracted to variables that carry `eff cAll pTrue s x` *)
Lemma goodT_let_st s v (B : state -> state * emit * bool) :
  eff cAll pTrue s v -> (forall x, eff cAll pTrue s x -> goodT s (B x)) -> goodT s (let x := v in B x).
Proof. intros A F. apply F. exact A. Qed.
Lemma goodR_let_st s v (B : state -> R) :
  eff cAll pTrue s v -> (forall x, eff cAll pTrue s x -> goodR s (B x)) -> goodR s (let x := v in B x).
Proof. intros A F. apply F. exact A. Qed.
Lemma goodT_bind s (r : R) (B : state -> emit -> state * emit * bool) :
  goodR s r -> (forall x o, eff cAll pTrue s x -> outs_q (f_tls_disabled s) o -> goodT s (B x o)) ->
  goodT s (let '(x, o) := r in B x o).
Proof. destruct r as [x o]. intros [A C] F. apply F; assumption. Qed.
Lemma goodR_bind2 s (r : R) (B : state -> emit -> R) :
  goodR s r -> (forall x o, eff cAll pTrue s x -> outs_q (f_tls_disabled s) o -> goodR s (B x o)) ->
  goodR s (let '(x, o) := r in B x o).
Proof. destruct r as [x o]. intros [A C] F. apply F; assumption. Qed.

Ltac outsq :=
  first [ assumption
        | match goal with
          | |- outs_q _ [] => reflexivity
          | |- outs_q _ [_] => reflexivity
          | |- outs_q _ [_; _] => reflexivity
          | |- outs_q _ (_ ++ _) => apply outs_q_app; outsq
          end
        | outs ].
Ltac known_good :=
  first [apply auth_good | apply do_bind_good | apply sns_good | apply sasl_result_good
        | apply features_sasl_good | apply conn_disconnect_good].
Ltac symR :=
  lazymatch goal with
  | |- goodR ?s (let x := ?v in @?B x) =>
      let ty := type of v in
      lazymatch ty with
      | state => apply (goodR_let_st s v B); [peels|intros ? ?; cbv beta]
      | _ => change (goodR s (B v)); cbv beta
      end
  | |- goodR ?s (ret _) => apply goodR_ret; peels
  | |- goodR ?s (if ?b then _ else _) => destruct b eqn:?
  | |- goodR ?s (let '(x, o) := ?r in @?B x o) => apply (goodR_bind2 s r B); [|intros ? ? ? ?]
  | |- goodR ?s (match ?x with _ => _ end) => destruct x eqn:?
  | |- goodR ?s (_, _) => split; cbn [fst snd]; [peels|outsq]
  | |- goodR ?s _ => eapply goodR_pre; [|known_good]; peels
  end.
Ltac symT :=
  lazymatch goal with
  | |- goodT ?s (let x := ?v in @?B x) =>
      let ty := type of v in
      lazymatch ty with
      | state => apply (goodT_let_st s v B); [peels|intros ? ?; cbv beta]
      | _ => change (goodT s (B v)); cbv beta
      end
  | |- goodT ?s (if ?b then _ else _) => destruct b eqn:?
  | |- goodT ?s (let '(x, o) := ?r in @?B x o) => apply (goodT_bind s r B); [repeat symR|intros ? ? ? ?]
  | |- goodT ?s (match ?x with _ => _ end) => destruct x eqn:?
  | |- goodT ?s (_, _, _) => split; cbn [fst snd]; [peels|outsq]
  end.

Lemma call_handler_good k now e s : goodT s (call_handler k now e s).
Proof.
  destruct k; cbv beta iota delta [call_handler].
  4: { destruct (e_name e); try (repeat symT; fail).
    pose proof (conn_tls_start_spec s) as Sp. pose proof (conn_tls_start_eff pnone s) as Ef.
    destruct (conn_tls_start s) as [[s1 o] ok]. cbn [fst snd] in *.
    assert (A : eff cAll pTrue s s1) by (eapply eff_weaken; [|apply pimp_true|exact Ef]; solve_sub).
    assert (Q : outs_q (f_tls_disabled s) o).
    { destruct Sp as [Sp|[Sp|Sp]]; decompose [and] Sp; subst o; try reflexivity;
        unfold outs_q; cbn; rewrite H1; reflexivity. }
    repeat symT. }
  all: repeat symT.
Qed.

Lemma call_id_handler_good k now e s : goodR s (call_id_handler k now e s).
Proof. destruct k; cbv beta iota delta [call_id_handler say]; repeat symR. Qed.

Lemma sm_handle_effA e s : eff cAll pTrue s (sm_handle e s).
Proof. unfold sm_handle. peels. Qed.

Lemma visit_good now e r k s : goodR s r -> goodR s (visit now e r k).
Proof.
  intros G. unfold visit. destruct r as [s1 o]. repeat (break_if; [exact G|]).
  pose proof (call_handler_good k now e s1) as [A B].
  destruct (call_handler k now e s1) as [[s2 o1] keep]. cbn [fst snd] in *. destruct G as [G1 G2].
  split; cbn [fst snd].
  - eapply effA_trans; [exact G1|]. eapply effA_trans; [exact A|]. destruct keep; peels.
  - apply outs_q_app; [exact G2|]. rewrite <- (effA_dis _ _ (effA_P _ _ G1)). exact B.
Qed.
Lemma fold_visit_good now e ks : forall r s, goodR s r -> goodR s (fold_left (visit now e) ks r).
Proof. induction ks as [|k ks IH]; intros r s G; simpl; [exact G|]. apply IH. apply visit_good. exact G. Qed.

Lemma enable_all_eff p s : eff [FhD] p s (set_handlers (map (fun x => (fst x, true)) (handlers s)) s).
Proof.
  assert (E : hk (set_handlers (map (fun x => (fst x, true)) (handlers s)) s) = hk s).
  { unfold hk. simpl. rewrite map_map. simpl. reflexivity. }
  apply eff_mk; try same_side; try reflexivity; try (intros _; reflexivity);
    try (let X := fresh in intro X; discriminate X); try (let H := fresh in intros _ ? H; exact H).
  - intros f H; destruct f; try discriminate H; try reflexivity. exact E.
  - apply h_sub_same. exact E.
Qed.

Lemma dispatch_good now e s : goodR s (dispatch now e s).
Proof.
  unfold dispatch. cbv zeta.
  set (s0 := note_rx e s). assert (A0 : eff cAll pTrue s s0) by (unfold s0; peels). clearbody s0.
  break_if; [split; cbn [fst snd]; [peels|reflexivity]|].
  set (sE := set_handlers _ s0).
  assert (AE : eff cAll pTrue s sE) by (eapply effA_trans; [exact A0|toA enable_all_eff]). clearbody sE.
  set (r1 := match idk_of (e_id e) with Some k => _ | None => _ end).
  assert (G1 : goodR s r1).
  { eapply goodR_pre; [exact AE|]. unfold r1.
    destruct (idk_of (e_id e)) as [i|]; [|apply goodR_ret; apply eff_refl].
    destruct (id_has i sE); [|apply goodR_ret; apply eff_refl].
    destruct (is_user_id i && negb (neg_done sE)); [apply goodR_ret; apply eff_refl|].
    pose proof (call_id_handler_good i now e sE) as [A B].
    destruct (call_id_handler i now e sE) as [sa oa]. split; cbn [fst snd] in *; [peels|exact B]. }
  clearbody r1. destruct r1 as [s1 o1].
  match goal with |- context [fold_left (visit now e) ?ks ?r] =>
    pose proof (fold_visit_good now e ks r s G1) as G2;
    destruct (fold_left (visit now e) ks r) as [s3 o3] end.
  destruct G2 as [A B]. cbn [fst snd] in *.
  repeat break_if; split; cbn [fst snd]; try exact A; try exact B.
  eapply effA_trans; [exact A|apply sm_handle_effA].
Qed.

Lemma open_handler_good now s : goodR s (open_handler now s).
Proof. cbv beta iota delta [open_handler]. repeat symR. Qed.
Lemma stream_start_good now nm hid s : goodR s (stream_start now nm hid s).
Proof.
  cbv beta iota delta [stream_start]. repeat symR.
  - eapply goodR_pre; [|apply open_handler_good]. peels.
Qed.
Lemma stream_end_good s : goodR s (stream_end s).
Proof. cbv beta iota delta [stream_end]. repeat symR. Qed.

(* ------------------------------------------------------------------ parser layer and timers, coarse *)
Definition goodTP (s : state) (r : state * emit * bool) : Prop :=
  eff cAllP pTrue s (fst (fst r)) /\ outs_q (f_tls_disabled s) (snd (fst r)).
Lemma set_ps_eff p v s : eff [Fps] p s (set_ps v s).
Proof. eff_frame. Qed.
Lemma set_ps_P v s : eff cAllP pTrue s (set_ps v s).
Proof. eapply eff_weaken; [|apply pimp_true|apply (set_ps_eff pnone)]. solve_sub. Qed.
Lemma goodTP_of s0 s (r : R) b : eff cAllP pTrue s0 s -> goodR s r -> goodTP s0 (fst r, snd r, b).
Proof.
  intros A [B C]. split; cbn [fst snd].
  - eapply effP_trans; [exact A|apply effA_P; exact B].
  - rewrite <- (effA_dis _ _ A). exact C.
Qed.
Lemma goodTP_st s s' b : eff cAllP pTrue s s' -> goodTP s (s', [], b).
Proof. intro A. split; [exact A|reflexivity]. Qed.

Lemma feed_item_good now it s : goodTP s (feed_item now it s).
Proof.
  unfold feed_item.
  destruct (ps s) eqn:Eps; destruct it; try (apply goodTP_st; first [apply eff_refl|apply set_ps_P]).
  - rewrite (pair_eta (stream_start _ _ _ _)). eapply goodTP_of; cycle 1; [apply stream_start_good|apply set_ps_P].
  - break_if; [apply goodTP_st; apply set_ps_P|].
    pose proof (stream_start_good now (ename_eqb (e_name e) NmStream) false (set_ps PClosed s)) as [A B].
    destruct (stream_start now (ename_eqb (e_name e) NmStream) false (set_ps PClosed s)) as [s1 o1]. cbn [fst snd] in *.
    assert (A' : eff cAllP pTrue s s1) by (eapply effP_trans; [apply set_ps_P|apply effA_P; exact A]).
    assert (D : f_tls_disabled (set_ps PClosed s) = f_tls_disabled s) by reflexivity.
    break_if; [split; cbn [fst snd]; [exact A'|rewrite <- D; exact B]|].
    pose proof (stream_end_good s1) as [A2 B2]. destruct (stream_end s1) as [s2 o2]. cbn [fst snd] in *.
    split; cbn [fst snd]; [eapply effP_trans; [exact A'|apply effA_P; exact A2]|].
    apply outs_q_app; [rewrite <- D; exact B|]. rewrite <- (effA_dis _ _ A'). exact B2.
  - rewrite (pair_eta (dispatch _ _ _)). eapply goodTP_of; cycle 1; [apply dispatch_good|apply eff_refl].
  - rewrite (pair_eta (stream_end _)). eapply goodTP_of; cycle 1; [apply stream_end_good|apply set_ps_P].
  - destruct n as [|[|m]]; try (apply goodTP_st; apply set_ps_P).
    rewrite (pair_eta (dispatch _ _ _)). eapply goodTP_of; cycle 1; [apply dispatch_good|apply set_ps_P].
Qed.

Lemma feed_items_good now its : forall s, goodTP s (feed_items now its s).
Proof.
  induction its as [|it r IH]; intro s; simpl; [apply goodTP_st; apply eff_refl|].
  break_if; [apply goodTP_st; apply eff_refl|].
  pose proof (feed_item_good now it s) as [A B]. destruct (feed_item now it s) as [[s1 o1] bad]. cbn [fst snd] in *.
  destruct bad; [split; assumption|].
  pose proof (IH s1) as [A2 B2]. destruct (feed_items now r s1) as [[s2 o2] bad2]. cbn [fst snd] in *.
  split; cbn [fst snd]; [eapply effP_trans; eassumption|].
  apply outs_q_app; [exact B|]. rewrite <- (effA_dis _ _ A). exact B2.
Qed.

Lemma call_timed_good k now s : goodT s (call_timed k now s).
Proof. destruct k; cbv beta iota delta [call_timed]; repeat symT. Qed.

Lemma visit_timed_good now r k s : goodR s r -> goodR s (visit_timed now r k).
Proof.
  intros G. unfold visit_timed. destruct r as [s1 o]. break_if; [exact G|].
  destruct (timed_lookup k s1) as [[en stp]|]; [|exact G].
  repeat (break_if; try exact G).
  pose proof (call_timed_good k now (timed_set_stamp k now s1)) as [A B].
  destruct (call_timed k now (timed_set_stamp k now s1)) as [[s2 o2] keep]. cbn [fst snd] in *. destruct G as [G1 G2].
  assert (A1 : eff cAll pTrue s (timed_set_stamp k now s1)) by (eapply effA_trans; [exact G1|toA timed_set_stamp_eff]).
  split; cbn [fst snd].
  - eapply effA_trans; [exact A1|]. eapply effA_trans; [exact A|]. destruct keep; peels.
  - apply outs_q_app; [exact G2|]. rewrite <- (effA_dis _ _ (effA_P _ _ A1)). exact B.
Qed.
Lemma fold_visit_timed_good now ks : forall r s, goodR s r -> goodR s (fold_left (visit_timed now) ks r).
Proof. induction ks as [|k ks IH]; intros r s G; simpl; [exact G|]. apply IH. apply visit_timed_good. exact G. Qed.

Lemma fire_timed_good now s : goodR s (fire_timed now s).
Proof.
  unfold fire_timed. destruct (st s); try (apply goodR_ret; apply eff_refl).
  cbv zeta. apply fold_visit_timed_good. split; [|reflexivity]. cbn [fst].
  eapply (eff_weaken [] _ pnone); [solve_sub|apply pimp_true|].
  apply eff_of_frame; try reflexivity; try (intros X; exact X).
  intros f H; destruct f; try discriminate H; try reflexivity.
  unfold eq_on, tk. simpl. rewrite ?map_map. simpl. apply map_ext. intros [[a b] c]. reflexivity.
Qed.
