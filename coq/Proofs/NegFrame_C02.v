(* Frame ("what does this model function leave alone / what may it add") lemmas for the
   connection automaton NegModel, used by Proofs/NegProofs_C02.v.  Only the Coq standard library.

   Organisation
   - tactics that split ONE `if`/`match` at a time;
   - field tags `fld`, `frame chg s s'` = every tagged field not in `chg` is equal in s and s'
     (list-valued fields are compared through their projections wq/hk/ik/sw);
   - `eff chg Pw Ph Pi s s'` = frame + "every element appended to the send queue satisfies Pw or
     comes from the SM queue" + "every new stanza handler satisfies Ph" + "every new id handler
     satisfies Pi" + "the SM queue only shrinks";
   - one `eff` lemma per model function, combined with eff_trans / eff_weaken;
   - what a function can emit (`quiet`): no OWire, and no OTlsStart when TLS is disabled. *)
Require Import LV.Common.Bytes LV.Gen.Gen_neg LV.Model.NegState LV.Model.NegModel LV.Spec.NegSpec.
Local Open Scope Z_scope.

(* ------------------------------------------------------------------ tactics *)
Ltac break_if :=
  match goal with
  | |- context [if ?b then _ else _] => destruct b eqn:?
  end.
Ltac break_match :=
  match goal with
  | |- context [match ?x with _ => _ end] => destruct x eqn:?
  end.
Ltac break_let :=
  match goal with
  | |- context [let '(_, _) := ?x in _] => destruct x eqn:?
  end.
Ltac break_if_in H :=
  match type of H with
  | context [if ?b then _ else _] => destruct b eqn:?
  end.
Ltac break_match_in H :=
  match type of H with
  | context [match ?x with _ => _ end] => destruct x eqn:?
  end.
Ltac inv H := inversion H; subst; clear H.

(* ------------------------------------------------------------------ decidable equalities reflect *)
Lemma mech_eqb_eq a b : mech_eqb a b = true <-> a = b.
Proof.
  destruct a, b; simpl; split; intro H; try discriminate; try reflexivity.
  - apply Nat.eqb_eq in H. congruence.
  - inv H. apply Nat.eqb_refl.
Qed.
Lemma mech_eqb_refl a : mech_eqb a a = true.
Proof. apply mech_eqb_eq. reflexivity. Qed.

Lemma hkind_eqb_eq a b : hkind_eqb a b = true <-> a = b.
Proof.
  destruct a, b; simpl; split; intro H; try discriminate; try reflexivity.
  - apply mech_eqb_eq in H. congruence.
  - inv H. apply mech_eqb_refl.
  - apply andb_true_iff in H as [A B]. apply Nat.eqb_eq in A. apply Nat.eqb_eq in B. congruence.
  - inv H. rewrite !Nat.eqb_refl. reflexivity.
Qed.
Lemma hkind_eqb_refl a : hkind_eqb a a = true.
Proof. apply hkind_eqb_eq. reflexivity. Qed.

Lemma idk_eqb_eq a b : idk_eqb a b = true <-> a = b.
Proof. destruct a, b; simpl; split; intro H; try discriminate; reflexivity. Qed.

(* ------------------------------------------------------------------ projections of the list fields *)
Definition wq (s : state) : list welem := map (fun x => fst (fst x)) (sendq s).
Definition hk (s : state) : list hkind := map fst (handlers s).
Definition ik (s : state) : list idk := map fst (idhandlers s).
Definition sw (s : state) : list welem := map (fun x => fst (fst (fst x))) (smq s).

Lemma h_has_In k s : h_has k s = true <-> In k (hk s).
Proof.
  unfold h_has, hk. rewrite existsb_exists. split.
  - intros [x [Hin He]]. apply hkind_eqb_eq in He. subst. apply in_map. exact Hin.
  - intro H. apply in_map_iff in H as [x [E Hin]]. exists x. split; [exact Hin|].
    apply hkind_eqb_eq. symmetry. exact E.
Qed.
Lemma h_has_false k s : h_has k s = false <-> ~ In k (hk s).
Proof.
  rewrite <- h_has_In. destruct (h_has k s); split; intro H; try reflexivity; try discriminate.
  - exfalso. apply H. reflexivity.
  - intro A. discriminate.
Qed.
Lemma id_has_In k s : id_has k s = true <-> In k (ik s).
Proof.
  unfold id_has, ik. rewrite existsb_exists. split.
  - intros [x [Hin He]]. apply idk_eqb_eq in He. subst. apply in_map. exact Hin.
  - intro H. apply in_map_iff in H as [x [E Hin]]. exists x. split; [exact Hin|].
    apply idk_eqb_eq. symmetry. exact E.
Qed.

Lemma map_fst_filter {A B} (p : A -> bool) (l : list (A * B)) :
  map fst (filter (fun x => p (fst x)) l) = filter p (map fst l).
Proof.
  induction l as [|x r IH]; simpl; [reflexivity|].
  destruct (p (fst x)); simpl; rewrite IH; reflexivity.
Qed.

(* ------------------------------------------------------------------ field tags and frames *)
Inductive fld : Type :=
| Fdis | Fmand | Flssl | Flauth | Ftyp | Fraw | Fcert | Fjnode | Fst | Fsec | Ftlsp | Ftlsf | Ftlss
| Fsasl | Fsme | Frp | Foh | Fps | Fh | Fid | Fsq | Fsmq | Fgh | Fcr.

Definition fld_n (f : fld) : nat :=
  match f with
  | Fdis => 0 | Fmand => 1 | Flssl => 2 | Flauth => 3 | Ftyp => 4 | Fraw => 5 | Fcert => 6 | Fjnode => 7
  | Fst => 8 | Fsec => 9 | Ftlsp => 10 | Ftlsf => 11 | Ftlss => 12 | Fsasl => 13 | Fsme => 14 | Frp => 15
  | Foh => 16 | Fps => 17 | Fh => 18 | Fid => 19 | Fsq => 20 | Fsmq => 21 | Fgh => 22 | Fcr => 23
  end%nat.
Definition fmem (f : fld) (l : list fld) : bool := existsb (fun g => Nat.eqb (fld_n f) (fld_n g)) l.

Definition eq_on (f : fld) (s s' : state) : Prop :=
  match f with
  | Fdis => f_tls_disabled s' = f_tls_disabled s
  | Fmand => f_tls_mandatory s' = f_tls_mandatory s
  | Flssl => f_legacy_ssl s' = f_legacy_ssl s
  | Flauth => f_legacy_auth s' = f_legacy_auth s
  | Ftyp => typ s' = typ s
  | Fraw => is_raw s' = is_raw s
  | Fcert => cert_set s' = cert_set s
  | Fjnode => jid_node s' = jid_node s
  | Fst => st s' = st s
  | Fsec => secured s' = secured s
  | Ftlsp => tls_present s' = tls_present s
  | Ftlsf => tls_failed s' = tls_failed s
  | Ftlss => tls_support s' = tls_support s
  | Fsasl => sasl s' = sasl s
  | Fsme => sm_enabled s' = sm_enabled s
  | Frp => reset_parser s' = reset_parser s
  | Foh => oh s' = oh s
  | Fps => ps s' = ps s
  | Fh => hk s' = hk s
  | Fid => ik s' = ik s
  | Fsq => wq s' = wq s
  | Fsmq => sw s' = sw s
  | Fgh => gh s' = gh s
  | Fcr => crashed s' = crashed s
  end.

Definition frame (chg : list fld) (s s' : state) : Prop := forall f, fmem f chg = false -> eq_on f s s'.

Lemma frame_refl c s : frame c s s.
Proof. intros f _. destruct f; reflexivity. Qed.
Lemma frame_trans c1 c2 s s1 s2 : frame c1 s s1 -> frame c2 s1 s2 -> frame (c1 ++ c2) s s2.
Proof.
  intros H1 H2 f Hf. unfold fmem in Hf. rewrite existsb_app in Hf. apply orb_false_iff in Hf as [A B].
  specialize (H1 f A). specialize (H2 f B). destruct f; cbn [eq_on] in *; congruence.
Qed.
Lemma frame_weaken c c' s s' : (forall f, fmem f c' = false -> fmem f c = false) -> frame c s s' -> frame c' s s'.
Proof. intros W H f Hf. apply H. apply W. exact Hf. Qed.

(* a goal `frame [..] s (concrete setters applied to s)` *)
Ltac solve_frame :=
  let f := fresh "f" in let H := fresh "H" in
  intros f H; destruct f; try discriminate H; reflexivity.
(* side condition of frame_weaken / eff_weaken on concrete lists *)
Ltac solve_sub :=
  let f := fresh "f" in let H := fresh "H" in
  intros f H; destruct f; first [reflexivity | discriminate H].

(* all the equalities a frame hypothesis provides (chg must be a concrete list) *)
Ltac fr_one H t :=
  first [ let E := fresh "E" in assert (E := H t eq_refl); cbn [eq_on] in E | idtac ].
Ltac fr H :=
  fr_one H Fdis; fr_one H Fmand; fr_one H Flssl; fr_one H Flauth; fr_one H Ftyp; fr_one H Fraw; fr_one H Fcert;
  fr_one H Fjnode; fr_one H Fst; fr_one H Fsec; fr_one H Ftlsp; fr_one H Ftlsf; fr_one H Ftlss; fr_one H Fsasl;
  fr_one H Fsme; fr_one H Frp; fr_one H Foh; fr_one H Fps; fr_one H Fh; fr_one H Fid; fr_one H Fsq; fr_one H Fsmq;
  fr_one H Fgh; fr_one H Fcr.

(* ------------------------------------------------------------------ effects *)
Definition sq_ext (P : welem -> Prop) (s s' : state) : Prop :=
  exists l, wq s' = wq s ++ l /\ Forall (fun w => P w \/ In w (sw s)) l.
Definition h_sub (P : hkind -> Prop) (s s' : state) : Prop := forall k, In k (hk s') -> In k (hk s) \/ P k.
Definition i_sub (P : idk -> Prop) (s s' : state) : Prop := forall k, In k (ik s') -> In k (ik s) \/ P k.
Definition smq_sub (s s' : state) : Prop := forall w, In w (sw s') -> In w (sw s).

Record eff (c : list fld) (Pw : welem -> Prop) (Ph : hkind -> Prop) (Pi : idk -> Prop) (s s' : state) : Prop := mkEff {
  ef_frame : frame c s s';
  ef_sq : sq_ext Pw s s';
  ef_h : h_sub Ph s s';
  ef_i : i_sub Pi s s';
  ef_smq : smq_sub s s'
}.

Definition noW : welem -> Prop := fun _ => False.
Definition noH : hkind -> Prop := fun _ => False.
Definition noI : idk -> Prop := fun _ => False.

Lemma sq_ext_refl P s : sq_ext P s s.
Proof. exists []. rewrite app_nil_r. split; [reflexivity|constructor]. Qed.
Lemma sq_ext_same P s s' : wq s' = wq s -> sq_ext P s s'.
Proof. intro E. exists []. rewrite app_nil_r. split; [exact E|constructor]. Qed.
Lemma h_sub_same P s s' : hk s' = hk s -> h_sub P s s'.
Proof. intros E k H. left. rewrite <- E. exact H. Qed.
Lemma i_sub_same P s s' : ik s' = ik s -> i_sub P s s'.
Proof. intros E k H. left. rewrite <- E. exact H. Qed.
Lemma smq_sub_same s s' : sw s' = sw s -> smq_sub s s'.
Proof. intros E k H. rewrite <- E. exact H. Qed.

Lemma eff_refl c Pw Ph Pi s : eff c Pw Ph Pi s s.
Proof.
  constructor; [apply frame_refl|apply sq_ext_refl| | |]; intros k H; auto.
Qed.

Lemma eff_trans c1 c2 Pw Ph Pi s s1 s2 :
  eff c1 Pw Ph Pi s s1 -> eff c2 Pw Ph Pi s1 s2 -> eff (c1 ++ c2) Pw Ph Pi s s2.
Proof.
  intros [F1 [l1 [E1 A1]] H1 I1 M1] [F2 [l2 [E2 A2]] H2 I2 M2]. constructor.
  - eapply frame_trans; eassumption.
  - exists (l1 ++ l2). split.
    + rewrite E2, E1, app_assoc. reflexivity.
    + apply Forall_app. split; [exact A1|].
      eapply Forall_impl; [|exact A2]. intros w [A|A]; [left; exact A|right; apply M1; exact A].
  - intros k Hk. destruct (H2 k Hk) as [A|A]; [apply H1; exact A|right; exact A].
  - intros k Hk. destruct (I2 k Hk) as [A|A]; [apply I1; exact A|right; exact A].
  - intros w Hw. apply M1, M2, Hw.
Qed.

Lemma eff_weaken c c' (Pw Pw' : welem -> Prop) (Ph Ph' : hkind -> Prop) (Pi Pi' : idk -> Prop) s s' :
  (forall f, fmem f c' = false -> fmem f c = false) ->
  (forall w, Pw w -> Pw' w) -> (forall k, Ph k -> Ph' k) -> (forall k, Pi k -> Pi' k) ->
  eff c Pw Ph Pi s s' -> eff c' Pw' Ph' Pi' s s'.
Proof.
  intros W WW WH WI [F [l [E A]] H I M]. constructor.
  - eapply frame_weaken; eassumption.
  - exists l. split; [exact E|]. eapply Forall_impl; [|exact A]. intros w [B|B]; [left; auto|right; exact B].
  - intros k Hk. destruct (H k Hk); auto.
  - intros k Hk. destruct (I k Hk); auto.
  - exact M.
Qed.

(* an effect proved from a pure frame (nothing tagged Fsq/Fh/Fid/Fsmq changes) *)
Lemma eff_of_frame c Pw Ph Pi s s' :
  frame c s s' -> fmem Fsq c = false -> fmem Fh c = false -> fmem Fid c = false -> fmem Fsmq c = false ->
  eff c Pw Ph Pi s s'.
Proof.
  intros F A B C D. constructor; [exact F| | | |].
  - apply sq_ext_same. exact (F Fsq A).
  - apply h_sub_same. exact (F Fh B).
  - apply i_sub_same. exact (F Fid C).
  - apply smq_sub_same. exact (F Fsmq D).
Qed.
Ltac eff_frame := apply eff_of_frame; [solve_frame|reflexivity|reflexivity|reflexivity|reflexivity].

(* ------------------------------------------------------------------ primitive functions *)
Lemma wq_set_sendq v s : wq (set_sendq v s) = map (fun x => fst (fst x)) v.
Proof. reflexivity. Qed.

Lemma q_append_eff w u m s : eff [Fsq] (fun x => x = w \/ x = WReq) noH noI s (q_append w u m s).
Proof.
  unfold q_append. cbv zeta. break_if.
  - constructor; [solve_frame| | | |]; try (intros k H; left; exact H).
    exists [w; WReq]. split.
    + unfold wq. simpl. rewrite !map_app. simpl. rewrite <- app_assoc. reflexivity.
    + repeat constructor; auto.
  - constructor; [solve_frame| | | |]; try (intros k H; left; exact H).
    exists [w]. split.
    + unfold wq. simpl. rewrite !map_app. reflexivity.
    + repeat constructor; auto.
Qed.

Lemma send_gated_eff w u m s : eff [Fsq] (fun x => x = w \/ x = WReq) noH noI s (send_gated w u m s).
Proof. unfold send_gated. break_if; [apply q_append_eff|apply eff_refl]. Qed.
Lemma send_raw_m_eff w u m s : eff [Fsq] (fun x => x = w \/ x = WReq) noH noI s (send_raw_m w u m s).
Proof. unfold send_raw_m. break_match; try apply q_append_eff; apply eff_refl. Qed.

Lemma timed_add_eff k now s Pw Ph Pi : eff [] Pw Ph Pi s (timed_add k now s).
Proof. unfold timed_add. break_if; [apply eff_refl|eff_frame]. Qed.
Lemma timed_del_eff k s Pw Ph Pi : eff [] Pw Ph Pi s (timed_del k s).
Proof. unfold timed_del. eff_frame. Qed.
Lemma timed_reset_all_eff now s Pw Ph Pi : eff [] Pw Ph Pi s (timed_reset_all now s).
Proof. unfold timed_reset_all. eff_frame. Qed.
Lemma timed_set_stamp_eff k now s Pw Ph Pi : eff [] Pw Ph Pi s (timed_set_stamp k now s).
Proof. unfold timed_set_stamp. eff_frame. Qed.

Lemma hk_h_add k s : hk (h_add k s) = hk s \/ hk (h_add k s) = hk s ++ [k].
Proof.
  unfold h_add. break_if; [left; reflexivity|right]. unfold hk. simpl. rewrite map_app. reflexivity.
Qed.
Lemma In_hk_h_add k k' s : In k' (hk (h_add k s)) <-> In k' (hk s) \/ k' = k.
Proof.
  unfold h_add. destruct (h_has k s) eqn:E.
  - split; [auto|]. intros [A|A]; [exact A|]. subst. apply h_has_In. exact E.
  - unfold hk. simpl. rewrite map_app, in_app_iff. simpl. intuition.
Qed.
Lemma h_add_eff k s : eff [Fh] noW (fun x => x = k) noI s (h_add k s).
Proof.
  constructor.
  - unfold h_add. break_if; [apply frame_refl|solve_frame].
  - apply sq_ext_same. unfold h_add. break_if; reflexivity.
  - intros k' H. apply In_hk_h_add in H. exact H.
  - apply i_sub_same. unfold h_add. break_if; reflexivity.
  - apply smq_sub_same. unfold h_add. break_if; reflexivity.
Qed.

Lemma In_hk_h_del k k' s : In k' (hk (h_del k s)) <-> In k' (hk s) /\ k' <> k.
Proof.
  unfold h_del, hk. simpl.
  rewrite (map_fst_filter (fun x => negb (hkind_eqb k x))). rewrite filter_In.
  split; intros [A B]; split; try exact A.
  - intro E. subst. rewrite hkind_eqb_refl in B. discriminate.
  - destruct (hkind_eqb k k') eqn:E; [|reflexivity]. apply hkind_eqb_eq in E. congruence.
Qed.
Lemma h_del_eff k s Pw Ph Pi : eff [Fh] Pw Ph Pi s (h_del k s).
Proof.
  constructor.
  - unfold h_del. solve_frame.
  - apply sq_ext_same. reflexivity.
  - intros k' H. apply In_hk_h_del in H. left. tauto.
  - apply i_sub_same. reflexivity.
  - apply smq_sub_same. reflexivity.
Qed.

Lemma In_ik_id_add k k' s : In k' (ik (id_add k s)) <-> In k' (ik s) \/ k' = k.
Proof.
  unfold id_add. destruct (id_has k s) eqn:E.
  - split; [auto|]. intros [A|A]; [exact A|]. subst. apply id_has_In. exact E.
  - unfold ik. simpl. rewrite map_app, in_app_iff. simpl. intuition.
Qed.
Lemma id_add_eff k s : eff [Fid] noW noH (fun x => x = k) s (id_add k s).
Proof.
  constructor.
  - unfold id_add. break_if; [apply frame_refl|solve_frame].
  - apply sq_ext_same. unfold id_add. break_if; reflexivity.
  - apply h_sub_same. unfold id_add. break_if; reflexivity.
  - intros k' H. apply In_ik_id_add in H. exact H.
  - apply smq_sub_same. unfold id_add. break_if; reflexivity.
Qed.
Lemma id_del_eff k s Pw Ph Pi : eff [Fid] Pw Ph Pi s (id_del k s).
Proof.
  constructor.
  - unfold id_del. solve_frame.
  - apply sq_ext_same. reflexivity.
  - apply h_sub_same. reflexivity.
  - intros k' H. left. unfold id_del, ik in *. simpl in H.
    rewrite (map_fst_filter (fun x => negb (idk_eqb k x))) in H. apply filter_In in H. tauto.
  - apply smq_sub_same. reflexivity.
Qed.

Lemma upg_eff f s Pw Ph Pi : eff [Fgh] Pw Ph Pi s (upg f s).
Proof. unfold upg. eff_frame. Qed.
Lemma note_rx_eff e s Pw Ph Pi : eff [Fgh] Pw Ph Pi s (note_rx e s).
Proof. unfold note_rx. cbv zeta. eff_frame. Qed.
Lemma note_outs_eff o s Pw Ph Pi : eff [Fgh] Pw Ph Pi s (note_outs o s).
Proof. unfold note_outs. eff_frame. Qed.

Lemma prepare_reset_eff h s Pw Ph Pi : eff [Foh; Frp] Pw Ph Pi s (prepare_reset h s).
Proof. unfold prepare_reset. eff_frame. Qed.
Lemma prepare_reset_oh h s : oh (prepare_reset h s) = h.
Proof. reflexivity. Qed.
Lemma prepare_reset_rp h s : reset_parser (prepare_reset h s) = true.
Proof. reflexivity. Qed.

Lemma reset_sm_eff s Pw Ph Pi : eff [Fsme] Pw Ph Pi s (reset_sm_for_reconnect s).
Proof. unfold reset_sm_for_reconnect. cbv zeta. break_if; eff_frame. Qed.
Lemma reset_sm_sme s : sm_enabled (reset_sm_for_reconnect s) = false.
Proof. unfold reset_sm_for_reconnect. cbv zeta. break_if; reflexivity. Qed.

Lemma drop_below_incl h q x : In x (drop_below h q) -> In x q.
Proof.
  induction q as [|y r IH]; simpl; [auto|]. destruct (snd y <? h); [intro H; right; auto|auto].
Qed.
Lemma sm_queue_cleanup_eff h s Pw Ph Pi : eff [Fsmq] Pw Ph Pi s (sm_queue_cleanup h s).
Proof.
  constructor.
  - unfold sm_queue_cleanup. solve_frame.
  - apply sq_ext_same. reflexivity.
  - apply h_sub_same. reflexivity.
  - apply i_sub_same. reflexivity.
  - intros w H. unfold sm_queue_cleanup, sw in *. simpl in H.
    apply in_map_iff in H as [x [E Hin]]. apply drop_below_incl in Hin. subst. apply in_map. exact Hin.
Qed.

(* _sm_queue_resend: what it appends comes from the SM queue *)
Lemma sm_queue_resend_eff s : eff [Fsq; Fsmq] noW noH noI s (sm_queue_resend s).
Proof.
  unfold sm_queue_resend.
  assert (G : forall q a, eff [Fsq] (fun w => In w (map (fun x => fst (fst (fst x))) q)) noH noI a
            (fold_left (fun a x => send_raw_m (fst (fst (fst x))) (snd (fst (fst x))) (snd (fst x)) a) q a)).
  { induction q as [|x r IH]; intro a; simpl; [apply eff_refl|].
    change [Fsq] with ([Fsq] ++ [Fsq]) at 1. eapply eff_trans.
    - eapply eff_weaken; [| | | |apply send_raw_m_eff]; try solve_sub; try tauto.
      intros w [A|A]; [left; auto|].
      (* WReq piggy-back: not from the queue; handled by the caller's predicate *)
      right. exact A.
    - eapply eff_weaken; [| | | |apply IH]; try solve_sub; try tauto.
      intros w A. right. exact A. }
  Abort.
