(* Frame infrastructure for the NegModel connection automaton (used by NegProofs_C03).
   - sproj: projections of setters by cbn over a whitelist (all record fields / setters);
   - case_step: destruct one if / match scrutinee at a time, keeping pairs as fst/snd;
   - Fr: the reflexive-transitive "frame" relation satisfied by every function that runs inside
     an event-loop iteration (configuration unchanged, ghost counters unchanged, offers and
     other received-facts only grow, sendq only grows, state never leaves Disconnected ...).
   The setter lemmas are generated (one per benign field); everything else is per model function. *)
Require Import LV.Common.Bytes LV.Gen.Gen_neg LV.Model.NegState LV.Model.NegModel LV.Spec.NegSpec.
Local Open Scope Z_scope.

(* ------------------------------------------------------------------ tactics *)
Ltac sproj := cbn [fst snd upg f_tls_disabled f_tls_mandatory f_legacy_ssl f_tls_trust f_legacy_auth f_sm_disable f_comp_allowed f_comp_dont_reset jid_set jid_node jid_res pass_set cert_set is_raw typ user_handler user_timed tlsnew_ok cb_avail tls_verdicts next_cands cands cur_ep st stamp err stream_error secured tls_present tls_failed tls_support sasl bind_required session_required comp_supported comp_active sm_alloc sm_support sm_enabled sm_can_resume sm_resume sm_dont_request sm_has_previd sm_has_id sm_parked sm_r_sent sm_bind_saved bound_jid stream_id neg_done reset_parser oh ps handlers idhandlers timed sendq rxq smq sm_sent scram_serial crashed gh set_f_tls_disabled set_f_tls_mandatory set_f_legacy_ssl set_f_tls_trust set_f_legacy_auth set_f_sm_disable set_f_comp_allowed set_f_comp_dont_reset set_jid_set set_jid_node set_jid_res set_pass_set set_cert_set set_is_raw set_typ set_user_handler set_user_timed set_tlsnew_ok set_cb_avail set_tls_verdicts set_next_cands set_cands set_cur_ep set_st set_stamp set_err set_stream_error set_secured set_tls_present set_tls_failed set_tls_support set_sasl set_bind_required set_session_required set_comp_supported set_comp_active set_sm_alloc set_sm_support set_sm_enabled set_sm_can_resume set_sm_resume set_sm_dont_request set_sm_has_previd set_sm_has_id set_sm_parked set_sm_r_sent set_sm_bind_saved set_bound_jid set_stream_id set_neg_done set_reset_parser set_oh set_ps set_handlers set_idhandlers set_timed set_sendq set_rxq set_smq set_sm_sent set_scram_serial set_crashed set_gh g_offer_tls g_offered g_offer_zlib g_offer_bind g_offer_session g_offer_sm g_feat_seen g_strong g_tls_up g_auth_w g_auth_ok g_bind_w g_bound g_resume_w g_resumed g_legacy_w g_legacy_ok g_hs_w g_hs_ok g_hdr_w g_raw_open g_attempt g_connects g_disconnects g_rawc g_conn_unjust g_serr g_se_bad set_g_offer_tls set_g_offered set_g_offer_zlib set_g_offer_bind set_g_offer_session set_g_offer_sm set_g_feat_seen set_g_strong set_g_tls_up set_g_auth_w set_g_auth_ok set_g_bind_w set_g_bound set_g_resume_w set_g_resumed set_g_legacy_w set_g_legacy_ok set_g_hs_w set_g_hs_ok set_g_hdr_w set_g_raw_open set_g_attempt set_g_connects set_g_disconnects set_g_rawc set_g_conn_unjust set_g_serr set_g_se_bad].
Ltac sproj_in H := cbn [fst snd upg f_tls_disabled f_tls_mandatory f_legacy_ssl f_tls_trust f_legacy_auth f_sm_disable f_comp_allowed f_comp_dont_reset jid_set jid_node jid_res pass_set cert_set is_raw typ user_handler user_timed tlsnew_ok cb_avail tls_verdicts next_cands cands cur_ep st stamp err stream_error secured tls_present tls_failed tls_support sasl bind_required session_required comp_supported comp_active sm_alloc sm_support sm_enabled sm_can_resume sm_resume sm_dont_request sm_has_previd sm_has_id sm_parked sm_r_sent sm_bind_saved bound_jid stream_id neg_done reset_parser oh ps handlers idhandlers timed sendq rxq smq sm_sent scram_serial crashed gh set_f_tls_disabled set_f_tls_mandatory set_f_legacy_ssl set_f_tls_trust set_f_legacy_auth set_f_sm_disable set_f_comp_allowed set_f_comp_dont_reset set_jid_set set_jid_node set_jid_res set_pass_set set_cert_set set_is_raw set_typ set_user_handler set_user_timed set_tlsnew_ok set_cb_avail set_tls_verdicts set_next_cands set_cands set_cur_ep set_st set_stamp set_err set_stream_error set_secured set_tls_present set_tls_failed set_tls_support set_sasl set_bind_required set_session_required set_comp_supported set_comp_active set_sm_alloc set_sm_support set_sm_enabled set_sm_can_resume set_sm_resume set_sm_dont_request set_sm_has_previd set_sm_has_id set_sm_parked set_sm_r_sent set_sm_bind_saved set_bound_jid set_stream_id set_neg_done set_reset_parser set_oh set_ps set_handlers set_idhandlers set_timed set_sendq set_rxq set_smq set_sm_sent set_scram_serial set_crashed set_gh g_offer_tls g_offered g_offer_zlib g_offer_bind g_offer_session g_offer_sm g_feat_seen g_strong g_tls_up g_auth_w g_auth_ok g_bind_w g_bound g_resume_w g_resumed g_legacy_w g_legacy_ok g_hs_w g_hs_ok g_hdr_w g_raw_open g_attempt g_connects g_disconnects g_rawc g_conn_unjust g_serr g_se_bad set_g_offer_tls set_g_offered set_g_offer_zlib set_g_offer_bind set_g_offer_session set_g_offer_sm set_g_feat_seen set_g_strong set_g_tls_up set_g_auth_w set_g_auth_ok set_g_bind_w set_g_bound set_g_resume_w set_g_resumed set_g_legacy_w set_g_legacy_ok set_g_hs_w set_g_hs_ok set_g_hdr_w set_g_raw_open set_g_attempt set_g_connects set_g_disconnects set_g_rawc set_g_conn_unjust set_g_serr set_g_se_bad] in H.
Ltac sproj_all := cbn [fst snd upg f_tls_disabled f_tls_mandatory f_legacy_ssl f_tls_trust f_legacy_auth f_sm_disable f_comp_allowed f_comp_dont_reset jid_set jid_node jid_res pass_set cert_set is_raw typ user_handler user_timed tlsnew_ok cb_avail tls_verdicts next_cands cands cur_ep st stamp err stream_error secured tls_present tls_failed tls_support sasl bind_required session_required comp_supported comp_active sm_alloc sm_support sm_enabled sm_can_resume sm_resume sm_dont_request sm_has_previd sm_has_id sm_parked sm_r_sent sm_bind_saved bound_jid stream_id neg_done reset_parser oh ps handlers idhandlers timed sendq rxq smq sm_sent scram_serial crashed gh set_f_tls_disabled set_f_tls_mandatory set_f_legacy_ssl set_f_tls_trust set_f_legacy_auth set_f_sm_disable set_f_comp_allowed set_f_comp_dont_reset set_jid_set set_jid_node set_jid_res set_pass_set set_cert_set set_is_raw set_typ set_user_handler set_user_timed set_tlsnew_ok set_cb_avail set_tls_verdicts set_next_cands set_cands set_cur_ep set_st set_stamp set_err set_stream_error set_secured set_tls_present set_tls_failed set_tls_support set_sasl set_bind_required set_session_required set_comp_supported set_comp_active set_sm_alloc set_sm_support set_sm_enabled set_sm_can_resume set_sm_resume set_sm_dont_request set_sm_has_previd set_sm_has_id set_sm_parked set_sm_r_sent set_sm_bind_saved set_bound_jid set_stream_id set_neg_done set_reset_parser set_oh set_ps set_handlers set_idhandlers set_timed set_sendq set_rxq set_smq set_sm_sent set_scram_serial set_crashed set_gh g_offer_tls g_offered g_offer_zlib g_offer_bind g_offer_session g_offer_sm g_feat_seen g_strong g_tls_up g_auth_w g_auth_ok g_bind_w g_bound g_resume_w g_resumed g_legacy_w g_legacy_ok g_hs_w g_hs_ok g_hdr_w g_raw_open g_attempt g_connects g_disconnects g_rawc g_conn_unjust g_serr g_se_bad set_g_offer_tls set_g_offered set_g_offer_zlib set_g_offer_bind set_g_offer_session set_g_offer_sm set_g_feat_seen set_g_strong set_g_tls_up set_g_auth_w set_g_auth_ok set_g_bind_w set_g_bound set_g_resume_w set_g_resumed set_g_legacy_w set_g_legacy_ok set_g_hs_w set_g_hs_ok set_g_hdr_w set_g_raw_open set_g_attempt set_g_connects set_g_disconnects set_g_rawc set_g_conn_unjust set_g_serr set_g_se_bad] in *.

Ltac split_pair c :=
  let x := fresh "x" in let y := fresh "y" in let E := fresh "E" in
  destruct c as [x y] eqn:E;
  let Hx := fresh in let Hy := fresh in
  assert (Hx : x = fst c) by (rewrite E; reflexivity);
  assert (Hy : y = snd c) by (rewrite E; reflexivity);
  clear E; subst x y.

(* one scrutinee at a time, innermost first; pair-valued scrutinees are not destructed but
   replaced by (fst c, snd c) so that lemmas about fst (f s) / snd (f s) stay applicable *)
Ltac case_on c :=
  let T := type of c in let T' := eval hnf in T in
  lazymatch T' with
  | prod _ _ => first [ is_var c; destruct c | split_pair c ]
  | _ => destruct c eqn:?
  end.
Ltac case_step :=
  first
  [ match goal with
    | |- context [match ?c with _ => _ end] =>
        lazymatch c with
        | context [match _ with _ => _ end] => fail
        | _ => idtac
        end;
        case_on c
    end
  | match goal with
    | |- context [match ?c with _ => _ end] => case_on c
    end ].
(* auth is a fixpoint on its fuel: a literal fuel lets the kernel unfold it when re-checking
   conversions at Qed (exponential); abstract the fuel first *)
Ltac gen_fuel :=
  repeat match goal with
         | |- context [auth (S ?k)] =>
             let F := fresh "fuel" in pose (F := S k); change (auth (S k)) with (auth F); clearbody F
         end.
Ltac cases := gen_fuel; cbv zeta; repeat case_step.

(* Results of pair-valued model functions are named (with the defining equation put back in the
   goal) before the function is unfolded: reducing fst/snd of big terms by conversion is what the
   kernel is slow at. *)
Ltac name_result :=
  match goal with
  | |- context [fst (fst ?c)] => let E := fresh "E" in destruct c as [[? ?] ?] eqn:E; cbn [fst snd]; revert E
  | |- context [snd (fst ?c)] => let E := fresh "E" in destruct c as [[? ?] ?] eqn:E; cbn [fst snd]; revert E
  | |- context [fst ?c] => let E := fresh "E" in destruct c as [? ?] eqn:E; cbn [fst snd]; revert E
  | |- context [snd ?c] => let E := fresh "E" in destruct c as [? ?] eqn:E; cbn [fst snd]; revert E
  end.
Ltac inj_pairs :=
  repeat match goal with
         | H : (_, _) = (_, _) |- _ => apply pair_equal_spec in H; destruct H
         end; subst.
Ltac unname_results :=
  repeat match goal with
         | H : ?c = (?a, ?b, ?d) |- _ =>
             is_var a; is_var b; is_var d;
             let Ha := fresh in let Hb := fresh in let Hd := fresh in
             assert (Ha : a = fst (fst c)) by (rewrite H; reflexivity);
             assert (Hb : b = snd (fst c)) by (rewrite H; reflexivity);
             assert (Hd : d = snd c) by (rewrite H; reflexivity);
             clear H; subst a b d
         | H : ?c = (?a, ?b) |- _ =>
             is_var a; is_var b;
             let Ha := fresh in let Hb := fresh in
             assert (Ha : a = fst c) by (rewrite H; reflexivity);
             assert (Hb : b = snd c) by (rewrite H; reflexivity);
             clear H; subst a b
         end.
Ltac leaf := intros; inj_pairs; unname_results.

Lemma fold_left_inv {A B} (P : A -> Prop) (f : A -> B -> A) :
  (forall a b, P a -> P (f a b)) -> forall l a, P a -> P (fold_left f l a).
Proof. intros H l; induction l; cbn; auto. Qed.

(* ------------------------------------------------------------------ ghost frame *)
Record GFr (g g' : ghost) : Prop := mkGFr {
  gfr_connects : g_connects g' = g_connects g;
  gfr_disconnects : g_disconnects g' = g_disconnects g;
  gfr_rawc : g_rawc g' = g_rawc g;
  gfr_attempt : g_attempt g' = g_attempt g;
  gfr_tls_up : g_tls_up g' = g_tls_up g;
  gfr_offer_tls : g_offer_tls g = true -> g_offer_tls g' = true;
  gfr_offer_zlib : g_offer_zlib g = true -> g_offer_zlib g' = true;
  gfr_offer_bind : g_offer_bind g = true -> g_offer_bind g' = true;
  gfr_offer_session : g_offer_session g = true -> g_offer_session g' = true;
  gfr_offer_sm : g_offer_sm g = true -> g_offer_sm g' = true;
  gfr_auth_ok : g_auth_ok g = true -> g_auth_ok g' = true;
  gfr_bound : g_bound g = true -> g_bound g' = true;
  gfr_resumed : g_resumed g = true -> g_resumed g' = true;
  gfr_legacy_ok : g_legacy_ok g = true -> g_legacy_ok g' = true;
  gfr_hs_ok : g_hs_ok g = true -> g_hs_ok g' = true;
  gfr_raw_open : g_raw_open g = true -> g_raw_open g' = true;
  gfr_conn_unjust : g_conn_unjust g = true -> g_conn_unjust g' = true;
  gfr_offered : forall m, mem_mech m (g_offered g) = true -> mem_mech m (g_offered g') = true
}.
Lemma GFr_refl : forall g, GFr g g.
Proof. intros; constructor; auto. Qed.
Lemma GFr_trans : forall a b c, GFr a b -> GFr b c -> GFr a c.
Proof.
  intros a b c [] []; constructor; try congruence; auto.
Qed.
Ltac GFr_prim := constructor; cbn; intros; auto.
#[export] Hint Resolve GFr_refl : frdb.
Lemma GFr_set_g_feat_seen : forall v g0 g, GFr g0 g -> GFr g0 (set_g_feat_seen v g).
Proof. intros v g0 g H; apply (GFr_trans _ _ _ H); destruct g; GFr_prim. Qed.
#[export] Hint Resolve GFr_set_g_feat_seen : frdb.
Lemma GFr_set_g_strong : forall v g0 g, GFr g0 g -> GFr g0 (set_g_strong v g).
Proof. intros v g0 g H; apply (GFr_trans _ _ _ H); destruct g; GFr_prim. Qed.
#[export] Hint Resolve GFr_set_g_strong : frdb.
Lemma GFr_set_g_auth_w : forall v g0 g, GFr g0 g -> GFr g0 (set_g_auth_w v g).
Proof. intros v g0 g H; apply (GFr_trans _ _ _ H); destruct g; GFr_prim. Qed.
#[export] Hint Resolve GFr_set_g_auth_w : frdb.
Lemma GFr_set_g_bind_w : forall v g0 g, GFr g0 g -> GFr g0 (set_g_bind_w v g).
Proof. intros v g0 g H; apply (GFr_trans _ _ _ H); destruct g; GFr_prim. Qed.
#[export] Hint Resolve GFr_set_g_bind_w : frdb.
Lemma GFr_set_g_resume_w : forall v g0 g, GFr g0 g -> GFr g0 (set_g_resume_w v g).
Proof. intros v g0 g H; apply (GFr_trans _ _ _ H); destruct g; GFr_prim. Qed.
#[export] Hint Resolve GFr_set_g_resume_w : frdb.
Lemma GFr_set_g_legacy_w : forall v g0 g, GFr g0 g -> GFr g0 (set_g_legacy_w v g).
Proof. intros v g0 g H; apply (GFr_trans _ _ _ H); destruct g; GFr_prim. Qed.
#[export] Hint Resolve GFr_set_g_legacy_w : frdb.
Lemma GFr_set_g_hs_w : forall v g0 g, GFr g0 g -> GFr g0 (set_g_hs_w v g).
Proof. intros v g0 g H; apply (GFr_trans _ _ _ H); destruct g; GFr_prim. Qed.
#[export] Hint Resolve GFr_set_g_hs_w : frdb.
Lemma GFr_set_g_hdr_w : forall v g0 g, GFr g0 g -> GFr g0 (set_g_hdr_w v g).
Proof. intros v g0 g H; apply (GFr_trans _ _ _ H); destruct g; GFr_prim. Qed.
#[export] Hint Resolve GFr_set_g_hdr_w : frdb.
Lemma GFr_set_g_serr : forall v g0 g, GFr g0 g -> GFr g0 (set_g_serr v g).
Proof. intros v g0 g H; apply (GFr_trans _ _ _ H); destruct g; GFr_prim. Qed.
#[export] Hint Resolve GFr_set_g_serr : frdb.
Lemma GFr_set_g_se_bad : forall v g0 g, GFr g0 g -> GFr g0 (set_g_se_bad v g).
Proof. intros v g0 g H; apply (GFr_trans _ _ _ H); destruct g; GFr_prim. Qed.
#[export] Hint Resolve GFr_set_g_se_bad : frdb.

Lemma GFr_set_true_conn_unjust : forall g0 g, GFr g0 g -> GFr g0 (set_g_conn_unjust true g).
Proof. intros g0 g H; apply (GFr_trans _ _ _ H); destruct g; GFr_prim. Qed.
#[export] Hint Resolve GFr_set_true_conn_unjust : frdb.

(* ------------------------------------------------------------------ state frame *)
Record Fr (s s' : state) : Prop := mkFr {
  fr_f_tls_disabled : f_tls_disabled s' = f_tls_disabled s;
  fr_f_tls_mandatory : f_tls_mandatory s' = f_tls_mandatory s;
  fr_f_legacy_ssl : f_legacy_ssl s' = f_legacy_ssl s;
  fr_f_tls_trust : f_tls_trust s' = f_tls_trust s;
  fr_f_legacy_auth : f_legacy_auth s' = f_legacy_auth s;
  fr_f_sm_disable : f_sm_disable s' = f_sm_disable s;
  fr_f_comp_allowed : f_comp_allowed s' = f_comp_allowed s;
  fr_f_comp_dont_reset : f_comp_dont_reset s' = f_comp_dont_reset s;
  fr_jid_set : jid_set s' = jid_set s;
  fr_jid_node : jid_node s' = jid_node s;
  fr_jid_res : jid_res s' = jid_res s;
  fr_pass_set : pass_set s' = pass_set s;
  fr_cert_set : cert_set s' = cert_set s;
  fr_is_raw : is_raw s' = is_raw s;
  fr_typ : typ s' = typ s;
  fr_user_handler : user_handler s' = user_handler s;
  fr_user_timed : user_timed s' = user_timed s;
  fr_tlsnew_ok : tlsnew_ok s' = tlsnew_ok s;
  fr_cb_avail : cb_avail s' = cb_avail s;
  fr_sm_alloc : sm_alloc s' = sm_alloc s;
  fr_st : st s' = st s \/ st s' = Disconnected;
  fr_reset : reset_parser s = true -> reset_parser s' = true;
  fr_sendq : exists l, sendq s' = sendq s ++ l;
  fr_secured : secured s = true -> secured s' = true;
  fr_gh : GFr (gh s) (gh s')
}.
Lemma Fr_refl : forall s, Fr s s.
Proof. intros; constructor; auto using GFr_refl. exists []; symmetry; apply app_nil_r. Qed.
Lemma Fr_trans : forall a b c, Fr a b -> Fr b c -> Fr a c.
Proof.
  intros a b c [] []; constructor; try congruence; auto.
  - repeat match goal with H : _ \/ _ |- _ => destruct H end; try (left; congruence); right; congruence.
  - repeat match goal with H : exists _, _ |- _ => destruct H end.
    eexists. etransitivity; [eassumption|]. match goal with H : sendq b = _ |- _ => rewrite H end.
    rewrite <- app_assoc. reflexivity.
  - eauto using GFr_trans.
Qed.
Ltac Fr_prim := constructor; cbn; intros; auto using GFr_refl; try (exists []; symmetry; apply app_nil_r).
#[export] Hint Resolve Fr_refl : frdb.
Lemma Fr_set_tls_verdicts : forall v s0 s, Fr s0 s -> Fr s0 (set_tls_verdicts v s).
Proof. intros v s0 s H; apply (Fr_trans _ _ _ H); destruct s; Fr_prim. Qed.
#[export] Hint Resolve Fr_set_tls_verdicts : frdb.
Lemma Fr_set_next_cands : forall v s0 s, Fr s0 s -> Fr s0 (set_next_cands v s).
Proof. intros v s0 s H; apply (Fr_trans _ _ _ H); destruct s; Fr_prim. Qed.
#[export] Hint Resolve Fr_set_next_cands : frdb.
Lemma Fr_set_cands : forall v s0 s, Fr s0 s -> Fr s0 (set_cands v s).
Proof. intros v s0 s H; apply (Fr_trans _ _ _ H); destruct s; Fr_prim. Qed.
#[export] Hint Resolve Fr_set_cands : frdb.
Lemma Fr_set_cur_ep : forall v s0 s, Fr s0 s -> Fr s0 (set_cur_ep v s).
Proof. intros v s0 s H; apply (Fr_trans _ _ _ H); destruct s; Fr_prim. Qed.
#[export] Hint Resolve Fr_set_cur_ep : frdb.
Lemma Fr_set_stamp : forall v s0 s, Fr s0 s -> Fr s0 (set_stamp v s).
Proof. intros v s0 s H; apply (Fr_trans _ _ _ H); destruct s; Fr_prim. Qed.
#[export] Hint Resolve Fr_set_stamp : frdb.
Lemma Fr_set_err : forall v s0 s, Fr s0 s -> Fr s0 (set_err v s).
Proof. intros v s0 s H; apply (Fr_trans _ _ _ H); destruct s; Fr_prim. Qed.
#[export] Hint Resolve Fr_set_err : frdb.
Lemma Fr_set_stream_error : forall v s0 s, Fr s0 s -> Fr s0 (set_stream_error v s).
Proof. intros v s0 s H; apply (Fr_trans _ _ _ H); destruct s; Fr_prim. Qed.
#[export] Hint Resolve Fr_set_stream_error : frdb.
Lemma Fr_set_tls_present : forall v s0 s, Fr s0 s -> Fr s0 (set_tls_present v s).
Proof. intros v s0 s H; apply (Fr_trans _ _ _ H); destruct s; Fr_prim. Qed.
#[export] Hint Resolve Fr_set_tls_present : frdb.
Lemma Fr_set_tls_failed : forall v s0 s, Fr s0 s -> Fr s0 (set_tls_failed v s).
Proof. intros v s0 s H; apply (Fr_trans _ _ _ H); destruct s; Fr_prim. Qed.
#[export] Hint Resolve Fr_set_tls_failed : frdb.
Lemma Fr_set_tls_support : forall v s0 s, Fr s0 s -> Fr s0 (set_tls_support v s).
Proof. intros v s0 s H; apply (Fr_trans _ _ _ H); destruct s; Fr_prim. Qed.
#[export] Hint Resolve Fr_set_tls_support : frdb.
Lemma Fr_set_sasl : forall v s0 s, Fr s0 s -> Fr s0 (set_sasl v s).
Proof. intros v s0 s H; apply (Fr_trans _ _ _ H); destruct s; Fr_prim. Qed.
#[export] Hint Resolve Fr_set_sasl : frdb.
Lemma Fr_set_bind_required : forall v s0 s, Fr s0 s -> Fr s0 (set_bind_required v s).
Proof. intros v s0 s H; apply (Fr_trans _ _ _ H); destruct s; Fr_prim. Qed.
#[export] Hint Resolve Fr_set_bind_required : frdb.
Lemma Fr_set_session_required : forall v s0 s, Fr s0 s -> Fr s0 (set_session_required v s).
Proof. intros v s0 s H; apply (Fr_trans _ _ _ H); destruct s; Fr_prim. Qed.
#[export] Hint Resolve Fr_set_session_required : frdb.
Lemma Fr_set_comp_supported : forall v s0 s, Fr s0 s -> Fr s0 (set_comp_supported v s).
Proof. intros v s0 s H; apply (Fr_trans _ _ _ H); destruct s; Fr_prim. Qed.
#[export] Hint Resolve Fr_set_comp_supported : frdb.
Lemma Fr_set_comp_active : forall v s0 s, Fr s0 s -> Fr s0 (set_comp_active v s).
Proof. intros v s0 s H; apply (Fr_trans _ _ _ H); destruct s; Fr_prim. Qed.
#[export] Hint Resolve Fr_set_comp_active : frdb.
Lemma Fr_set_sm_support : forall v s0 s, Fr s0 s -> Fr s0 (set_sm_support v s).
Proof. intros v s0 s H; apply (Fr_trans _ _ _ H); destruct s; Fr_prim. Qed.
#[export] Hint Resolve Fr_set_sm_support : frdb.
Lemma Fr_set_sm_enabled : forall v s0 s, Fr s0 s -> Fr s0 (set_sm_enabled v s).
Proof. intros v s0 s H; apply (Fr_trans _ _ _ H); destruct s; Fr_prim. Qed.
#[export] Hint Resolve Fr_set_sm_enabled : frdb.
Lemma Fr_set_sm_can_resume : forall v s0 s, Fr s0 s -> Fr s0 (set_sm_can_resume v s).
Proof. intros v s0 s H; apply (Fr_trans _ _ _ H); destruct s; Fr_prim. Qed.
#[export] Hint Resolve Fr_set_sm_can_resume : frdb.
Lemma Fr_set_sm_resume : forall v s0 s, Fr s0 s -> Fr s0 (set_sm_resume v s).
Proof. intros v s0 s H; apply (Fr_trans _ _ _ H); destruct s; Fr_prim. Qed.
#[export] Hint Resolve Fr_set_sm_resume : frdb.
Lemma Fr_set_sm_dont_request : forall v s0 s, Fr s0 s -> Fr s0 (set_sm_dont_request v s).
Proof. intros v s0 s H; apply (Fr_trans _ _ _ H); destruct s; Fr_prim. Qed.
#[export] Hint Resolve Fr_set_sm_dont_request : frdb.
Lemma Fr_set_sm_has_previd : forall v s0 s, Fr s0 s -> Fr s0 (set_sm_has_previd v s).
Proof. intros v s0 s H; apply (Fr_trans _ _ _ H); destruct s; Fr_prim. Qed.
#[export] Hint Resolve Fr_set_sm_has_previd : frdb.
Lemma Fr_set_sm_has_id : forall v s0 s, Fr s0 s -> Fr s0 (set_sm_has_id v s).
Proof. intros v s0 s H; apply (Fr_trans _ _ _ H); destruct s; Fr_prim. Qed.
#[export] Hint Resolve Fr_set_sm_has_id : frdb.
Lemma Fr_set_sm_parked : forall v s0 s, Fr s0 s -> Fr s0 (set_sm_parked v s).
Proof. intros v s0 s H; apply (Fr_trans _ _ _ H); destruct s; Fr_prim. Qed.
#[export] Hint Resolve Fr_set_sm_parked : frdb.
Lemma Fr_set_sm_r_sent : forall v s0 s, Fr s0 s -> Fr s0 (set_sm_r_sent v s).
Proof. intros v s0 s H; apply (Fr_trans _ _ _ H); destruct s; Fr_prim. Qed.
#[export] Hint Resolve Fr_set_sm_r_sent : frdb.
Lemma Fr_set_sm_bind_saved : forall v s0 s, Fr s0 s -> Fr s0 (set_sm_bind_saved v s).
Proof. intros v s0 s H; apply (Fr_trans _ _ _ H); destruct s; Fr_prim. Qed.
#[export] Hint Resolve Fr_set_sm_bind_saved : frdb.
Lemma Fr_set_bound_jid : forall v s0 s, Fr s0 s -> Fr s0 (set_bound_jid v s).
Proof. intros v s0 s H; apply (Fr_trans _ _ _ H); destruct s; Fr_prim. Qed.
#[export] Hint Resolve Fr_set_bound_jid : frdb.
Lemma Fr_set_stream_id : forall v s0 s, Fr s0 s -> Fr s0 (set_stream_id v s).
Proof. intros v s0 s H; apply (Fr_trans _ _ _ H); destruct s; Fr_prim. Qed.
#[export] Hint Resolve Fr_set_stream_id : frdb.
Lemma Fr_set_neg_done : forall v s0 s, Fr s0 s -> Fr s0 (set_neg_done v s).
Proof. intros v s0 s H; apply (Fr_trans _ _ _ H); destruct s; Fr_prim. Qed.
#[export] Hint Resolve Fr_set_neg_done : frdb.
Lemma Fr_set_oh : forall v s0 s, Fr s0 s -> Fr s0 (set_oh v s).
Proof. intros v s0 s H; apply (Fr_trans _ _ _ H); destruct s; Fr_prim. Qed.
#[export] Hint Resolve Fr_set_oh : frdb.
Lemma Fr_set_ps : forall v s0 s, Fr s0 s -> Fr s0 (set_ps v s).
Proof. intros v s0 s H; apply (Fr_trans _ _ _ H); destruct s; Fr_prim. Qed.
#[export] Hint Resolve Fr_set_ps : frdb.
Lemma Fr_set_handlers : forall v s0 s, Fr s0 s -> Fr s0 (set_handlers v s).
Proof. intros v s0 s H; apply (Fr_trans _ _ _ H); destruct s; Fr_prim. Qed.
#[export] Hint Resolve Fr_set_handlers : frdb.
Lemma Fr_set_idhandlers : forall v s0 s, Fr s0 s -> Fr s0 (set_idhandlers v s).
Proof. intros v s0 s H; apply (Fr_trans _ _ _ H); destruct s; Fr_prim. Qed.
#[export] Hint Resolve Fr_set_idhandlers : frdb.
Lemma Fr_set_timed : forall v s0 s, Fr s0 s -> Fr s0 (set_timed v s).
Proof. intros v s0 s H; apply (Fr_trans _ _ _ H); destruct s; Fr_prim. Qed.
#[export] Hint Resolve Fr_set_timed : frdb.
Lemma Fr_set_rxq : forall v s0 s, Fr s0 s -> Fr s0 (set_rxq v s).
Proof. intros v s0 s H; apply (Fr_trans _ _ _ H); destruct s; Fr_prim. Qed.
#[export] Hint Resolve Fr_set_rxq : frdb.
Lemma Fr_set_smq : forall v s0 s, Fr s0 s -> Fr s0 (set_smq v s).
Proof. intros v s0 s H; apply (Fr_trans _ _ _ H); destruct s; Fr_prim. Qed.
#[export] Hint Resolve Fr_set_smq : frdb.
Lemma Fr_set_sm_sent : forall v s0 s, Fr s0 s -> Fr s0 (set_sm_sent v s).
Proof. intros v s0 s H; apply (Fr_trans _ _ _ H); destruct s; Fr_prim. Qed.
#[export] Hint Resolve Fr_set_sm_sent : frdb.
Lemma Fr_set_scram_serial : forall v s0 s, Fr s0 s -> Fr s0 (set_scram_serial v s).
Proof. intros v s0 s H; apply (Fr_trans _ _ _ H); destruct s; Fr_prim. Qed.
#[export] Hint Resolve Fr_set_scram_serial : frdb.
Lemma Fr_set_crashed : forall v s0 s, Fr s0 s -> Fr s0 (set_crashed v s).
Proof. intros v s0 s H; apply (Fr_trans _ _ _ H); destruct s; Fr_prim. Qed.
#[export] Hint Resolve Fr_set_crashed : frdb.

(* ------------------------------------------------------------------ non-benign primitives *)
Lemma Fr_set_sendq_app : forall l s0 s, Fr s0 s -> Fr s0 (set_sendq (sendq s ++ l) s).
Proof. intros l s0 s H; apply (Fr_trans _ _ _ H); destruct s; Fr_prim. eexists; reflexivity. Qed.
Lemma Fr_set_st_disc : forall s0 s, Fr s0 s -> Fr s0 (set_st Disconnected s).
Proof. intros s0 s H; apply (Fr_trans _ _ _ H); destruct s; Fr_prim. Qed.
Lemma Fr_set_reset_true : forall s0 s, Fr s0 s -> Fr s0 (set_reset_parser true s).
Proof. intros s0 s H; apply (Fr_trans _ _ _ H); destruct s; Fr_prim. Qed.
Lemma Fr_set_secured_true : forall s0 s, Fr s0 s -> Fr s0 (set_secured true s).
Proof. intros s0 s H; apply (Fr_trans _ _ _ H); destruct s; Fr_prim. Qed.
Lemma Fr_set_gh : forall g s0 s, GFr (gh s) g -> Fr s0 s -> Fr s0 (set_gh g s).
Proof. intros g s0 s Hg H; apply (Fr_trans _ _ _ H); destruct s; cbn in Hg; Fr_prim. Qed.
Lemma Fr_upg : forall f s0 s, GFr (gh s) (f (gh s)) -> Fr s0 s -> Fr s0 (upg f s).
Proof. intros; unfold upg; apply Fr_set_gh; auto. Qed.
#[export] Hint Resolve Fr_set_sendq_app Fr_set_st_disc Fr_set_reset_true Fr_set_secured_true Fr_upg : frdb.

Ltac fr := intros; cases; eauto 30 with frdb.
Ltac frR := intros; name_result; cases; leaf; eauto 30 with frdb.

Lemma Fr_set_sendq_app' : forall l s0 s s1, sendq s1 = sendq s -> Fr s0 s -> Fr s0 (set_sendq (sendq s1 ++ l) s).
Proof. intros l s0 s s1 E H; rewrite E; apply Fr_set_sendq_app; auto. Qed.
Lemma Fr_q_append : forall w u o s0 s, Fr s0 s -> Fr s0 (q_append w u o s).
Proof.
  intros w u o s0 s H. unfold q_append. cbv zeta.
  match goal with |- context [if ?c then _ else _] => destruct c end.
  - eapply Fr_set_sendq_app'; [reflexivity|]. eauto with frdb.
  - eauto with frdb.
Qed.
#[export] Hint Resolve Fr_q_append : frdb.
Lemma Fr_send_gated : forall w u o s0 s, Fr s0 s -> Fr s0 (send_gated w u o s).
Proof. unfold send_gated; fr. Qed.
Lemma Fr_send_raw_m : forall w u o s0 s, Fr s0 s -> Fr s0 (send_raw_m w u o s).
Proof. unfold send_raw_m; fr. Qed.
#[export] Hint Resolve Fr_send_gated Fr_send_raw_m : frdb.
Lemma Fr_timed_add : forall k n s0 s, Fr s0 s -> Fr s0 (timed_add k n s).
Proof. unfold timed_add; fr. Qed.
Lemma Fr_timed_del : forall k s0 s, Fr s0 s -> Fr s0 (timed_del k s).
Proof. unfold timed_del; fr. Qed.
Lemma Fr_timed_reset_all : forall n s0 s, Fr s0 s -> Fr s0 (timed_reset_all n s).
Proof. unfold timed_reset_all; fr. Qed.
Lemma Fr_timed_set_stamp : forall k n s0 s, Fr s0 s -> Fr s0 (timed_set_stamp k n s).
Proof. unfold timed_set_stamp; fr. Qed.
Lemma Fr_h_add : forall k s0 s, Fr s0 s -> Fr s0 (h_add k s).
Proof. unfold h_add; fr. Qed.
Lemma Fr_h_del : forall k s0 s, Fr s0 s -> Fr s0 (h_del k s).
Proof. unfold h_del; fr. Qed.
Lemma Fr_id_add : forall k s0 s, Fr s0 s -> Fr s0 (id_add k s).
Proof. unfold id_add; fr. Qed.
Lemma Fr_id_del : forall k s0 s, Fr s0 s -> Fr s0 (id_del k s).
Proof. unfold id_del; fr. Qed.
#[export] Hint Resolve Fr_timed_add Fr_timed_del Fr_timed_reset_all Fr_timed_set_stamp Fr_h_add Fr_h_del Fr_id_add Fr_id_del : frdb.
Lemma Fr_reset_sm_for_reconnect : forall s0 s, Fr s0 s -> Fr s0 (reset_sm_for_reconnect s).
Proof. unfold reset_sm_for_reconnect; fr. Qed.
Lemma Fr_sm_queue_cleanup : forall h s0 s, Fr s0 s -> Fr s0 (sm_queue_cleanup h s).
Proof. unfold sm_queue_cleanup; fr. Qed.
#[export] Hint Resolve Fr_reset_sm_for_reconnect Fr_sm_queue_cleanup : frdb.
Lemma Fr_sm_queue_resend : forall s0 s, Fr s0 s -> Fr s0 (sm_queue_resend s).
Proof.
  intros; unfold sm_queue_resend. apply fold_left_inv; eauto with frdb.
Qed.
#[export] Hint Resolve Fr_sm_queue_resend : frdb.
Lemma Fr_conn_disconnect : forall s0 s, Fr s0 s -> Fr s0 (fst (conn_disconnect s)).
Proof. unfold conn_disconnect, ret; frR. Qed.
#[export] Hint Resolve Fr_conn_disconnect : frdb.
Lemma Fr_xmpp_disconnect : forall n s0 s, Fr s0 s -> Fr s0 (xmpp_disconnect n s).
Proof. unfold xmpp_disconnect; fr. Qed.
Lemma Fr_prepare_reset : forall h s0 s, Fr s0 s -> Fr s0 (prepare_reset h s).
Proof. unfold prepare_reset; fr. Qed.
Lemma Fr_conn_open_stream : forall s0 s, Fr s0 s -> Fr s0 (conn_open_stream s).
Proof. unfold conn_open_stream; fr. Qed.
#[export] Hint Resolve Fr_xmpp_disconnect Fr_prepare_reset Fr_conn_open_stream : frdb.
Lemma Fr_conn_tls_start : forall s0 s, Fr s0 s -> Fr s0 (fst (fst (conn_tls_start s))).
Proof. unfold conn_tls_start; frR. Qed.
Lemma Fr_stream_negotiation_success : forall s0 s, Fr s0 s -> Fr s0 (fst (stream_negotiation_success s)).
Proof. unfold stream_negotiation_success, ret; frR. Qed.
#[export] Hint Resolve Fr_conn_tls_start Fr_stream_negotiation_success : frdb.
Lemma Fr_do_bind : forall n b s0 s, Fr s0 s -> Fr s0 (fst (do_bind n b s)).
Proof. unfold do_bind, ret; frR. Qed.
Lemma Fr_session_start : forall n s0 s, Fr s0 s -> Fr s0 (session_start n s).
Proof. unfold session_start; fr. Qed.
Lemma Fr_sm_enable : forall s0 s, Fr s0 s -> Fr s0 (sm_enable s).
Proof. unfold sm_enable; fr. Qed.
Lemma Fr_auth_legacy : forall n s0 s, Fr s0 s -> Fr s0 (auth_legacy n s).
Proof. unfold auth_legacy; fr. Qed.
#[export] Hint Resolve Fr_do_bind Fr_session_start Fr_sm_enable Fr_auth_legacy : frdb.
Lemma Fr_auth : forall fuel n s0 s, Fr s0 s -> Fr s0 (fst (auth fuel n s)).
Proof. induction fuel; intros; name_result; cbn [auth]; unfold ret; cases; leaf; eauto 30 with frdb. Qed.
#[export] Hint Resolve Fr_auth : frdb.
Lemma Fr_sasl_result : forall n e s0 s, Fr s0 s -> Fr s0 (fst (sasl_result n e s)).
Proof. unfold sasl_result, ret; frR. Qed.
Lemma Fr_features_sasl : forall n e s0 s, Fr s0 s -> Fr s0 (fst (features_sasl n e s)).
Proof. unfold features_sasl, ret; frR. Qed.
#[export] Hint Resolve Fr_sasl_result Fr_features_sasl : frdb.
Lemma Fr_call_handler : forall k n e s0 s, Fr s0 s -> Fr s0 (fst (fst (call_handler k n e s))).
Proof. intros k; destruct k; intros; name_result; unfold call_handler, ret; cases; leaf; eauto 30 with frdb. Qed.
Lemma Fr_call_id_handler : forall k n e s0 s, Fr s0 s -> Fr s0 (fst (call_id_handler k n e s)).
Proof. intros k; destruct k; intros; name_result; unfold call_id_handler, ret; cases; leaf; eauto 30 with frdb. Qed.
#[export] Hint Resolve Fr_call_handler Fr_call_id_handler : frdb.
Lemma mem_mech_app : forall m l l', mem_mech m (l ++ l') = mem_mech m l || mem_mech m l'.
Proof. intros; unfold mem_mech; apply existsb_app. Qed.

(* monotone ghost setters *)
Lemma GFr_set_true_auth_ok : forall g0 g, GFr g0 g -> GFr g0 (set_g_auth_ok true g).
Proof. intros g0 g H; apply (GFr_trans _ _ _ H); destruct g; GFr_prim. Qed.
Lemma GFr_set_true_bound : forall g0 g, GFr g0 g -> GFr g0 (set_g_bound true g).
Proof. intros g0 g H; apply (GFr_trans _ _ _ H); destruct g; GFr_prim. Qed.
Lemma GFr_set_true_legacy_ok : forall g0 g, GFr g0 g -> GFr g0 (set_g_legacy_ok true g).
Proof. intros g0 g H; apply (GFr_trans _ _ _ H); destruct g; GFr_prim. Qed.
Lemma GFr_set_true_resumed : forall g0 g, GFr g0 g -> GFr g0 (set_g_resumed true g).
Proof. intros g0 g H; apply (GFr_trans _ _ _ H); destruct g; GFr_prim. Qed.
Lemma GFr_set_true_hs_ok : forall g0 g, GFr g0 g -> GFr g0 (set_g_hs_ok true g).
Proof. intros g0 g H; apply (GFr_trans _ _ _ H); destruct g; GFr_prim. Qed.
Lemma GFr_set_or_raw_open : forall b g0 g, GFr g0 g -> GFr g0 (set_g_raw_open (b || g_raw_open g) g).
Proof. intros b g0 g H; apply (GFr_trans _ _ _ H); destruct g; GFr_prim. subst; apply orb_true_r. Qed.
#[export] Hint Resolve GFr_set_true_auth_ok GFr_set_true_bound GFr_set_true_legacy_ok GFr_set_true_resumed
  GFr_set_true_hs_ok GFr_set_or_raw_open : frdb.
Lemma GFr_offers : forall g a l b c d f,
  GFr g (set_g_offer_tls (g_offer_tls g || a) (set_g_offered (g_offered g ++ l)
        (set_g_offer_zlib (g_offer_zlib g || b) (set_g_offer_bind (g_offer_bind g || c)
        (set_g_offer_session (g_offer_session g || d) (set_g_offer_sm (g_offer_sm g || f) g)))))).
Proof.
  intros; destruct g; constructor; cbn; intros; subst; auto.
  fold (mem_mech m (g_offered ++ l)). rewrite mem_mech_app. unfold mem_mech. rewrite H. reflexivity.
Qed.

Ltac gstage :=
  match goal with
  | |- GFr ?g0 (if ?c then _ else ?B) =>
      let H := fresh in
      assert (H : GFr g0 B); [ | revert H; generalize B; intros; destruct c; eauto with frdb ]
  end.

Lemma GFr_note_rx : forall e s, GFr (gh s) (gh (note_rx e s)).
Proof.
  intros e s. unfold note_rx. cbv zeta. sproj. generalize (gh s). intros g.
  do 3 gstage.
  match goal with |- GFr ?g0 ?T => match T with context [set_g_bound true ?B] =>
    let H := fresh in assert (H : GFr g0 B);
    [ | revert H; generalize B; intros; destruct (e_id e); destruct (e_type e); cases; eauto with frdb ] end end.
  gstage.
  cases; eauto using GFr_offers, GFr_trans with frdb.
Qed.
Lemma Fr_note_rx : forall e s0 s, Fr s0 s -> Fr s0 (note_rx e s).
Proof.
  intros e s0 s H. pose proof (GFr_note_rx e s) as G.
  unfold note_rx in *. cbv zeta in *. sproj_in G. apply Fr_set_gh; assumption.
Qed.
#[export] Hint Resolve Fr_note_rx : frdb.

Lemma Fr_fold_visit : forall (f : R -> hkind -> R) l,
  (forall s0 r k, Fr s0 (fst r) -> Fr s0 (fst (f r k))) ->
  forall s0 r, Fr s0 (fst r) -> Fr s0 (fst (fold_left f l r)).
Proof. intros f l Hf s0. apply (fold_left_inv (fun r => Fr s0 (fst r))). intros; auto. Qed.

Lemma Fr_visit : forall n e s0 r k, Fr s0 (fst r) -> Fr s0 (fst (visit n e r k)).
Proof.
  intros n e s0 [s o] k H. cbn [fst] in H. name_result. unfold visit. cases; leaf; eauto 30 with frdb.
Qed.
Lemma Fr_sm_handle : forall e s0 s, Fr s0 s -> Fr s0 (sm_handle e s).
Proof. unfold sm_handle; fr. Qed.
#[export] Hint Resolve Fr_visit Fr_sm_handle : frdb.

Lemma Fr_fst_pair : forall s0 (a : state) (b : emit), Fr s0 a -> Fr s0 (fst (a, b)).
Proof. intros; assumption. Qed.
Lemma Fr_fold_visit_fst : forall n e l s0 r, Fr s0 (fst r) -> Fr s0 (fst (fold_left (visit n e) l r)).
Proof. intros; apply Fr_fold_visit; auto using Fr_visit. Qed.
#[export] Hint Resolve Fr_fst_pair Fr_fold_visit_fst : frdb.
Lemma Fr_dispatch : forall n e s0 s, Fr s0 s -> Fr s0 (fst (dispatch n e s)).
Proof.
  intros. name_result. unfold dispatch, ret. cases; leaf; eauto 30 with frdb.
Qed.
#[export] Hint Resolve Fr_dispatch : frdb.
Lemma Fr_open_handler : forall n s0 s, Fr s0 s -> Fr s0 (fst (open_handler n s)).
Proof. unfold open_handler, ret; frR. Qed.
#[export] Hint Resolve Fr_open_handler : frdb.
Lemma GFr_stream_start_upd : forall b g,
  GFr g ((fun g : ghost => set_g_raw_open (b || g_raw_open g) (set_g_feat_seen false g)) g).
Proof. intros b g; destruct g; GFr_prim. subst; apply orb_true_r. Qed.
#[export] Hint Resolve GFr_stream_start_upd : frdb.
Lemma Fr_stream_start : forall n a b s0 s, Fr s0 s -> Fr s0 (fst (stream_start n a b s)).
Proof. unfold stream_start; frR. Qed.
Lemma Fr_stream_end : forall s0 s, Fr s0 s -> Fr s0 (fst (stream_end s)).
Proof. unfold stream_end; frR. Qed.
#[export] Hint Resolve Fr_stream_start Fr_stream_end : frdb.
Lemma Fr_feed_item : forall n it s0 s, Fr s0 s -> Fr s0 (fst (fst (feed_item n it s))).
Proof. unfold feed_item; frR. Qed.
#[export] Hint Resolve Fr_feed_item : frdb.
Lemma Fr_feed_items : forall n its s0 s, Fr s0 s -> Fr s0 (fst (fst (feed_items n its s))).
Proof. induction its; intros; name_result; cbn [feed_items]; cases; leaf; eauto 30 with frdb. Qed.
#[export] Hint Resolve Fr_feed_items : frdb.
Lemma Fr_call_timed : forall k n s0 s, Fr s0 s -> Fr s0 (fst (fst (call_timed k n s))).
Proof. intros k; destruct k; intros; name_result; unfold call_timed; cases; leaf; eauto 30 with frdb. Qed.
#[export] Hint Resolve Fr_call_timed : frdb.
Lemma Fr_visit_timed : forall n s0 r k, Fr s0 (fst r) -> Fr s0 (fst (visit_timed n r k)).
Proof.
  intros n s0 [s o] k H. cbn [fst] in H. name_result. unfold visit_timed. cases; leaf; eauto 30 with frdb.
Qed.
Lemma Fr_fold_visit_timed : forall n l s0 r, Fr s0 (fst r) -> Fr s0 (fst (fold_left (visit_timed n) l r)).
Proof. intros n l s0. apply (fold_left_inv (fun r => Fr s0 (fst r))). intros; apply Fr_visit_timed; auto. Qed.
#[export] Hint Resolve Fr_visit_timed Fr_fold_visit_timed : frdb.
Lemma Fr_fire_timed : forall n s0 s, Fr s0 s -> Fr s0 (fst (fire_timed n s)).
Proof. unfold fire_timed, ret; frR. Qed.
Lemma Fr_connect_next : forall n s0 s, Fr s0 s -> Fr s0 (fst (fst (connect_next n s))).
Proof. unfold connect_next; frR. Qed.
#[export] Hint Resolve Fr_fire_timed Fr_connect_next : frdb.
Lemma Fr_conn_established : forall n s0 s, Fr s0 s -> Fr s0 (fst (conn_established n s)).
Proof. unfold conn_established; frR. Qed.
#[export] Hint Resolve Fr_conn_established : frdb.
